// Package tr: script input and ndjson trace output shared by all drivers.
//
// A script is ndjson: executions, each starting with {"ev":"reset", ...cfg}
// followed by one operation per line (inputs only). A driver executes every
// operation on the real code and writes the same line back with the observed
// result added. A recorded trace (or a saved violation) is therefore itself a
// valid script: replaying ignores the recorded results.
package tr

import (
	"bufio"
	"encoding/json"
	"flag"
	"fmt"
	"os"
	"strconv"
	"sync"
	"time"
)

type Ev = map[string]interface{}

type Opts struct {
	Script string
	Out    string
	Seed   int64
	Tier   string
	N      int
	Mode   string
}

func ParseFlags() *Opts {
	o := &Opts{}
	flag.StringVar(&o.Script, "script", "", "ndjson script (executions of operations)")
	flag.StringVar(&o.Out, "out", "", "ndjson trace output")
	flag.IntVar(&o.N, "n", 0, "size parameter for driver-native generation")
	flag.StringVar(&o.Mode, "mode", "", "driver specific mode")
	flag.Parse()
	// seaweedfs' glog would otherwise write log files into os.TempDir
	flag.Set("logtostderr", "true")
	flag.Set("alsologtostderr", "false")
	o.Seed = 1
	if s := os.Getenv("VERIF_SEED"); s != "" {
		if v, err := strconv.ParseInt(s, 10, 64); err == nil {
			o.Seed = v
		}
	}
	o.Tier = os.Getenv("VERIF_TIER")
	if o.Tier == "" {
		o.Tier = "quick"
	}
	if o.Out == "" {
		Fatal("--out required")
	}
	return o
}

func Fatal(f string, a ...interface{}) {
	fmt.Fprintf(os.Stderr, "driver: "+f+"\n", a...)
	os.Exit(3)
}

// ReadScript returns the executions of a script file.
func ReadScript(path string) [][]Ev {
	f, err := os.Open(path)
	if err != nil {
		Fatal("open script: %v", err)
	}
	defer f.Close()
	var execs [][]Ev
	sc := bufio.NewScanner(f)
	sc.Buffer(make([]byte, 1<<20), 1<<28)
	for sc.Scan() {
		b := sc.Bytes()
		if len(b) == 0 {
			continue
		}
		var e Ev
		if err := json.Unmarshal(b, &e); err != nil {
			Fatal("script line: %v", err)
		}
		if e["ev"] == "reset" {
			execs = append(execs, []Ev{e})
		} else {
			if len(execs) == 0 {
				Fatal("script does not start with reset")
			}
			execs[len(execs)-1] = append(execs[len(execs)-1], e)
		}
	}
	if err := sc.Err(); err != nil {
		Fatal("script read: %v", err)
	}
	return execs
}

type Writer struct {
	mu sync.Mutex
	f  *os.File
	w  *bufio.Writer
	n  int
}

func NewWriter(path string) *Writer {
	f, err := os.Create(path)
	if err != nil {
		Fatal("create out: %v", err)
	}
	return &Writer{f: f, w: bufio.NewWriterSize(f, 1<<20)}
}

// Emit writes one event. Safe for concurrent use: the order of lines is the
// order in which Emit acquired the mutex (the only event order the judge uses).
func (w *Writer) Emit(e Ev) {
	w.mu.Lock()
	defer w.mu.Unlock()
	delete(e, "x")
	delete(e, "nr")
	b, err := json.Marshal(e)
	if err != nil {
		Fatal("marshal: %v", err)
	}
	w.w.Write(b)
	w.w.WriteByte('\n')
	w.n++
}

func (w *Writer) Close() {
	w.mu.Lock()
	defer w.mu.Unlock()
	w.w.Flush()
	w.f.Close()
}

// helpers for reading script fields
func S(e Ev, k string) string {
	if v, ok := e[k].(string); ok {
		return v
	}
	return ""
}
func I(e Ev, k string) int {
	switch v := e[k].(type) {
	case float64:
		return int(v)
	case int:
		return v
	}
	return 0
}
func B(e Ev, k string) bool {
	v, _ := e[k].(bool)
	return v
}
func Strs(v interface{}) []string {
	a, _ := v.([]interface{})
	r := make([]string, 0, len(a))
	for _, x := range a {
		s, _ := x.(string)
		r = append(r, s)
	}
	return r
}
func Ints(v interface{}) []int {
	a, _ := v.([]interface{})
	r := make([]int, 0, len(a))
	for _, x := range a {
		f, _ := x.(float64)
		r = append(r, int(f))
	}
	return r
}
func List(v interface{}) []interface{} {
	a, _ := v.([]interface{})
	return a
}
func Copy(e Ev) Ev {
	c := Ev{}
	for k, v := range e {
		c[k] = v
	}
	return c
}

// Guard runs f and returns a non-empty description if it panicked. A panic of
// the code under test is an observation (event "panic"), which no specification
// admits; it is not a driver failure.
func Guard(f func()) (p string) {
	defer func() {
		if r := recover(); r != nil {
			p = fmt.Sprint(r)
			if len(p) > 300 {
				p = p[:300]
			}
		}
	}()
	f()
	return ""
}

// GuardT runs f like Guard but gives up after d: a call of the code under test that does not
// return is an observation too (event "timeout", which no specification admits). The goroutine
// is abandoned; callers should stop driving soon after a timeout (it may spin forever).
func GuardT(d time.Duration, f func()) (pan string, timedOut bool) {
	done := make(chan string, 1)
	go func() { done <- Guard(f) }()
	select {
	case p := <-done:
		return p, false
	case <-time.After(d):
		return "", true
	}
}
