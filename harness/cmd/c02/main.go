// c02: appends blobs to a volume data file with the real needle.Append, reads
// them back with Needle.ReadData, scans the file with storage.ScanVolumeFileFrom,
// alters single bytes of the file, and records everything observed.
// Variable-length fields are recorded as {n: length, h: content token, b: bytes
// (left out for big records)}; the driver never compares anything.
package main

import (
	"encoding/binary"
	"fmt"
	"hash/fnv"
	"math/rand"
	"os"
	"path/filepath"

	"github.com/chrislusf/seaweedfs/weed/storage"
	"github.com/chrislusf/seaweedfs/weed/storage/backend"
	"github.com/chrislusf/seaweedfs/weed/storage/needle"
	"github.com/chrislusf/seaweedfs/weed/storage/super_block"
	"github.com/chrislusf/seaweedfs/weed/storage/types"

	"verifharness/tr"
)

const fullLimit = 700 // records up to this many bytes are recorded byte by byte

func byteList(b []byte) []int {
	r := make([]int, len(b))
	for i, x := range b {
		r[i] = int(x)
	}
	return r
}

func toBytes(v interface{}) []byte {
	is := tr.Ints(v)
	b := make([]byte, len(is))
	for i, x := range is {
		b[i] = byte(x)
	}
	return b
}

func be(b []byte) uint64 {
	var x uint64
	for _, c := range b {
		x = x<<8 | uint64(c)
	}
	return x
}

func be8(x uint64) []int {
	b := make([]byte, 8)
	binary.BigEndian.PutUint64(b, x)
	return byteList(b)
}

func token(b []byte) string {
	h := fnv.New64a()
	h.Write(b)
	return fmt.Sprintf("%d:%016x", len(b), h.Sum64())
}

// field materialises an input field: explicit bytes {"b":[...]} or generated {"n":len,"seed":s}
func field(v interface{}) []byte {
	m, _ := v.(map[string]interface{})
	if m == nil {
		return nil
	}
	if s, ok := m["seed"]; ok && int64(s.(float64)) >= 0 {
		n := tr.I(m, "n")
		b := make([]byte, n)
		rand.New(rand.NewSource(int64(s.(float64)))).Read(b)
		return b
	}
	return toBytes(m["b"])
}

func seedOf(v interface{}) int {
	m, _ := v.(map[string]interface{})
	if m != nil {
		if s, ok := m["seed"]; ok {
			return int(s.(float64))
		}
	}
	return -1
}

func fieldEv(b []byte, seed int, full bool) tr.Ev {
	e := tr.Ev{"n": len(b), "h": token(b), "seed": seed, "b": []int{}}
	if full || seed < 0 {
		e["b"] = byteList(b)
	}
	return e
}

func outField(b []byte) tr.Ev { return tr.Ev{"n": len(b), "h": token(b)} }

func ttlList(t *needle.TTL) []int {
	if t == nil {
		return []int{0, 0}
	}
	return []int{int(t.Count), int(t.Unit)}
}

func needleEv(n *needle.Needle, off int64) tr.Ev {
	ck := make([]byte, 4)
	binary.BigEndian.PutUint32(ck, uint32(n.Cookie))
	return tr.Ev{"off": int(off), "cookie": byteList(ck), "id": be8(uint64(n.Id)), "size": int(n.Size), "flags": int(n.Flags),
		"data": outField(n.Data), "name": outField(n.Name), "mime": outField(n.Mime), "lm": be8(n.LastModified),
		"ttl": ttlList(n.Ttl), "pairs": outField(n.Pairs), "ts": be8(n.AppendAtNs)}
}

type rec struct {
	off  int64
	size types.Size
}

type scanner struct {
	body  bool
	out   []tr.Ev
	limit int   // resource guard: a scan that visits more records than were ever written is cut short (recorded as an error)
	end   int64 // resource guard: so is a scan that meets a record claiming to be larger than the whole file
	trip  bool
}

func (s *scanner) VisitSuperBlock(super_block.SuperBlock) error { return nil }
func (s *scanner) ReadNeedleBody() bool                         { return s.body }
func (s *scanner) VisitNeedle(n *needle.Needle, offset int64, hdr, body []byte) error {
	s.out = append(s.out, needleEv(n, offset))
	if int64(n.Size) > s.end {
		s.trip = true
		return fmt.Errorf("driver: scan met a record of size %d in a file of %d bytes", n.Size, s.end)
	}
	if len(s.out) > s.limit {
		s.trip = true
		return fmt.Errorf("driver: scan visited %d records, only %d were written", len(s.out), s.limit-2)
	}
	return nil
}

// tripped counts scans cut short by a resource guard. Such a scan is recorded as failed (which no
// specification admits); because every one of them may cost a gigabyte-sized allocation inside the
// code under test, the driver stops issuing scans after three of them.
var tripped int

type file struct {
	df   *backend.DiskFile
	ver  needle.Version
	recs []rec
	strt int64
}

func (f *file) step(e tr.Ev) bool {
	switch tr.S(e, "ev") {
	case "put":
		data, name, mime, pairs := field(e["data"]), field(e["name"]), field(e["mime"]), field(e["pairs"])
		n := &needle.Needle{Cookie: types.Cookie(uint32(be(toBytes(e["cookie"])))), Id: types.NeedleId(be(toBytes(e["id"]))),
			Data: data, Flags: byte(tr.I(e, "flags")), Name: name, Mime: mime, Pairs: pairs, PairsSize: uint16(len(pairs)),
			LastModified: be(toBytes(e["lm"])), AppendAtNs: be(toBytes(e["ts"]))}
		t := tr.Ints(e["ttl"])
		n.Ttl = &needle.TTL{Count: byte(t[0]), Unit: byte(t[1])}
		n.Checksum = needle.NewCRC(n.Data)
		off, size, actual, err := n.Append(f.df, f.ver)
		end, _, _ := f.df.GetStat()
		full := end-int64(off) <= fullLimit
		for _, k := range []string{"data", "name", "mime", "pairs"} {
			e[k] = fieldEv(map[string][]byte{"data": data, "name": name, "mime": mime, "pairs": pairs}[k], seedOf(e[k]), full)
		}
		e["full"] = full
		raw := make([]byte, end-int64(off))
		if _, rerr := f.df.ReadAt(raw, int64(off)); rerr != nil && err == nil {
			tr.Fatal("read back: %v", rerr)
		}
		res := tr.Ev{"err": err != nil, "off": int(off), "size": int(size), "nsize": int(n.Size), "actual": int(actual),
			"end": int(end), "rawlen": len(raw), "hdr": []int{}, "raw": []int{}}
		if len(raw) >= 16 {
			res["hdr"] = byteList(raw[:16])
		}
		if full {
			res["raw"] = byteList(raw)
		}
		e["res"] = res
		f.recs = append(f.recs, rec{int64(off), n.Size})
	case "alter":
		i := tr.I(e, "i")
		res := tr.Ev{"at": 0, "done": false}
		if i >= 1 && i <= len(f.recs) {
			at := f.recs[i-1].off + int64(tr.I(e, "pos")) + 20
			if f.ver == needle.Version1 {
				at -= 4
			}
			end, _, _ := f.df.GetStat()
			if at < end {
				b := make([]byte, 1)
				f.df.ReadAt(b, at)
				b[0] ^= byte(tr.I(e, "mask"))
				if _, err := f.df.File.WriteAt(b, at); err != nil {
					tr.Fatal("alter: %v", err)
				}
				res = tr.Ev{"at": int(at), "done": true}
			}
		}
		e["res"] = res
	case "get":
		i := tr.I(e, "i")
		if i < 1 || i > len(f.recs) {
			return false
		}
		n := new(needle.Needle)
		err := n.ReadData(f.df, f.recs[i-1].off, f.recs[i-1].size, f.ver)
		res := needleEv(n, f.recs[i-1].off)
		res["err"] = err != nil
		res["msg"] = ""
		if err != nil {
			res = needleEv(new(needle.Needle), f.recs[i-1].off)
			res["err"] = true
			res["msg"] = err.Error()
		}
		e["res"] = res
	case "scan":
		if tripped >= 3 {
			return false
		}
		end, _, _ := f.df.GetStat()
		s := &scanner{body: tr.B(e, "body"), out: []tr.Ev{}, limit: len(f.recs) + 2, end: end}
		err := storage.ScanVolumeFileFrom(f.ver, f.df, f.strt, s)
		if s.trip {
			tripped++
		}
		e["res"] = tr.Ev{"err": err != nil, "recs": s.out}
	default:
		tr.Fatal("unknown op %v", e["ev"])
	}
	return true
}

func main() {
	o := tr.ParseFlags()
	w := tr.NewWriter(o.Out)
	defer w.Close()
	dir, err := os.MkdirTemp("", "c02-")
	if err != nil {
		tr.Fatal("tmp: %v", err)
	}
	defer os.RemoveAll(dir)
	for xi, ex := range tr.ReadScript(o.Script) {
		osf, err := os.OpenFile(filepath.Join(dir, fmt.Sprintf("v%d.dat", xi%4)), os.O_RDWR|os.O_CREATE|os.O_TRUNC, 0644)
		if err != nil {
			tr.Fatal("data file: %v", err)
		}
		start := tr.I(ex[0], "start")
		osf.Write(make([]byte, start))
		f := &file{df: backend.NewDiskFile(osf), ver: needle.Version(tr.I(ex[0], "v")), strt: int64(start)}
		w.Emit(ex[0])
		for _, e := range ex[1:] {
			if tr.S(e, "ev") == "panic" {
				continue
			}
			delete(e, "res")
			emit := true
			pan := tr.Guard(func() { emit = f.step(e) })
			if pan != "" {
				w.Emit(tr.Ev{"ev": "panic", "op": e, "msg": pan})
				break
			}
			if emit {
				w.Emit(e)
			}
		}
		osf.Close()
	}
}
