// c02: appends blobs to a volume data file with the real needle.Append, reads
// them back with Needle.ReadData, scans the file with storage.ScanVolumeFileFrom,
// alters single bytes of the file, and records everything observed.
// Variable-length fields are recorded as {n: length, h: content token, b: bytes
// (left out for big records)}; the driver never compares anything.
//
// Events (inputs; the driver adds "res"):
//
//	put    a needle built field by field -> Needle.Append
//	req    an upload request (POST multipart or PUT raw body; file id with optional _delta and .ext in the
//	       path; ts, ttl, cm in the query; Seaweed-* pair headers; Content-Type / Content-Encoding)
//	       -> needle.CreateNeedleFromRequest -> Needle.Append
//	get    read record i back; via = "data" (Needle.ReadData), "blob" (needle.ReadNeedleBlob + Needle.ReadBytes),
//	       "hdrbody" (needle.ReadNeedleHeader + Needle.ReadNeedleBody, no checksum comparison)
//	copy   record i copied raw to the end of the file: via = "needle" (needle.ReadNeedleBlob +
//	       needle.WriteNeedleBlob with a given append timestamp) or "volume" (the file opened as a real
//	       storage.Volume: Volume.ReadNeedleBlob + Volume.WriteNeedleBlob), then read back with ReadData
//	alter  one byte of the file XOR mask
//	scan   storage.ScanVolumeFileFrom (via "" / "from") or storage.ScanVolumeFile (via "file": the volume
//	       loaded by name without its index; only for files that start with a super block)
package main

import (
	"bytes"
	"compress/gzip"
	"encoding/binary"
	"encoding/json"
	"fmt"
	"hash/fnv"
	"math/rand"
	"mime/multipart"
	"net/http"
	"net/http/httptest"
	"net/textproto"
	"net/url"
	"os"
	"path/filepath"
	"sort"
	"strconv"
	"strings"

	"github.com/chrislusf/seaweedfs/weed/storage"
	"github.com/chrislusf/seaweedfs/weed/storage/backend"
	"github.com/chrislusf/seaweedfs/weed/storage/needle"
	"github.com/chrislusf/seaweedfs/weed/storage/super_block"
	"github.com/chrislusf/seaweedfs/weed/storage/types"

	"verifharness/tr"
)

const fullLimit = 700 // records up to this many bytes are recorded byte by byte

func byteList(b []byte) []int {
	r := make([]int, len(b))
	for i, x := range b {
		r[i] = int(x)
	}
	return r
}

func toBytes(v interface{}) []byte {
	is := tr.Ints(v)
	b := make([]byte, len(is))
	for i, x := range is {
		b[i] = byte(x)
	}
	return b
}

func be(b []byte) uint64 {
	var x uint64
	for _, c := range b {
		x = x<<8 | uint64(c)
	}
	return x
}

func be8(x uint64) []int {
	b := make([]byte, 8)
	binary.BigEndian.PutUint64(b, x)
	return byteList(b)
}

func token(b []byte) string {
	h := fnv.New64a()
	h.Write(b)
	return fmt.Sprintf("%d:%016x", len(b), h.Sum64())
}

// field materialises an input field: explicit bytes {"b":[...]}, generated {"n":len,"seed":s}, or
// {"n":len,"fill":c} (n times the byte c)
func field(v interface{}) []byte {
	m, _ := v.(map[string]interface{})
	if m == nil {
		return nil
	}
	if c, ok := m["fill"]; ok {
		return bytes.Repeat([]byte{byte(c.(float64))}, tr.I(m, "n"))
	}
	if s, ok := m["seed"]; ok && int64(s.(float64)) >= 0 {
		n := tr.I(m, "n")
		b := make([]byte, n)
		rand.New(rand.NewSource(int64(s.(float64)))).Read(b)
		return b
	}
	return toBytes(m["b"])
}

// alnum is like field for text that must travel in a header: letters and digits only
func alnum(v interface{}) []byte {
	b := field(v)
	const abc = "abcdefghijklmnopqrstuvwxyzABCDEFGHIJKLMNOPQRSTUVWXYZ0123456789"
	for i := range b {
		b[i] = abc[int(b[i])%len(abc)]
	}
	return b
}

func seedOf(v interface{}) int {
	m, _ := v.(map[string]interface{})
	if m != nil {
		if s, ok := m["seed"]; ok {
			return int(s.(float64))
		}
	}
	return -1
}

func fieldEv(b []byte, seed int, full bool) tr.Ev {
	e := tr.Ev{"n": len(b), "h": token(b), "seed": seed, "b": []int{}}
	if full || seed < 0 {
		e["b"] = byteList(b)
	}
	return e
}

func outField(b []byte) tr.Ev { return tr.Ev{"n": len(b), "h": token(b)} }

func ttlList(t *needle.TTL) []int {
	if t == nil {
		return []int{0, 0}
	}
	return []int{int(t.Count), int(t.Unit)}
}

func needleEv(n *needle.Needle, off int64) tr.Ev {
	ck := make([]byte, 4)
	binary.BigEndian.PutUint32(ck, uint32(n.Cookie))
	return tr.Ev{"off": int(off), "cookie": byteList(ck), "id": be8(uint64(n.Id)), "size": int(n.Size), "flags": int(n.Flags),
		"data": outField(n.Data), "name": outField(n.Name), "mime": outField(n.Mime), "lm": be8(n.LastModified),
		"ttl": ttlList(n.Ttl), "pairs": outField(n.Pairs), "ts": be8(n.AppendAtNs), "etag": n.Etag()}
}

type rec struct {
	off  int64
	size types.Size
	id   types.NeedleId
}

type scanner struct {
	body  bool
	out   []tr.Ev
	limit int   // resource guard: a scan that visits more records than were ever written is cut short (recorded as an error)
	end   int64 // resource guard: so is a scan that meets a record claiming to be larger than the whole file
	trip  bool
}

func (s *scanner) VisitSuperBlock(super_block.SuperBlock) error { return nil }
func (s *scanner) ReadNeedleBody() bool                         { return s.body }
func (s *scanner) VisitNeedle(n *needle.Needle, offset int64, hdr, body []byte) error {
	s.out = append(s.out, needleEv(n, offset))
	if int64(n.Size) > s.end {
		s.trip = true
		return fmt.Errorf("driver: scan met a record of size %d in a file of %d bytes", n.Size, s.end)
	}
	if len(s.out) > s.limit {
		s.trip = true
		return fmt.Errorf("driver: scan visited %d records, only %d were written", len(s.out), s.limit-2)
	}
	return nil
}

// tripped counts scans cut short by a resource guard. Such a scan is recorded as failed (which no
// specification admits); because every one of them may cost a gigabyte-sized allocation inside the
// code under test, the driver stops issuing scans after three of them.
var tripped int

type file struct {
	dir  string
	vid  int
	df   *backend.DiskFile
	ver  needle.Version
	recs []rec
	strt int64
	sb   bool // the file starts with a real super block (start = 8): it can be opened as a storage.Volume
}

// crcPieces feeds the data to a CRCwriter in three pieces and returns its sum (big-endian bytes)
func crcPieces(data []byte) []int {
	var sink bytes.Buffer
	cw := needle.NewCRCwriter(&sink)
	a, b := len(data)/3, 2*len(data)/3
	cw.Write(data[:a])
	cw.Write(data[a:b])
	cw.Write(data[b:])
	out := make([]byte, 4)
	binary.BigEndian.PutUint32(out, cw.Sum())
	return byteList(out)
}

// appendRec appends the needle and records what Append returned and what the file holds afterwards.
// flds are the input fields as bytes, recorded into e (name of the field -> bytes).
func (f *file) appendRec(n *needle.Needle, e tr.Ev, flds map[string][]byte, seeds map[string]int) tr.Ev {
	crcw := crcPieces(n.Data)
	etag := n.Etag()
	off, size, actual, err := n.Append(f.df, f.ver)
	end, _, _ := f.df.GetStat()
	full := end-int64(off) <= fullLimit
	for _, k := range []string{"data", "name", "mime", "pairs"} {
		e[k] = fieldEv(flds[k], seeds[k], full)
	}
	e["full"] = full
	raw := make([]byte, end-int64(off))
	if _, rerr := f.df.ReadAt(raw, int64(off)); rerr != nil && err == nil {
		tr.Fatal("read back: %v", rerr)
	}
	res := tr.Ev{"err": err != nil, "off": int(off), "size": int(size), "nsize": int(n.Size), "actual": int(actual),
		"end": int(end), "rawlen": len(raw), "hdr": []int{}, "raw": []int{}, "etag": etag, "crcw": crcw, "cks": []int{}}
	if len(raw) >= 16 {
		res["hdr"] = byteList(raw[:16])
	}
	if ck := 16 + int(n.Size); n.Size >= 0 && ck+4 <= len(raw) {
		res["cks"] = byteList(raw[ck : ck+4]) // the four bytes behind the body
	}
	if full {
		res["raw"] = byteList(raw)
	}
	f.recs = append(f.recs, rec{int64(off), n.Size, n.Id})
	return res
}

func cpStr(v interface{}) string {
	var sb strings.Builder
	for _, c := range tr.Ints(v) {
		sb.WriteRune(rune(c))
	}
	return sb.String()
}

var quoteEscaper = strings.NewReplacer("\\", "\\\\", `"`, "\\\"")

// buildRequest renders the abstract upload request of a script line as an *http.Request, the way
// operation.Upload (POST, one multipart part named "file") or a plain client (PUT, raw body) sends it.
// It returns the request and the body bytes that are the blob's data.
func buildRequest(e tr.Ev) (*http.Request, []byte, []byte, []byte) {
	fid, _ := e["fid"].(map[string]interface{})
	path := "/3," + cpStr(fid["key"]) + cpStr(fid["ck"])
	if d := cpStr(fid["delta"]); d != "" {
		path += "_" + d
	}
	if x := cpStr(fid["ext"]); x != "" {
		path += "." + x
	}
	q := url.Values{}
	if ts, _ := e["ts"].(map[string]interface{}); ts != nil && tr.B(ts, "has") {
		q.Set("ts", strconv.FormatUint(be(toBytes(ts["v"])), 10))
	}
	if t, _ := e["ttl"].(map[string]interface{}); t != nil && tr.B(t, "has") {
		q.Set("ttl", fmt.Sprintf("%d%c", tr.I(t, "c"), rune(tr.I(t, "u"))))
	}
	if tr.B(e, "cm") {
		q.Set("cm", "true")
	}
	target := path
	if len(q) > 0 {
		target += "?" + q.Encode()
	}
	data := field(e["data"])
	ce := tr.S(e, "ce")
	if ce == "gzip" { // a declared gzip body is a real gzip stream; the blob's data are the compressed bytes
		var zb bytes.Buffer
		zw := gzip.NewWriter(&zb)
		zw.Write(data)
		zw.Close()
		data = zb.Bytes()
	}
	name := field(e["name"])
	ct := field(e["ct"])
	var r *http.Request
	if tr.S(e, "method") == "POST" {
		var body bytes.Buffer
		mw := multipart.NewWriter(&body)
		h := make(textproto.MIMEHeader)
		h.Set("Content-Disposition", fmt.Sprintf(`form-data; name="file"; filename="%s"`, quoteEscaper.Replace(string(name))))
		if len(ct) > 0 {
			h.Set("Content-Type", string(ct))
		}
		if ce != "" {
			h.Set("Content-Encoding", ce)
		}
		pw, err := mw.CreatePart(h)
		if err != nil {
			tr.Fatal("multipart: %v", err)
		}
		pw.Write(data)
		mw.Close()
		r = httptest.NewRequest("POST", target, &body)
		r.Header.Set("Content-Type", mw.FormDataContentType())
	} else {
		name = nil
		r = httptest.NewRequest("PUT", target, bytes.NewReader(data))
		if len(ct) > 0 {
			r.Header.Set("Content-Type", string(ct))
		}
		if ce != "" {
			r.Header.Set("Content-Encoding", ce)
		}
	}
	for _, p := range tr.List(e["pairs"]) {
		pm, _ := p.(map[string]interface{})
		r.Header.Set(needle.PairNamePrefix+cpStr(pm["name"]), string(alnum(pm["v"])))
	}
	return r, data, name, ct
}

func cpsOf(s string) []int {
	r := []int{}
	for _, c := range s {
		r = append(r, int(c))
	}
	return r
}

func (f *file) step(e tr.Ev) bool {
	switch tr.S(e, "ev") {
	case "put":
		data, name, mime, pairs := field(e["data"]), field(e["name"]), field(e["mime"]), field(e["pairs"])
		n := &needle.Needle{Cookie: types.Cookie(uint32(be(toBytes(e["cookie"])))), Id: types.NeedleId(be(toBytes(e["id"]))),
			Data: data, Flags: byte(tr.I(e, "flags")), Name: name, Mime: mime, Pairs: pairs, PairsSize: uint16(len(pairs)),
			LastModified: be(toBytes(e["lm"])), AppendAtNs: be(toBytes(e["ts"]))}
		t := tr.Ints(e["ttl"])
		n.Ttl = &needle.TTL{Count: byte(t[0]), Unit: byte(t[1])}
		n.Checksum = needle.NewCRC(n.Data)
		seeds := map[string]int{}
		for _, k := range []string{"data", "name", "mime", "pairs"} {
			seeds[k] = seedOf(e[k])
		}
		e["res"] = f.appendRec(n, e, map[string][]byte{"data": data, "name": name, "mime": mime, "pairs": pairs}, seeds)
	case "req":
		r, data, name, ct := buildRequest(e)
		// echo the inputs as sent: data = the body bytes, name / ct with their bytes, pair values as tokens
		e["data"] = fieldEv(data, seedOf(e["data"]), len(data) <= 64)
		e["name"] = fieldEv(name, -1, true)
		e["ct"] = fieldEv(ct, -1, true)
		pin := []tr.Ev{}
		for _, p := range tr.List(e["pairs"]) {
			pm, _ := p.(map[string]interface{})
			pin = append(pin, tr.Ev{"name": tr.Ints(pm["name"]), "v": outField(alnum(pm["v"]))})
		}
		e["pairs"] = pin
		// as VolumeServer.PostHandler does before it hands the request over
		if perr := r.ParseForm(); perr != nil {
			e["res"] = tr.Ev{"err": true, "msg": "ParseForm: " + perr.Error()}
			break
		}
		n, orig, md5, err := needle.CreateNeedleFromRequest(r, false, 64<<20, &bytes.Buffer{})
		if err != nil || n == nil {
			e["res"] = tr.Ev{"err": true, "msg": fmt.Sprint(err)}
			break
		}
		n.AppendAtNs = be(toBytes(e["ats"]))
		// the created needle, field by field (copies: Append and the byte buffer own the slices)
		flds := map[string][]byte{"data": append([]byte{}, n.Data...), "name": append([]byte{}, n.Name...),
			"mime": append([]byte{}, n.Mime...), "pairs": append([]byte{}, n.Pairs...)}
		nd := needleEv(n, 0)
		// the pairs as a JSON object, decoded with the standard library: [{name, v}] sorted by name
		pmap, pmapok := []tr.Ev{}, true
		if len(n.Pairs) > 0 {
			m := map[string]string{}
			if jerr := json.Unmarshal(n.Pairs, &m); jerr != nil {
				pmapok = false
			}
			keys := []string{}
			for k := range m {
				keys = append(keys, k)
			}
			sort.Strings(keys)
			for _, k := range keys {
				pmap = append(pmap, tr.Ev{"name": cpsOf(k), "v": outField([]byte(m[k]))})
			}
		}
		tmp := tr.Ev{}
		put := f.appendRec(n, tmp, flds, map[string]int{"data": -2, "name": -2, "mime": -2, "pairs": -2})
		full := tmp["full"].(bool)
		for _, k := range []string{"data", "name", "mime", "pairs"} {
			fe := outField(flds[k])
			fe["b"] = []int{}
			if full {
				fe["b"] = byteList(flds[k])
			}
			nd[k] = fe
		}
		nd["full"] = full
		e["res"] = tr.Ev{"err": false, "msg": "", "needle": nd, "pmap": pmap, "pmapok": pmapok, "orig": orig, "md5": md5, "put": put}
	case "copy":
		i := tr.I(e, "i")
		if i < 1 || i > len(f.recs) {
			return false
		}
		via := tr.S(e, "via")
		if via == "volume" && !f.sb {
			return false
		}
		src := f.recs[i-1]
		before, _, _ := f.df.GetStat()
		var err error
		if via == "volume" {
			// the data file opened as a real volume (a fresh index: the records of this file were not written through it)
			os.WriteFile(filepath.Join(f.dir, fmt.Sprintf("%d.idx", f.vid)), nil, 0644)
			var v *storage.Volume
			v, err = storage.NewVolume(f.dir, f.dir, "", needle.VolumeId(f.vid), storage.NeedleMapInMemory, nil, nil, 0, 0)
			if err == nil {
				var blob []byte
				if blob, err = v.ReadNeedleBlob(src.off, src.size); err == nil {
					err = v.WriteNeedleBlob(src.id, blob, src.size)
				}
			}
			if v != nil {
				v.Close()
			}
			os.Remove(filepath.Join(f.dir, fmt.Sprintf("%d.idx", f.vid)))
			f.df = backend.NewDiskFile(f.df.File) // the volume appended through its own descriptor: take the new file size
		} else {
			var blob []byte
			if blob, err = needle.ReadNeedleBlob(f.df, src.off, src.size, f.ver); err == nil {
				_, err = needle.WriteNeedleBlob(f.df, blob, src.size, be(toBytes(e["ts"])), f.ver)
			}
		}
		end, _, _ := f.df.GetStat()
		res := tr.Ev{"err": err != nil, "msg": "", "off": int(before), "end": int(end), "sraw": outField(nil), "draw": outField(nil),
			"got": needleEv(new(needle.Needle), before), "goterr": true}
		if err != nil {
			res["msg"] = err.Error()
		} else {
			// both records as they are in the file, with the append timestamp of version 3 (8 bytes behind the
			// checksum) blanked: the copy carries its own
			rd := func(off, n int64) []byte {
				b := make([]byte, n)
				f.df.ReadAt(b, off)
				if ts := 16 + int64(src.size) + 4; f.ver == needle.Version3 && src.size >= 0 && ts+8 <= n {
					copy(b[ts:ts+8], make([]byte, 8))
				}
				return b
			}
			res["sraw"] = outField(rd(src.off, end-before))
			res["draw"] = outField(rd(before, end-before))
			n := new(needle.Needle)
			gerr := n.ReadData(f.df, before, src.size, f.ver)
			if gerr == nil {
				res["got"] = needleEv(n, before)
			}
			res["goterr"] = gerr != nil
			f.recs = append(f.recs, rec{before, src.size, src.id})
		}
		e["res"] = res
	case "alter":
		i := tr.I(e, "i")
		res := tr.Ev{"at": 0, "done": false}
		if i >= 1 && i <= len(f.recs) {
			at := f.recs[i-1].off + int64(tr.I(e, "pos")) + 20
			if f.ver == needle.Version1 {
				at -= 4
			}
			end, _, _ := f.df.GetStat()
			if at < end {
				b := make([]byte, 1)
				f.df.ReadAt(b, at)
				b[0] ^= byte(tr.I(e, "mask"))
				if _, err := f.df.File.WriteAt(b, at); err != nil {
					tr.Fatal("alter: %v", err)
				}
				res = tr.Ev{"at": int(at), "done": true}
			}
		}
		e["res"] = res
	case "get":
		i := tr.I(e, "i")
		if i < 1 || i > len(f.recs) {
			return false
		}
		via := tr.S(e, "via")
		if via == "" {
			via = "data"
		}
		e["via"] = via
		off, size := f.recs[i-1].off, f.recs[i-1].size
		n := new(needle.Needle)
		var err error
		switch via {
		case "blob":
			var blob []byte
			if blob, err = needle.ReadNeedleBlob(f.df, off, size, f.ver); err == nil {
				err = n.ReadBytes(blob, off, size, f.ver)
			}
		case "hdrbody":
			var bodyLen int64
			var hn *needle.Needle
			if hn, _, bodyLen, err = needle.ReadNeedleHeader(f.df, f.ver, off); err == nil && hn != nil {
				n = hn
				_, err = n.ReadNeedleBody(f.df, f.ver, off+types.NeedleHeaderSize, bodyLen)
			}
		default:
			err = n.ReadData(f.df, off, size, f.ver)
		}
		res := needleEv(n, off)
		res["err"] = err != nil
		res["msg"] = ""
		if err != nil {
			res = needleEv(new(needle.Needle), off)
			res["err"] = true
			res["msg"] = err.Error()
		}
		e["res"] = res
	case "scan":
		if tripped >= 3 {
			return false
		}
		via := tr.S(e, "via")
		if via == "" {
			via = "from"
		}
		if via == "file" && !f.sb {
			return false
		}
		e["via"] = via
		end, _, _ := f.df.GetStat()
		s := &scanner{body: tr.B(e, "body"), out: []tr.Ev{}, limit: len(f.recs) + 2, end: end}
		var err error
		if via == "file" {
			err = storage.ScanVolumeFile(f.dir, "", needle.VolumeId(f.vid), storage.NeedleMapInMemory, s)
		} else {
			err = storage.ScanVolumeFileFrom(f.ver, f.df, f.strt, s)
		}
		if s.trip {
			tripped++
		}
		e["res"] = tr.Ev{"err": err != nil, "recs": s.out}
	default:
		tr.Fatal("unknown op %v", e["ev"])
	}
	return true
}

func main() {
	o := tr.ParseFlags()
	w := tr.NewWriter(o.Out)
	defer w.Close()
	dir, err := os.MkdirTemp("", "c02-")
	if err != nil {
		tr.Fatal("tmp: %v", err)
	}
	defer os.RemoveAll(dir)
	for xi, ex := range tr.ReadScript(o.Script) {
		vid := xi%4 + 1
		osf, err := os.OpenFile(filepath.Join(dir, fmt.Sprintf("%d.dat", vid)), os.O_RDWR|os.O_CREATE|os.O_TRUNC, 0644)
		if err != nil {
			tr.Fatal("data file: %v", err)
		}
		for _, ext := range []string{".idx", ".vif", ".cpd", ".cpx", ".note"} { // nothing of an earlier file of this name survives
			os.Remove(filepath.Join(dir, fmt.Sprintf("%d%s", vid, ext)))
		}
		start := tr.I(ex[0], "start")
		ver := needle.Version(tr.I(ex[0], "v"))
		lead := make([]byte, start)
		if start == super_block.SuperBlockSize {
			// a real super block of this version, so that the file can also be opened by name as a volume
			lead = (&super_block.SuperBlock{Version: ver, ReplicaPlacement: &super_block.ReplicaPlacement{}, Ttl: needle.EMPTY_TTL}).Bytes()
		}
		osf.Write(lead)
		f := &file{dir: dir, vid: vid, df: backend.NewDiskFile(osf), ver: ver, strt: int64(start), sb: start == super_block.SuperBlockSize}
		w.Emit(ex[0])
		for _, e := range ex[1:] {
			if tr.S(e, "ev") == "panic" {
				continue
			}
			delete(e, "res")
			emit := true
			pan := tr.Guard(func() { emit = f.step(e) })
			if pan != "" {
				w.Emit(tr.Ev{"ev": "panic", "op": e, "msg": pan})
				break
			}
			if emit {
				w.Emit(e)
			}
		}
		osf.Close()
	}
}
