// c17: executes chunk-list scripts on the REAL weed/filer functions
// (ViewFromChunks, NewChunkReaderAtFromClient(...).ReadAt, StreamContent,
// CompactFileChunks, MaybeManifestize / VerifMaybeManifestize,
// VerifMergeIntoManifest, ResolveOneChunkManifest) and records what they
// return. Chunk bytes and manifest blobs are served by an httptest server
// through a lookup function, or by a stub chunk cache. ReadAll and the
// ChunkStreamReader (both constructors, Read, Seek) reach the same server through
// a MasterClient whose location cache the harness fills / a stub FilerClient
// answering LookupVolume; TotalSize, FileSize and MinusChunks are called as they
// are. No expectations here.
package main

import (
	"bytes"
	"context"
	"fmt"
	"io"
	"io/ioutil"
	"math"
	"net/http"
	"net/http/httptest"
	"strings"
	"sync"
	"time"

	"github.com/chrislusf/seaweedfs/weed/filer"
	"github.com/chrislusf/seaweedfs/weed/pb/filer_pb"
	"github.com/chrislusf/seaweedfs/weed/storage/needle"
	"github.com/chrislusf/seaweedfs/weed/wdclient"
	"google.golang.org/grpc"

	"verifharness/tr"
)

const cookie = 0x01020304

type store struct {
	mu    sync.RWMutex
	blobs map[string][]byte
}

func (s *store) get(fid string) ([]byte, bool) {
	s.mu.RLock()
	defer s.mu.RUnlock()
	b, ok := s.blobs[fid]
	return b, ok
}
func (s *store) put(fid string, b []byte) {
	s.mu.Lock()
	defer s.mu.Unlock()
	s.blobs[fid] = b
}

// stub chunk cache: mode "cache" serves whole chunks, "slice" serves slices, "http" always misses
type cache struct {
	st   *store
	mode string
}

func (c *cache) GetChunk(fileId string, minSize uint64) []byte {
	if c.mode != "cache" {
		return nil
	}
	if b, ok := c.st.get(fileId); ok {
		return append([]byte(nil), b...)
	}
	return nil
}
func (c *cache) GetChunkSlice(fileId string, offset, length uint64) []byte {
	if c.mode != "slice" {
		return nil
	}
	b, ok := c.st.get(fileId)
	if !ok || offset > uint64(len(b)) {
		return nil
	}
	end := offset + length
	if end > uint64(len(b)) {
		end = uint64(len(b))
	}
	return append([]byte(nil), b[offset:end]...)
}
func (c *cache) SetChunk(fileId string, data []byte) {}

type lookupHolder struct {
	fn wdclient.LookupFileIdFunctionType
}

func (l lookupHolder) GetLookupFileIdFunction() wdclient.LookupFileIdFunctionType { return l.fn }

// stub filer client: LookupVolume answers with the blob server for every volume id
type stubFilerClient struct{ host string }
type stubSeaweedFiler struct {
	filer_pb.SeaweedFilerClient
	host string
}

func (s stubSeaweedFiler) LookupVolume(ctx context.Context, in *filer_pb.LookupVolumeRequest, opts ...grpc.CallOption) (*filer_pb.LookupVolumeResponse, error) {
	r := &filer_pb.LookupVolumeResponse{LocationsMap: map[string]*filer_pb.Locations{}}
	for _, v := range in.VolumeIds {
		r.LocationsMap[v] = &filer_pb.Locations{Locations: []*filer_pb.Location{{Url: s.host, PublicUrl: s.host}}}
	}
	return r, nil
}
func (f stubFilerClient) WithFilerClient(fn func(filer_pb.SeaweedFilerClient) error) error {
	return fn(stubSeaweedFiler{host: f.host})
}
func (f stubFilerClient) AdjustedUrl(l *filer_pb.Location) string { return l.Url }

type exec struct {
	host   string
	mc     *wdclient.MasterClient
	sr     *filer.ChunkStreamReader
	old    []*filer_pb.FileChunk
	x      int
	st     *store
	lookup wdclient.LookupFileIdFunctionType
	cc     *cache
	top    []*filer_pb.FileChunk
	idOf   map[string]int
	nextM  int
	fsize  int64
	reader *filer.ChunkReadAt
}

func (ex *exec) addChunks(chunks []interface{}, data []interface{}, base int) {
	for k, c := range chunks {
		m := c.(map[string]interface{})
		id := tr.I(m, "id")
		fid := needle.NewFileId(needle.VolumeId(ex.x), uint64(id), cookie).String()
		b := tr.Ints(data[base+k])
		blob := make([]byte, len(b))
		for i, v := range b {
			blob[i] = byte(v)
		}
		ex.st.put(fid, blob)
		ex.idOf[fid] = id
		ex.top = append(ex.top, &filer_pb.FileChunk{
			FileId: fid,
			Offset: int64(tr.I(m, "off")),
			Size:   uint64(tr.I(m, "size")),
			Mtime:  int64(tr.I(m, "mtime")),
		})
	}
	ex.reader = nil
}

func (ex *exec) save(reader io.Reader, name string, offset int64) (*filer_pb.FileChunk, string, string, error) {
	b, err := ioutil.ReadAll(reader)
	if err != nil {
		return nil, "", "", err
	}
	ex.nextM++
	fid := needle.NewFileId(needle.VolumeId(ex.x), uint64(ex.nextM), cookie).String()
	ex.st.put(fid, b)
	ex.idOf[fid] = ex.nextM
	return &filer_pb.FileChunk{FileId: fid, Offset: offset, Size: uint64(len(b)), Mtime: 0}, "", "", nil
}

func clip(v int64) int {
	if v > math.MaxInt32 {
		return math.MaxInt32
	}
	if v < math.MinInt32 {
		return math.MinInt32
	}
	return int(v)
}

// describe reports a chunk list as the code itself resolves it (ResolveOneChunkManifest).
func (ex *exec) describe(chunks []*filer_pb.FileChunk, depth int) ([]tr.Ev, error) {
	res := make([]tr.Ev, 0, len(chunks))
	for _, c := range chunks {
		id, ok := ex.idOf[c.GetFileIdString()]
		if !ok {
			id = -1
		}
		e := tr.Ev{"id": id, "off": clip(c.Offset), "size": clip(int64(c.Size)), "mtime": clip(c.Mtime),
			"m": c.IsChunkManifest, "sub": []tr.Ev{}}
		if c.IsChunkManifest {
			if depth > 8 {
				return nil, fmt.Errorf("manifest nesting too deep")
			}
			sub, err := filer.ResolveOneChunkManifest(ex.lookup, c)
			if err != nil {
				return nil, err
			}
			d, err := ex.describe(sub, depth+1)
			if err != nil {
				return nil, err
			}
			e["sub"] = d
		}
		res = append(res, e)
	}
	return res, nil
}

func errStr(err error) string {
	if err == nil {
		return ""
	}
	if err == io.EOF {
		return "EOF"
	}
	return "error: " + err.Error()
}

func (ex *exec) step(e tr.Ev) {
	switch tr.S(e, "ev") {
	case "append":
		ex.addChunks(tr.List(e["list"]), tr.List(e["payload"]), 0)
		ex.fsize = int64(tr.I(e, "fsize"))
	case "view":
		off, size := int64(tr.I(e, "off")), int64(tr.I(e, "size"))
		if size < 0 {
			size = math.MaxInt64
		}
		views := filer.ViewFromChunks(ex.lookup, ex.top, off, size)
		res := make([]tr.Ev, 0, len(views))
		for _, v := range views {
			id, ok := ex.idOf[v.FileId]
			if !ok {
				id = -1
			}
			res = append(res, tr.Ev{"id": id, "coff": clip(v.Offset), "size": clip(int64(v.Size)), "lo": clip(v.LogicOffset)})
		}
		e["res"] = res
	case "readat":
		if ex.reader == nil || tr.B(e, "fresh") {
			views := filer.ViewFromChunks(ex.lookup, ex.top, 0, math.MaxInt64)
			ex.reader = filer.NewChunkReaderAtFromClient(ex.lookup, views, ex.cc, ex.fsize)
		}
		n := tr.I(e, "n")
		buf := bytes.Repeat([]byte{0xAA}, n)
		nret, err := ex.reader.ReadAt(buf, int64(tr.I(e, "off")))
		got := make([]int, n)
		for i, b := range buf {
			got[i] = int(b)
		}
		e["got"], e["nret"], e["err"] = got, nret, errStr(err)
	case "stream":
		off, size := int64(tr.I(e, "off")), int64(tr.I(e, "size"))
		if size < 0 {
			size = math.MaxInt64
		}
		var w bytes.Buffer
		err := filer.StreamContent(lookupHolder{ex.lookup}, &w, ex.top, off, size)
		got := make([]int, w.Len())
		for i, b := range w.Bytes() {
			got[i] = int(b)
		}
		e["got"], e["err"] = got, errStr(err)
	case "compact":
		// as FilerServer.cleanupChunks does: only the non-manifest chunks are compacted
		manifests, nonManifests := filer.SeparateManifestChunks(ex.top)
		compacted, garbage := filer.CompactFileChunks(ex.lookup, nonManifests)
		kept, gone := make([]int, 0), make([]int, 0)
		for _, c := range compacted {
			kept = append(kept, ex.idOf[c.GetFileIdString()])
		}
		for _, c := range garbage {
			gone = append(gone, ex.idOf[c.GetFileIdString()])
		}
		ex.top = append(compacted, manifests...)
		ex.reader = nil
		e["kept"], e["garbage"] = kept, gone
	case "manifestize":
		var chunks []*filer_pb.FileChunk
		var err error
		if b := tr.I(e, "batch"); b > 0 {
			chunks, err = filer.VerifMaybeManifestize(ex.save, ex.top, b)
		} else {
			chunks, err = filer.MaybeManifestize(ex.save, ex.top)
		}
		e["res"], e["err"] = []tr.Ev{}, errStr(err)
		if err == nil {
			ex.top = chunks
			ex.reader = nil
			d, derr := ex.describe(ex.top, 0)
			if derr != nil {
				e["err"] = errStr(derr)
			} else {
				e["res"] = d
			}
		}
	case "nest":
		e["res"], e["err"] = []tr.Ev{}, ""
		if len(ex.top) == 0 {
			break
		}
		m, err := filer.VerifMergeIntoManifest(ex.save, ex.top)
		if err != nil {
			e["err"] = errStr(err)
			break
		}
		ex.top = []*filer_pb.FileChunk{m}
		ex.reader = nil
		d, derr := ex.describe(ex.top, 0)
		if derr != nil {
			e["err"] = errStr(derr)
		} else {
			e["res"] = d
		}
	case "readall":
		b, err := filer.ReadAll(ex.mc, ex.top)
		got := make([]int, len(b))
		for i, v := range b {
			got[i] = int(v)
		}
		e["got"], e["err"] = got, errStr(err)
	case "sopen":
		if tr.S(e, "via") == "master" {
			ex.sr = filer.NewChunkStreamReaderFromFiler(ex.mc, ex.top)
		} else {
			ex.sr = filer.NewChunkStreamReader(stubFilerClient{ex.host}, ex.top)
		}
	case "sseek":
		if ex.sr == nil {
			tr.Fatal("sseek without sopen")
		}
		res, err := ex.sr.Seek(int64(tr.I(e, "off")), tr.I(e, "whence"))
		e["res"], e["err"] = clip(res), errStr(err)
	case "sread":
		if ex.sr == nil {
			tr.Fatal("sread without sopen")
		}
		n := tr.I(e, "n")
		buf := bytes.Repeat([]byte{0xAA}, n)
		nret, err := ex.sr.Read(buf)
		got := make([]int, 0, n)
		for i := 0; i < nret && i < n; i++ {
			got = append(got, int(buf[i]))
		}
		e["got"], e["nret"], e["err"] = got, nret, errStr(err)
	case "tsize":
		e["res"] = clip(int64(filer.TotalSize(ex.top)))
	case "fsize":
		ent := &filer_pb.Entry{Chunks: ex.top, Attributes: &filer_pb.FuseAttributes{FileSize: uint64(tr.I(e, "attr"))}}
		e["res"] = clip(int64(filer.FileSize(ent)))
	case "snap":
		ex.old = append([]*filer_pb.FileChunk(nil), ex.top...)
	case "minus":
		a, b := ex.old, ex.top
		if tr.I(e, "dir") == 1 {
			a, b = ex.top, ex.old
		}
		delta, err := filer.MinusChunks(ex.lookup, a, b)
		ids := make([]int, 0, len(delta))
		for _, c := range delta {
			id, ok := ex.idOf[c.GetFileIdString()]
			if !ok {
				id = -1
			}
			ids = append(ids, id)
		}
		e["res"], e["err"] = ids, errStr(err)
	default:
		tr.Fatal("unknown op %v", e["ev"])
	}
}

func main() {
	o := tr.ParseFlags()
	w := tr.NewWriter(o.Out)
	defer w.Close()
	st := &store{blobs: map[string][]byte{}}
	srv := httptest.NewServer(http.HandlerFunc(func(rw http.ResponseWriter, r *http.Request) {
		fid := strings.TrimPrefix(r.URL.Path, "/")
		b, ok := st.get(fid)
		if !ok {
			http.NotFound(rw, r)
			return
		}
		http.ServeContent(rw, r, "", time.Time{}, bytes.NewReader(b))
	}))
	defer srv.Close()
	lookup := func(fileId string) ([]string, error) { return []string{srv.URL + "/" + fileId}, nil }
	host := strings.TrimPrefix(srv.URL, "http://")
	mc := wdclient.NewMasterClient(grpc.WithInsecure(), "c17", "localhost", 0, "", nil)
	for x, script := range tr.ReadScript(o.Script) {
		mode := tr.S(script[0], "mode")
		if mode == "" {
			mode = "cache"
		}
		mc.VerifAddLocation(uint32(x+1), wdclient.Location{Url: host, PublicUrl: host})
		ex := &exec{host: host, mc: mc, x: x + 1, st: st, lookup: lookup, cc: &cache{st: st, mode: mode}, idOf: map[string]int{}, nextM: 1000}
		ex.addChunks(tr.List(script[0]["list"]), tr.List(script[0]["payload"]), 0)
		ex.fsize = int64(tr.I(script[0], "fsize"))
		w.Emit(script[0])
		for _, e := range script[1:] {
			if tr.S(e, "ev") == "panic" {
				continue
			}
			pan := tr.Guard(func() { ex.step(e) })
			if pan != "" {
				w.Emit(tr.Ev{"ev": "panic", "op": e, "msg": pan})
				break
			}
			w.Emit(e)
		}
		if x%64 == 63 {
			// blobs of finished executions are no longer needed (prefetch goroutines may still be
			// running for the most recent ones)
			st.mu.Lock()
			for k := range st.blobs {
				if !strings.HasPrefix(k, fmt.Sprint(x+1)+",") && !strings.HasPrefix(k, fmt.Sprint(x)+",") {
					delete(st.blobs, k)
				}
			}
			st.mu.Unlock()
		}
	}
}
