// c03: crash recovery of a volume. Executes a history (write/delete) on a real
// storage.Store in a temp dir, closes it, then for every crash point (data file cut
// at byte d, index file cut at entry i, i limited to entries whose record is complete
// within d) reopens a truncated copy with a fresh real Store and records: whether the
// reopen worked and the volume is writable, what every key reads, and a new write +
// read-back. The history is re-emitted in front of each block of crash points, so
// that every emitted execution is self-contained for the TLA+ judge.
package main

import (
	"bytes"
	"fmt"
	"io/ioutil"
	"os"
	"path/filepath"
	"sync"

	"github.com/chrislusf/seaweedfs/weed/storage"
	"github.com/chrislusf/seaweedfs/weed/storage/needle"
	"github.com/chrislusf/seaweedfs/weed/storage/types"
	"github.com/chrislusf/seaweedfs/weed/util"

	"verifharness/tr"
)

var datas = map[string][]byte{
	"a": []byte("AAAA-data-a"),
	"b": []byte("bbbbbbbbbbbbbbbbbbbbbbbb-data-b"),
	"L": bytes.Repeat([]byte("0123456789abcdef"), 20),
	"n": []byte("new-after-crash"),
}
var cookies = map[string]uint32{"c1": 0x11111111, "c2": 0x22222222}
var names = map[string]string{"m0": "", "m1": "f1.bin"}

func dataToken(b []byte) string {
	for t, v := range datas {
		if bytes.Equal(v, b) {
			return t
		}
	}
	return "?"
}
func cookieToken(c uint32) string {
	for t, v := range cookies {
		if v == c {
			return t
		}
	}
	return "?"
}

func newStore(dir string) *storage.Store {
	return storage.NewStore(nil, 0, "127.0.0.1", "127.0.0.1:0", []string{dir}, []int{8}, []util.MinFreeSpace{{}}, "",
		storage.NeedleMapInMemory, []types.DiskType{types.HardDriveType})
}

func mkNeedle(k int, c, d, m string) *needle.Needle {
	n := new(needle.Needle)
	n.Id = types.NeedleId(k)
	n.Cookie = types.Cookie(cookies[c])
	n.Data = append([]byte{}, datas[d]...)
	if nm := names[m]; nm != "" {
		n.Name = []byte(nm)
		n.SetHasName()
	}
	n.LastModified = 1600000000
	n.SetHasLastModifiedDate()
	n.Checksum = needle.NewCRC(n.Data)
	return n
}

func readKey(s *storage.Store, vid needle.VolumeId, k int) tr.Ev {
	e := tr.Ev{"ev": "read", "k": k, "st": "err", "d": "?", "c": "?", "name": ""}
	n := new(needle.Needle)
	n.Id = types.NeedleId(k)
	var err error
	pan := tr.Guard(func() { _, err = s.ReadVolumeNeedle(vid, n, nil) })
	if pan != "" {
		e["st"] = "panic"
		return e
	}
	if err != nil {
		if err == storage.ErrorNotFound || err == storage.ErrorDeleted {
			e["st"] = "notfound"
		}
		return e
	}
	e["st"] = "data"
	e["d"] = dataToken(n.Data)
	e["c"] = cookieToken(uint32(n.Cookie))
	e["name"] = string(n.Name)
	return e
}

func main() {
	o := tr.ParseFlags()
	w := tr.NewWriter(o.Out)
	defer w.Close()
	// tmpfs when available: every reopen/close fsyncs
	shm := ""
	if st, err := os.Stat("/dev/shm"); err == nil && st.IsDir() {
		shm = "/dev/shm"
	}
	base, _ := ioutil.TempDir(shm, "c03")
	defer os.RemoveAll(base)
	vid := needle.VolumeId(7)
	execs := tr.ReadScript(o.Script)
	results := make([][]tr.Ev, len(execs))
	var wg sync.WaitGroup
	sem := make(chan struct{}, 8)
	for xi0, ex0 := range execs {
		wg.Add(1)
		sem <- struct{}{}
		go func(xi int, ex []tr.Ev) {
			defer wg.Done()
			defer func() { <-sem }()
			results[xi] = runHistory(o, base, vid, xi, ex)
		}(xi0, ex0)
	}
	wg.Wait()
	for _, r := range results {
		for _, e := range r {
			w.Emit(e)
		}
	}
}

type collector struct{ evs []tr.Ev }

func (c *collector) Emit(e tr.Ev) { c.evs = append(c.evs, e) }

func runHistory(o *tr.Opts, base string, vid needle.VolumeId, xi int, ex []tr.Ev) []tr.Ev {
	w := &collector{}
	{
		stride := tr.I(ex[0], "stride")
		if stride <= 0 {
			stride = 1
		}
		block := tr.I(ex[0], "block")
		if block <= 0 {
			block = 40
		}
		dirA := filepath.Join(base, fmt.Sprintf("a%d", xi))
		os.MkdirAll(dirA, 0755)
		sa := newStore(dirA)
		if err := sa.AddVolume(vid, "", storage.NeedleMapInMemory, "000", "", 0, 0, types.HardDriveType); err != nil {
			tr.Fatal("add volume: %v", err)
		}
		v := sa.GetVolume(vid)
		var hist []tr.Ev
		keys := map[int]bool{}
		for _, e := range ex[1:] {
			ev := tr.S(e, "ev")
			if ev != "write" && ev != "delete" {
				continue
			}
			e = tr.Copy(e)
			k := tr.I(e, "k")
			keys[k] = true
			if ev == "write" {
				unch, err := sa.WriteVolumeNeedle(vid, mkNeedle(k, tr.S(e, "c"), tr.S(e, "d"), tr.S(e, "m")), false)
				e["unch"] = unch
				e["res"] = "ok"
				if err != nil {
					e["res"] = "err"
				}
			} else {
				n := new(needle.Needle)
				n.Id = types.NeedleId(k)
				n.Cookie = types.Cookie(cookies[tr.S(e, "c")])
				_, err := sa.DeleteVolumeNeedle(vid, n)
				e["res"] = "ok"
				if err != nil {
					e["res"] = "err"
				}
			}
			ds, is, _ := v.FileStat()
			e["dend"] = int(ds)
			e["iend"] = int(is) / types.NeedleMapEntrySize
			hist = append(hist, e)
		}
		datName, idxName := v.FileName(".dat"), v.FileName(".idx")
		sa.Close()
		dat, _ := ioutil.ReadFile(datName)
		idx, _ := ioutil.ReadFile(idxName)
		vif, vifErr := ioutil.ReadFile(v.FileName(".vif"))
		var klist []int
		for k := range keys {
			klist = append(klist, k)
		}
		nblocks := 0
		emitHead := func() {
			r := tr.Copy(ex[0])
			r["datlen"] = len(dat)
			w.Emit(r)
			for _, h := range hist {
				w.Emit(tr.Copy(h))
			}
			nblocks = 0
		}
		emitHead()
		off := int(o.Seed) % stride
		for d := 8 + off; d <= len(dat); d += stride {
			// index entries whose record is complete within d
			maxI := 0
			for _, h := range hist {
				if tr.I(h, "dend") <= d && tr.I(h, "iend") > maxI {
					maxI = tr.I(h, "iend")
				}
			}
			for i := 0; i <= maxI; i++ {
				if nblocks >= block {
					emitHead()
				}
				nblocks++
				dirB := filepath.Join(base, fmt.Sprintf("b%d", xi))
				os.RemoveAll(dirB)
				os.MkdirAll(dirB, 0755)
				ioutil.WriteFile(filepath.Join(dirB, filepath.Base(datName)), dat[:d], 0644)
				ioutil.WriteFile(filepath.Join(dirB, filepath.Base(idxName)), idx[:i*types.NeedleMapEntrySize], 0644)
				if vifErr == nil {
					ioutil.WriteFile(filepath.Join(dirB, filepath.Base(v.FileName(".vif"))), vif, 0644)
				}
				w.Emit(tr.Ev{"ev": "crash", "d": d, "i": i})
				var sb *storage.Store
				pan := tr.Guard(func() { sb = newStore(dirB) })
				re := tr.Ev{"ev": "reopen", "res": "ok", "ro": false}
				if pan != "" || sb == nil {
					re["res"] = "panic"
					w.Emit(re)
					continue
				}
				vb := sb.GetVolume(vid)
				if vb == nil {
					re["res"] = "err"
					w.Emit(re)
					sb.Close()
					continue
				}
				re["ro"] = vb.IsReadOnly()
				w.Emit(re)
				for _, k := range klist {
					w.Emit(readKey(sb, vid, k))
				}
				_, err := sb.WriteVolumeNeedle(vid, mkNeedle(99, "c1", "n", "m0"), false)
				wn := tr.Ev{"ev": "wnew", "res": "ok"}
				if err != nil {
					wn["res"] = "err"
				}
				w.Emit(wn)
				rn := readKey(sb, vid, 99)
				rn["ev"] = "rnew"
				w.Emit(rn)
				// everything else must still read the same after the new write
				for _, k := range klist {
					e := readKey(sb, vid, k)
					e["ev"] = "reread"
					w.Emit(e)
				}
				sb.Close()
			}
		}
		os.RemoveAll(dirA)
	}
	return w.evs
}
