// c14: runs the REAL master vacuum orchestration (topology.Topology.Vacuum) against scripted
// in-process volume_server_pb.VolumeServer gRPC endpoints and records, per execution,
//   - the writable list of the volume layout before and after the round,
//   - every vacuum RPC as it arrives at a replica (call) and as the replica answers (ret).
// The outcome of every RPC is dictated by the script (inputs); the driver has no opinion
// about what the master should do with it.
//
// reset fields: n (replicas 1..3), need (copy count of the replica placement), minok
// (replicationAsMin), large (volume reported at/above the size limit), ro (replica 1 reports
// read-only), with (1 = a bystander volume 2 lives on the same servers in the same layout, its
// garbage is always below the threshold), wait (seconds the driver waits for Vacuum to
// return), zfast (the master's compact timer is due at once, see fastLimit), s = [ {check, compact, commit, cleanup} per replica ] with outcomes
//   check:   hi | lo | err | timeout        compact: ok | err | timeout
//   commit:  ok | ro | err | timeout        cleanup: ok | err | timeout      ("na" = not expected)
// "timeout" = the handler does not answer until the execution is over.
// A further line {"ev":"round","s":[...]} calls Topology.Vacuum again on the same topology with new
// outcomes (meant for rounds without "timeout").
package main

import (
	"context"
	"errors"
	"fmt"
	"net"
	"os"
	"sort"
	"sync"
	"sync/atomic"
	"time"

	"google.golang.org/grpc"

	"github.com/chrislusf/seaweedfs/weed/pb"
	"github.com/chrislusf/seaweedfs/weed/pb/master_pb"
	"github.com/chrislusf/seaweedfs/weed/pb/volume_server_pb"
	"github.com/chrislusf/seaweedfs/weed/sequence"
	"github.com/chrislusf/seaweedfs/weed/storage/needle"
	"github.com/chrislusf/seaweedfs/weed/storage/super_block"
	"github.com/chrislusf/seaweedfs/weed/storage/types"
	"github.com/chrislusf/seaweedfs/weed/topology"

	"verifharness/tr"
)

const (
	sizeLimit = 1000 // bytes; timers in topology_vacuum.go become 1 min (check) and 3 min (compact)
	// zfast executions: with this volume size limit the compact wait of topology_vacuum.go,
	// 3*time.Minute*time.Duration(limit/1024/1024/1000+1), overflows int64 to a negative duration
	// (the timer is due at once) while the check wait, time.Minute*(same factor), stays positive
	// (~114 years): a compaction that does not answer immediately has "timed out" within microseconds.
	fastLimit = 59999999 * 1000 * 1024 * 1024
	theVid    = 1
	byVid     = 2
)

type exec struct {
	mu      sync.Mutex
	events  []tr.Ev
	closed  bool
	script  []map[string]string
	release chan struct{}
	inflight sync.WaitGroup
	vl      *topology.VolumeLayout
	hung    int32
}

func (ex *exec) setScript(v interface{}) {
	var sc []map[string]string
	for _, x := range tr.List(v) {
		m := map[string]string{}
		if mm, ok := x.(map[string]interface{}); ok {
			for k, v := range mm {
				m[k], _ = v.(string)
			}
		}
		sc = append(sc, m)
	}
	ex.mu.Lock()
	ex.script = sc
	ex.mu.Unlock()
}

func (ex *exec) outcome(r int, op string) string {
	ex.mu.Lock()
	defer ex.mu.Unlock()
	if r-1 < len(ex.script) {
		if o, ok := ex.script[r-1][op]; ok {
			return o
		}
	}
	return "na"
}

func (ex *exec) emit(e tr.Ev) {
	ex.mu.Lock()
	defer ex.mu.Unlock()
	if ex.closed {
		return
	}
	ex.events = append(ex.events, e)
}

// emitCall records the arrival of an RPC together with the number of writable volumes of the
// layout at that moment (read under the layout's own lock through an exported accessor).
func (ex *exec) emitCall(v uint32, r int, op string) {
	wc, _ := ex.vl.GetActiveVolumeCount(&topology.VolumeGrowOption{})
	ex.emit(tr.Ev{"ev": "call", "v": int(v), "r": r, "op": op, "wc": wc})
}

type fakeVS struct {
	volume_server_pb.UnimplementedVolumeServerServer
	r    int
	port int // HTTP port of the pretended volume server; gRPC listens on port+10000
	cur  atomic.Value
	srv  *grpc.Server
}

type holder struct{ ex *exec }

func (s *fakeVS) bind(ex *exec) { s.cur.Store(holder{ex}) }

func (s *fakeVS) handle(ctx context.Context, vid uint32, op string) (string, error) {
	h, _ := s.cur.Load().(holder)
	ex := h.ex
	if ex == nil {
		return "", errors.New("no execution bound")
	}
	ex.inflight.Add(1)
	defer ex.inflight.Done()
	out := "na"
	if vid == byVid {
		out = map[string]string{"check": "lo", "compact": "ok", "commit": "ok", "cleanup": "ok"}[op]
	} else {
		out = ex.outcome(s.r, op)
	}
	if out == "na" {
		out = map[string]string{"check": "lo", "compact": "ok", "commit": "ok", "cleanup": "ok"}[op]
	}
	ex.emitCall(vid, s.r, op)
	if out == "timeout" {
		atomic.AddInt32(&ex.hung, 1)
		t0 := time.Now()
		why := "released"
		select {
		case <-ex.release:
		case <-ctx.Done():
			why = "context: " + ctx.Err().Error()
		}
		fmt.Fprintf(os.Stderr, "c14: hung %s on replica %d ended after %.1fs (%s)\n", op, s.r, time.Since(t0).Seconds(), why)
		ex.emit(tr.Ev{"ev": "ret", "v": int(vid), "r": s.r, "op": op, "out": "hung"})
		return out, errors.New("scripted hang given up")
	}
	ex.emit(tr.Ev{"ev": "ret", "v": int(vid), "r": s.r, "op": op, "out": out})
	if out == "err" {
		return out, errors.New("scripted failure")
	}
	return out, nil
}

func (s *fakeVS) VacuumVolumeCheck(ctx context.Context, req *volume_server_pb.VacuumVolumeCheckRequest) (*volume_server_pb.VacuumVolumeCheckResponse, error) {
	out, err := s.handle(ctx, req.VolumeId, "check")
	if err != nil {
		return nil, err
	}
	ratio := 0.05
	if out == "hi" {
		ratio = 0.9
	}
	return &volume_server_pb.VacuumVolumeCheckResponse{GarbageRatio: ratio}, nil
}

func (s *fakeVS) VacuumVolumeCompact(ctx context.Context, req *volume_server_pb.VacuumVolumeCompactRequest) (*volume_server_pb.VacuumVolumeCompactResponse, error) {
	_, err := s.handle(ctx, req.VolumeId, "compact")
	if err != nil {
		return nil, err
	}
	return &volume_server_pb.VacuumVolumeCompactResponse{}, nil
}

func (s *fakeVS) VacuumVolumeCommit(ctx context.Context, req *volume_server_pb.VacuumVolumeCommitRequest) (*volume_server_pb.VacuumVolumeCommitResponse, error) {
	out, err := s.handle(ctx, req.VolumeId, "commit")
	if err != nil {
		return nil, err
	}
	return &volume_server_pb.VacuumVolumeCommitResponse{IsReadOnly: out == "ro"}, nil
}

func (s *fakeVS) VacuumVolumeCleanup(ctx context.Context, req *volume_server_pb.VacuumVolumeCleanupRequest) (*volume_server_pb.VacuumVolumeCleanupResponse, error) {
	_, err := s.handle(ctx, req.VolumeId, "cleanup")
	if err != nil {
		return nil, err
	}
	return &volume_server_pb.VacuumVolumeCleanupResponse{}, nil
}

// newFake starts a scripted volume server; the same server options as the real volume server
// (pb.NewGrpcServer: keep-alive enforcement) are used.
func newFake(r int) *fakeVS {
	for try := 0; try < 50; try++ {
		l, err := net.Listen("tcp", "127.0.0.1:0")
		if err != nil {
			continue
		}
		gp := l.Addr().(*net.TCPAddr).Port
		if gp <= 10000+1024 {
			l.Close()
			continue
		}
		s := &fakeVS{r: r, port: gp - 10000}
		s.srv = pb.NewGrpcServer()
		volume_server_pb.RegisterVolumeServerServer(s.srv, s)
		go s.srv.Serve(l)
		return s
	}
	tr.Fatal("cannot find a loopback port for a scripted volume server")
	return nil
}

type slot struct{ vs [3]*fakeVS }

func newSlot() *slot {
	sl := &slot{}
	for i := 0; i < 3; i++ {
		sl.vs[i] = newFake(i + 1)
	}
	return sl
}

func writables(vl *topology.VolumeLayout) []int {
	res := []int{}
	if ws, ok := vl.ToMap()["writables"].([]needle.VolumeId); ok {
		for _, v := range ws {
			res = append(res, int(v))
		}
	}
	sort.Ints(res)
	return res
}

func runExec(sl *slot, script []tr.Ev) []tr.Ev {
	reset := script[0]
	if tr.B(reset, "zfast") {
		// the master may return while compaction RPCs of its goroutines are still on their way:
		// such stragglers must not land in the next execution, so these executions get servers of
		// their own (a straggler then meets a closed execution and is not recorded)
		sl = newSlot()
		defer func() {
			for _, s := range sl.vs {
				s.srv.Stop()
			}
		}()
	}
	n := tr.I(reset, "n")
	if n < 1 || n > 3 {
		tr.Fatal("n out of range: %v", reset["n"])
	}
	copies := tr.I(reset, "need")
	deadline := tr.I(reset, "wait")
	if deadline <= 0 {
		deadline = 10
	}
	ex := &exec{release: make(chan struct{})}
	ex.setScript(reset["s"])
	ex.events = append(ex.events, reset)

	// a fresh master topology; data nodes join and report volumes the way
	// MasterServer.SendHeartbeat does (master_grpc_server.go): GetOrCreateDataCenter /
	// GetOrCreateRack / GetOrCreateDataNode, AdjustMaxVolumeCounts, SyncDataNodeRegistration.
	limit := uint64(sizeLimit)
	if tr.B(reset, "zfast") {
		if tr.B(reset, "large") {
			tr.Fatal("zfast and large cannot be combined")
		}
		limit = fastLimit
	}
	topo := topology.NewTopology("topo", sequence.NewMemorySequencer(), limit, 5, tr.B(reset, "minok"))
	// copy count = 1 + the digits of the placement "xyz" (each at most 2)
	rpBytes := map[int]uint32{1: 0, 2: 1, 3: 2, 4: 12, 5: 22}
	rpByte, known := rpBytes[copies]
	if !known {
		tr.Fatal("need out of range: %v", reset["need"])
	}
	rp, err := super_block.NewReplicaPlacementFromByte(byte(rpByte))
	if err != nil {
		tr.Fatal("replica placement: %v", err)
	}
	size := uint64(10)
	if tr.B(reset, "large") {
		size = sizeLimit * 2
	}
	for i := 0; i < n; i++ {
		dc := topo.GetOrCreateDataCenter("dc1")
		rack := dc.GetOrCreateRack("rack1")
		maxCounts := map[string]uint32{"": 10}
		dn := rack.GetOrCreateDataNode("127.0.0.1", sl.vs[i].port, "", maxCounts)
		dn.AdjustMaxVolumeCounts(maxCounts)
		vols := []*master_pb.VolumeInformationMessage{{
			Id: theVid, Size: size, ReplicaPlacement: rpByte, Version: uint32(needle.CurrentVersion),
			FileCount: 10, DeleteCount: 5, DeletedByteCount: 5, ReadOnly: tr.B(reset, "ro") && i == 0,
		}}
		if tr.I(reset, "with") == 1 {
			vols = append(vols, &master_pb.VolumeInformationMessage{
				Id: byVid, Size: 10, ReplicaPlacement: rpByte, Version: uint32(needle.CurrentVersion), FileCount: 3,
			})
		}
		topo.SyncDataNodeRegistration(vols, dn)
	}
	ex.vl = topo.GetVolumeLayout("", rp, needle.EMPTY_TTL, types.ToDiskType(""))
	for i := 0; i < 3; i++ {
		sl.vs[i].bind(ex)
	}
	ex.emit(tr.Ev{"ev": "pre", "w": writables(ex.vl)})

	var done chan string
	finished := true
	rounds := []tr.Ev{nil}
	for _, e := range script[1:] {
		if tr.S(e, "ev") == "round" {
			rounds = append(rounds, e)
		}
	}
	for _, rd := range rounds {
		if !finished {
			break // the previous call of Vacuum has not returned
		}
		if rd != nil {
			ex.setScript(rd["s"])
			ex.emit(rd)
		}
		done = make(chan string, 1)
		go func(done chan string) {
			done <- tr.Guard(func() { topo.Vacuum(grpc.WithInsecure(), 0.3, 0) })
		}(done)
		finished = false
		select {
		case p := <-done:
			finished = true
			if p != "" {
				ex.emit(tr.Ev{"ev": "panic", "msg": p})
			}
		case <-time.After(time.Duration(deadline) * time.Second):
		}
		ex.emit(tr.Ev{"ev": "post", "w": writables(ex.vl), "done": finished})
	}
	ex.mu.Lock()
	ex.closed = true
	evs := ex.events
	ex.mu.Unlock()
	close(ex.release)
	if !finished {
		select {
		case <-done:
		case <-time.After(30 * time.Second):
			tr.Fatal("Vacuum did not return even after all scripted hangs were released")
		}
	}
	ex.inflight.Wait()
	return evs
}

func main() {
	o := tr.ParseFlags()
	w := tr.NewWriter(o.Out)
	defer w.Close()
	execs := tr.ReadScript(o.Script)
	par := o.N
	if par <= 0 {
		par = 4
	}
	if par > len(execs) {
		par = len(execs)
	}
	var flush sync.Mutex
	var wg sync.WaitGroup
	jobs := make(chan []tr.Ev)
	t0 := time.Now()
	for k := 0; k < par; k++ {
		wg.Add(1)
		go func() {
			defer wg.Done()
			sl := newSlot()
			for sc := range jobs {
				evs := runExec(sl, sc)
				flush.Lock()
				for _, e := range evs {
					w.Emit(e)
				}
				flush.Unlock()
			}
			for _, s := range sl.vs {
				s.srv.Stop()
			}
		}()
	}
	for _, sc := range execs {
		jobs <- sc
	}
	close(jobs)
	wg.Wait()
	fmt.Fprintf(os.Stderr, "c14: %d executions, %d workers, %.1fs\n", len(execs), par, time.Since(t0).Seconds())
}
