// c35: executes add / delete / lookup scripts on the REAL wdclient vidMap (the
// volume location cache of MasterClient) and records what the lookups return.
// It holds no opinion about the results.
//
// Script lines (inputs only; results are added to the recorded line):
//
//	reset  dc (the client's data center), vids, locs=[{u,dc}] (the location universe)
//	add    v, u          addLocation(v, Location{Url:u, PublicUrl:u, DataCenter:dc(u)})
//	del    v, u          deleteLocation(v, Location{Url:u})   (a disconnect message carries no data center)
//	lookup v, api        api = urls (LookupVolumeServerUrl) | fileid (LookupFileId) | locs (GetLocations)
//	                     | vidlocs (GetVidLocations)                      -> found, list
//	hold   h, v          keep the slice returned by GetLocations(v) as h  -> found, list
//	(after every add/del the driver records  snap: every vid x api looked up,  and
//	 reread h: the contents of every held slice as the caller would read them now)
//	call   p, op, v, u, api    start of a concurrent operation; consecutive call lines form one
//	                           goroutine storm (one goroutine per p)     / ret p, found, list
package main

import (
	"bufio"
	"bytes"
	"fmt"
	"os"
	"os/exec"
	"regexp"
	"sort"
	"strconv"
	"strings"
	"sync"

	"github.com/chrislusf/seaweedfs/weed/wdclient"

	"verifharness/tr"
)

var apis = []string{"urls", "fileid", "locs", "vidlocs"}

// the four public read paths (vidMap methods, promoted by VerifVidMap and by MasterClient)
type lookuper interface {
	LookupVolumeServerUrl(vid string) ([]string, error)
	LookupFileId(fileId string) ([]string, error)
	GetLocations(vid uint32) ([]wdclient.Location, bool)
	GetVidLocations(vid string) ([]wdclient.Location, error)
}

type execution struct {
	vm     wdclient.VerifVidMap
	lk     lookuper
	dcOf   map[string]string
	vids   []int
	holds  map[int][]wdclient.Location
	horder []int

	mu     sync.Mutex
	events []tr.Ev
}

func (x *execution) log(e tr.Ev) {
	x.mu.Lock()
	x.events = append(x.events, e)
	x.mu.Unlock()
}

const fid = "0123456789ab"

func urlsOf(l []wdclient.Location) []string {
	r := make([]string, 0, len(l))
	for _, x := range l {
		r = append(r, x.Url)
	}
	return r
}

// lookup through one of the public read paths; list is never nil
func (x *execution) lookup(v int, api string) (bool, []string) {
	switch api {
	case "urls":
		us, err := x.lk.LookupVolumeServerUrl(strconv.Itoa(v))
		if err != nil {
			return false, []string{}
		}
		return true, append([]string{}, us...)
	case "fileid":
		f := strconv.Itoa(v) + "," + fid
		us, err := x.lk.LookupFileId(f)
		if err != nil {
			return false, []string{}
		}
		r := make([]string, 0, len(us))
		for _, u := range us {
			// "http://" + url + "/" + fileId ; anything else is recorded as it is
			if strings.HasPrefix(u, "http://") && strings.HasSuffix(u, "/"+f) {
				u = u[len("http://") : len(u)-len(f)-1]
			}
			r = append(r, u)
		}
		return true, r
	case "locs":
		l, found := x.lk.GetLocations(uint32(v))
		return found, urlsOf(l)
	case "vidlocs":
		l, err := x.lk.GetVidLocations(strconv.Itoa(v))
		if err != nil {
			return false, []string{}
		}
		return true, urlsOf(l)
	}
	tr.Fatal("unknown api %q", api)
	return false, nil
}

func (x *execution) mutate(op string, v int, u string) {
	switch op {
	case "add":
		x.vm.Add(uint32(v), wdclient.Location{Url: u, PublicUrl: u, DataCenter: x.dcOf[u]})
	case "del":
		x.vm.Delete(uint32(v), wdclient.Location{Url: u})
	default:
		tr.Fatal("unknown mutation %q", op)
	}
}

func (x *execution) probes() {
	var res []tr.Ev
	for _, v := range x.vids {
		for _, a := range apis {
			found, list := x.lookup(v, a)
			res = append(res, tr.Ev{"v": v, "api": a, "found": found, "list": list})
		}
	}
	x.log(tr.Ev{"ev": "snap", "res": res})
	for _, h := range x.horder {
		x.log(tr.Ev{"ev": "reread", "h": h, "list": urlsOf(x.holds[h])})
	}
}

func (x *execution) callOp(e tr.Ev) {
	p, op, v, u, api := tr.I(e, "p"), tr.S(e, "op"), tr.I(e, "v"), tr.S(e, "u"), tr.S(e, "api")
	x.log(tr.Ev{"ev": "call", "p": p, "op": op, "v": v, "u": u, "api": api})
	found, list := false, []string{}
	pan := tr.Guard(func() {
		if op == "lookup" {
			found, list = x.lookup(v, api)
		} else {
			x.mutate(op, v, u)
		}
	})
	if pan != "" {
		x.log(tr.Ev{"ev": "panic", "p": p, "msg": pan})
		return
	}
	x.log(tr.Ev{"ev": "ret", "p": p, "found": found, "list": list})
}

func (x *execution) storm(calls []tr.Ev) {
	byP := map[int][]tr.Ev{}
	var order []int
	for _, c := range calls {
		p := tr.I(c, "p")
		if _, ok := byP[p]; !ok {
			order = append(order, p)
		}
		byP[p] = append(byP[p], c)
	}
	var wg sync.WaitGroup
	gun := make(chan struct{})
	for _, p := range order {
		wg.Add(1)
		go func(ops []tr.Ev) {
			defer wg.Done()
			<-gun
			for _, c := range ops {
				x.callOp(c)
			}
		}(byP[p])
	}
	close(gun)
	wg.Wait()
}

func runExec(ex []tr.Ev, w *tr.Writer) {
	r := ex[0]
	if tr.B(r, "mc") {
		runMcExec(ex, w)
		return
	}
	x := &execution{vm: wdclient.VerifNewVidMap(tr.S(r, "dc")), dcOf: map[string]string{}, holds: map[int][]wdclient.Location{}}
	x.lk = x.vm
	for _, l := range tr.List(r["locs"]) {
		lm, _ := l.(map[string]interface{})
		u, _ := lm["u"].(string)
		dc, _ := lm["dc"].(string)
		x.dcOf[u] = dc
	}
	x.vids = tr.Ints(r["vids"])
	x.events = append(x.events, tr.Copy(r))
	i := 1
	for i < len(ex) {
		e := ex[i]
		switch tr.S(e, "ev") {
		case "ret", "panic", "snap", "reread", "race":
			i++
			continue
		case "call":
			var calls []tr.Ev
			for i < len(ex) {
				k := tr.S(ex[i], "ev")
				if k == "ret" || k == "panic" {
					i++
					continue
				}
				if k != "call" {
					break
				}
				calls = append(calls, ex[i])
				i++
			}
			x.storm(calls)
			x.probes()
			continue
		}
		rec := tr.Copy(e)
		pan := tr.Guard(func() {
			switch tr.S(e, "ev") {
			case "add", "del":
				x.mutate(tr.S(e, "ev"), tr.I(e, "v"), tr.S(e, "u"))
			case "lookup":
				rec["found"], rec["list"] = x.lookup(tr.I(e, "v"), tr.S(e, "api"))
			case "hold":
				l, found := x.vm.GetLocations(uint32(tr.I(e, "v")))
				h := tr.I(e, "h")
				if _, ok := x.holds[h]; !ok {
					x.horder = append(x.horder, h)
				}
				x.holds[h] = l
				rec["found"], rec["list"] = found, urlsOf(l)
			default:
				tr.Fatal("unknown op %v", e["ev"])
			}
		})
		if pan != "" {
			x.log(tr.Ev{"ev": "panic", "p": 0, "msg": pan})
			break
		}
		x.log(rec)
		if k := tr.S(e, "ev"); k == "add" || k == "del" {
			x.probes()
		}
		i++
	}
	for _, e := range x.events {
		w.Emit(e)
	}
}

var raceFn = regexp.MustCompile(`^\s+([A-Za-z0-9_./]+\.\(?\*?[A-Za-z0-9_]+\)?\.[A-Za-z0-9_]+|[A-Za-z0-9_./]+\.[A-Za-z0-9_]+)\(`)

// parent mode for race builds: run the script in a child process, copy its trace, and record
// every distinct data race report as an execution {reset, race funcs=[functions of weed/ on the stacks]}.
func runChild(o *tr.Opts) {
	tmp := o.Out + ".child"
	cmd := exec.Command(os.Args[0], "--script", o.Script, "--out", tmp, "--mode", "child")
	cmd.Env = append(os.Environ(), "GORACE=halt_on_error=0 exitcode=0")
	var stderr bytes.Buffer
	cmd.Stderr = &stderr
	if err := cmd.Run(); err != nil {
		fmt.Fprintln(os.Stderr, stderr.String())
		tr.Fatal("child: %v", err)
	}
	w := tr.NewWriter(o.Out)
	defer w.Close()
	for _, ex := range tr.ReadScript(tmp) {
		for _, e := range ex {
			w.Emit(e)
		}
	}
	os.Remove(tmp)
	seen := map[string]bool{}
	for _, rep := range strings.Split(stderr.String(), "WARNING: DATA RACE")[1:] {
		fset := map[string]bool{}
		sc := bufio.NewScanner(strings.NewReader(rep))
		for sc.Scan() {
			if mm := raceFn.FindStringSubmatch(sc.Text()); mm != nil && strings.Contains(mm[1], "seaweedfs/weed/") {
				fset[mm[1][strings.Index(mm[1], "weed/"):]] = true
			}
		}
		var fns []string
		for f := range fset {
			fns = append(fns, f)
		}
		sort.Strings(fns)
		sig := strings.Join(fns, " ")
		if seen[sig] {
			continue
		}
		seen[sig] = true
		w.Emit(tr.Ev{"ev": "reset", "dc": "", "vids": []int{}, "locs": []string{}})
		w.Emit(tr.Ev{"ev": "race", "funcs": fns})
	}
}

func main() {
	o := tr.ParseFlags()
	if o.Mode == "race" {
		runChild(o)
		return
	}
	w := tr.NewWriter(o.Out)
	defer w.Close()
	for _, ex := range tr.ReadScript(o.Script) {
		runExec(ex, w)
	}
}
