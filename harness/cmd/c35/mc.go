package main

// The public path: a real wdclient.MasterClient connected (gRPC KeepConnected) to a
// stand-in master that streams VolumeLocation messages. Script lines as for the
// vidMap executions (reset has "mc": true), plus
//   reconnect order=fwd|rev   the master drops the stream; the client reconnects by itself
//                             and the master sends its whole registry again (as the real
//                             master does with Topo.ToVolumeLocations), in the given order
// A barrier volume id is added after every message and polled for, so that the driver
// knows when the client has applied it.
import (
	"errors"
	"fmt"
	"net"
	"sync"
	"time"

	"google.golang.org/grpc"

	"github.com/chrislusf/seaweedfs/weed/pb/master_pb"
	"github.com/chrislusf/seaweedfs/weed/wdclient"

	"verifharness/tr"
)

type conn struct {
	out  chan *master_pb.VolumeLocation
	drop chan struct{}
}

type standin struct {
	master_pb.UnimplementedSeaweedServer
	mu        sync.Mutex
	cur       *conn
	connected chan *conn
}

func (s *standin) KeepConnected(stream master_pb.Seaweed_KeepConnectedServer) error {
	if _, err := stream.Recv(); err != nil {
		return err
	}
	c := &conn{out: make(chan *master_pb.VolumeLocation, 256), drop: make(chan struct{})}
	s.mu.Lock()
	s.cur = c
	s.mu.Unlock()
	s.connected <- c
	for {
		select {
		case m := <-c.out:
			if err := stream.Send(m); err != nil {
				return err
			}
		case <-c.drop:
			return errors.New("stream dropped by the stand-in master")
		case <-stream.Context().Done():
			return nil
		}
	}
}

type regEntry struct {
	v int
	u string
}

type mcExec struct {
	x       *execution
	srv     *grpc.Server
	st      *standin
	c       *conn
	mc      *wdclient.MasterClient
	reg     []regEntry // the master's registry, in registration order
	barrier uint32
}

func freeMasterPort() (int, net.Listener) {
	for i := 0; i < 200; i++ {
		l, err := net.Listen("tcp", "127.0.0.1:0")
		if err != nil {
			continue
		}
		p := l.Addr().(*net.TCPAddr).Port
		l.Close()
		if p+10000 > 65535 {
			continue
		}
		gl, err := net.Listen("tcp", fmt.Sprintf("127.0.0.1:%d", p+10000))
		if err != nil {
			continue
		}
		return p, gl
	}
	tr.Fatal("no free port pair")
	return 0, nil
}

func (m *mcExec) waitConn() {
	select {
	case c := <-m.st.connected:
		m.c = c
	case <-time.After(20 * time.Second):
		tr.Fatal("master client did not connect")
	}
}

func (m *mcExec) sync() {
	m.barrier++
	bv := 900000 + m.barrier
	m.c.out <- &master_pb.VolumeLocation{Url: "barrier", PublicUrl: "barrier", NewVids: []uint32{bv}}
	deadline := time.Now().Add(20 * time.Second)
	for {
		if _, found := m.mc.GetLocations(bv); found {
			return
		}
		if time.Now().After(deadline) {
			tr.Fatal("barrier %d not applied", bv)
		}
		time.Sleep(200 * time.Microsecond)
	}
}

func (m *mcExec) send(v int, u string, add bool) {
	msg := &master_pb.VolumeLocation{Url: u, PublicUrl: u}
	if add {
		msg.DataCenter = m.x.dcOf[u]
		msg.NewVids = []uint32{uint32(v)}
	} else {
		msg.DeletedVids = []uint32{uint32(v)}
	}
	m.c.out <- msg
}

func runMcExec(ex []tr.Ev, w *tr.Writer) {
	r := ex[0]
	x := &execution{dcOf: map[string]string{}, holds: map[int][]wdclient.Location{}}
	for _, l := range tr.List(r["locs"]) {
		lm, _ := l.(map[string]interface{})
		u, _ := lm["u"].(string)
		dc, _ := lm["dc"].(string)
		x.dcOf[u] = dc
	}
	x.vids = tr.Ints(r["vids"])
	port, gl := freeMasterPort()
	m := &mcExec{x: x, st: &standin{connected: make(chan *conn, 4)}, srv: grpc.NewServer()}
	master_pb.RegisterSeaweedServer(m.srv, m.st)
	go m.srv.Serve(gl)
	defer m.srv.Stop()
	m.mc = wdclient.NewMasterClient(grpc.WithInsecure(), "verif", "127.0.0.1", 0, tr.S(r, "dc"), []string{fmt.Sprintf("127.0.0.1:%d", port)})
	x.lk = m.mc
	go m.mc.KeepConnectedToMaster()
	m.waitConn()
	m.sync()
	x.events = append(x.events, tr.Copy(r))
	for _, e := range ex[1:] {
		rec := tr.Copy(e)
		switch tr.S(e, "ev") {
		case "snap", "reread", "ret", "panic", "race":
			continue
		case "add":
			v, u := tr.I(e, "v"), tr.S(e, "u")
			present := false
			for _, g := range m.reg {
				if g.v == v && g.u == u {
					present = true
				}
			}
			if !present {
				m.reg = append(m.reg, regEntry{v, u})
			}
			m.send(v, u, true)
			m.sync()
		case "del":
			v, u := tr.I(e, "v"), tr.S(e, "u")
			for i, g := range m.reg {
				if g.v == v && g.u == u {
					m.reg = append(append([]regEntry{}, m.reg[:i]...), m.reg[i+1:]...)
					break
				}
			}
			m.send(v, u, false)
			m.sync()
		case "lookup":
			rec["found"], rec["list"] = x.lookup(tr.I(e, "v"), tr.S(e, "api"))
			x.log(rec)
			continue
		case "reconnect":
			close(m.c.drop)
			m.waitConn()
			if tr.S(e, "order") == "rev" {
				for i := len(m.reg) - 1; i >= 0; i-- {
					m.send(m.reg[i].v, m.reg[i].u, true)
				}
			} else {
				for _, g := range m.reg {
					m.send(g.v, g.u, true)
				}
			}
			m.sync()
		default:
			tr.Fatal("unknown op %v in a master client execution", e["ev"])
		}
		x.log(rec)
		x.probes()
	}
	for _, e := range x.events {
		w.Emit(e)
	}
}
