// c10: builds a real topology.Topology from the reset line (through the calls
// SendHeartbeat makes: GetOrCreateDataCenter/Rack/DataNode, AdjustMaxVolumeCounts,
// SyncDataNodeRegistration, SyncDataNodeEcShards, UnRegisterDataNode) and runs the
// placement step of volume growth (findEmptySlotsForOneVolume through the verif
// hook) for every "grow" line, after seeding the global math/rand the step uses.
// Records the returned servers or that an error came back. No verdicts here.
package main

import (
	"flag"
	"fmt"
	"math/rand"
	"os"
	"sort"
	"strings"

	"github.com/chrislusf/seaweedfs/weed/pb/master_pb"
	"github.com/chrislusf/seaweedfs/weed/sequence"
	"github.com/chrislusf/seaweedfs/weed/storage/erasure_coding"
	"github.com/chrislusf/seaweedfs/weed/storage/needle"
	"github.com/chrislusf/seaweedfs/weed/storage/super_block"
	"github.com/chrislusf/seaweedfs/weed/storage/types"
	"github.com/chrislusf/seaweedfs/weed/topology"

	"verifharness/tr"
)

const port = 8080

var realStderr = os.Stderr

func fatal(f string, a ...interface{}) {
	fmt.Fprintf(realStderr, "driver: "+f+"\n", a...)
	os.Exit(3)
}

func rec(v interface{}) tr.Ev {
	m, _ := v.(map[string]interface{})
	return m
}

func nodeName(id string) string {
	if i := strings.LastIndex(id, ":"); i >= 0 {
		return id[:i]
	}
	return id
}

type world struct {
	topo  *topology.Topology
	live  map[string]*topology.DataNode
	types map[string]bool
}

// build feeds, per server, one full volume heartbeat and one full ec heartbeat (the start of a
// heartbeat stream); a "gone" server's stream breaks afterwards.
func build(r tr.Ev) *world {
	w := &world{live: map[string]*topology.DataNode{}, types: map[string]bool{}}
	t := topology.NewTopology("topo", sequence.NewMemorySequencer(), 1000, 5, false)
	w.topo = t
	nextVid := uint32(1)
	for _, x := range tr.List(r["nodes"]) {
		n := rec(x)
		name := tr.S(n, "id")
		hb := &master_pb.Heartbeat{Ip: name, Port: port, PublicUrl: name, DataCenter: tr.S(n, "dc"), Rack: tr.S(n, "rack"),
			MaxVolumeCounts: map[string]uint32{}}
		echb := &master_pb.Heartbeat{}
		for _, y := range tr.List(n["disks"]) {
			d := rec(y)
			dt := tr.S(d, "t")
			w.types[dt] = true
			hb.MaxVolumeCounts[dt] = uint32(tr.I(d, "max"))
			for i := 0; i < tr.I(d, "vc"); i++ {
				m := &master_pb.VolumeInformationMessage{Id: nextVid, Collection: "", ReplicaPlacement: 0,
					Version: uint32(needle.CurrentVersion), DiskType: dt, Size: 10}
				if i < tr.I(d, "rem") {
					m.RemoteStorageName = "s3.default"
					m.RemoteStorageKey = "k"
				}
				nextVid++
				hb.Volumes = append(hb.Volumes, m)
			}
			for left := tr.I(d, "ec"); left > 0; {
				k := left
				if k > erasure_coding.TotalShardsCount {
					k = erasure_coding.TotalShardsCount
				}
				var bits erasure_coding.ShardBits
				for b := 0; b < k; b++ {
					bits = bits.AddShardId(erasure_coding.ShardId(b))
				}
				echb.EcShards = append(echb.EcShards, &master_pb.VolumeEcShardInformationMessage{Id: nextVid, EcIndexBits: uint32(bits), DiskType: dt})
				nextVid++
				left -= k
			}
		}
		hb.HasNoVolumes = len(hb.Volumes) == 0
		echb.HasNoEcShards = len(echb.EcShards) == 0
		// the body of SendHeartbeat for the first two messages of a stream
		dcName, rackName := t.Configuration.Locate(hb.Ip, hb.DataCenter, hb.Rack)
		dn := t.GetOrCreateDataCenter(dcName).GetOrCreateRack(rackName).GetOrCreateDataNode(hb.Ip, int(hb.Port), hb.PublicUrl, hb.MaxVolumeCounts)
		dn.AdjustMaxVolumeCounts(hb.MaxVolumeCounts)
		t.SyncDataNodeRegistration(hb.Volumes, dn)
		dn.AdjustMaxVolumeCounts(echb.MaxVolumeCounts)
		t.SyncDataNodeEcShards(echb.EcShards, dn)
		if tr.B(n, "gone") {
			t.UnRegisterDataNode(dn)
		} else {
			w.live[name] = dn
		}
	}
	return w
}

func (w *world) topoEvent() tr.Ev {
	avail := []interface{}{}
	var names []string
	for n := range w.live {
		names = append(names, n)
	}
	sort.Strings(names)
	var dts []string
	for t := range w.types {
		dts = append(dts, t)
	}
	sort.Strings(dts)
	for _, n := range names {
		for _, dt := range dts {
			avail = append(avail, tr.Ev{"id": n, "t": dt,
				"free": int(w.live[n].AvailableSpaceFor(&topology.VolumeGrowOption{DiskType: types.ToDiskType(dt)}))})
		}
	}
	return tr.Ev{"ev": "topo", "avail": avail}
}

func (w *world) grow(e tr.Ev) {
	rp := tr.Ints(e["rp"])
	if len(rp) != 3 {
		fatal("bad rp %v", e["rp"])
	}
	opt := &topology.VolumeGrowOption{
		ReplicaPlacement: &super_block.ReplicaPlacement{DiffDataCenterCount: rp[0], DiffRackCount: rp[1], SameRackCount: rp[2]},
		DiskType:         types.ToDiskType(tr.S(e, "disk")),
		DataCenter:       tr.S(e, "pdc"),
		Rack:             tr.S(e, "prack"),
	}
	if pn := tr.S(e, "pnode"); pn != "" {
		opt.DataNode = fmt.Sprintf("%s:%d", pn, port)
	}
	rand.Seed(int64(tr.I(e, "seed")))
	servers, err := topology.VerifFindEmptySlots(w.topo, opt)
	names := []string{}
	if err == nil {
		for _, s := range servers {
			names = append(names, nodeName(string(s.Id())))
		}
	}
	e["err"] = err != nil
	e["servers"] = names
}

func main() {
	o := tr.ParseFlags()
	out := tr.NewWriter(o.Out)
	defer out.Close()
	script := tr.ReadScript(o.Script)
	flag.Set("logtostderr", "true")
	if dn, err := os.OpenFile(os.DevNull, os.O_WRONLY, 0); err == nil {
		os.Stderr = dn
	}
	for _, ex := range script {
		var w *world
		if pan := tr.Guard(func() { w = build(ex[0]) }); pan != "" {
			fatal("building the topology panicked: %s", pan)
		}
		out.Emit(ex[0])
		out.Emit(w.topoEvent())
		for _, e := range ex[1:] {
			k := tr.S(e, "ev")
			if k == "topo" || k == "panic" {
				continue
			}
			if k != "grow" {
				fatal("unknown op %v", e["ev"])
			}
			if pan := tr.Guard(func() { w.grow(e) }); pan != "" {
				out.Emit(tr.Ev{"ev": "panic", "op": e, "msg": pan})
				break
			}
			out.Emit(e)
		}
	}
}
