package main

import (
	"fmt"
	"os"

	"github.com/chrislusf/seaweedfs/weed/pb/master_pb"
	"github.com/chrislusf/seaweedfs/weed/storage/backend"
	"github.com/chrislusf/seaweedfs/weed/storage/needle"
	"github.com/chrislusf/seaweedfs/weed/storage/super_block"
)

func main() {
	for _, s := range []string{"300m", "5x", "256d", "-1h", "+5m", "007m", "5", "0d", "m", "", "1.5h", " 5m", "5 m", "255y", "5mm"} {
		t, err := needle.ReadTTL(s)
		fmt.Printf("ReadTTL(%q) = %+v %q err=%v\n", s, *t, t.String(), err)
	}
	for _, s := range []string{"0012", "", "01", "1", "003", "00a", "2222", "22222222"} {
		rp, err := super_block.NewReplicaPlacementFromString(s)
		fmt.Printf("RP(%q) = %+v err=%v\n", s, rp, err)
	}
	for _, s := range []string{"4294967297,01deadbeef", "3,deadbeef", "3,01DEADBEEF", "3,1deadbeef", "3,01deadbeef_2", "03,01deadbeef", "3,0000000000000001deadbeef", "3,000000000000000001deadbeef", "+3,01deadbeef", "3,+1deadbeef", "3,01+eadbeef"} {
		f, err := needle.ParseFileIdFromString(s)
		fmt.Printf("Fid(%q) = %v err=%v\n", s, f, err)
	}
	fmt.Println(needle.NewFileId(3, 0, 0x12345678).String(), needle.NewFileId(3, 256, 1).String())
	sb := super_block.SuperBlock{Version: 3, ReplicaPlacement: &super_block.ReplicaPlacement{}, Ttl: needle.EMPTY_TTL, CompactionRevision: 7,
		Extra: &master_pb.SuperBlockExtra{ErasureCoding: &master_pb.SuperBlockExtra_ErasureCoding{Data: 10, Parity: 4, VolumeIds: []uint32{1, 2}}}}
	b := sb.Bytes()
	fmt.Println(b)
	f, _ := os.CreateTemp("", "sb")
	defer os.Remove(f.Name())
	f.Write(b)
	df := backend.NewDiskFile(f)
	r, err := super_block.ReadSuperBlock(df)
	fmt.Printf("%+v err=%v\n", r, err)
}
