// c33: client-side compression / encryption transparency and decompression robustness.
//
// Executes scripts against the REAL client code paths with a real volume server (mini-cluster kit):
//   upload{id,fn,ext,mime,size,kind,cipher,gzin}  -> operation.UploadData / operation.Upload
//   fetch{id,via,rng}                              -> util.ReadUrlAsStream / util.ReadUrl / util.Get /
//                                                     filer.StreamContent / filer.ChunkReadAt (chunk view path)
//   put{id,fn,ext,mime,size,kind,gzin,md5,nameat}  -> the same bytes through a raw HTTP request to the volume
//                                                     server: fn=Put (body = data, Content-Type / Content-Encoding /
//                                                     Content-MD5 request headers) or fn=Multipart (hand-made form:
//                                                     file name in the part / nowhere / only an extension in the URL /
//                                                     a form field first and the file in the second part)
//   fetch via rcloser|download|head                -> util.ReadUrlAsReaderCloser (with and without a range header),
//                                                     operation.LookupFileId (util.Post) + util.DownloadFile, util.Head
//   store{id,case,i}                               -> a (possibly malformed) gzip stream stored flagged
//                                                     as compressed through the volume server's POST handler
//   decomp{fn,base,case,i}                         -> util.DecompressData / MaybeDecompressData / GzipData /
//                                                     MaybeGzipData on structurally corrupted streams
// Every call runs under tr.Guard: a panic of the code under test is recorded as event "panic".
// The driver only compares bytes for identity (which segment of which known byte string came back);
// what is admissible is decided by the TLA+ judge (TransparentTrace).
package main

import (
	"bytes"
	"compress/gzip"
	"crypto/md5"
	"encoding/base64"
	"encoding/json"
	"fmt"
	"io"
	"io/ioutil"
	"math/rand"
	"mime/multipart"
	"net/http"
	"net/textproto"
	"net/url"
	"path"
	"strconv"
	"strings"
	"sync/atomic"
	"time"

	"github.com/chrislusf/seaweedfs/weed/filer"
	"github.com/chrislusf/seaweedfs/weed/operation"
	"github.com/chrislusf/seaweedfs/weed/pb/filer_pb"
	"github.com/chrislusf/seaweedfs/weed/storage/needle"
	"github.com/chrislusf/seaweedfs/weed/util"
	"github.com/chrislusf/seaweedfs/weed/util/chunk_cache"
	"github.com/chrislusf/seaweedfs/weed/wdclient"

	"verifharness/cluster"
	"verifharness/tr"
)

// the volume server of this driver accepts uploads of at most limitMB MiB
const limitMB = 1

var sizes = map[string]int{"s0": 0, "s1": 1, "s100": 100, "s16k": 16 * 1024, "s16k1": 16*1024 + 1, "s70k": 70000, "s300k": 300000,
	"s1m": limitMB << 20, "s1m1": limitMB<<20 + 1, "s1m2": limitMB<<20 + 2}

var exts = map[string]string{"none": "", "txt": "notes.txt", "jpg": "photo.jpg", "gz": "archive.gz", "dottxt": ".txt",
	"json": "data.json", "weird": `a "b" \c ü.dat`, "path": "dir/sub/page.html"}

var mimeTypes = map[string]string{"none": "", "text": "text/plain", "image": "image/png", "json": "application/json",
	"octet": "application/octet-stream", "xml": "application/xml", "gzip": "application/gzip",
	"form": "application/x-www-form-urlencoded", "jpeg": "image/jpeg"}

func genData(kind string, n int, seed int64) []byte {
	b := make([]byte, 0, n+64)
	switch kind {
	case "text":
		for i := 0; len(b) < n; i++ {
			b = append(b, []byte(fmt.Sprintf("line %d: the quick brown fox jumps over the lazy dog\n", i+int(seed)))...)
		}
	case "zeros":
		b = make([]byte, n)
	case "html":
		b = append(b, []byte("<html><head><title>t</title></head><body>")...)
		for i := 0; len(b) < n; i++ {
			b = append(b, []byte(fmt.Sprintf("<p>paragraph %d</p>", i))...)
		}
	default: // rand, gzprefix, gzhdr
		b = make([]byte, n)
		rand.New(rand.NewSource(seed)).Read(b)
		if kind == "gzprefix" && n >= 2 {
			b[0], b[1] = 0x1f, 0x8b
			if n >= 3 {
				b[2] = 0x00 // not the deflate method: an invalid gzip header
			}
		}
		if kind == "gzhdr" {
			copy(b, []byte{0x1f, 0x8b, 0x08, 0x00, 0, 0, 0, 0, 0x00, 0xff}) // valid header, garbage body
		}
	}
	return b[:n]
}

func stdGzip(b []byte) []byte {
	var zb bytes.Buffer
	zw := gzip.NewWriter(&zb)
	zw.Write(b)
	zw.Close()
	return zb.Bytes()
}

type upl struct {
	fid    string
	url    string
	name   string // the file name given to the upload ("" = none)
	tried  bool   // a raw request was sent: fetches are attempted whatever the answer was
	field  []byte // the value of the form field sent in front of the file part
	data   []byte // what the caller handed to the upload function
	clear  []byte // the bytes a reader is entitled to: data, or gunzip(data) for declared-compressed input
	stored []byte
	res    *operation.UploadResult
	ok     bool
}

type lookup struct{ base string }

func (l lookup) GetLookupFileIdFunction() wdclient.LookupFileIdFunctionType {
	return func(fileId string) ([]string, error) { return []string{"http://" + l.base + "/" + fileId}, nil }
}

type runner struct {
	c    *cluster.Cluster
	vid  uint32
	url  string
	next *uint64
	ups  map[int]*upl
	seed int64
}

func (r *runner) newFid() string {
	k := atomic.AddUint64(r.next, 1)
	return needle.NewFileId(needle.VolumeId(r.vid), k, 0x5a5a5a5a).String()
}

// seg describes fetched bytes relative to the known byte strings of the upload (identity only).
func seg(u *upl, got []byte, off int) tr.Ev {
	if off >= 0 && off+len(got) <= len(u.clear) && bytes.Equal(got, u.clear[off:off+len(got)]) {
		return tr.Ev{"src": "d", "off": off, "len": len(got)}
	}
	if len(got) <= len(u.clear) && bytes.Equal(got, u.clear[:len(got)]) {
		return tr.Ev{"src": "d", "off": 0, "len": len(got)}
	}
	if i := bytes.Index(u.clear, got); i >= 0 && len(got) > 0 {
		return tr.Ev{"src": "d", "off": i, "len": len(got)}
	}
	if len(u.field) > 0 && bytes.Equal(got, u.field) {
		return tr.Ev{"src": "field", "off": 0, "len": len(got)}
	}
	if u.data != nil && !bytes.Equal(u.data, u.clear) {
		if i := bytes.Index(u.data, got); i >= 0 && len(got) > 0 {
			return tr.Ev{"src": "asgiven", "off": i, "len": len(got)}
		}
	}
	if z, err := util.GzipData(u.clear); err == nil {
		if i := bytes.Index(z, got); i >= 0 && len(got) > 0 {
			return tr.Ev{"src": "gz", "off": i, "len": len(got)}
		}
	}
	return tr.Ev{"src": "other", "off": 0, "len": len(got)}
}

func (r *runner) upload(e tr.Ev) {
	id := tr.I(e, "id")
	n := sizes[tr.S(e, "size")]
	d := genData(tr.S(e, "kind"), n, r.seed+int64(id))
	u := &upl{fid: r.newFid(), data: d, clear: d}
	u.url = "http://" + r.url + "/" + u.fid
	gzin := tr.B(e, "gzin")
	e["validgz"] = true
	if gzin {
		switch tr.S(e, "kind") {
		case "gzprefix", "gzhdr":
			// the caller declares compressed input that is not a gzip stream: nothing to be transparent about
			e["validgz"] = false
		default:
			u.data = stdGzip(d)
			if mm, _ := e["mm"].(bool); mm && len(d) >= 3 {
				// the same bytes as a gzip file of three members
				a, b := len(d)/3, 2*len(d)/3
				u.data = append(append(stdGzip(d[:a]), stdGzip(d[a:b])...), stdGzip(d[b:])...)
			}
		}
	}
	e["len"] = len(u.clear)
	e["res"] = "err"
	e["gzip"] = false
	e["haskey"] = false
	e["rsize"] = 0
	r.ups[id] = u
	var res *operation.UploadResult
	var err error
	name, mt := exts[tr.S(e, "ext")], mimeTypes[tr.S(e, "mime")]
	u.name = name
	if tr.S(e, "fn") == "Upload" {
		res, err, _ = operation.Upload(u.url, name, tr.B(e, "cipher"), bytes.NewReader(u.data), gzin, mt, nil, "")
	} else {
		res, err = operation.UploadData(u.url, name, tr.B(e, "cipher"), u.data, gzin, mt, nil, "")
	}
	if err != nil || res == nil || res.Error != "" {
		return
	}
	u.res, u.ok = res, true
	e["res"] = "ok"
	e["gzip"] = res.Gzip > 0
	e["haskey"] = len(res.CipherKey) > 0
	e["rsize"] = int(res.Size)
}

func md5b64(b []byte) string {
	h := md5.Sum(b)
	return base64.StdEncoding.EncodeToString(h[:])
}

// put: the bytes enter through a raw HTTP request, the way curl, a browser form or another program's HTTP client
// sends them. Everything the server answered is recorded; fetches are attempted whatever the answer was.
func (r *runner) put(e tr.Ev) {
	id := tr.I(e, "id")
	n := sizes[tr.S(e, "size")]
	d := genData(tr.S(e, "kind"), n, r.seed+int64(id))
	u := &upl{fid: r.newFid(), data: d, clear: d, tried: true}
	gzin := tr.B(e, "gzin")
	e["validgz"] = true
	if gzin {
		switch tr.S(e, "kind") {
		case "gzprefix", "gzhdr":
			e["validgz"] = false
		default:
			u.data = stdGzip(d)
		}
	}
	e["len"] = len(u.clear)
	e["status"] = 0
	e["rsize"] = 0
	e["rname"] = ""
	e["rmd5"] = "none"
	e["msg"] = ""
	r.ups[id] = u
	name, mt := exts[tr.S(e, "ext")], mimeTypes[tr.S(e, "mime")]
	nameat := tr.S(e, "nameat")
	u.url = "http://" + r.url + "/" + u.fid
	target := u.url
	if nameat == "url" {
		// on upload the URL can only carry an extension; on download a whole file name
		target = u.url + path.Ext(name)
		u.url = "http://" + r.url + "/" + strings.Replace(u.fid, ",", "/", 1) + "/" + url.PathEscape(name)
		u.name = name
	}
	sum := ""
	switch tr.S(e, "md5") {
	case "right":
		sum = md5b64(u.clear)
	case "wrong":
		sum = md5b64(append(append([]byte{}, u.clear...), 'x'))
	case "wire":
		sum = md5b64(u.data)
	}
	var req *http.Request
	if tr.S(e, "fn") == "Put" {
		req, _ = http.NewRequest("PUT", target, bytes.NewReader(u.data))
		if mt != "" {
			req.Header.Set("Content-Type", mt)
		}
		if gzin {
			req.Header.Set("Content-Encoding", "gzip")
		}
	} else {
		var buf bytes.Buffer
		mw := multipart.NewWriter(&buf)
		if nameat == "second" {
			u.field = []byte("a note that travels in front of the file")
			fw, _ := mw.CreateFormField("note")
			fw.Write(u.field)
		}
		h := make(textproto.MIMEHeader)
		if nameat == "part" || nameat == "second" {
			h.Set("Content-Disposition", fmt.Sprintf(`form-data; name="file"; filename="%s"`,
				strings.NewReplacer(`\`, `\\`, `"`, `\"`).Replace(name)))
			u.name = path.Base(name)
		} else {
			h.Set("Content-Disposition", `form-data; name="file"`)
		}
		if mt != "" {
			h.Set("Content-Type", mt)
		}
		if gzin {
			h.Set("Content-Encoding", "gzip")
		}
		pw, _ := mw.CreatePart(h)
		pw.Write(u.data)
		mw.Close()
		req, _ = http.NewRequest("POST", target, &buf)
		req.Header.Set("Content-Type", mw.FormDataContentType())
	}
	if sum != "" {
		req.Header.Set("Content-MD5", sum)
	}
	cl := &http.Client{Timeout: 30 * time.Second}
	resp, err := cl.Do(req)
	if err != nil {
		e["msg"] = "transport"
		return
	}
	body, _ := ioutil.ReadAll(resp.Body)
	resp.Body.Close()
	e["status"] = resp.StatusCode
	var ret operation.UploadResult
	json.Unmarshal(body, &ret)
	e["rsize"] = int(ret.Size)
	e["rname"] = ret.Name
	if ret.Error != "" {
		e["msg"] = strings.SplitN(ret.Error, " ", 3)[0]
	}
	if m := resp.Header.Get("Content-MD5"); m != "" {
		e["rmd5"] = "other"
		if m == md5b64(u.clear) {
			e["rmd5"] = "d"
		} else if m == md5b64(u.data) {
			e["rmd5"] = "asgiven"
		}
	}
	u.ok = resp.StatusCode >= 200 && resp.StatusCode < 300
	// the chunk record a client keeps of this upload (filer.StreamContent / ChunkReadAt read through it)
	u.res = &operation.UploadResult{Size: uint32(len(u.clear))}
}

// store: POST a gzip stream (valid or corrupted) flagged as compressed, the way a client that compressed
// the data itself does.
func (r *runner) store(e tr.Ev) {
	id := tr.I(e, "id")
	clear := genData("text", 600, r.seed+int64(id))
	body := corrupt(stdGzip(clear), tr.S(e, "case"), tr.I(e, "i"), r.seed+int64(id))
	u := &upl{fid: r.newFid(), data: body, clear: clear}
	u.url = "http://" + r.url + "/" + u.fid
	r.ups[id] = u
	e["res"] = "err"
	e["len"] = len(clear)
	var buf bytes.Buffer
	mw := multipart.NewWriter(&buf)
	h := make(textproto.MIMEHeader)
	h.Set("Content-Disposition", `form-data; name="file"; filename="c.bin"`)
	h.Set("Content-Type", "application/octet-stream")
	h.Set("Content-Encoding", "gzip")
	pw, _ := mw.CreatePart(h)
	pw.Write(body)
	mw.Close()
	req, _ := http.NewRequest("POST", u.url, &buf)
	req.Header.Set("Content-Type", mw.FormDataContentType())
	cl := &http.Client{Timeout: 20 * time.Second}
	resp, err := cl.Do(req)
	if err != nil {
		return
	}
	ioutil.ReadAll(resp.Body)
	resp.Body.Close()
	e["status"] = resp.StatusCode
	if resp.StatusCode == 201 {
		e["res"] = "ok"
		u.ok = true
		u.res = &operation.UploadResult{Size: uint32(len(clear)), Gzip: 1}
	}
}

// ranges are symbolic in the script (the length is only known here)
func resolveRange(name string, l int) (full bool, off, size int) {
	switch name {
	case "full":
		return true, 0, l
	case "all":
		return false, 0, l
	case "head1":
		return false, 0, 1
	case "tail1":
		return false, l - 1, 1
	case "mid":
		return false, l / 3, l / 3
	case "half2":
		return false, l / 2, l - l/2
	case "cross64k":
		return false, 65000, 2000
	case "inner":
		return false, 1, l - 2
	}
	tr.Fatal("unknown range %s", name)
	return
}

func gunzip(b []byte) ([]byte, error) {
	zr, err := gzip.NewReader(bytes.NewReader(b))
	if err != nil {
		return nil, err
	}
	return ioutil.ReadAll(zr)
}

func (r *runner) fetch(e tr.Ev) {
	u := r.ups[tr.I(e, "id")]
	e["res"] = "err"
	e["off"], e["size"], e["full"] = 0, 0, false
	e["seg"] = tr.Ev{"src": "none", "off": 0, "len": 0}
	e["raw"] = tr.Ev{"src": "none", "off": 0, "len": 0}
	e["applicable"] = false
	e["hdr"], e["status"], e["cenc"], e["dec"], e["fname"], e["clen"] = "", 0, "", "none", "na", -1
	if u == nil || !(u.ok || u.tried) {
		return
	}
	l := len(u.clear)
	via := tr.S(e, "via")
	full, off, size := resolveRange(tr.S(e, "rng"), l)
	if off < 0 || (!full && size <= 0) || off+size > l {
		return // the range does not exist for this length
	}
	e["applicable"] = true
	e["off"], e["size"], e["full"] = off, size, full
	key := []byte(u.res.CipherKey)
	if len(key) == 0 {
		key = nil
	}
	isGz := u.res.Gzip > 0
	var got []byte
	var err error
	switch via {
	case "stream":
		_, err = util.ReadUrlAsStream(u.url, key, isGz, full, int64(off), size, func(d []byte) { got = append(got, d...) })
	case "readurl":
		buf := make([]byte, size)
		var n int64
		n, err = util.ReadUrl(u.url, key, isGz, full, int64(off), size, buf)
		got = buf[:n]
	case "get":
		if key != nil || !full {
			e["applicable"] = false
			return
		}
		got, _, err = util.Get(u.url)
	case "rcloser":
		// what the S3 part copy does: the whole source, or the range the client named
		if key != nil {
			e["applicable"] = false
			return
		}
		hdr := ""
		switch tr.S(e, "rng") {
		case "full":
		case "tail1", "half2":
			hdr = fmt.Sprintf("bytes=-%d", size) // the last size bytes
		case "inner":
			off, size = 1, l-1
			hdr = "bytes=1-" // from byte 1 to the end
			e["off"], e["size"] = off, size
		default:
			hdr = fmt.Sprintf("bytes=%d-%d", off, off+size-1)
		}
		e["hdr"] = hdr
		var rc io.ReadCloser
		rc, err = util.ReadUrlAsReaderCloser(u.url, hdr)
		if err == nil {
			got, err = ioutil.ReadAll(rc)
			rc.Close()
		}
	case "download":
		// what `weed download`, the replication source and the S3 object copy do
		if key != nil || !full {
			e["applicable"] = false
			return
		}
		target := u.url
		if u.url == "http://"+r.url+"/"+u.fid {
			target, err = operation.LookupFileId(func() string { return r.c.MasterAddr }, u.fid)
			if err != nil {
				break
			}
		}
		var fname string
		var h http.Header
		var resp *http.Response
		fname, h, resp, err = util.DownloadFile(target)
		if err != nil {
			break
		}
		got, err = ioutil.ReadAll(resp.Body)
		util.CloseResponse(resp)
		e["status"] = resp.StatusCode
		e["cenc"] = h.Get("Content-Encoding")
		e["raw"] = seg(u, got, 0)
		if err == nil && h.Get("Content-Encoding") == "gzip" {
			// the caller asked for nothing special and got a compressed transfer: undo it as the header says
			e["dec"] = "gunzip"
			got, err = gunzip(got)
		}
		switch {
		case fname == "":
			e["fname"] = "none"
		case fname == u.name:
			e["fname"] = "same"
		default:
			e["fname"] = "other"
		}
		if err == nil && resp.StatusCode >= 300 {
			err = fmt.Errorf("status %d", resp.StatusCode)
		}
	case "head":
		if key != nil || !full {
			e["applicable"] = false
			return
		}
		var h http.Header
		h, err = util.Head(u.url)
		if err != nil {
			break
		}
		e["cenc"] = h.Get("Content-Encoding")
		if n, perr := strconv.Atoi(h.Get("Content-Length")); perr == nil {
			e["clen"] = n
		}
		e["res"] = "ok"
		return
	case "streamcontent":
		chunk := u.res.ToPbFileChunk(u.fid, 0)
		var w bytes.Buffer
		err = filer.StreamContent(lookup{r.url}, &w, []*filer_pb.FileChunk{chunk}, int64(off), int64(size))
		got = w.Bytes()
	case "readerat":
		chunk := u.res.ToPbFileChunk(u.fid, 0)
		lf := lookup{r.url}.GetLookupFileIdFunction()
		views := filer.ViewFromChunks(lf, []*filer_pb.FileChunk{chunk}, 0, int64(l))
		ra := filer.NewChunkReaderAtFromClient(lf, views, (*chunk_cache.TieredChunkCache)(nil), int64(l))
		buf := make([]byte, size)
		var n int
		n, err = ra.ReadAt(buf, int64(off))
		got = buf[:n]
		if n == size {
			err = nil // io.EOF together with all the bytes is not a failure
		}
	default:
		tr.Fatal("unknown via %v", e["via"])
	}
	if err != nil {
		e["msg"] = strings.SplitN(err.Error(), ":", 2)[0]
		return
	}
	e["res"] = "ok"
	e["seg"] = seg(u, got, off)
}

func corrupt(z []byte, kind string, i int, seed int64) []byte {
	c := append([]byte{}, z...)
	if i < 0 && (kind == "trunc" || kind == "flip" || kind == "bit") {
		i = len(c) + i // counted from the end
		if i < 0 {
			i = 0
		}
	}
	switch kind {
	case "valid":
	case "trunc":
		if i < len(c) {
			c = c[:i]
		}
	case "flip":
		if i < len(c) {
			c[i] ^= 0xff
		}
	case "bit":
		if i < len(c) {
			c[i] ^= 0x01
		}
	case "method": // bad header right after the magic
		if len(c) > 2 {
			c[2] = byte(i)
		}
	case "flags":
		if len(c) > 3 {
			c[3] = byte(i)
		}
	case "trail":
		g := make([]byte, 1+i%37)
		rand.New(rand.NewSource(seed + int64(i))).Read(g)
		if i%3 == 0 {
			g = append([]byte{0x1f, 0x8b}, g...) // looks like the start of another member
		}
		c = append(c, g...)
	case "twice":
		c = append(c, z...)
	case "magiconly":
		c = []byte{0x1f, 0x8b}
		c = append(c, make([]byte, i)...)
	case "random":
		c = make([]byte, i%97)
		rand.New(rand.NewSource(seed + int64(i))).Read(c)
		if i%2 == 0 && len(c) >= 2 {
			c[0], c[1] = 0x1f, 0x8b
		}
		if i%4 == 0 && len(c) >= 3 {
			c[2] = 0x08
		}
	case "zstd":
		c = append([]byte{0x28, 0xb5, 0x2f, 0xfd}, c[:i%len(c)]...)
	default:
		tr.Fatal("unknown corruption %s", kind)
	}
	return c
}

func (r *runner) decomp(e tr.Ev) {
	baseKind := tr.S(e, "base")
	clear := genData(baseKind, 700, r.seed)
	var z []byte
	if tr.S(e, "enc") == "util" {
		z, _ = util.GzipData(clear)
	} else {
		z = stdGzip(clear)
	}
	in := corrupt(z, tr.S(e, "case"), tr.I(e, "i"), r.seed)
	e["inlen"] = len(in)
	e["res"] = "err"
	e["same"] = false
	e["isgz"] = util.IsGzippedContent(in)
	switch tr.S(e, "fn") {
	case "DecompressData":
		out, err := util.DecompressData(in)
		if err == nil {
			e["res"] = "bytes"
			e["same"] = bytes.Equal(out, clear)
		}
	case "MaybeDecompressData":
		out := util.MaybeDecompressData(in)
		e["res"] = "bytes"
		e["same"] = bytes.Equal(out, clear)
	case "RoundTrip": // GzipData then DecompressData of the (uncorrupted) payload `in` taken as data
		zz, err := util.GzipData(in)
		if err == nil {
			out, err2 := util.DecompressData(zz)
			if err2 == nil {
				e["res"] = "bytes"
				e["same"] = bytes.Equal(out, in)
			}
		}
	case "MaybeRoundTrip": // MaybeGzipData then MaybeDecompressData
		out := util.MaybeDecompressData(util.MaybeGzipData(in))
		e["res"] = "bytes"
		e["same"] = bytes.Equal(out, in)
	default:
		tr.Fatal("unknown fn %v", e["fn"])
	}
}

func (r *runner) runExec(ex []tr.Ev) []tr.Ev {
	out := []tr.Ev{ex[0]}
	r.ups = map[int]*upl{}
	for _, e := range ex[1:] {
		ev := tr.S(e, "ev")
		if ev == "panic" {
			continue
		}
		e = tr.Copy(e)
		pan := tr.Guard(func() {
			switch ev {
			case "upload":
				r.upload(e)
			case "put":
				r.put(e)
			case "store":
				e["status"] = 0
				r.store(e)
			case "fetch":
				e["msg"] = ""
				r.fetch(e)
			case "decomp":
				r.decomp(e)
			default:
				tr.Fatal("unknown op %v", ev)
			}
		})
		if pan != "" {
			out = append(out, tr.Ev{"ev": "panic", "op": e, "msg": pan})
			break
		}
		out = append(out, e)
	}
	return out
}

func main() {
	o := tr.ParseFlags()
	w := tr.NewWriter(o.Out)
	defer w.Close()
	c, err := cluster.New(cluster.Options{Volumes: 1, FileSizeLimitMB: limitMB})
	if err != nil {
		tr.Fatal("cluster: %v", err)
	}
	defer c.Close()
	vid, err := c.NewVolume("", "000", "")
	if err != nil {
		tr.Fatal("volume: %v", err)
	}
	var next uint64
	execs := tr.ReadScript(o.Script)
	results := make([][]tr.Ev, len(execs))
	jobs := make(chan int, len(execs))
	for i := range execs {
		jobs <- i
	}
	close(jobs)
	done := make(chan bool)
	const workers = 4
	for wk := 0; wk < workers; wk++ {
		go func() {
			r := &runner{c: c, vid: vid, url: c.Volumes[0].Url, next: &next, seed: o.Seed}
			for i := range jobs {
				results[i] = r.runExec(execs[i])
			}
			done <- true
		}()
	}
	for wk := 0; wk < workers; wk++ {
		<-done
	}
	for _, res := range results {
		for _, e := range res {
			w.Emit(e)
		}
	}
}
