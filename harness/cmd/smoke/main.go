// smoke: brings the mini-cluster up and round-trips an object through filer HTTP and S3.
package main

import (
	"bytes"
	"fmt"
	"io/ioutil"
	"net/http"
	"os"
	"time"

	"verifharness/cluster"
)

func main() {
	t0 := time.Now()
	c, err := cluster.New(cluster.Options{Volumes: 2, S3: true})
	if err != nil {
		fmt.Println("ERR", err)
		os.Exit(1)
	}
	defer c.Close()
	fmt.Println("up", time.Since(t0))
	body := bytes.Repeat([]byte("hello world "), 200000)
	var resp *http.Response
	for i := 0; i < 50; i++ {
		req, _ := http.NewRequest("PUT", "http://"+c.FilerAddr+"/buckets/b1/dir/obj.bin", bytes.NewReader(body))
		resp, err = http.DefaultClient.Do(req)
		if err == nil && resp.StatusCode < 300 {
			break
		}
		if resp != nil {
			rb, _ := ioutil.ReadAll(resp.Body)
			fmt.Println("retry", resp.StatusCode, string(rb))
		}
		time.Sleep(100 * time.Millisecond)
	}
	fmt.Println("filer PUT", resp.StatusCode, time.Since(t0))
	resp, _ = http.Get("http://" + c.FilerAddr + "/buckets/b1/dir/obj.bin")
	rb, _ := ioutil.ReadAll(resp.Body)
	fmt.Println("filer GET", resp.StatusCode, len(rb), bytes.Equal(rb, body))
	resp, _ = http.Get("http://" + c.S3Addr + "/b1/dir/obj.bin")
	rb, _ = ioutil.ReadAll(resp.Body)
	fmt.Println("s3 GET", resp.StatusCode, len(rb), bytes.Equal(rb, body))
	vid, err := c.NewVolume("", "001", "")
	fmt.Println("replicated volume", vid, err, c.Master.Locations(vid))
	fmt.Println("total", time.Since(t0))
}
