// c07: deletes needles from sorted on-disk indexes through the REAL code and records what
// the files and lookups look like afterwards.
//
//	kind "ec":  .ecx built by erasure_coding.WriteSortedFileFromIdx from an .idx written by the real
//	            in-memory needle map; EcVolume.DeleteNeedleFromEcx / FindNeedleFromEcx; .ecj;
//	            RebuildEcxFile; WriteIdxFileFromEcIndex + MemDb.LoadFromIdx
//	kind "sdx": storage.NewSortedFileNeedleMap over the same .idx (read-only volume); Delete / Get;
//	            journal = the tombstones appended to the .idx; rebuild = regenerating .sdx from .idx
//
// reset: {"kind","keys":[uint64 strings],"offs":[offsets in 8-byte units],"present":[{k,o,s}..] (insertion
// order), "bulk":{base,n,stride}}   ops: del{k} snap{} rebuild{} rebuildinplace{} toidx{} reopen{}
// The driver appends a snap after every del / rebuildinplace / reopen. No reference model here.
package main

import (
	"bytes"
	"flag"
	"fmt"
	"os"
	"path/filepath"
	"strconv"

	"github.com/chrislusf/seaweedfs/weed/storage"
	"github.com/chrislusf/seaweedfs/weed/storage/erasure_coding"
	"github.com/chrislusf/seaweedfs/weed/storage/idx"
	"github.com/chrislusf/seaweedfs/weed/storage/needle_map"
	"github.com/chrislusf/seaweedfs/weed/storage/types"

	"verifharness/tr"
)

func toOff(units int64) types.Offset { return types.ToOffset(units * types.NeedlePaddingSize) }
func fromOff(o types.Offset) int64   { return o.ToActualOffset() / types.NeedlePaddingSize }

func parseU(s string) uint64 {
	v, err := strconv.ParseUint(s, 10, 64)
	if err != nil {
		tr.Fatal("bad number %q", s)
	}
	return v
}

func clampSize(s types.Size) int {
	if s > 1<<30 {
		return 1 << 30
	}
	if s < -(1 << 30) {
		return -(1 << 30)
	}
	return int(s)
}

func copyFile(src, dst string) {
	b, err := os.ReadFile(src)
	if err != nil {
		tr.Fatal("copy %s: %v", src, err)
	}
	if err := os.WriteFile(dst, b, 0644); err != nil {
		tr.Fatal("copy to %s: %v", dst, err)
	}
}

type world struct {
	kind     string
	dir      string
	keys     []uint64
	keyIdx   map[uint64]int
	offIdx   map[int64]int
	pristine []byte // sorted file as first built (to see whether bulk entries changed)
	base     []byte // sorted file as of the last in-place rebuild
	idxInit  int64  // sdx: size of the .idx before any delete
	ev       *erasure_coding.EcVolume
	nm       *storage.SortedFileNeedleMap
	n        int
	pset     map[string]bool
}

func (w *world) sortedPath() string {
	if w.kind == "ec" {
		return filepath.Join(w.dir, "1.ecx")
	}
	return filepath.Join(w.dir, "1.sdx")
}

func (w *world) open() error {
	var err error
	if w.kind == "ec" {
		w.ev, err = erasure_coding.NewEcVolume(types.HardDriveType, w.dir, w.dir, "", 1)
		return err
	}
	f, err := os.OpenFile(filepath.Join(w.dir, "1.idx"), os.O_RDWR, 0644)
	if err != nil {
		return err
	}
	w.nm, err = storage.NewSortedFileNeedleMap(filepath.Join(w.dir, "1"), f)
	return err
}

func (w *world) close() {
	if w.ev != nil {
		w.ev.Close()
		w.ev = nil
	}
	if w.nm != nil {
		w.nm.Close()
		w.nm = nil
	}
}

func (w *world) tok(k uint64) int {
	if i, ok := w.keyIdx[k]; ok {
		return i
	}
	return -2
}

func (w *world) otok(o types.Offset) int {
	if i, ok := w.offIdx[fromOff(o)]; ok {
		return i
	}
	return -2
}

// entries of a sorted file: token entries as {k,o,s}; other = number of non-token entries that are
// not byte-identical to an entry of the pristine file at the same position
func (w *world) raw(b []byte, sameLayout bool) (ents []tr.Ev, other int) {
	es := types.NeedleMapEntrySize
	ents = []tr.Ev{}
	for i := 0; i+es <= len(b); i += es {
		key, off, size := idx.IdxFileEntry(b[i : i+es])
		if t := w.tok(uint64(key)); t >= 0 {
			ents = append(ents, tr.Ev{"k": t, "o": w.otok(off), "s": clampSize(size)})
			continue
		}
		if sameLayout {
			if i+es > len(w.pristine) || !bytes.Equal(b[i:i+es], w.pristine[i:i+es]) {
				other++
			}
		} else if !w.pristineSet()[string(b[i:i+es])] {
			other++
		}
	}
	if len(b)%es != 0 {
		other++
	}
	return
}

func (w *world) pristineSet() map[string]bool {
	if w.pset == nil {
		w.pset = map[string]bool{}
		es := types.NeedleMapEntrySize
		for i := 0; i+es <= len(w.pristine); i += es {
			w.pset[string(w.pristine[i:i+es])] = true
		}
	}
	return w.pset
}

func (w *world) find(k uint64) tr.Ev {
	var off types.Offset
	var size types.Size
	var err error
	if w.kind == "ec" {
		off, size, err = w.ev.FindNeedleFromEcx(types.NeedleId(k))
	} else {
		nv, ok := w.nm.Get(types.NeedleId(k))
		if !ok {
			err = erasure_coding.NotFoundError
		} else {
			off, size = nv.Offset, nv.Size
		}
	}
	if err != nil {
		return tr.Ev{"f": false, "o": -1, "s": 0, "e": errClass(err)}
	}
	return tr.Ev{"f": true, "o": w.otok(off), "s": clampSize(size), "e": ""}
}

func errClass(err error) string {
	if err == erasure_coding.NotFoundError {
		return "notfound"
	}
	return err.Error()
}

func (w *world) journal() []int {
	js := []int{}
	if w.kind == "ec" {
		b, err := os.ReadFile(filepath.Join(w.dir, "1.ecj"))
		if err != nil {
			return js
		}
		for i := 0; i+types.NeedleIdSize <= len(b); i += types.NeedleIdSize {
			js = append(js, w.tok(uint64(types.BytesToNeedleId(b[i:i+types.NeedleIdSize]))))
		}
		return js
	}
	b, err := os.ReadFile(filepath.Join(w.dir, "1.idx"))
	if err != nil {
		tr.Fatal("read idx: %v", err)
	}
	es := types.NeedleMapEntrySize
	for i := int(w.idxInit); i+es <= len(b); i += es {
		key, _, _ := idx.IdxFileEntry(b[i : i+es])
		js = append(js, w.tok(uint64(key)))
	}
	return js
}

func (w *world) snap(out *tr.Writer) {
	got := make([]tr.Ev, len(w.keys))
	for i, k := range w.keys {
		got[i] = w.find(k)
	}
	b, err := os.ReadFile(w.sortedPath())
	if err != nil {
		tr.Fatal("read sorted file: %v", err)
	}
	ents, other := w.raw(b, len(b) == len(w.pristine))
	out.Emit(tr.Ev{"ev": "snap", "got": got, "raw": ents, "other": other, "jr": w.journal()})
}

func errs(e error) string {
	if e == nil {
		return ""
	}
	return e.Error()
}

func main() {
	flag.Set("logtostderr", "true") // glog of the code under test: no files in /tmp
	o := tr.ParseFlags()
	out := tr.NewWriter(o.Out)
	defer out.Close()
	root, err := os.MkdirTemp("", "c07-")
	if err != nil {
		tr.Fatal("tmp: %v", err)
	}
	defer os.RemoveAll(root)
	for xi, ex := range tr.ReadScript(o.Script) {
		dir := filepath.Join(root, strconv.Itoa(xi))
		os.MkdirAll(dir, 0755)
		runExec(out, ex, dir)
		os.RemoveAll(dir)
	}
}

func runExec(out *tr.Writer, ex []tr.Ev, dir string) {
	cfg := ex[0]
	w := &world{kind: tr.S(cfg, "kind"), dir: dir, keyIdx: map[uint64]int{}, offIdx: map[int64]int{}}
	for i, s := range tr.Strs(cfg["keys"]) {
		w.keys = append(w.keys, parseU(s))
		w.keyIdx[w.keys[i]] = i
	}
	var offs []int64
	for i, s := range tr.Strs(cfg["offs"]) {
		offs = append(offs, int64(parseU(s)))
		w.offIdx[offs[i]] = i
	}
	// 1. the .idx, written by the real in-memory needle map
	idxPath := filepath.Join(dir, "1.idx")
	f, err := os.OpenFile(idxPath, os.O_RDWR|os.O_CREATE, 0644)
	if err != nil {
		tr.Fatal("idx: %v", err)
	}
	nm := storage.NewCompactNeedleMap(f)
	if bulk, ok := cfg["bulk"].(map[string]interface{}); ok {
		base, n, stride := parseU(tr.S(bulk, "base")), tr.I(bulk, "n"), uint64(tr.I(bulk, "stride"))
		for i := 0; i < n; i++ {
			nm.Put(types.NeedleId(base+uint64(i)*stride), toOff(offs[0]+int64(i)), types.Size(3+i%5))
		}
	}
	for _, p := range tr.List(cfg["present"]) {
		pe := p.(map[string]interface{})
		if err := nm.Put(types.NeedleId(w.keys[tr.I(pe, "k")]), toOff(offs[tr.I(pe, "o")]), types.Size(tr.I(pe, "s"))); err != nil {
			tr.Fatal("put: %v", err)
		}
	}
	nm.Close()
	// 2. the sorted file, generated by the real code
	if w.kind == "ec" {
		if err := erasure_coding.WriteSortedFileFromIdx(filepath.Join(dir, "1"), ".ecx"); err != nil {
			tr.Fatal("WriteSortedFileFromIdx: %v", err)
		}
		os.Remove(idxPath)
	} else {
		st, _ := os.Stat(idxPath)
		w.idxInit = st.Size()
	}
	if err := w.open(); err != nil {
		tr.Fatal("open %s: %v", w.kind, err)
	}
	defer w.close()
	w.pristine, err = os.ReadFile(w.sortedPath())
	if err != nil {
		tr.Fatal("pristine: %v", err)
	}
	w.base = w.pristine
	out.Emit(cfg)
	w.snap(out)
	for _, e := range ex[1:] {
		ev := tr.S(e, "ev")
		if ev == "snap" || ev == "panic" {
			continue
		}
		stop := false
		pan := tr.Guard(func() {
			switch ev {
			case "del":
				k := types.NeedleId(w.keys[tr.I(e, "k")])
				if w.kind == "ec" {
					e["err"] = errs(w.ev.DeleteNeedleFromEcx(k))
				} else {
					e["err"] = errs(w.nm.Delete(k, toOff(offs[len(offs)-1])))
				}
			case "rebuild": // journal applied to the file as of the last in-place rebuild, in a fresh directory
				w.n++
				rd := filepath.Join(dir, fmt.Sprintf("r%d", w.n))
				os.MkdirAll(rd, 0755)
				var b []byte
				var err error
				if w.kind == "ec" {
					os.WriteFile(filepath.Join(rd, "1.ecx"), w.base, 0644)
					if _, serr := os.Stat(filepath.Join(dir, "1.ecj")); serr == nil {
						copyFile(filepath.Join(dir, "1.ecj"), filepath.Join(rd, "1.ecj"))
					}
					err = erasure_coding.RebuildEcxFile(filepath.Join(rd, "1"))
					b, _ = os.ReadFile(filepath.Join(rd, "1.ecx"))
				} else {
					copyFile(filepath.Join(dir, "1.idx"), filepath.Join(rd, "1.idx"))
					var rf *os.File
					rf, err = os.OpenFile(filepath.Join(rd, "1.idx"), os.O_RDWR, 0644)
					if err == nil {
						var rm *storage.SortedFileNeedleMap
						rm, err = storage.NewSortedFileNeedleMap(filepath.Join(rd, "1"), rf)
						if err == nil {
							rm.Close()
						}
					}
					b, _ = os.ReadFile(filepath.Join(rd, "1.sdx"))
				}
				ents, other := w.raw(b, len(b) == len(w.pristine))
				e["err"], e["raw"], e["other"] = errs(err), ents, other
				os.RemoveAll(rd)
			case "rebuildinplace":
				w.close()
				var err error
				if w.kind == "ec" {
					err = erasure_coding.RebuildEcxFile(filepath.Join(dir, "1"))
				} else {
					os.Remove(filepath.Join(dir, "1.sdx"))
				}
				if err == nil {
					err = w.open()
				}
				e["err"] = errs(err)
				stop = err != nil
				if !stop {
					w.base, _ = os.ReadFile(w.sortedPath())
				}
			case "toidx": // ec only: .idx from .ecx + .ecj, loaded by needle_map.MemDb (exact key lookups)
				err := erasure_coding.WriteIdxFileFromEcIndex(filepath.Join(dir, "1"))
				got := make([]tr.Ev, len(w.keys))
				if err == nil {
					lm := needle_map.NewMemDb()
					err = lm.LoadFromIdx(filepath.Join(dir, "1.idx"))
					if err == nil {
						for i, k := range w.keys {
							nv, ok := lm.Get(types.NeedleId(k))
							if ok && nv != nil {
								got[i] = tr.Ev{"f": true, "o": w.otok(nv.Offset), "s": clampSize(nv.Size), "e": ""}
							} else {
								got[i] = tr.Ev{"f": false, "o": -1, "s": 0, "e": "notfound"}
							}
						}
					}
					lm.Close()
				}
				os.Remove(filepath.Join(dir, "1.idx"))
				e["err"], e["got"] = errs(err), got
			case "reopen":
				w.close()
				err := w.open()
				e["err"] = errs(err)
				stop = err != nil
			default:
				tr.Fatal("unknown op %v", e["ev"])
			}
		})
		if pan != "" {
			out.Emit(tr.Ev{"ev": "panic", "op": e, "msg": pan})
			return
		}
		out.Emit(e)
		if stop {
			return
		}
		if ev == "del" || ev == "rebuildinplace" || ev == "reopen" {
			w.snap(out)
		}
	}
}
