package main

// An in-memory go.etcd.io/etcd/client.KeysAPI: one shared key space (the etcd
// cluster), one view per master. A view can be "gated": the next Get issued
// through it parks after it has read the value and before it returns, until the
// driver releases it; this lets a script interleave another master's operation
// between the Get and the compare-and-swap of the real sequencer code.
import (
	"context"
	"sync"

	"go.etcd.io/etcd/client"
)

type fakeStore struct {
	mu   sync.Mutex
	kv   map[string]string
	idx  uint64
	gets int
	sets int
	fail int // compare-and-swap failures
}

func newFakeStore() *fakeStore { return &fakeStore{kv: map[string]string{}} }

type view struct {
	st     *fakeStore
	gmu    sync.Mutex
	armed  bool
	parked chan struct{}
	resume chan struct{}
}

func (st *fakeStore) view() *view { return &view{st: st} }

// arm: the next Get through this view parks. Returns the channel that is closed when it parks.
func (v *view) arm() chan struct{} {
	v.gmu.Lock()
	defer v.gmu.Unlock()
	v.armed = true
	v.parked = make(chan struct{})
	v.resume = make(chan struct{})
	return v.parked
}

// rearm: let the parked Get return, and park the NEXT Get issued through this view (the retry
// of a failed compare-and-swap). Returns the channel that is closed when that next Get parks.
func (v *view) rearm() chan struct{} {
	v.gmu.Lock()
	defer v.gmu.Unlock()
	old := v.resume
	v.armed = true
	v.parked = make(chan struct{})
	v.resume = make(chan struct{})
	if old != nil {
		select {
		case <-old:
		default:
			close(old)
		}
	}
	return v.parked
}

func (v *view) release() {
	v.gmu.Lock()
	defer v.gmu.Unlock()
	if v.resume != nil {
		select {
		case <-v.resume:
		default:
			close(v.resume)
		}
	}
	v.armed = false
}

func (v *view) Get(ctx context.Context, key string, opts *client.GetOptions) (*client.Response, error) {
	v.st.mu.Lock()
	v.st.gets++
	val, ok := v.st.kv[key]
	idx := v.st.idx
	v.st.mu.Unlock()
	v.gmu.Lock()
	var resume chan struct{}
	if v.armed {
		v.armed = false
		close(v.parked)
		resume = v.resume
	}
	v.gmu.Unlock()
	if resume != nil {
		<-resume
	}
	if !ok {
		return nil, client.Error{Code: client.ErrorCodeKeyNotFound, Message: "Key not found", Cause: key, Index: idx}
	}
	return &client.Response{Action: "get", Node: &client.Node{Key: key, Value: val, ModifiedIndex: idx}, Index: idx}, nil
}

func (v *view) Set(ctx context.Context, key, value string, opts *client.SetOptions) (*client.Response, error) {
	v.st.mu.Lock()
	defer v.st.mu.Unlock()
	v.st.sets++
	old, ok := v.st.kv[key]
	if opts != nil && opts.PrevValue != "" {
		if !ok {
			return nil, client.Error{Code: client.ErrorCodeKeyNotFound, Message: "Key not found", Cause: key, Index: v.st.idx}
		}
		if old != opts.PrevValue {
			v.st.fail++
			return nil, client.Error{Code: client.ErrorCodeTestFailed, Message: "Compare failed", Cause: "[" + opts.PrevValue + " != " + old + "]", Index: v.st.idx}
		}
	}
	if opts != nil && opts.PrevExist == client.PrevNoExist && ok {
		return nil, client.Error{Code: client.ErrorCodeNodeExist, Message: "Key already exists", Cause: key, Index: v.st.idx}
	}
	// PrevExist: only the existence of the key is required, its value is NOT compared
	if opts != nil && opts.PrevExist == client.PrevExist && !ok {
		return nil, client.Error{Code: client.ErrorCodeKeyNotFound, Message: "Key not found", Cause: key, Index: v.st.idx}
	}
	v.st.idx++
	v.st.kv[key] = value
	resp := &client.Response{Action: "set", Node: &client.Node{Key: key, Value: value, ModifiedIndex: v.st.idx}, Index: v.st.idx}
	if ok {
		resp.PrevNode = &client.Node{Key: key, Value: old}
	}
	return resp, nil
}

func (v *view) Create(ctx context.Context, key, value string) (*client.Response, error) {
	return v.Set(ctx, key, value, &client.SetOptions{PrevExist: client.PrevNoExist})
}

func (v *view) Delete(ctx context.Context, key string, opts *client.DeleteOptions) (*client.Response, error) {
	v.st.mu.Lock()
	defer v.st.mu.Unlock()
	if _, ok := v.st.kv[key]; !ok {
		return nil, client.Error{Code: client.ErrorCodeKeyNotFound, Message: "Key not found", Cause: key, Index: v.st.idx}
	}
	v.st.idx++
	delete(v.st.kv, key)
	return &client.Response{Action: "delete", Index: v.st.idx}, nil
}

func (v *view) CreateInOrder(ctx context.Context, dir, value string, opts *client.CreateInOrderOptions) (*client.Response, error) {
	return nil, client.Error{Code: client.ErrorCodeNotFile, Message: "not supported by the fake"}
}

func (v *view) Update(ctx context.Context, key, value string) (*client.Response, error) {
	return v.Set(ctx, key, value, &client.SetOptions{PrevExist: client.PrevExist})
}

func (v *view) Watcher(key string, opts *client.WatcherOptions) client.Watcher { return nil }
