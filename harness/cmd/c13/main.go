// c13: replays assignment / heartbeat / leader-change schedules on the REAL
// sequencer objects of weed/sequence (memory, snowflake, etcd over an in-memory
// client.KeysAPI) and on topology.NextVolumeId (through a stub raft.Server that
// applies the MaxVolumeIdCommand to every master's topology), and records what
// they returned. It holds no opinion about the results.
//
// Script lines (inputs only; results are added to the recorded line):
//
//	reset   kind=memory|etcd|snowflake, masters, vols, pre=[{vol,keys}]
//	hb      m, vol           heartbeat of vol's server: SetMax(max key in vol)   -> v
//	setmax  m, v             SetMax(v) with a value from outside the tracked volumes
//	next    m, vol, n={c,s}  NextFileId(c + s*DefaultEtcdSteps)                  -> cnt, start
//	write   a, j             the client writes key start(a)+j of assignment a     -> vol, k
//	leader  m, fresh         leadership moves to m (fresh: a new sequencer object)
//	tick                     2 ms of real time pass (snowflake)
//	nextvid m                topology.NextVolumeId()                             -> id
//	volreg  m, id            a heartbeat registers existing volume id at m
//	call    p, op, m, vol, n, v, gate   start of a concurrent operation; consecutive
//	                         call lines form one goroutine storm (one goroutine per p);
//	                         gate=true: run alone and park inside the etcd Get
//	release p                let the parked operation of p continue
//	ret                      (recorded only) p, start
//
// A reset line with "via": "master" (kind memory or snowflake) runs the same script against REAL master
// servers (weed/server, harness/cluster/realmaster.go), one per master name: hb / setmax = a full heartbeat
// through MasterServer.SendHeartbeat (in-memory stream) of the volume server that holds vol (one server and
// one collection per volume; setmax: a server without volumes) carrying MaxFileKey; next = MasterServer.Assign
// for the volume's collection, the key range is read from the returned file id and count; leader = every
// heartbeat stream breaks (the servers re-dial with their next heartbeat), fresh: a new MasterServer object;
// nextvid / volreg = NextVolumeId of the master's topology / an incremental heartbeat. Same events.
// The master's sequencer (exported field Topo.Sequence) is wrapped in a gate: `call op=hb gate=true` parks the
// heartbeat handler at the entry of Sequence.SetMax; `call op=next bg=true` then issues a real Assign while the
// handler is parked (not waited for: Assign polls while nothing is writable); `release` lets the handler go on
// and waits for it and for every such assignment. An Assign that is refused is recorded as ret err=true.
//
// Keys are recorded through an order preserving map that caps gaps at 2^20
// (identity for small values; snowflake ids are ~2^60 and TLC integers 32 bit).
package main

import (
	"bufio"
	"bytes"
	"context"
	"fmt"
	"os"
	"os/exec"
	"regexp"
	"sort"
	"strings"
	"sync"
	"time"

	"github.com/chrislusf/raft"

	"github.com/chrislusf/seaweedfs/weed/pb/master_pb"
	"github.com/chrislusf/seaweedfs/weed/sequence"
	"github.com/chrislusf/seaweedfs/weed/storage/needle"
	"github.com/chrislusf/seaweedfs/weed/topology"

	"verifharness/cluster"
	"verifharness/tr"
)

const gapCap = 1 << 20

type key uint64 // a raw key value, normalised when the execution is flushed

type asg struct {
	vol   string
	start uint64
	cnt   uint64
}

type parkedOp struct {
	done chan struct{}
	v    *view
	g    *gateSeq
}

// gateSeq wraps the sequencer of a real master: when armed, the next SetMax parks at its entry until released.
type gateSeq struct {
	sequence.Sequencer
	mu       sync.Mutex
	parkedCh chan struct{}
	goCh     chan struct{}
}

func (g *gateSeq) arm() chan struct{} {
	g.mu.Lock()
	defer g.mu.Unlock()
	g.parkedCh, g.goCh = make(chan struct{}), make(chan struct{})
	return g.parkedCh
}

func (g *gateSeq) SetMax(v uint64) {
	g.mu.Lock()
	p, r := g.parkedCh, g.goCh
	g.parkedCh = nil
	g.mu.Unlock()
	if p != nil {
		close(p)
		<-r
	}
	g.Sequencer.SetMax(v)
}

func (g *gateSeq) release() {
	g.mu.Lock()
	r := g.goCh
	g.parkedCh, g.goCh = nil, nil
	g.mu.Unlock()
	if r != nil {
		close(r)
	}
}

type execution struct {
	kind    string
	masters []string
	seqs    map[string]sequence.Sequencer
	views   map[string]*view
	dirs    map[string]string
	store   *fakeStore
	topos   map[string]*topology.Topology
	dns     map[string]*topology.DataNode
	used    map[string]map[uint64]bool
	asgs    []asg
	parked  map[int]*parkedOp

	// via master: real master servers and the open heartbeat streams per master and volume server
	via   string
	vols  []string
	group *cluster.MasterGroup
	ms    map[string]*cluster.RealMaster
	hbs   map[string]map[string]*cluster.HBStream
	hbMu  sync.Mutex
	gates map[string]*gateSeq
	bg    []chan struct{} // assignments issued while a heartbeat handler is parked

	mu     sync.Mutex
	events []tr.Ev
}

func (x *execution) log(e tr.Ev) {
	x.mu.Lock()
	x.events = append(x.events, e)
	x.mu.Unlock()
}

type stubRaft struct {
	raft.Server
	x    *execution
	name string
}

func (s *stubRaft) Name() string         { return s.name }
func (s *stubRaft) Context() interface{} { return s.x.topo(s.name) }
func (s *stubRaft) State() string        { return raft.Leader }
func (s *stubRaft) Leader() string       { return s.name }

// Do: the command is committed, i.e. applied on every master's state machine.
func (s *stubRaft) Do(c raft.Command) (interface{}, error) {
	ap, ok := c.(interface {
		Apply(raft.Server) (interface{}, error)
	})
	if !ok {
		return nil, fmt.Errorf("command %s has no Apply", c.CommandName())
	}
	for _, m := range s.x.masters {
		s.x.topo(m)
	}
	for _, m := range s.x.masters {
		if _, err := ap.Apply(s.x.topos[m].RaftServer); err != nil {
			return nil, err
		}
	}
	return nil, nil
}

func (x *execution) topo(m string) *topology.Topology {
	if x.via == "master" {
		return x.ms[m].MS.Topo
	}
	if t, ok := x.topos[m]; ok {
		return t
	}
	t := topology.NewTopology("topo", x.seqs[m], 1<<30, 5, false)
	t.RaftServer = &stubRaft{x: x, name: m}
	x.topos[m] = t
	dc := t.GetOrCreateDataCenter("dc1")
	rack := dc.GetOrCreateRack("r1")
	x.dns[m] = rack.GetOrCreateDataNode("10.0.0.1", 8080, "10.0.0.1:8080", map[string]uint32{"": 100})
	return t
}

func (x *execution) newSeq(m string) sequence.Sequencer {
	switch x.kind {
	case "memory":
		return sequence.NewMemorySequencer()
	case "snowflake":
		s, err := sequence.NewSnowflakeSequencer(m + ":9333")
		if err != nil {
			tr.Fatal("snowflake: %v", err)
		}
		return s
	case "etcd":
		if old, ok := x.seqs[m].(*sequence.EtcdSequencer); ok && old != nil {
			old.VerifClose()
		}
		if _, ok := x.views[m]; !ok {
			x.views[m] = x.store.view()
			d, err := os.MkdirTemp("", "c13-"+m+"-")
			if err != nil {
				tr.Fatal("tempdir: %v", err)
			}
			x.dirs[m] = d
		}
		s, err := sequence.VerifNewEtcdSequencer(x.views[m], x.dirs[m])
		if err != nil {
			tr.Fatal("etcd sequencer: %v", err)
		}
		return s
	}
	tr.Fatal("unknown sequencer kind %q", x.kind)
	return nil
}

// ---------------------------------------------------------------- via master

func (x *execution) newMaster(m string) {
	idx := 0
	for i, n := range x.masters {
		if n == m {
			idx = i
		}
	}
	st := ""
	switch x.kind {
	case "memory":
	case "snowflake":
		st = "snowflake"
	default:
		tr.Fatal("sequencer kind %q cannot run inside a real master here", x.kind)
	}
	x.ms[m] = cluster.NewRealMaster(cluster.RealMasterOptions{Name: m, Port: 9333 + idx, SequencerType: st, Group: x.group})
	x.hbs[m] = map[string]*cluster.HBStream{}
	x.gates[m] = &gateSeq{Sequencer: x.ms[m].MS.Topo.Sequence}
	x.ms[m].MS.Topo.Sequence = x.gates[m]
}

// volume vols[i] has id i+1, is alone in the collection of its name and lives on its own volume server
func (x *execution) volIndex(vol string) int {
	for i, v := range x.vols {
		if v == vol {
			return i
		}
	}
	tr.Fatal("unknown volume %q", vol)
	return 0
}

// push sends one heartbeat of volume server srv to master m through the real SendHeartbeat handler
func (x *execution) push(m, srv string, ip string, hb *master_pb.Heartbeat) {
	x.hbMu.Lock()
	s := x.hbs[m][srv]
	if s == nil || s.Returned() {
		s = x.ms[m].OpenHeartbeat(ip, 50000)
		x.hbs[m][srv] = s
	}
	x.hbMu.Unlock()
	hb.Ip, hb.Port, hb.PublicUrl = ip, 8080, srv
	hb.MaxVolumeCounts = map[string]uint32{"": 100}
	switch res := s.Push(hb); res {
	case "ok":
	case "panic":
		panic(s.Panic)
	default:
		panic(fmt.Sprintf("%s: SendHeartbeat(%s -> %s): %v", res, srv, m, s.Err))
	}
}

// masterSetMax: a full heartbeat carrying MaxFileKey = v, of the server holding vol ("" = a server without volumes)
func (x *execution) masterSetMax(m, vol string, v uint64) {
	hb := &master_pb.Heartbeat{MaxFileKey: v}
	if vol == "" {
		hb.HasNoVolumes = true
		x.push(m, "s0", "127.0.2.100", hb)
		return
	}
	i := x.volIndex(vol)
	hb.Volumes = []*master_pb.VolumeInformationMessage{{Id: uint32(i + 1), Collection: vol, Size: 100, FileCount: 1,
		Version: uint32(needle.CurrentVersion)}}
	x.push(m, "s-"+vol, fmt.Sprintf("127.0.2.%d", i+1), hb)
}

// masterNext: a real Assign. sequential: the script must respect the enabling rule and a refusal is unexpected (panic);
// otherwise (issued next to other operations) a refusal is an observation (refused = true).
func (x *execution) masterNext(m, vol string, c uint64, sequential bool) (start, cnt uint64, refused bool) {
	i := x.volIndex(vol)
	if sequential && len(x.ms[m].MS.Topo.Lookup(vol, needle.VolumeId(i+1))) == 0 {
		// Assign would poll for ten seconds: the script broke the system's enabling rule
		tr.Fatal("script asks master %s for volume %s, which is not registered there", m, vol)
	}
	var resp *master_pb.AssignResponse
	var err error
	pan, late := tr.GuardT(15*time.Second, func() {
		resp, err = x.ms[m].MS.Assign(context.Background(), &master_pb.AssignRequest{Count: c, Collection: vol, Replication: "000"})
	})
	if pan != "" {
		panic(pan)
	}
	if late {
		panic("timeout: Assign")
	}
	if err != nil || resp.Error != "" {
		if !sequential {
			return 0, c, true
		}
		panic(fmt.Sprintf("Assign failed: %v %s", err, resp.GetError()))
	}
	f, perr := needle.ParseFileIdFromString(resp.Fid)
	if perr != nil {
		panic("Assign returned an unparsable file id " + resp.Fid)
	}
	if int(f.VolumeId) != i+1 {
		panic(fmt.Sprintf("Assign for collection %s returned volume %d", vol, f.VolumeId))
	}
	return uint64(f.Key), resp.Count, false
}

func (x *execution) closeStreams() {
	for _, m := range x.masters {
		x.hbMu.Lock()
		ss := x.hbs[m]
		x.hbs[m] = map[string]*cluster.HBStream{}
		x.hbMu.Unlock()
		for _, s := range ss {
			if res := s.Close(); res != "returned" {
				panic(fmt.Sprintf("%s: closing a heartbeat stream of %s: %s", res, m, s.Panic))
			}
		}
	}
}

// setMax / nextId: the two sequencer operations, on the bare object or through the master
func (x *execution) setMax(m, vol string, v uint64) {
	if x.via == "master" {
		x.masterSetMax(m, vol, v)
		return
	}
	x.seqs[m].SetMax(v)
}

func (x *execution) nextId(m, vol string, c uint64, sequential bool) (start, cnt uint64, refused bool) {
	if x.via == "master" {
		return x.masterNext(m, vol, c, sequential)
	}
	return x.seqs[m].NextFileId(c), c, false
}

func (x *execution) close() {
	for _, m := range x.ms {
		m.Close()
	}
	for _, s := range x.seqs {
		if es, ok := s.(*sequence.EtcdSequencer); ok {
			es.VerifClose()
		}
	}
	for _, d := range x.dirs {
		os.RemoveAll(d)
	}
}

func count(e tr.Ev) uint64 {
	n, _ := e["n"].(map[string]interface{})
	c, _ := n["c"].(float64)
	s, _ := n["s"].(float64)
	return uint64(c) + uint64(s)*sequence.DefaultEtcdSteps
}

// offset: a number, or the [c, s] form c + s*DefaultEtcdSteps (c may be -1)
func offset(v interface{}) int64 {
	switch t := v.(type) {
	case float64:
		return int64(t)
	case map[string]interface{}:
		c, _ := t["c"].(float64)
		s, _ := t["s"].(float64)
		return int64(c) + int64(s)*int64(sequence.DefaultEtcdSteps)
	}
	return 0
}

func (x *execution) maxUsed(vol string) uint64 {
	var mx uint64
	for k := range x.used[vol] {
		if k > mx {
			mx = k
		}
	}
	return mx
}

// perform one operation on the real objects; returns the recorded event
func (x *execution) perform(e tr.Ev) tr.Ev {
	m := tr.S(e, "m")
	switch tr.S(e, "ev") {
	case "hb":
		vol := tr.S(e, "vol")
		x.mu.Lock()
		v := x.maxUsed(vol)
		x.mu.Unlock()
		x.setMax(m, vol, v)
		e["v"] = key(v)
	case "setmax":
		v := uint64(tr.I(e, "v"))
		x.setMax(m, "", v)
		e["v"] = key(v)
	case "next":
		start, c, _ := x.nextId(m, tr.S(e, "vol"), count(e), true)
		x.mu.Lock()
		e["a"] = len(x.asgs)
		x.asgs = append(x.asgs, asg{tr.S(e, "vol"), start, c})
		x.mu.Unlock()
		e["cnt"] = int(c)
		e["start"] = key(start)
	case "write":
		a := tr.I(e, "a")
		if a < 0 || a >= len(x.asgs) {
			if x.via == "master" {
				// the schedule counted an assignment that this master refused: nothing to write
				return nil
			}
			tr.Fatal("write refers to assignment %d of %d", a, len(x.asgs))
		}
		g := x.asgs[a]
		k := uint64(int64(g.start) + offset(e["j"]))
		if x.used[g.vol] == nil {
			x.used[g.vol] = map[uint64]bool{}
		}
		x.used[g.vol][k] = true
		e["vol"] = g.vol
		e["k"] = key(k)
	case "leader":
		if x.via == "master" {
			x.closeStreams()
			if tr.B(e, "fresh") {
				x.newMaster(m)
			}
		} else if tr.B(e, "fresh") {
			x.seqs[m] = x.newSeq(m)
			if t, ok := x.topos[m]; ok {
				t.Sequence = x.seqs[m]
			}
		}
	case "tick":
		time.Sleep(2 * time.Millisecond)
	case "nextvid":
		id, err := x.topo(m).NextVolumeId()
		if err != nil {
			e["id"] = -1
		} else {
			e["id"] = int(id)
		}
	case "volreg":
		if x.via == "master" {
			x.hbMu.Lock()
			s0 := x.hbs[m]["s0"]
			x.hbMu.Unlock()
			if s0 == nil || s0.Returned() {
				x.push(m, "s0", "127.0.2.100", &master_pb.Heartbeat{HasNoVolumes: true})
			}
			x.push(m, "s0", "127.0.2.100", &master_pb.Heartbeat{NewVolumes: []*master_pb.VolumeShortInformationMessage{
				{Id: uint32(tr.I(e, "id")), Version: uint32(needle.CurrentVersion)}}})
			break
		}
		t := x.topo(m)
		t.IncrementalSyncDataNodeRegistration([]*master_pb.VolumeShortInformationMessage{
			{Id: uint32(tr.I(e, "id")), Version: uint32(needle.CurrentVersion)}}, nil, x.dns[m])
	case "release":
	default:
		tr.Fatal("unknown op %v", e["ev"])
	}
	return e
}

// a concurrent operation: call and ret are logged separately
func (x *execution) callOp(e tr.Ev) {
	p := tr.I(e, "p")
	m := tr.S(e, "m")
	op := tr.S(e, "op")
	n, ok := e["n"].(map[string]interface{})
	if !ok {
		n = map[string]interface{}{"c": 0, "s": 0}
	}
	call := tr.Ev{"ev": "call", "p": p, "op": op, "m": m, "vol": tr.S(e, "vol"), "n": n, "gate": tr.B(e, "gate"), "bg": tr.B(e, "bg")}
	var c uint64
	var v uint64
	x.mu.Lock()
	switch op {
	case "next":
		c = count(e)
	case "hb":
		v = x.maxUsed(tr.S(e, "vol"))
	case "setmax":
		v = uint64(tr.I(e, "v"))
	default:
		tr.Fatal("unknown concurrent op %q", op)
	}
	call["cnt"] = int(c)
	call["v"] = key(v)
	x.events = append(x.events, call)
	x.mu.Unlock()
	var start uint64
	var refused bool
	pan := tr.Guard(func() {
		switch op {
		case "next":
			start, c, refused = x.nextId(m, tr.S(e, "vol"), c, false)
		case "hb":
			x.setMax(m, tr.S(e, "vol"), v)
		default:
			x.setMax(m, "", v)
		}
	})
	x.mu.Lock()
	if pan != "" {
		x.events = append(x.events, tr.Ev{"ev": "panic", "p": p, "msg": pan})
	} else {
		if op == "next" && !refused {
			x.asgs = append(x.asgs, asg{tr.S(e, "vol"), start, c})
		}
		x.events = append(x.events, tr.Ev{"ev": "ret", "p": p, "start": key(start), "err": refused})
	}
	x.mu.Unlock()
}

func (x *execution) storm(calls []tr.Ev) {
	byP := map[int][]tr.Ev{}
	var order []int
	for _, c := range calls {
		p := tr.I(c, "p")
		if _, ok := byP[p]; !ok {
			order = append(order, p)
		}
		byP[p] = append(byP[p], c)
	}
	var wg sync.WaitGroup
	startGun := make(chan struct{})
	for _, p := range order {
		wg.Add(1)
		go func(ops []tr.Ev) {
			defer wg.Done()
			<-startGun
			for _, c := range ops {
				x.callOp(c)
			}
		}(byP[p])
	}
	close(startGun)
	wg.Wait()
}

func (x *execution) gated(e tr.Ev) {
	p := tr.I(e, "p")
	m := tr.S(e, "m")
	po := &parkedOp{done: make(chan struct{})}
	var parked chan struct{}
	if g, ok := x.gates[m]; ok && x.via == "master" {
		po.g = g
		parked = g.arm()
	} else if v, ok := x.views[m]; ok {
		po.v = v
		parked = v.arm()
	}
	go func() {
		x.callOp(e)
		close(po.done)
	}()
	if parked == nil {
		<-po.done
		return
	}
	select {
	case <-parked:
		x.parked[p] = po
	case <-po.done:
		po.free()
	}
}

func (po *parkedOp) free() {
	if po.g != nil {
		po.g.release()
	} else {
		po.v.release()
	}
}

// background: an operation issued while another one is parked; not waited for here (a real Assign polls while
// nothing is writable), only given a moment to get going; joined at the next release / the end of the execution
func (x *execution) background(e tr.Ev) {
	done := make(chan struct{})
	x.bg = append(x.bg, done)
	// several of them can be pending at once: each gets a process number of its own
	e = tr.Copy(e)
	e["p"] = 100 + len(x.bg)
	go func() {
		x.callOp(e)
		close(done)
	}()
	select {
	case <-done:
	case <-time.After(100 * time.Millisecond):
	}
}

func (x *execution) joinBackground() {
	for _, d := range x.bg {
		select {
		case <-d:
		case <-time.After(30 * time.Second):
			x.log(tr.Ev{"ev": "panic", "p": 0, "msg": "timeout: an operation issued in the background did not return"})
		}
	}
	x.bg = nil
}

// releaseOp lets the parked operation of p continue. again: its next Get (the re-read after a
// failed compare-and-swap) parks again; if the operation completes instead, nothing stays parked.
func (x *execution) releaseOp(p int, again bool) {
	po, ok := x.parked[p]
	if !ok {
		return
	}
	if again && po.v != nil {
		parked := po.v.rearm()
		select {
		case <-parked:
			return
		case <-po.done:
			po.v.release()
			delete(x.parked, p)
			return
		}
	}
	po.free()
	<-po.done
	delete(x.parked, p)
	x.joinBackground()
}

// flush: normalise keys (order preserving, gaps capped) and write the events
func (x *execution) flush(w *tr.Writer) {
	vals := map[uint64]bool{}
	for _, e := range x.events {
		for _, f := range e {
			if k, ok := f.(key); ok {
				vals[uint64(k)] = true
			}
			if l, ok := f.([]key); ok {
				for _, k := range l {
					vals[uint64(k)] = true
				}
			}
		}
	}
	sorted := make([]uint64, 0, len(vals))
	for v := range vals {
		sorted = append(sorted, v)
	}
	sort.Slice(sorted, func(i, j int) bool { return sorted[i] < sorted[j] })
	norm := map[uint64]int{}
	var px uint64
	py := 0
	for _, xv := range sorted {
		d := xv - px
		if d > gapCap {
			d = gapCap
		}
		py += int(d)
		norm[xv] = py
		px = xv
	}
	for _, e := range x.events {
		for f, val := range e {
			if k, ok := val.(key); ok {
				e[f] = norm[uint64(k)]
			}
			if l, ok := val.([]key); ok {
				o := make([]int, len(l))
				for i, k := range l {
					o[i] = norm[uint64(k)]
				}
				e[f] = o
			}
		}
		w.Emit(e)
	}
}

func runExec(ex []tr.Ev, w *tr.Writer) {
	r := ex[0]
	x := &execution{kind: tr.S(r, "kind"), via: tr.S(r, "via"), vols: tr.Strs(r["vols"]), group: cluster.NewMasterGroup(),
		ms: map[string]*cluster.RealMaster{}, hbs: map[string]map[string]*cluster.HBStream{}, gates: map[string]*gateSeq{},
		masters: tr.Strs(r["masters"]), seqs: map[string]sequence.Sequencer{},
		views: map[string]*view{}, dirs: map[string]string{}, store: newFakeStore(), topos: map[string]*topology.Topology{},
		dns: map[string]*topology.DataNode{}, used: map[string]map[uint64]bool{}, parked: map[int]*parkedOp{}}
	defer x.close()
	pre := []interface{}{}
	for _, pv := range tr.List(r["pre"]) {
		pm, _ := pv.(map[string]interface{})
		vol, _ := pm["vol"].(string)
		x.used[vol] = map[uint64]bool{}
		var ks []key
		for _, k := range tr.Ints(pm["keys"]) {
			x.used[vol][uint64(k)] = true
			ks = append(ks, key(k))
		}
		pre = append(pre, tr.Ev{"vol": vol, "keys": ks})
	}
	for _, m := range x.masters {
		if x.via == "master" {
			x.newMaster(m)
		} else {
			x.seqs[m] = x.newSeq(m)
		}
	}
	reset := tr.Copy(r)
	reset["norm"] = "gapcap"
	x.events = append(x.events, reset)
	// the pre-existing keys go through the same normalisation as every other key
	prel := make([]tr.Ev, 0, len(pre))
	for _, p := range pre {
		prel = append(prel, p.(tr.Ev))
	}
	for _, p := range prel {
		x.events = append(x.events, tr.Ev{"ev": "pre", "vol": p["vol"], "keys": p["keys"]})
	}
	i := 1
	for i < len(ex) {
		e := ex[i]
		switch tr.S(e, "ev") {
		case "ret", "panic", "pre", "race":
			i++
			continue
		case "call":
			if tr.B(e, "gate") {
				x.gated(e)
				i++
				continue
			}
			if tr.B(e, "bg") {
				x.background(e)
				i++
				continue
			}
			var calls []tr.Ev
			for i < len(ex) {
				k := tr.S(ex[i], "ev")
				if k == "ret" || k == "panic" {
					i++
					continue
				}
				if k != "call" || tr.B(ex[i], "gate") {
					break
				}
				calls = append(calls, ex[i])
				i++
			}
			x.storm(calls)
			continue
		case "release":
			x.releaseOp(tr.I(e, "p"), tr.B(e, "again"))
			x.log(tr.Ev{"ev": "release", "p": tr.I(e, "p"), "again": tr.B(e, "again")})
			i++
			continue
		}
		var rec tr.Ev
		pan := tr.Guard(func() { rec = x.perform(tr.Copy(e)) })
		if pan != "" {
			x.log(tr.Ev{"ev": "panic", "p": 0, "msg": pan})
			break
		}
		if rec == nil {
			i++
			continue
		}
		x.log(rec)
		i++
	}
	for p := range x.parked {
		x.releaseOp(p, false)
	}
	x.joinBackground()
	x.flush(w)
}

var raceFn = regexp.MustCompile(`^\s+([A-Za-z0-9_./]+\.\(?\*?[A-Za-z0-9_]+\)?\.[A-Za-z0-9_]+|[A-Za-z0-9_./]+\.[A-Za-z0-9_]+)\(`)

// parent mode for race builds: run the script in a child process, copy its trace,
// and record every distinct data race report as an execution {reset, race}.
func runChild(o *tr.Opts) {
	tmp := o.Out + ".child"
	cmd := exec.Command(os.Args[0], "--script", o.Script, "--out", tmp, "--mode", "child")
	cmd.Env = append(os.Environ(), "GORACE=halt_on_error=0 exitcode=0")
	var stderr bytes.Buffer
	cmd.Stderr = &stderr
	if err := cmd.Run(); err != nil {
		fmt.Fprintln(os.Stderr, stderr.String())
		tr.Fatal("child: %v", err)
	}
	w := tr.NewWriter(o.Out)
	defer w.Close()
	for _, ex := range tr.ReadScript(tmp) {
		for _, e := range ex {
			w.Emit(e)
		}
	}
	os.Remove(tmp)
	seen := map[string]bool{}
	for _, rep := range strings.Split(stderr.String(), "WARNING: DATA RACE")[1:] {
		fset := map[string]bool{}
		sc := bufio.NewScanner(strings.NewReader(rep))
		for sc.Scan() {
			if mm := raceFn.FindStringSubmatch(sc.Text()); mm != nil && strings.Contains(mm[1], "seaweedfs/weed/") {
				fset[mm[1][strings.Index(mm[1], "weed/"):]] = true
			}
		}
		var fns []string
		for f := range fset {
			fns = append(fns, f)
		}
		sort.Strings(fns)
		sig := strings.Join(fns, " ")
		if seen[sig] {
			continue
		}
		seen[sig] = true
		w.Emit(tr.Ev{"ev": "reset", "kind": "race", "masters": []string{}, "vols": []string{}, "pre": []string{}, "norm": "gapcap"})
		w.Emit(tr.Ev{"ev": "race", "funcs": fns})
	}
}

func main() {
	o := tr.ParseFlags()
	if o.Mode == "race" {
		runChild(o)
		return
	}
	w := tr.NewWriter(o.Out)
	defer w.Close()
	for _, ex := range tr.ReadScript(o.Script) {
		runExec(ex, w)
	}
}
