// c32: HTTP range requests against a REAL volume server (mini-cluster kit).
//
// Script: executions {"ev":"reset","content":[ints],"gz":bool,"via":"put"|"op"} followed by
// {"ev":"get","h":{"mal":"<class>"|"" ,"specs":[{"k":"ab"|"a-"|"-n","a":..,"b":..}]},"af":"<Accept-Encoding form>"}.
// The driver stores the blob (once per distinct (content, gz, via)), renders the structured
// Range value as header text, sends the GET and records exactly what came back:
// status, Content-Encoding, whether the answer was multipart/byteranges, the parts
// (Content-Range numbers + bytes) of a 206, the body of a 200 (decoded if it came gzip
// encoded: "gz": true), and whether reading the body failed.  No opinion is formed here.
package main

import (
	"bytes"
	"compress/gzip"
	"fmt"
	"io"
	"io/ioutil"
	"mime"
	"mime/multipart"
	"net/http"
	"regexp"
	"strconv"
	"strings"

	"github.com/chrislusf/seaweedfs/weed/operation"

	"verifharness/cluster"
	"verifharness/tr"
)

var client = &http.Client{Transport: &http.Transport{DisableCompression: true, MaxIdleConnsPerHost: 64}}

type blob struct {
	fid    string
	hasrep bool
	rep    []int
	repdec []int
	up     int
}

func ints(b []byte) []int {
	r := make([]int, len(b))
	for i, x := range b {
		r[i] = int(x)
	}
	return r
}

func toBytes(v []int) []byte {
	b := make([]byte, len(v))
	for i, x := range v {
		b[i] = byte(x)
	}
	return b
}

func gz(b []byte) []byte {
	var buf bytes.Buffer
	w := gzip.NewWriter(&buf)
	w.Write(b)
	w.Close()
	return buf.Bytes()
}

func gunzip(b []byte) ([]byte, bool) {
	r, err := gzip.NewReader(bytes.NewReader(b))
	if err != nil {
		return nil, false
	}
	d, err := ioutil.ReadAll(r)
	if err != nil {
		return nil, false
	}
	return d, true
}

// header text of a structured Range value
func render(h map[string]interface{}) (string, bool) {
	switch tr.S(h, "mal") {
	case "":
	case "absent":
		return "", false
	case "empty":
		return "bytes=", true
	case "comma":
		return "bytes=,", true
	case "nounit":
		return "0-1", true
	case "badunit":
		return "items=0-1", true
	case "alpha":
		return "bytes=x-y", true
	case "nodash":
		return "bytes=1", true
	case "neg":
		return "bytes=--1", true
	case "onlydash":
		return "bytes=-", true
	case "float":
		return "bytes=0.5-1", true
	default:
		tr.Fatal("unknown malformed class %q", tr.S(h, "mal"))
	}
	var s []string
	for _, x := range tr.List(h["specs"]) {
		sp := x.(map[string]interface{})
		switch tr.S(sp, "k") {
		case "ab":
			s = append(s, fmt.Sprintf("%d-%d", tr.I(sp, "a"), tr.I(sp, "b")))
		case "a-":
			s = append(s, fmt.Sprintf("%d-", tr.I(sp, "a")))
		case "-n":
			s = append(s, fmt.Sprintf("-%d", tr.I(sp, "a")))
		default:
			tr.Fatal("unknown spec kind %q", tr.S(sp, "k"))
		}
	}
	sep := ","
	if tr.B(h, "ows") {
		sep = " , "
	}
	return "bytes=" + strings.Join(s, sep), true
}

var crRe = regexp.MustCompile(`^bytes (-?\d+)-(-?\d+)/(\d+)$`)

func parseCR(s string) (int, int, int) {
	m := crRe.FindStringSubmatch(strings.TrimSpace(s))
	if m == nil {
		return -1, -2, -1
	}
	a, _ := strconv.Atoi(m[1])
	b, _ := strconv.Atoi(m[2])
	c, _ := strconv.Atoi(m[3])
	return a, b, c
}

func main() {
	o := tr.ParseFlags()
	w := tr.NewWriter(o.Out)
	defer w.Close()
	c, err := cluster.New(cluster.Options{Volumes: 1})
	if err != nil {
		tr.Fatal("cluster: %v", err)
	}
	defer c.Close()
	vid, err := c.NewVolume("", "000", "")
	if err != nil {
		tr.Fatal("new volume: %v", err)
	}
	vurl := c.Volumes[0].Url
	blobs := map[string]*blob{}
	nextKey := 1

	fetch := func(fid string, rng string, hasRange bool, af string) tr.Ev {
		req, _ := http.NewRequest("GET", "http://"+vurl+"/"+fid, nil)
		if hasRange {
			req.Header.Set("Range", rng)
		}
		switch af {
		case "none":
		case "gzip":
			req.Header.Set("Accept-Encoding", "gzip")
		case "list":
			req.Header.Set("Accept-Encoding", "deflate, gzip;q=0.8")
		case "star":
			req.Header.Set("Accept-Encoding", "*")
		case "identity":
			req.Header.Set("Accept-Encoding", "identity")
		case "q0":
			req.Header.Set("Accept-Encoding", "gzip;q=0")
		default:
			tr.Fatal("unknown Accept-Encoding form %q", af)
		}
		res := tr.Ev{"st": 0, "ce": "", "mp": false, "parts": []interface{}{}, "body": []int{}, "gz": false, "err": false}
		resp, err := client.Do(req)
		if err != nil {
			res["err"] = true
			return res
		}
		raw, rerr := ioutil.ReadAll(resp.Body)
		resp.Body.Close()
		res["st"] = resp.StatusCode
		res["ce"] = resp.Header.Get("Content-Encoding")
		if rerr != nil {
			res["err"] = true
		}
		if cl := resp.Header.Get("Content-Length"); cl != "" {
			if n, e := strconv.Atoi(cl); e != nil || n != len(raw) {
				res["err"] = true
			}
		}
		switch resp.StatusCode {
		case 200:
			if resp.Header.Get("Content-Encoding") == "gzip" {
				d, ok := gunzip(raw)
				if !ok {
					res["err"] = true
				}
				res["gz"] = true
				res["body"] = ints(d)
			} else {
				res["body"] = ints(raw)
			}
		case 206:
			mt, params, _ := mime.ParseMediaType(resp.Header.Get("Content-Type"))
			parts := []interface{}{}
			if mt == "multipart/byteranges" {
				res["mp"] = true
				mr := multipart.NewReader(bytes.NewReader(raw), params["boundary"])
				for {
					p, e := mr.NextRawPart()
					if e == io.EOF {
						break
					}
					if e != nil {
						res["err"] = true
						break
					}
					pb, e := ioutil.ReadAll(p)
					if e != nil {
						res["err"] = true
					}
					s, en, t := parseCR(p.Header.Get("Content-Range"))
					parts = append(parts, tr.Ev{"s": s, "e": en, "t": t, "b": ints(pb)})
				}
			} else {
				s, en, t := parseCR(resp.Header.Get("Content-Range"))
				parts = append(parts, tr.Ev{"s": s, "e": en, "t": t, "b": ints(raw)})
			}
			res["parts"] = parts
		}
		return res
	}

	store := func(content []byte, gzipped bool, via string) *blob {
		k := fmt.Sprintf("%v|%s|%x", gzipped, via, content)
		if b, ok := blobs[k]; ok {
			return b
		}
		b := &blob{fid: fmt.Sprintf("%d,%x%08x", vid, nextKey, 0x1234abcd)}
		nextKey++
		switch via {
		case "op":
			// the client library: compresses text itself and POSTs multipart
			name, mt := "blob.bin", "application/octet-stream"
			if gzipped {
				name, mt = "blob.txt", "text/plain"
			}
			r, err := operation.UploadData("http://"+vurl+"/"+b.fid, name, false, content, false, mt, nil, "")
			if err != nil {
				tr.Fatal("UploadData: %v", err)
			}
			_ = r
			b.up = 201
		default:
			body := content
			if gzipped {
				body = gz(content)
			}
			req, _ := http.NewRequest("PUT", "http://"+vurl+"/"+b.fid, bytes.NewReader(body))
			if gzipped {
				req.Header.Set("Content-Encoding", "gzip")
			}
			req.Header.Set("Content-Type", "application/octet-stream")
			resp, err := client.Do(req)
			if err != nil {
				tr.Fatal("put: %v", err)
			}
			ioutil.ReadAll(resp.Body)
			resp.Body.Close()
			b.up = resp.StatusCode
		}
		// reference observation of the gzip-encoded representation, if the server has one:
		// raw bytes of a complete GET with Accept-Encoding: gzip
		req, _ := http.NewRequest("GET", "http://"+vurl+"/"+b.fid, nil)
		req.Header.Set("Accept-Encoding", "gzip")
		resp, err := client.Do(req)
		if err != nil {
			tr.Fatal("reference get: %v", err)
		}
		raw, _ := ioutil.ReadAll(resp.Body)
		resp.Body.Close()
		b.rep, b.repdec = []int{}, []int{}
		if resp.StatusCode == 200 && resp.Header.Get("Content-Encoding") == "gzip" {
			b.hasrep = true
			b.rep = ints(raw)
			if d, ok := gunzip(raw); ok {
				b.repdec = ints(d)
			} else {
				b.repdec = []int{-1}
			}
		}
		blobs[k] = b
		return b
	}

	for _, ex := range tr.ReadScript(o.Script) {
		r0 := ex[0]
		content := toBytes(tr.Ints(r0["content"]))
		via := tr.S(r0, "via")
		if via == "" {
			via = "put"
		}
		b := store(content, tr.B(r0, "gz"), via)
		w.Emit(tr.Ev{"ev": "reset", "content": ints(content), "gz": tr.B(r0, "gz"), "via": via})
		w.Emit(tr.Ev{"ev": "ref", "up": b.up, "hasrep": b.hasrep, "rep": b.rep, "repdec": b.repdec})
		for _, e := range ex[1:] {
			if tr.S(e, "ev") != "get" {
				continue
			}
			h, _ := e["h"].(map[string]interface{})
			txt, has := render(h)
			af := tr.S(e, "af")
			if _, old := e["acc"]; old && af == "" { // scripts recorded before "af" existed
				af = "none"
				if tr.B(e, "acc") {
					af = "gzip"
				}
			}
			res := fetch(b.fid, txt, has, af)
			w.Emit(tr.Ev{"ev": "get", "h": h, "af": af, "txt": txt, "res": res})
		}
	}
}
