// c22: drives the real weed/util/log_buffer.LogBuffer and records what subscribers
// are handed.  It executes and records only; every verdict is TLC's.
//
// Script mode (deterministic schedules, from TLC or from python):
//
//	reset   {mode:"hook"|"public", interval, cap, unit, k, psz, snap}
//	append  {id, req, psz}   AddToBuffer with explicit eventTsNs (payload = id, psz bytes)
//	tflush  {}               one iteration of the timer goroutine's body (hook)
//	fl1     {}               the flusher's flushFn takes the data (it becomes readable "from disk")
//	fl2     {}               flushFn returns, the flusher writes lastFlushTime
//	start   {r, t0}          a subscriber starts (SubscribeLocalMetadata's loop, disk = captured flush data)
//	rd      {r}              that subscriber runs up to its next callback / wait / loop head
//	quiesce {}               Shutdown, all flushes complete
//	drain   {}               every subscriber runs until it waits; then an "end" event each
//
// The flusher and the subscribers are real goroutines running the real code; they
// only move when the schedule says so (flushFn, eachLogDataFn and waitForDataFn
// block on harness channels).  Logical timestamps l are mapped to
// base + (l div k)*unit + (l mod k) nanoseconds (0 stays 0).
//
// Storm mode (--mode storm, Go-native): appender, timer, flusher and subscribers
// run freely; the event order is the order of tr.Writer.Emit.  --mode race runs
// the storm in a child process of this (race-built) binary and turns each race
// report on stderr into a "race" event.
package main

import (
	"bufio"
	"bytes"
	"encoding/json"
	"fmt"
	"io"
	"math/rand"
	"os"
	"os/exec"
	"regexp"
	"runtime"
	"sort"
	"strconv"
	"strings"
	"sync"
	"sync/atomic"
	"time"

	"github.com/golang/protobuf/proto"

	"github.com/chrislusf/seaweedfs/weed/filer"
	"github.com/chrislusf/seaweedfs/weed/pb/filer_pb"
	"github.com/chrislusf/seaweedfs/weed/util"
	"github.com/chrislusf/seaweedfs/weed/util/log_buffer"

	"verifharness/tr"
)

const base = int64(1600000000) * 1000000000

var partKey = []byte("k")

type tmap struct{ unit, k int64 }

func (m tmap) real(l int) int64 {
	if l <= 0 {
		return int64(l)
	}
	return base + int64(l)/m.k*m.unit + int64(l)%m.k
}

// logical is the inverse of real; timestamps that are not images of a logical
// one are reported as negative numbers below -1 (no specification admits them).
func (m tmap) logical(r int64) int {
	if r == 0 || r == -1 {
		return int(r)
	}
	d := r - base
	if d < 0 {
		return -2
	}
	q, rem := d/m.unit, d%m.unit
	if m.unit > 1 && rem >= m.k {
		return -3
	}
	v := q*m.k + rem
	if v > 1<<30 {
		return -4
	}
	return int(v)
}

func payload(id, psz int) []byte {
	if psz < 8 {
		psz = 8
	}
	b := bytes.Repeat([]byte{'.'}, psz)
	copy(b, fmt.Sprintf("%08d", id))
	return b
}

func entrySize(psz int) int {
	b, _ := proto.Marshal(&filer_pb.LogEntry{TsNs: base + 1, PartitionKeyHash: util.HashToInt32(partKey), Data: payload(1, psz)})
	return len(b) + 4
}

func (m tmap) decode(e *filer_pb.LogEntry) [2]int {
	id := -1
	if len(e.Data) >= 8 {
		if v, err := strconv.Atoi(string(e.Data[:8])); err == nil {
			id = v
		}
	}
	return [2]int{id, m.logical(e.TsNs)}
}

// parseEntries decodes flushed bytes the way the subscriber's disk replay does.
func (m tmap) parseEntries(b []byte) [][2]int {
	res := [][2]int{}
	filer.ReadEachLogEntry(bytes.NewReader(b), make([]byte, 4), -1<<62, func(e *filer_pb.LogEntry) error {
		res = append(res, m.decode(e))
		return nil
	})
	return res
}

// ---------------------------------------------------------------- gated flusher

type flushItem struct {
	start, stop int64
	data        []byte
}

type flusher struct {
	mu                           sync.Mutex
	cond                         *sync.Cond
	arrivals, captured, returned int
	rel1, rel2                   int
	open                         bool
	cur                          flushItem
	disk                         []byte
	delay                        func()
}

func newFlusher() *flusher {
	f := &flusher{}
	f.cond = sync.NewCond(&f.mu)
	return f
}

func (f *flusher) flushFn(start, stop time.Time, buf []byte) {
	f.mu.Lock()
	f.arrivals++
	n := f.arrivals
	f.cur = flushItem{start.UnixNano(), stop.UnixNano(), append([]byte(nil), buf...)}
	f.cond.Broadcast()
	for !f.open && f.rel1 < n {
		f.cond.Wait()
	}
	f.disk = append(f.disk, buf...)
	f.captured = n
	f.cond.Broadcast()
	for !f.open && f.rel2 < n {
		f.cond.Wait()
	}
	f.returned = n
	f.cond.Broadcast()
	f.mu.Unlock()
}

func (f *flusher) diskCopy() []byte {
	f.mu.Lock()
	defer f.mu.Unlock()
	return append([]byte(nil), f.disk...)
}

// waitFor blocks until cond() holds (checked under the mutex); a schedule that
// cannot make progress is a harness failure, never a verdict.
func (f *flusher) waitFor(what string, cond func() bool) {
	done := make(chan struct{})
	go func() {
		select {
		case <-done:
		case <-time.After(60 * time.Second):
			tr.Fatal("stuck waiting for %s", what)
		}
	}()
	f.mu.Lock()
	for !cond() {
		f.cond.Wait()
	}
	f.mu.Unlock()
	close(done)
}

// ---------------------------------------------------------------- scripted execution

type arrival struct {
	pc   string
	got  [][2]int
	done bool
	err  string
}

type reader struct {
	id, t0  int
	tok     chan bool
	arr     chan arrival
	pending [][2]int
	pc      string
	dead    bool
}

func (rd *reader) gate(pc string) bool {
	got := rd.pending
	if got == nil {
		got = [][2]int{}
	}
	rd.pending = nil
	rd.arr <- arrival{pc: pc, got: got}
	return <-rd.tok
}

type execution struct {
	w         *tr.Writer
	tm        tmap
	lb        *log_buffer.LogBuffer
	fl        *flusher
	readers   map[int]*reader
	order     []int
	mems      map[string]int
	esize     int
	last      log_buffer.VerifState
	pushed    int
	completed int
	shut      bool
	hung      bool // a subscriber never came back: nothing that takes the buffer's lock may be called any more
	snaps     bool // record the unexported state after every step (for the layer-B conformance judge)
}

var errStop = fmt.Errorf("harness stop")

func (x *execution) runReader(rd *reader) {
	defer func() {
		if r := recover(); r != nil {
			rd.arr <- arrival{pc: "panic", err: fmt.Sprint(r), got: [][2]int{}}
		}
	}()
	lrt := time.Unix(0, x.tm.real(rd.t0))
	sizeBuf := make([]byte, 4)
	var memErr error
	fail := ""
	for {
		if !rd.gate("disk") {
			break
		}
		// fs.filer.ReadPersistedLogBuffer(lastReadTime, eachLogEntryFn): the persisted log is what
		// flushFn has been handed so far; the real entry reader of weed/filer is used
		processed, err := filer.ReadEachLogEntry(bytes.NewReader(x.fl.diskCopy()), sizeBuf, lrt.UnixNano(), func(e *filer_pb.LogEntry) error {
			rd.pending = append(rd.pending, x.tm.decode(e))
			return nil
		})
		if err != nil && err != io.EOF {
			fail = "disk: " + err.Error()
			break
		}
		if processed != 0 {
			lrt = time.Unix(0, processed)
		} else if memErr == log_buffer.ResumeFromDiskError {
			continue // (the server sleeps 1127 ms here)
		}
		if !rd.gate("mem") {
			break
		}
		stopped := false
		lrt, memErr = x.lb.LoopProcessLogData("c22", lrt, func() bool {
			if !rd.gate("wait") {
				stopped = true
				return false
			}
			return true
		}, func(e *filer_pb.LogEntry) error {
			rd.pending = append(rd.pending, x.tm.decode(e))
			if !rd.gate("cb") {
				stopped = true
				return errStop
			}
			return nil
		})
		if stopped {
			break
		}
		if memErr != nil {
			if memErr == log_buffer.ResumeFromDiskError {
				continue
			}
			if memErr != log_buffer.ResumeError {
				fail = "mem: " + memErr.Error()
				break
			}
			fail = "mem: " + memErr.Error() // a torn entry: the server logs it and starts over
			break
		}
	}
	got := rd.pending
	if got == nil {
		got = [][2]int{}
	}
	rd.arr <- arrival{done: true, err: fail, got: got}
}

func (x *execution) memID(p string) int {
	if id, ok := x.mems[p]; ok {
		return id
	}
	id := len(x.mems) + 1
	x.mems[p] = id
	return id
}

func (x *execution) bufEv(b log_buffer.VerifBuf) tr.Ev {
	return tr.Ev{"mem": x.memID(b.Mem), "n": b.Size / x.esize, "rem": b.Size % x.esize,
		"start": x.tm.logical(b.Start), "stop": x.tm.logical(b.Stop)}
}

func (x *execution) snapshot() log_buffer.VerifState { return x.lb.VerifSnapshot() }

func (x *execution) snapEv(s log_buffer.VerifState) tr.Ev {
	sealed := []tr.Ev{}
	for _, b := range s.Sealed {
		sealed = append(sealed, x.bufEv(b))
	}
	return tr.Ev{"cur": x.bufEv(s.Cur), "sealed": sealed, "lft": x.tm.logical(s.LastFlush),
		"last": x.tm.logical(s.LastTs), "pend": x.pushed - x.completed, "queued": s.Queued}
}

func sealedEqual(a, b log_buffer.VerifState) bool {
	if len(a.Sealed) != len(b.Sealed) {
		return false
	}
	for i := range a.Sealed {
		if a.Sealed[i] != b.Sealed[i] {
			return false
		}
	}
	return true
}

// afterMutation: a rotation of a non-empty buffer (the sealed slots changed) has
// queued one more item for the flusher; wait until the flusher has picked up what
// it can (it is either inside flushFn or has nothing to do).
func (x *execution) afterMutation() log_buffer.VerifState {
	s := x.snapshot()
	if !sealedEqual(s, x.last) {
		x.pushed++
	}
	x.last = s
	x.settle()
	return x.snapshot()
}

func (x *execution) settle() {
	f := x.fl
	f.waitFor("the flusher to pick up a rotated buffer", func() bool {
		return f.arrivals > x.completed || f.arrivals == x.pushed
	})
}

func (x *execution) emit(e tr.Ev, s log_buffer.VerifState) {
	if x.snaps {
		e["snap"] = x.snapEv(s)
	}
	x.w.Emit(e)
}

func (x *execution) stepReader(rd *reader, ev string) bool {
	rd.tok <- true
	var a arrival
	select {
	case a = <-rd.arr:
	case <-time.After(20 * time.Second):
		// the subscriber does not come back from the buffer's code (it is handed nothing, it does not
		// wait, it does not return): an observation, not a harness failure.  The execution ends here;
		// the goroutine (it may hold the buffer's read lock) is abandoned.
		rd.dead = true
		x.hung = true
		hangs++
		x.w.Emit(tr.Ev{"ev": "rderr", "r": rd.id, "got": [][2]int{}, "msg": "no progress for 20 s inside the buffer's code"})
		return false
	}
	s := x.snapshot()
	if a.done || a.pc == "panic" {
		rd.dead = true
		kind := "rderr"
		if a.pc == "panic" {
			kind = "panic"
		}
		x.emit(tr.Ev{"ev": kind, "r": rd.id, "got": a.got, "msg": a.err}, s)
		return false
	}
	rd.pc = a.pc
	x.emit(tr.Ev{"ev": ev, "r": rd.id, "got": a.got, "pc": a.pc, "pend": x.pushed - x.completed}, s)
	return true
}

// hangs counts the subscribers that never came back (each costs 20 s and leaves a spinning
// goroutine behind): after a few of them the rest of the script is not executed.
var hangs int

func runScript(o *tr.Opts, w *tr.Writer) {
	for _, ex := range tr.ReadScript(o.Script) {
		if hangs >= 3 {
			break
		}
		runExecution(w, ex)
	}
}

func geti(e tr.Ev, k string, def int) int {
	if _, ok := e[k]; ok {
		return tr.I(e, k)
	}
	return def
}

func runExecution(w *tr.Writer, ex []tr.Ev) {
	cfg := ex[0]
	x := &execution{w: w, readers: map[int]*reader{}, mems: map[string]int{}, fl: newFlusher()}
	x.tm = tmap{unit: int64(geti(cfg, "unit", 1)), k: int64(geti(cfg, "k", 1))}
	interval := geti(cfg, "interval", 2)
	capN := geti(cfg, "cap", 2)
	psz := geti(cfg, "psz", 8)
	x.snaps = tr.B(cfg, "snap")
	x.esize = entrySize(psz)
	fi := time.Duration(int64(interval)/x.tm.k*x.tm.unit + int64(interval)%x.tm.k)
	notify := func() {}
	if tr.S(cfg, "mode") == "public" {
		x.lb = log_buffer.NewLogBuffer("c22", fi, x.fl.flushFn, notify)
	} else {
		x.lb = log_buffer.VerifNewLogBuffer("c22", fi, x.fl.flushFn, notify, capN*x.esize)
	}
	x.last = x.snapshot()
	for _, b := range x.last.Sealed {
		x.memID(b.Mem)
	}
	x.memID(x.last.Cur.Mem)
	w.Emit(cfg)
	defer x.cleanup()
	for _, e := range ex[1:] {
		if x.hung {
			return
		}
		op := tr.S(e, "ev")
		switch op {
		case "append":
			if x.shut {
				continue
			}
			id, req := tr.I(e, "id"), tr.I(e, "req")
			p := payload(id, geti(e, "psz", psz))
			pan := tr.Guard(func() { x.lb.AddToBuffer(partKey, p, x.tm.real(req)) })
			if pan != "" {
				w.Emit(tr.Ev{"ev": "panic", "op": e, "msg": pan})
				return
			}
			s := x.afterMutation()
			x.emit(tr.Ev{"ev": "append", "id": id, "req": req, "psz": len(p), "ts": x.tm.logical(s.LastTs)}, s)
		case "tflush":
			if x.shut {
				continue
			}
			x.lb.VerifTimerFlush()
			s := x.afterMutation()
			x.emit(tr.Ev{"ev": "tflush"}, s)
		case "fl1":
			f := x.fl
			f.mu.Lock()
			ready := f.arrivals > x.completed && f.captured < f.arrivals
			n, item := f.arrivals, f.cur
			if ready {
				f.rel1 = n
				f.cond.Broadcast()
			}
			f.mu.Unlock()
			if !ready {
				x.emit(tr.Ev{"ev": "fl1", "res": "none", "got": [][2]int{}, "start": 0, "stop": 0}, x.snapshot())
				continue
			}
			f.waitFor("flushFn to take the data", func() bool { return f.captured >= n })
			x.emit(tr.Ev{"ev": "fl1", "res": "ok", "got": x.tm.parseEntries(item.data),
				"start": x.tm.logical(item.start), "stop": x.tm.logical(item.stop)}, x.snapshot())
		case "fl2":
			f := x.fl
			f.mu.Lock()
			ready := f.arrivals > x.completed && f.captured == f.arrivals && f.returned < f.arrivals
			n, item := f.arrivals, f.cur
			if ready {
				f.rel2 = n
				f.cond.Broadcast()
			}
			f.mu.Unlock()
			if !ready {
				x.emit(tr.Ev{"ev": "fl2", "res": "none", "got": [][2]int{}}, x.snapshot())
				continue
			}
			f.waitFor("flushFn to return", func() bool { return f.returned >= n })
			x.awaitLastFlush(item.stop)
			x.completed++
			x.settle()
			x.emit(tr.Ev{"ev": "fl2", "res": "ok", "got": x.tm.parseEntries(item.data)}, x.snapshot())
		case "start":
			r := tr.I(e, "r")
			if x.readers[r] != nil {
				continue
			}
			rd := &reader{id: r, t0: tr.I(e, "t0"), tok: make(chan bool), arr: make(chan arrival, 1)}
			x.readers[r] = rd
			x.order = append(x.order, r)
			go x.runReader(rd)
			a := <-rd.arr // its first loop head
			rd.pc = a.pc
			x.emit(tr.Ev{"ev": "start", "r": r, "t0": rd.t0}, x.snapshot())
		case "rd":
			rd := x.readers[tr.I(e, "r")]
			if rd == nil || rd.dead {
				continue
			}
			x.stepReader(rd, "rd")
		case "quiesce":
			if x.shut {
				continue
			}
			x.quiesce()
		case "drain":
			x.w.Emit(tr.Ev{"ev": "drain"})
			for _, r := range x.order {
				rd := x.readers[r]
				if rd.dead {
					continue
				}
				ok := true
				for n := 0; ok && (rd.pc != "wait" || n == 0); n++ {
					if n > 400 {
						x.emit(tr.Ev{"ev": "rderr", "r": r, "got": [][2]int{}, "msg": "still busy after 400 steps"}, x.snapshot())
						ok = false
						break
					}
					ok = x.stepReader(rd, "rd")
				}
				if ok {
					x.emit(tr.Ev{"ev": "end", "r": r}, x.snapshot())
				}
			}
			return // the drain ends the execution (what follows it in a replayed trace are its recorded results)
		case "snap", "end", "panic", "rderr":
			// recorded results of an earlier run: ignored on replay
		default:
			tr.Fatal("unknown op %v", op)
		}
	}
}

func (x *execution) awaitLastFlush(stop int64) {
	t0 := time.Now()
	for x.snapshot().LastFlush != stop {
		runtime.Gosched()
		if time.Since(t0) > 60*time.Second {
			tr.Fatal("lastFlushTime never became %d", stop)
		}
	}
}

func (x *execution) quiesce() {
	f := x.fl
	f.mu.Lock()
	n0 := f.captured
	f.open = true
	f.cond.Broadcast()
	f.mu.Unlock()
	x.lb.Shutdown()
	x.shut = true
	s := x.snapshot()
	if !sealedEqual(s, x.last) {
		x.pushed++
	}
	x.last = s
	f.waitFor("all flushes", func() bool { return f.returned == x.pushed })
	if x.pushed > 0 {
		f.mu.Lock()
		stop := f.cur.stop
		f.mu.Unlock()
		x.awaitLastFlush(stop)
	}
	x.completed = x.pushed
	// what reached the disk during the quiesce
	f.mu.Lock()
	all := x.tm.parseEntries(f.disk)
	f.mu.Unlock()
	_ = n0
	x.emit(tr.Ev{"ev": "quiesce", "disk": all}, x.snapshot())
}

func (x *execution) cleanup() {
	f := x.fl
	f.mu.Lock()
	f.open = true
	f.cond.Broadcast()
	f.mu.Unlock()
	for _, rd := range x.readers {
		if !rd.dead {
			rd.tok <- false
			for a := range rd.arr {
				if a.done || a.pc == "panic" {
					break
				}
				rd.tok <- false
			}
		}
	}
	if !x.shut && !x.hung {
		x.lb.Shutdown()
	}
}

// ---------------------------------------------------------------- storm

type stormCfg struct {
	mode            string
	tm              tmap
	events, readers int
	cap, interval   int // interval in logical units
	varsize         bool
	timer           bool
	slowFlush       bool
}

// storm runs one free-running execution: appender, timer, flusher and subscribers
// are unsynchronised goroutines on one LogBuffer.  The appender never lets more
// than 3 rotated buffers wait for the flusher (the lag beyond the sealed buffers is
// a listed finding of its own, exercised by the scheduled executions).
func storm(w *tr.Writer, seed int64, c stormCfg) {
	rng := rand.New(rand.NewSource(seed)) // this goroutine only; the others get their own
	tm := c.tm
	k := int(tm.k)
	esize := entrySize(8)
	var diskMu sync.Mutex
	var disk []byte
	var inFn int32
	var flushed int64 // stop time of the last completed flushFn
	delays := make([]int, 64)
	for i := range delays {
		if c.slowFlush {
			delays[i] = rng.Intn(40)
		}
	}
	var nflush int32
	var stopsMu sync.Mutex
	var stops []int64 // stop time of every rotated buffer that has reached flushFn, in order
	flushFn := func(start, stop time.Time, buf []byte) {
		atomic.AddInt32(&inFn, 1)
		stopsMu.Lock()
		stops = append(stops, stop.UnixNano())
		stopsMu.Unlock()
		n := atomic.AddInt32(&nflush, 1)
		for i := 0; i < delays[int(n)%len(delays)]; i++ {
			runtime.Gosched()
		}
		diskMu.Lock()
		disk = append(disk, buf...)
		diskMu.Unlock()
		atomic.StoreInt64(&flushed, stop.UnixNano())
		atomic.AddInt32(&inFn, -1)
	}
	notifyCh := make(chan struct{}, 1)
	notify := func() {
		select {
		case notifyCh <- struct{}{}:
		default:
		}
	}
	fi := time.Duration(int64(c.interval)/tm.k*tm.unit + int64(c.interval)%tm.k)
	var lb *log_buffer.LogBuffer
	if c.mode == "public" {
		lb = log_buffer.NewLogBuffer("c22", fi, flushFn, notify)
	} else {
		lb = log_buffer.VerifNewLogBuffer("c22", fi, flushFn, notify, c.cap*esize)
	}
	w.Emit(tr.Ev{"ev": "reset", "mode": "storm-" + c.mode, "interval": c.interval, "cap": c.cap,
		"unit": strconv.FormatInt(tm.unit, 10), "k": k, "psz": 8})

	var rotMu sync.Mutex // appender and harness timer take turns, so that the lag bound holds
	// An upper bound of the rotated buffers whose flush has not completed: those still queued, those
	// that have reached flushFn, possibly one on its way from the channel to flushFn, minus those the
	// buffer itself treats as flushed (a read from just before their end is sent to the disk).  Only
	// called by the goroutine that holds rotMu.
	completed := 0
	lagOK := func() bool {
		q := lb.VerifQueued()
		stopsMu.Lock()
		arrived := append([]int64(nil), stops...)
		stopsMu.Unlock()
		for completed < len(arrived) {
			b, err := lb.ReadFromBuffer(time.Unix(0, arrived[completed]-1))
			if b != nil {
				lb.ReleaseMemory(b)
			}
			if err != log_buffer.ResumeFromDiskError {
				break
			}
			completed++
		}
		return q+len(arrived)+1-completed <= 2
	}
	waitLag := func() {
		for !lagOK() {
			runtime.Gosched()
		}
	}
	var appended int32 // number of events whose append has been logged
	reqs := make([]int, c.events+1)
	pszs := make([]int, c.events+1)
	cur := 0
	for i := 1; i <= c.events; i++ {
		switch rng.Intn(6) {
		case 0:
			// the same timestamp again: the buffer has to bump it
		case 1:
			cur += c.interval + k*(1+rng.Intn(3))
		default:
			cur += k * (1 + rng.Intn(c.interval/(2*k)+1))
		}
		if cur == 0 {
			cur = k
		}
		reqs[i] = cur
		pszs[i] = 8
		if c.varsize {
			pszs[i] = 8 + rng.Intn(3)*7
		}
	}
	var drained, broken int32
	var wg sync.WaitGroup
	done := make(chan struct{})
	// appender
	wg.Add(1)
	go func() {
		defer wg.Done()
		defer func() {
			if p := recover(); p != nil {
				w.Emit(tr.Ev{"ev": "panic", "r": 0, "got": [][2]int{}, "msg": fmt.Sprint(p)})
				atomic.StoreInt32(&appended, int32(c.events))
				atomic.StoreInt32(&broken, 1)
				rotMu.Unlock()
			}
		}()
		for i := 1; i <= c.events; i++ {
			rotMu.Lock()
			waitLag()
			// logged before the call: whatever a subscriber is handed has been logged as appended;
			// the timestamp the buffer gave it follows as "appended" (there is one appender)
			w.Emit(tr.Ev{"ev": "append", "id": i, "req": reqs[i], "psz": pszs[i], "ts": 0})
			atomic.StoreInt32(&appended, int32(i))
			lb.AddToBuffer(partKey, payload(i, pszs[i]), tm.real(reqs[i]))
			w.Emit(tr.Ev{"ev": "appended", "id": i, "ts": tm.logical(lb.VerifLastTs())})
			rotMu.Unlock()
			if i%3 == 0 {
				runtime.Gosched()
			}
		}
	}()
	// harness-driven timer (VerifTimerFlush is the body of the real timer goroutine)
	if c.timer {
		trng := rand.New(rand.NewSource(seed + 1))
		go func() {
			for {
				select {
				case <-done:
					return
				default:
				}
				for i, n := 0, 5+trng.Intn(50); i < n; i++ {
					runtime.Gosched()
				}
				rotMu.Lock()
				if atomic.LoadInt32(&drained) == 0 {
					waitLag()
					lb.VerifTimerFlush()
				}
				rotMu.Unlock()
			}
		}()
	}
	// subscribers
	var rwg sync.WaitGroup
	for r := 1; r <= c.readers; r++ {
		startAfter := rng.Intn(c.events + 1)
		pick := rng.Intn(5)
		rrng := rand.New(rand.NewSource(seed + 10 + int64(r)))
		rwg.Add(1)
		go func(r int) {
			defer rwg.Done()
			defer func() {
				if p := recover(); p != nil {
					w.Emit(tr.Ev{"ev": "panic", "r": r, "got": [][2]int{}, "msg": fmt.Sprint(p)})
				}
			}()
			for int(atomic.LoadInt32(&appended)) < startAfter {
				runtime.Gosched()
			}
			n := int(atomic.LoadInt32(&appended))
			t0 := 0
			if n > 0 {
				switch pick {
				case 0:
					t0 = 0
				case 1:
					t0 = reqs[1+rrng.Intn(n)] // an exact (requested) event timestamp
				case 2:
					t0 = reqs[1+rrng.Intn(n)] - 1
				case 3:
					t0 = reqs[n] + 1 + rrng.Intn(3) // slightly in the future
				default:
					t0 = reqs[1+rrng.Intn(n)] + 1
				}
				if t0 < 0 {
					t0 = 0
				}
			}
			w.Emit(tr.Ev{"ev": "start", "r": r, "t0": t0})
			lrt := time.Unix(0, tm.real(t0))
			sizeBuf := make([]byte, 4)
			var memErr error
			handed := 0
			deliver := func(pc string) func(e *filer_pb.LogEntry) error {
				return func(e *filer_pb.LogEntry) error {
					w.Emit(tr.Ev{"ev": "rd", "r": r, "got": [][2]int{tm.decode(e)}, "pc": pc, "pend": 0})
					if handed++; handed > 20*c.events+100 {
						return errStop // a subscriber that is handed far more than was ever appended: recorded, stop
					}
					return nil
				}
			}
			sawDrained := false
			idle := 0
			for {
				diskMu.Lock()
				d := append([]byte(nil), disk...)
				diskMu.Unlock()
				processed, err := filer.ReadEachLogEntry(bytes.NewReader(d), sizeBuf, lrt.UnixNano(), deliver("disk"))
				if err != nil && err != io.EOF {
					w.Emit(tr.Ev{"ev": "rderr", "r": r, "got": [][2]int{}, "msg": "disk: " + err.Error()})
					return
				}
				if processed != 0 {
					lrt = time.Unix(0, processed)
					idle = 0
				} else if memErr == log_buffer.ResumeFromDiskError {
					runtime.Gosched()
					idle++
					if idle > 20000 {
						w.Emit(tr.Ev{"ev": "rderr", "r": r, "got": [][2]int{}, "msg": "resume-from-disk loop"})
						return
					}
					continue
				}
				gotAny := false
				final := sawDrained
				lrt, memErr = lb.LoopProcessLogData("c22", lrt, func() bool {
					if final {
						return false
					}
					if atomic.LoadInt32(&drained) != 0 {
						sawDrained = true
						final = true // one more look, then stop
						return true
					}
					select {
					case <-notifyCh:
					case <-time.After(50 * time.Microsecond):
					}
					return true
				}, func(e *filer_pb.LogEntry) error {
					gotAny = true
					return deliver("cb")(e)
				})
				if memErr != nil && memErr != log_buffer.ResumeFromDiskError {
					w.Emit(tr.Ev{"ev": "rderr", "r": r, "got": [][2]int{}, "msg": "mem: " + memErr.Error()})
					return
				}
				if memErr == nil && final && !gotAny && processed == 0 {
					break
				}
			}
			w.Emit(tr.Ev{"ev": "end", "r": r})
		}(r)
	}
	wg.Wait()
	if atomic.LoadInt32(&broken) != 0 {
		// AddToBuffer panicked (recorded): nothing more can be expected of this buffer
		atomic.StoreInt32(&drained, 1)
		close(done)
		return
	}
	// quiesce: everything is flushed, then the subscribers finish
	rotMu.Lock()
	lb.Shutdown()
	rotMu.Unlock()
	t0 := time.Now()
	for {
		// the flusher is done when every event is on disk and a read from just before the end
		// of the last flushed buffer is sent to the disk (lastFlushTime has been written)
		if lb.VerifQueued() == 0 && atomic.LoadInt32(&inFn) == 0 {
			if lastReal := atomic.LoadInt64(&flushed); lastReal != 0 {
				diskMu.Lock()
				n := len(tm.parseEntries(disk))
				diskMu.Unlock()
				if n >= c.events {
					b, err := lb.ReadFromBuffer(time.Unix(0, lastReal-1))
					if b != nil {
						lb.ReleaseMemory(b)
					}
					if err == log_buffer.ResumeFromDiskError {
						break
					}
				}
			}
		}
		runtime.Gosched()
		if time.Since(t0) > 60*time.Second {
			if lb.VerifQueued() == 0 && atomic.LoadInt32(&inFn) == 0 {
				// the flusher is idle and yet the flushed log does not hold every appended event (or the buffer never
				// hands a past reader over to the disk): an observation, recorded as an event that nothing admits
				diskMu.Lock()
				n := len(tm.parseEntries(disk))
				diskMu.Unlock()
				w.Emit(tr.Ev{"ev": "rderr", "r": 0, "got": [][2]int{}, "msg": fmt.Sprintf("the flusher is idle but the flushed log holds %d of %d events 60 s after shutdown", n, c.events)})
				hangs++
				atomic.StoreInt32(&drained, 1)
				close(done)
				return
			}
			tr.Fatal("storm: flusher never finished")
		}
	}
	w.Emit(tr.Ev{"ev": "quiesce", "disk": [][2]int{}})
	atomic.StoreInt32(&drained, 1)
	close(done)
	fin := make(chan struct{})
	go func() { rwg.Wait(); close(fin) }()
	select {
	case <-fin:
	case <-time.After(30 * time.Second):
		// a subscriber that neither finishes nor waits long after everything has been flushed
		w.Emit(tr.Ev{"ev": "rderr", "r": 0, "got": [][2]int{}, "msg": "a subscriber made no progress for 30 s after the log went quiet"})
		hangs++
	}
}

func runStorm(o *tr.Opts, w *tr.Writer) {
	rng := rand.New(rand.NewSource(o.Seed*7919 + 17))
	n := o.N
	if n == 0 {
		n = 50
	}
	for i := 0; i < n && hangs < 3; i++ {
		c := stormCfg{mode: "hook", tm: tmap{unit: 1, k: 1}, events: 10 + rng.Intn(40), readers: 1 + rng.Intn(3),
			cap: 1 + rng.Intn(5), interval: 2 + rng.Intn(6), varsize: rng.Intn(3) == 0, timer: rng.Intn(2) == 0,
			slowFlush: rng.Intn(2) == 0}
		if i%10 == 9 {
			// the public constructor: 4 MiB buffers; its timer goroutine sleeps for an hour, so
			// timestamps are a quarter of an hour apart and four of them make a rotation
			c.mode = "public"
			c.tm = tmap{unit: int64(15 * time.Minute), k: 10}
			c.interval = 40
			c.varsize = false
		}
		storm(w, rng.Int63(), c)
	}
}

// ---------------------------------------------------------------- race child

var frameRe = regexp.MustCompile(`^\s+(\S+)\(.*\)$`)

// runRace re-executes this binary in storm mode with the race detector's reports
// going to its stderr and records one "race" event per distinct pair of accessing
// functions.
func runRace(o *tr.Opts, w *tr.Writer) {
	childOut := o.Out + ".storm"
	cmd := exec.Command(os.Args[0], "--mode", "storm", "--n", strconv.Itoa(o.N), "--out", childOut)
	cmd.Env = append(os.Environ(), "GORACE=halt_on_error=0 exitcode=0")
	var stderr bytes.Buffer
	cmd.Stderr = &stderr
	if err := cmd.Run(); err != nil {
		tail := stderr.String()
		if len(tail) > 3000 {
			tail = tail[len(tail)-3000:]
		}
		tr.Fatal("storm child failed: %v\n%s", err, tail)
	}
	// the child's executions are part of the trace
	if f, err := os.Open(childOut); err == nil {
		sc := bufio.NewScanner(f)
		sc.Buffer(make([]byte, 1<<20), 1<<26)
		for sc.Scan() {
			var e tr.Ev
			if err := json.Unmarshal(sc.Bytes(), &e); err == nil {
				w.Emit(e)
			}
		}
		f.Close()
		os.Remove(childOut)
	}
	type pair struct{ a, b, where string }
	seen := map[string]pair{}
	lines := strings.Split(stderr.String(), "\n")
	for i := 0; i < len(lines); i++ {
		if !strings.HasPrefix(lines[i], "WARNING: DATA RACE") {
			continue
		}
		var fns, where []string
		for j := i + 1; j < len(lines) && !strings.HasPrefix(lines[j], "=================="); j++ {
			l := lines[j]
			if strings.HasPrefix(l, "Goroutine ") {
				break
			}
			if strings.Contains(l, " by goroutine ") || strings.Contains(l, " by main goroutine") {
				// the first frame below is the accessing function
				if j+2 < len(lines) {
					if m := frameRe.FindStringSubmatch(lines[j+1]); m != nil {
						fn := m[1]
						if k := strings.LastIndex(fn, "/"); k >= 0 {
							fn = fn[k+1:]
						}
						fns = append(fns, fn)
						loc := strings.TrimSpace(lines[j+2])
						if k := strings.Index(loc, " "); k >= 0 {
							loc = loc[:k]
						}
						if k := strings.LastIndex(loc, "/weed/"); k >= 0 {
							loc = loc[k+1:]
						}
						where = append(where, loc)
					}
				}
			}
		}
		sort.Strings(fns)
		sort.Strings(where)
		key := strings.Join(fns, "|")
		if _, ok := seen[key]; !ok && len(fns) == 2 {
			seen[key] = pair{fns[0], fns[1], strings.Join(where, " ")}
		}
	}
	w.Emit(tr.Ev{"ev": "reset", "mode": "race", "interval": 0, "cap": 0, "unit": 1, "k": 1})
	keys := []string{}
	for k := range seen {
		keys = append(keys, k)
	}
	sort.Strings(keys)
	for _, k := range keys {
		p := seen[k]
		w.Emit(tr.Ev{"ev": "race", "a": p.a, "b": p.b, "where": p.where})
	}
}

func main() {
	o := tr.ParseFlags()
	w := tr.NewWriter(o.Out)
	defer w.Close()
	switch o.Mode {
	case "storm":
		runStorm(o, w)
	case "race":
		runRace(o, w)
	default:
		runScript(o, w)
	}
}
