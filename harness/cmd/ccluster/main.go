// ccluster (X06, spec growth): a whole small cluster around the REAL master server over the
// network (cluster.NewRealCluster: MasterServer by its public constructor, gRPC + HTTP listeners,
// 3 real volume servers heartbeating over real gRPC). One cluster per process; executions are
// namespaced by collection name ("x<ordinal><logical name>").
//
// Script operations (inputs) and what is recorded (observed results):
//
//	assign   {c, rep, ttl, n, via: "grpc"|"http"}  -> ok, vid, key, cnt, url (server token)
//	grow     {c, rep, ttl, count}                   -> ok, cnt              (/vol/grow)
//	upload   {f, sub, d, at: "url"|"other"}         -> st ok|err|noassign, code, to
//	delete   {f, sub, at}                           -> st ok|notfound|err|noassign, code, to
//	vacuum   {thr}                                  -> st ok|err            (/vol/vacuum -> Topology.Vacuum)
//	coldel   {c}                                    -> st ok|err, code      (/col/delete)
//	mrestart                                        -> settled              (new MasterServer on the same ports)
//	vstop / vstart / vrestart {s}                   -> settled
//
// f = ordinal of the assign event in the execution (1-based), sub = 0..cnt-1 (fid, fid_1, ...).
// Every event additionally carries what the cluster looks like afterwards:
//
//	vols: for every volume of the execution (ever seen): vid, c, rep, ttl as the volume servers
//	      report them (GET /status), hold = servers that report it, st = [s, fc, dc, rev] file count /
//	      delete count / compaction revision per holder, look = gRPC LookupVolume(vid), lookh = HTTP
//	      /dir/lookup?volumeId=, wr = listed writable in /dir/status
//	rs:   for every file id handed out: lf = HTTP /dir/lookup?fileId=&collection=, lg = gRPC
//	      LookupVolume("<fid>", collection), r = GET of the file id on EVERY running volume server
//	      [s, st data|notfound|err, d data token]
//
// The driver decides nothing.
package main

import (
	"bytes"
	"context"
	"encoding/json"
	"fmt"
	"io/ioutil"
	"mime/multipart"
	"net/http"
	"net/url"
	"os"
	"sort"
	"strconv"
	"time"

	"google.golang.org/grpc"

	"github.com/chrislusf/seaweedfs/weed/pb/master_pb"
	"github.com/chrislusf/seaweedfs/weed/storage/needle"

	"verifharness/cluster"
	"verifharness/tr"
)

var datas = map[string][]byte{
	"a": []byte("AAAA-data-a"),
	"b": []byte("bbbbbbbbbbbbbbbbbbbbbbbb-data-b"),
	"L": bytes.Repeat([]byte("0123456789abcdeF"), 1300),
}

func dataToken(b []byte) string {
	for t, v := range datas {
		if bytes.Equal(v, b) {
			return t
		}
	}
	return "?"
}

type fidRec struct {
	ok   bool
	fid  string
	vid  uint32
	key  uint64
	cnt  int
	coll string // real collection name
	ttl  string
}

type world struct {
	c      *cluster.RealCluster
	hc     *http.Client
	conn   *grpc.ClientConn
	tok    map[string]string // url -> server token
	idx    map[string]int    // server token -> node index
	settle time.Duration
}

func (w *world) master() master_pb.SeaweedClient {
	if w.conn == nil {
		ctx, cancel := context.WithTimeout(context.Background(), 10*time.Second)
		defer cancel()
		conn, err := grpc.DialContext(ctx, "127.0.0.1:"+strconv.Itoa(w.c.MasterPort+10000), grpc.WithInsecure(), grpc.WithBlock())
		if err != nil {
			tr.Fatal("dial master: %v", err)
		}
		w.conn = conn
	}
	return master_pb.NewSeaweedClient(w.conn)
}

// dropConns: after a stop / restart nothing of the driver's own connections is reused.
func (w *world) dropConns() {
	if w.conn != nil {
		w.conn.Close()
		w.conn = nil
	}
	w.hc.CloseIdleConnections()
}

func (w *world) get(u string) (int, []byte) {
	resp, err := w.hc.Get(u)
	if err != nil {
		return -1, []byte(err.Error())
	}
	b, _ := ioutil.ReadAll(resp.Body)
	resp.Body.Close()
	return resp.StatusCode, b
}

func (w *world) tokens(urls []string) []string {
	res := make([]string, 0, len(urls))
	for _, u := range urls {
		t, ok := w.tok[u]
		if !ok {
			t = "?"
		}
		res = append(res, t)
	}
	sort.Strings(res)
	return res
}

func (w *world) lookupHttp(q string) []string {
	code, b := w.get("http://" + w.c.MasterAddr + "/dir/lookup?" + q)
	var r struct {
		Locations []struct{ Url string }
		Error     string
	}
	if code != 200 || json.Unmarshal(b, &r) != nil || r.Error != "" {
		return []string{}
	}
	var urls []string
	for _, l := range r.Locations {
		urls = append(urls, l.Url)
	}
	return w.tokens(urls)
}

func (w *world) lookupGrpc(id, coll string) []string {
	ctx, cancel := context.WithTimeout(context.Background(), 15*time.Second)
	defer cancel()
	resp, err := w.master().LookupVolume(ctx, &master_pb.LookupVolumeRequest{VolumeIds: []string{id}, Collection: coll})
	if err != nil || len(resp.VolumeIdLocations) != 1 || resp.VolumeIdLocations[0].Error != "" {
		return []string{}
	}
	var urls []string
	for _, l := range resp.VolumeIdLocations[0].Locations {
		urls = append(urls, l.Url)
	}
	return w.tokens(urls)
}

// writables: volume ids listed writable by /dir/status.
func (w *world) writables() map[uint32]bool {
	res := map[uint32]bool{}
	code, b := w.get("http://" + w.c.MasterAddr + "/dir/status")
	var r struct {
		Topology struct {
			Layouts []struct {
				Writables []uint32 `json:"writables"`
			}
		}
	}
	if code != 200 || json.Unmarshal(b, &r) != nil {
		return res
	}
	for _, l := range r.Topology.Layouts {
		for _, v := range l.Writables {
			res[v] = true
		}
	}
	return res
}

type exec struct {
	w      *world
	ord    int
	real   map[string]string // logical collection -> real
	logic  map[string]string // real -> logical
	fids   []fidRec
	seen   map[uint32]bool
	prefix string
}

func (x *exec) coll(c string) string {
	if r, ok := x.real[c]; ok {
		return r
	}
	r := x.prefix + c
	x.real[c] = r
	x.logic[r] = c
	return r
}

func (x *exec) snapshot(e tr.Ev) {
	w := x.w
	type hv struct {
		s string
		v cluster.NodeVolume
	}
	byVid := map[uint32][]hv{}
	for i, n := range w.c.Nodes {
		if !n.Up {
			continue
		}
		vs, _ := w.c.NodeVolumes(i)
		for _, v := range vs {
			if _, mine := x.logic[v.Collection]; mine || x.seen[v.Id] {
				x.seen[v.Id] = true
				byVid[v.Id] = append(byVid[v.Id], hv{"s" + strconv.Itoa(i+1), v})
			}
		}
	}
	wr := w.writables()
	vids := make([]int, 0, len(x.seen))
	for v := range x.seen {
		vids = append(vids, int(v))
	}
	sort.Ints(vids)
	vols := []interface{}{}
	for _, vi := range vids {
		vid := uint32(vi)
		ent := tr.Ev{"vid": vi, "c": "", "rep": "", "ttl": "", "wr": wr[vid]}
		hold := []string{}
		st := []interface{}{}
		for k, h := range byVid[vid] {
			lc, ok := x.logic[h.v.Collection]
			if !ok {
				lc = "?"
			}
			if k == 0 {
				ent["c"], ent["rep"], ent["ttl"] = lc, h.v.Replication, h.v.Ttl
			} else if ent["c"] != lc || ent["rep"] != h.v.Replication || ent["ttl"] != h.v.Ttl {
				ent["c"] = "!" // the holders disagree about the volume's class
			}
			hold = append(hold, h.s)
			st = append(st, tr.Ev{"s": h.s, "fc": h.v.FileCount, "dc": h.v.DeleteCount, "rev": int(h.v.CompactRevision), "ro": h.v.ReadOnly})
		}
		ent["hold"], ent["st"] = hold, st
		ent["look"] = w.lookupGrpc(strconv.Itoa(vi), "")
		ent["lookh"] = w.lookupHttp("volumeId=" + strconv.Itoa(vi))
		vols = append(vols, ent)
	}
	e["vols"] = vols
	rs := []interface{}{}
	for fi, f := range x.fids {
		if !f.ok {
			continue
		}
		for sub := 0; sub < f.cnt; sub++ {
			id := subFid(f.fid, sub)
			q := tr.Ev{"f": fi + 1, "sub": sub}
			q["lf"] = w.lookupHttp("fileId=" + url.QueryEscape(id) + "&collection=" + url.QueryEscape(f.coll))
			q["lg"] = w.lookupGrpc(id, f.coll)
			r := []interface{}{}
			for i, n := range w.c.Nodes {
				if !n.Up {
					continue
				}
				o := tr.Ev{"s": "s" + strconv.Itoa(i+1), "st": "err", "d": ""}
				code, b := w.get("http://" + n.Url + "/" + id)
				if code == 200 {
					o["st"], o["d"] = "data", dataToken(b)
				} else if code == 404 {
					o["st"] = "notfound"
				}
				r = append(r, o)
			}
			q["r"] = r
			rs = append(rs, q)
		}
	}
	e["rs"] = rs
}

func subFid(fid string, sub int) string {
	if sub == 0 {
		return fid
	}
	return fid + "_" + strconv.Itoa(sub)
}

// target: the server an upload / delete goes to. "url" = the url of the assignment, "other" = a
// location of the volume (HTTP lookup) that is not that url, if there is one.
func (x *exec) target(f fidRec, url0, at string) string {
	if at == "other" {
		code, b := x.w.get("http://" + x.w.c.MasterAddr + "/dir/lookup?volumeId=" + strconv.Itoa(int(f.vid)))
		var r struct{ Locations []struct{ Url string } }
		if code == 200 && json.Unmarshal(b, &r) == nil {
			for _, l := range r.Locations {
				if l.Url != url0 {
					return l.Url
				}
			}
		}
	}
	return url0
}

var timing = os.Getenv("X06_TIMING") != ""

func main() {
	o := tr.ParseFlags()
	out := tr.NewWriter(o.Out)
	defer out.Close()
	execs := tr.ReadScript(o.Script)
	if len(execs) == 0 {
		return
	}
	// the topology comes from the first reset line: one cluster per process
	var specs []cluster.ServerSpec
	for _, s := range tr.List(execs[0][0]["servers"]) {
		m, _ := s.(map[string]interface{})
		specs = append(specs, cluster.ServerSpec{DC: tr.S(m, "dc"), Rack: tr.S(m, "rack")})
	}
	topoKey, _ := json.Marshal(execs[0][0]["servers"])
	c, err := cluster.NewRealCluster(cluster.RealClusterOptions{Servers: specs, GrowCounts: [3]int{2, 2, 1}})
	if err != nil {
		tr.Fatal("cluster: %v", err)
	}
	defer c.Close()
	w := &world{c: c, hc: &http.Client{Timeout: 60 * time.Second}, tok: map[string]string{}, idx: map[string]int{}, settle: 45 * time.Second}
	urls := map[int]string{}
	for i, n := range c.Nodes {
		t := "s" + strconv.Itoa(i+1)
		w.tok[n.Url] = t
		w.idx[t] = i
		urls[i] = n.Url
	}
	tag := o.Mode
	if tag == "" {
		tag = "x"
	}
	stop := false
	for xi, ex := range execs {
		if stop {
			break
		}
		k, _ := json.Marshal(ex[0]["servers"])
		if string(k) != string(topoKey) {
			tr.Fatal("execution %d asks for another topology: one cluster per process", xi)
		}
		x := &exec{w: w, ord: xi, real: map[string]string{}, logic: map[string]string{}, seen: map[uint32]bool{}, prefix: fmt.Sprintf("%s%d", tag, xi)}
		for _, lc := range tr.Strs(ex[0]["colls"]) {
			x.coll(lc)
		}
		out.Emit(ex[0])
		assignUrl := map[int]string{}
		for _, in := range ex[1:] {
			e := tr.Ev{}
			for _, f := range []string{"ev", "c", "rep", "ttl", "n", "via", "count", "f", "sub", "d", "at", "thr", "s"} {
				if v, ok := in[f]; ok {
					e[f] = v
				}
			}
			ev := tr.S(e, "ev")
			op := func() {
				switch ev {
				case "assign":
					x.fids = append(x.fids, fidRec{})
					fi := len(x.fids) - 1
					e["ok"], e["vid"], e["key"], e["cnt"], e["url"] = false, 0, 0, 0, ""
					coll, rep, ttl, n := x.coll(tr.S(e, "c")), tr.S(e, "rep"), tr.S(e, "ttl"), tr.I(e, "n")
					fid, u, cnt := "", "", 0
					if tr.S(e, "via") == "grpc" {
						ctx, cancel := context.WithTimeout(context.Background(), 30*time.Second)
						resp, err := w.master().Assign(ctx, &master_pb.AssignRequest{Collection: coll, Replication: rep, Ttl: ttl,
							Count: uint64(n), WritableVolumeCount: 1})
						cancel()
						if err == nil && resp.Error == "" {
							fid, u, cnt = resp.Fid, resp.Url, int(resp.Count)
						}
					} else {
						code, b := w.get("http://" + c.MasterAddr + "/dir/assign?collection=" + coll + "&replication=" + rep + "&ttl=" + ttl + "&count=" + strconv.Itoa(n))
						var r struct {
							Fid, Url, Error string
							Count           int
						}
						if code == 200 && json.Unmarshal(b, &r) == nil && r.Error == "" {
							fid, u, cnt = r.Fid, r.Url, r.Count
						}
					}
					if fid == "" {
						return
					}
					id, err := needle.ParseFileIdFromString(fid)
					if err != nil {
						e["url"] = "badfid"
						return
					}
					key := uint64(id.Key)
					if key >= 1<<31 {
						tr.Fatal("file key %d does not fit the judge's integers", key)
					}
					x.fids[fi] = fidRec{ok: true, fid: fid, vid: uint32(id.VolumeId), key: key, cnt: cnt, coll: coll, ttl: ttl}
					x.seen[uint32(id.VolumeId)] = true
					assignUrl[fi] = u
					t, known := w.tok[u]
					if !known {
						t = "?"
					}
					e["ok"], e["vid"], e["key"], e["cnt"], e["url"] = true, int(id.VolumeId), int(key), cnt, t
				case "grow":
					e["ok"], e["cnt"] = false, 0
					code, b := w.get("http://" + c.MasterAddr + "/vol/grow?collection=" + x.coll(tr.S(e, "c")) + "&replication=" + tr.S(e, "rep") +
						"&ttl=" + tr.S(e, "ttl") + "&count=" + strconv.Itoa(tr.I(e, "count")))
					var r struct {
						Count int    `json:"count"`
						Error string `json:"error"`
					}
					if code == 200 && json.Unmarshal(b, &r) == nil && r.Error == "" {
						e["ok"], e["cnt"] = true, r.Count
					}
				case "upload", "delete":
					fi := tr.I(e, "f") - 1
					e["st"], e["code"], e["to"] = "noassign", 0, ""
					if fi < 0 || fi >= len(x.fids) || !x.fids[fi].ok || tr.I(e, "sub") >= x.fids[fi].cnt {
						return
					}
					f := x.fids[fi]
					to := x.target(f, assignUrl[fi], tr.S(e, "at"))
					e["to"] = w.tok[to]
					u := "http://" + to + "/" + subFid(f.fid, tr.I(e, "sub"))
					var req *http.Request
					if ev == "upload" {
						var buf bytes.Buffer
						mw := multipart.NewWriter(&buf)
						pw, _ := mw.CreateFormField("file")
						pw.Write(datas[tr.S(e, "d")])
						mw.Close()
						if f.ttl != "" {
							u += "?ttl=" + f.ttl
						}
						req, _ = http.NewRequest("POST", u, &buf)
						req.Header.Set("Content-Type", mw.FormDataContentType())
					} else {
						req, _ = http.NewRequest("DELETE", u, nil)
					}
					resp, err := w.hc.Do(req)
					if err != nil {
						e["st"], e["code"] = "err", -1
						return
					}
					ioutil.ReadAll(resp.Body)
					resp.Body.Close()
					e["code"] = resp.StatusCode
					switch {
					case ev == "upload" && (resp.StatusCode == 201 || resp.StatusCode == 204):
						e["st"] = "ok"
					case ev == "delete" && resp.StatusCode == 202:
						e["st"] = "ok"
					case ev == "delete" && resp.StatusCode == 404:
						e["st"] = "notfound"
					default:
						e["st"] = "err"
					}
				case "vacuum":
					code, _ := w.get("http://" + c.MasterAddr + "/vol/vacuum?garbageThreshold=" + tr.S(e, "thr"))
					e["st"] = "err"
					if code == 200 {
						e["st"] = "ok"
					}
				case "coldel":
					code, _ := w.get("http://" + c.MasterAddr + "/col/delete?collection=" + x.coll(tr.S(e, "c")))
					e["st"], e["code"] = "err", code
					if code == 204 {
						e["st"] = "ok"
					}
				case "mrestart":
					w.dropConns()
					if err := c.RestartMaster(); err != nil {
						tr.Fatal("restart master: %v", err)
					}
					e["settled"] = c.WaitSettled(w.settle)
				case "vstop":
					w.dropConns()
					c.StopVolumeServer(w.idx[tr.S(e, "s")])
					e["settled"] = c.WaitSettled(w.settle)
				case "vstart":
					if err := c.StartVolumeServer(w.idx[tr.S(e, "s")]); err != nil {
						tr.Fatal("start volume server: %v", err)
					}
					e["settled"] = c.WaitSettled(w.settle)
				case "vrestart":
					w.dropConns()
					i := w.idx[tr.S(e, "s")]
					c.StopVolumeServer(i)
					down := c.WaitSettled(w.settle) // the master has dropped the server before it comes back
					if err := c.StartVolumeServer(i); err != nil {
						tr.Fatal("start volume server: %v", err)
					}
					e["settled"] = c.WaitSettled(w.settle) && down
				default:
					tr.Fatal("unknown op %q", ev)
				}
			}
			t0 := time.Now()
			var tOp time.Duration
			pan, timedOut := tr.GuardT(120*time.Second, func() {
				op()
				tOp = time.Since(t0)
				x.snapshot(e)
			})
			if timing {
				fmt.Fprintf(os.Stderr, "TIMING %s op=%v snap=%v\n", ev, tOp, time.Since(t0)-tOp)
			}
			if timedOut {
				out.Emit(tr.Ev{"ev": "timeout", "op": ev})
				stop = true
				break
			}
			if pan != "" {
				out.Emit(tr.Ev{"ev": "panic", "op": ev, "msg": pan})
				continue
			}
			out.Emit(e)
		}
		// leave the cluster as the next execution expects it: everything running, this execution's
		// collections gone (not recorded)
		restarted := false
		for i, n := range c.Nodes {
			if !n.Up {
				c.StartVolumeServer(i)
				restarted = true
			}
		}
		if restarted && !c.WaitSettled(w.settle) {
			tr.Fatal("cluster does not settle after execution %d", xi)
		}
		for _, rc := range x.real {
			w.get("http://" + c.MasterAddr + "/col/delete?collection=" + rc)
		}
	}
}
