package main

import (
	"bytes"
	"fmt"
	"net/http"
	"net/http/httptest"
	"time"

	"github.com/chrislusf/seaweedfs/weed/filer"
	"github.com/chrislusf/seaweedfs/weed/pb/filer_pb"
	"github.com/chrislusf/seaweedfs/weed/wdclient"
)

type lh struct{ fn wdclient.LookupFileIdFunctionType }

func (l lh) GetLookupFileIdFunction() wdclient.LookupFileIdFunctionType { return l.fn }

func main() {
	blobs := map[string][]byte{"/3,0101020304": []byte("AA"), "/3,0201020304": []byte("BB")}
	srv := httptest.NewServer(http.HandlerFunc(func(rw http.ResponseWriter, r *http.Request) {
		http.ServeContent(rw, r, "", time.Time{}, bytes.NewReader(blobs[r.URL.Path]))
	}))
	defer srv.Close()
	lookup := func(fileId string) ([]string, error) { return []string{srv.URL + "/" + fileId}, nil }
	chunks := []*filer_pb.FileChunk{
		{FileId: "3,0101020304", Offset: 0, Size: 2, Mtime: 1},
		{FileId: "3,0201020304", Offset: 4, Size: 2, Mtime: 2},
	}
	var w bytes.Buffer
	err := filer.StreamContent(lh{lookup}, &w, chunks, 0, 6)
	fmt.Printf("StreamContent(0,6) of AA@0 BB@4: %q err=%v (want \"AA\\x00\\x00BB\")\n", w.String(), err)
	w.Reset()
	err = filer.StreamContent(lh{lookup}, &w, chunks, 2, 4)
	fmt.Printf("StreamContent(2,4): %q err=%v (want \"\\x00\\x00BB\")\n", w.String(), err)
	v := filer.ViewFromChunks(lookup, chunks, 3, 1<<63-1)
	fmt.Printf("ViewFromChunks(off=3,size=MaxInt64): %d views\n", len(v))
}
