// c22e: C22 end to end - the same property through a REAL filer of the mini-cluster kit.
//
// Namespace changes go through the filer's gRPC (CreateEntry / UpdateEntry / DeleteEntry /
// AtomicRenameEntry), i.e. through Filer.NotifyUpdateEvent -> logMetaEvent -> the filer's own
// LocalMetaLogBuffer; a scheduled flush (one iteration of the buffer's timer, then a wait until the
// buffer reports the flush complete) goes through Filer.logFlushFunc -> appendToFile -> a real volume
// server, and subscribers that start in the flushed past are served by Filer.ReadPersistedLogBuffer
// (segment files under /topics/.system/log, ChunkStreamReader, ReadEachLogEntry) before the in-memory
// buffer takes over. Subscribers are real gRPC streams: SubscribeMetadata ("agg") and
// SubscribeLocalMetadata ("loc"), each with the execution's own directory as path prefix.
//
// What is recorded (no expectations here):
//
//	logged  one line per entry that appeared in the filer's log buffer under the execution's directory
//	        (read back with LogBuffer.ReadFromBuffer right after each operation): id = running number,
//	        old / new = entry names of the change
//	ch      the operation (k, a, b), its error and n = the number of entries it logged
//	tflush  a flush was forced and has completed
//	start   r, kind, t0         rd  r, kind, got = [[id, ts], ...] handed to the client since the last rd
//	end r / stall r / timeout r   the client has / has not yet / has never been handed the final marker change
//
// Timestamps are wall-clock nanoseconds in the code; the trace carries logical ones: 10 * (rank of the
// logged entry), a start time is the logical time of the latest entry not later than it, +1 if it is
// strictly later. Lines are therefore written when the execution is over.
package main

import (
	"context"
	"fmt"
	"os"
	"sync"
	"time"

	"github.com/golang/protobuf/proto"
	"google.golang.org/grpc"

	"github.com/chrislusf/seaweedfs/weed/filer"
	"github.com/chrislusf/seaweedfs/weed/pb/filer_pb"
	"github.com/chrislusf/seaweedfs/weed/util"
	"github.com/chrislusf/seaweedfs/weed/util/log_buffer"

	"verifharness/cluster"
	"verifharness/tr"
)

type e2eEvent struct {
	tsNs     int64
	old, new string
}

type e2eSub struct {
	r      int
	kind   string
	mu     sync.Mutex
	evs    []e2eEvent
	rep    int
	cancel context.CancelFunc
}

func (s *e2eSub) has(tsNs int64) bool {
	s.mu.Lock()
	defer s.mu.Unlock()
	for i := len(s.evs) - 1; i >= 0; i-- {
		if s.evs[i].tsNs == tsNs {
			return true
		}
	}
	return false
}

type e2e struct {
	c      *cluster.Cluster
	fl     *filer.Filer
	cl     filer_pb.SeaweedFilerClient
	last   int64 // the log buffer has been read up to here
	serial int64
	// per execution
	dir    string
	t0     int64 // wall clock at the start of the execution
	logged []e2eEvent
	subs   map[int]*e2eSub
	lines  []tr.Ev
	sizes  map[string]uint64
	nmark  int
	// whole run
	timeouts int
}

func entryName(e *filer_pb.Entry) string {
	if e == nil {
		return ""
	}
	return e.Name
}

// readLog appends to x.logged what the filer put into its log buffer since the last call (entries
// under the execution's directory only) and returns how many. ok = false: the buffer has been
// flushed behind our back (its once-a-minute timer), the execution cannot be recorded.
func (x *e2e) readLog() (n int, ok bool) {
	for {
		buf, err := x.fl.LocalMetaLogBuffer.ReadFromBuffer(time.Unix(0, x.last))
		if err == log_buffer.ResumeFromDiskError {
			return n, false
		}
		if buf == nil {
			return n, true
		}
		b := buf.Bytes()
		got := 0
		for pos := 0; pos+4 < len(b); {
			size := int(util.BytesToUint32(b[pos : pos+4]))
			if pos+4+size > len(b) {
				break
			}
			le := &filer_pb.LogEntry{}
			if err := proto.Unmarshal(b[pos+4:pos+4+size], le); err != nil {
				tr.Fatal("log entry: %v", err)
			}
			pos += 4 + size
			got++
			x.last = le.TsNs
			ev := &filer_pb.SubscribeMetadataResponse{}
			if err := proto.Unmarshal(le.Data, ev); err != nil {
				tr.Fatal("log event: %v", err)
			}
			name := entryName(ev.EventNotification.OldEntry)
			if name == "" {
				name = entryName(ev.EventNotification.NewEntry)
			}
			full := string(util.NewFullPath(ev.Directory, name))
			if len(full) > len(x.dir) && full[:len(x.dir)+1] == x.dir+"/" {
				x.logged = append(x.logged, e2eEvent{tsNs: ev.TsNs, old: entryName(ev.EventNotification.OldEntry), new: entryName(ev.EventNotification.NewEntry)})
				n++
			}
		}
		x.fl.LocalMetaLogBuffer.ReleaseMemory(buf)
		if got == 0 {
			return n, true
		}
	}
}

func rpc() (context.Context, context.CancelFunc) {
	return context.WithTimeout(context.Background(), 20*time.Second)
}

func (x *e2e) change(k, a, b string, same bool) (errs string) {
	ctx, cancel := rpc()
	defer cancel()
	x.serial++
	attr := func(size uint64) *filer_pb.FuseAttributes {
		return &filer_pb.FuseAttributes{Mtime: x.serial, Crtime: x.serial, FileMode: 0644, FileSize: size}
	}
	var err error
	switch k {
	case "create":
		x.sizes[a] = uint64(10 + x.serial%7)
		var resp *filer_pb.CreateEntryResponse
		resp, err = x.cl.CreateEntry(ctx, &filer_pb.CreateEntryRequest{Directory: x.dir, Entry: &filer_pb.Entry{Name: a, Attributes: attr(x.sizes[a])}})
		if err == nil && resp.Error != "" {
			err = fmt.Errorf("%s", resp.Error)
		}
	case "update":
		if !same {
			x.sizes[a] = x.sizes[a] + 1
		}
		_, err = x.cl.UpdateEntry(ctx, &filer_pb.UpdateEntryRequest{Directory: x.dir, Entry: &filer_pb.Entry{Name: a, Attributes: attr(x.sizes[a])}})
	case "delete":
		var resp *filer_pb.DeleteEntryResponse
		resp, err = x.cl.DeleteEntry(ctx, &filer_pb.DeleteEntryRequest{Directory: x.dir, Name: a, IsDeleteData: true})
		if err == nil && resp.Error != "" {
			err = fmt.Errorf("%s", resp.Error)
		}
	case "rename":
		_, err = x.cl.AtomicRenameEntry(ctx, &filer_pb.AtomicRenameEntryRequest{OldDirectory: x.dir, OldName: a, NewDirectory: x.dir, NewName: b})
		x.sizes[b] = x.sizes[a]
	default:
		tr.Fatal("unknown change %q", k)
	}
	if err != nil {
		return "error: " + err.Error()
	}
	return ""
}

// doChange runs one operation and records it with the entries it logged. false: give the execution up.
func (x *e2e) doChange(k, a, b string, same bool) bool {
	before := len(x.logged)
	errs := x.change(k, a, b, same)
	n, ok := x.readLog()
	if !ok {
		return false
	}
	for i := before; i < len(x.logged); i++ {
		x.lines = append(x.lines, tr.Ev{"ev": "logged", "id": i + 1, "_ts": x.logged[i].tsNs, "old": x.logged[i].old, "new": x.logged[i].new})
	}
	x.lines = append(x.lines, tr.Ev{"ev": "ch", "k": k, "a": a, "b": b, "same": same, "n": n, "err": errs})
	return true
}

func (x *e2e) flush() {
	lb := x.fl.LocalMetaLogBuffer
	before := lb.VerifSnapshot()
	if before.Cur.Size == 0 {
		return
	}
	lb.VerifTimerFlush()
	deadline := time.Now().Add(30 * time.Second)
	for lb.VerifSnapshot().LastFlush < before.Cur.Stop {
		if time.Now().After(deadline) {
			tr.Fatal("the filer's metadata log flush did not complete within 30 s")
		}
		time.Sleep(2 * time.Millisecond)
	}
}

func (x *e2e) startSub(r int, kind string, since int64) {
	ctx, cancel := context.WithCancel(context.Background())
	s := &e2eSub{r: r, kind: kind, cancel: cancel}
	x.subs[r] = s
	req := &filer_pb.SubscribeMetadataRequest{ClientName: fmt.Sprintf("c22e2e%d", r), PathPrefix: x.dir + "/", SinceNs: since}
	var stream interface {
		Recv() (*filer_pb.SubscribeMetadataResponse, error)
	}
	var err error
	if kind == "agg" {
		stream, err = x.cl.SubscribeMetadata(ctx, req)
	} else {
		stream, err = x.cl.SubscribeLocalMetadata(ctx, req)
	}
	if err != nil {
		tr.Fatal("subscribe: %v", err)
	}
	go func() {
		for {
			resp, err := stream.Recv()
			if err != nil {
				return
			}
			ev := resp.EventNotification
			if ev == nil || (ev.OldEntry == nil && ev.NewEntry == nil) {
				continue // keep-alive
			}
			s.mu.Lock()
			s.evs = append(s.evs, e2eEvent{tsNs: resp.TsNs, old: entryName(ev.OldEntry), new: entryName(ev.NewEntry)})
			s.mu.Unlock()
		}
	}()
}

func (x *e2e) report(s *e2eSub) {
	s.mu.Lock()
	evs := append([]e2eEvent{}, s.evs[s.rep:]...)
	s.rep = len(s.evs)
	s.mu.Unlock()
	x.lines = append(x.lines, tr.Ev{"ev": "rd", "r": s.r, "kind": s.kind, "_got": evs, "pend": 0})
}

func (x *e2e) order() []int {
	var rs []int
	for r := 1; r <= 200; r++ {
		if x.subs[r] != nil {
			rs = append(rs, r)
		}
	}
	return rs
}

// waitAll waits until every subscriber has been handed the change with timestamp tsNs; returns those that have not.
func (x *e2e) waitAll(tsNs int64, d time.Duration, only map[int]bool) (missing []int) {
	deadline := time.Now().Add(d)
	for {
		missing = missing[:0]
		for _, r := range x.order() {
			if (only == nil || only[r]) && !x.subs[r].has(tsNs) {
				missing = append(missing, r)
			}
		}
		if len(missing) == 0 || time.Now().After(deadline) {
			return missing
		}
		time.Sleep(2 * time.Millisecond)
	}
}

func (x *e2e) marker() (int64, bool) {
	x.nmark++
	if !x.doChange("create", fmt.Sprintf("zz%d", x.nmark), "", false) {
		return 0, false
	}
	if len(x.logged) == 0 {
		return 0, true
	}
	return x.logged[len(x.logged)-1].tsNs, true
}

// logical time of a wall-clock timestamp within the execution
func (x *e2e) logical(tsNs int64) int {
	k := 0
	for i, e := range x.logged {
		if e.tsNs <= tsNs {
			k = i + 1
		}
	}
	if k == 0 {
		return 0
	}
	if tsNs > x.logged[k-1].tsNs {
		return 10*k + 1
	}
	return 10 * k
}

func (x *e2e) finish(w *tr.Writer) {
	unknown := 9000
	for _, l := range x.lines {
		if v, ok := l["_ts"]; ok {
			l["ts"] = x.logical(v.(int64))
			delete(l, "_ts")
		}
		if v, ok := l["_since"]; ok {
			l["t0"] = x.logical(v.(int64))
			delete(l, "_since")
		}
		if v, ok := l["_got"]; ok {
			got := [][2]int{}
			for _, e := range v.([]e2eEvent) {
				id := 0
				for i, le := range x.logged {
					if le == e {
						id = i + 1
					}
				}
				if id == 0 {
					// not an entry of the log (as it is): a fresh id, the logical time of its timestamp
					unknown++
					got = append(got, [2]int{unknown, x.logical(e.tsNs)})
				} else {
					got = append(got, [2]int{id, 10 * id})
				}
			}
			l["got"] = got
			delete(l, "_got")
		}
		w.Emit(l)
	}
}

func (x *e2e) run(w *tr.Writer, xi int, ex []tr.Ev) (recorded bool) {
	x.dir = fmt.Sprintf("/c22e2e/x%d", xi)
	x.logged, x.lines, x.subs, x.sizes, x.nmark = nil, nil, map[int]*e2eSub{}, map[string]uint64{}, 0
	defer func() {
		for _, s := range x.subs {
			s.cancel()
		}
	}()
	// the execution's directory exists before anything is observed
	ctx, cancel := rpc()
	_, err := x.cl.CreateEntry(ctx, &filer_pb.CreateEntryRequest{Directory: "/c22e2e", Entry: &filer_pb.Entry{Name: fmt.Sprintf("x%d", xi), IsDirectory: true,
		Attributes: &filer_pb.FuseAttributes{Mtime: 1, Crtime: 1, FileMode: 0755 | 1<<31}}})
	cancel()
	if err != nil {
		tr.Fatal("mkdir: %v", err)
	}
	if _, ok := x.readLog(); !ok {
		return false
	}
	x.logged = nil
	time.Sleep(time.Millisecond)
	x.t0 = time.Now().UnixNano()
	time.Sleep(time.Millisecond)
	x.lines = append(x.lines, tr.Ev{"ev": "reset", "mode": "e2e", "dir": x.dir})
	aggFlush := x.fl.MetaAggregator.MetaLogBuffer.VerifSnapshot().LastFlush
	drained := false
	for _, op := range ex[1:] {
		switch tr.S(op, "ev") {
		case "ch":
			if !x.doChange(tr.S(op, "k"), tr.S(op, "a"), tr.S(op, "b"), tr.B(op, "same")) {
				return false
			}
		case "tflush":
			if _, ok := x.readLog(); !ok {
				return false
			}
			x.flush()
			x.lines = append(x.lines, tr.Ev{"ev": "tflush"})
		case "start":
			r, kind := tr.I(op, "r"), tr.S(op, "kind")
			if x.subs[r] != nil {
				continue
			}
			at, d := tr.I(op, "at"), tr.I(op, "d")
			since := x.t0
			if at > len(x.logged) {
				at = len(x.logged)
			}
			if at > 0 {
				since = x.logged[at-1].tsNs + int64(d)
			} else if tr.B(op, "zero") {
				since = 0
			}
			x.startSub(r, kind, since)
			x.lines = append(x.lines, tr.Ev{"ev": "start", "r": r, "kind": kind, "at": at, "d": d, "zero": tr.B(op, "zero"), "_since": since})
		case "rd":
			if s := x.subs[tr.I(op, "r")]; s != nil {
				x.report(s)
			}
		case "sync":
			// a pause, not an obligation: give the subscribers up to 3 s to catch up, then look
			if len(x.logged) > 0 {
				x.waitAll(x.logged[len(x.logged)-1].tsNs, 3*time.Second, nil)
			}
			for _, r := range x.order() {
				x.report(x.subs[r])
			}
		case "drain":
			if drained {
				continue
			}
			drained = true
			x.lines = append(x.lines, tr.Ev{"ev": "drain"})
			ts, ok := x.marker()
			if !ok {
				return false
			}
			missing := x.waitAll(ts, 8*time.Second, nil)
			if len(missing) > 0 {
				// a second marker: a subscriber that slept through the first one is woken by it
				only := map[int]bool{}
				for _, r := range missing {
					only[r] = true
					x.lines = append(x.lines, tr.Ev{"ev": "stall", "r": r})
				}
				ts, ok = x.marker()
				if !ok {
					return false
				}
				missing = x.waitAll(ts, 20*time.Second, only)
			}
			gone := map[int]bool{}
			for _, r := range missing {
				gone[r] = true
			}
			for _, r := range x.order() {
				x.report(x.subs[r])
				if gone[r] {
					x.timeouts++
					x.lines = append(x.lines, tr.Ev{"ev": "timeout", "r": r})
				} else {
					x.lines = append(x.lines, tr.Ev{"ev": "end", "r": r})
				}
			}
		}
	}
	if x.fl.MetaAggregator.MetaLogBuffer.VerifSnapshot().LastFlush != aggFlush {
		// the aggregated buffer's own once-a-minute timer fired during the execution (it is not part of
		// the schedule; what it does to a subscriber is the multi-filer check's matter): not recorded
		return false
	}
	x.finish(w)
	return true
}

func main() {
	o := tr.ParseFlags()
	w := tr.NewWriter(o.Out)
	defer w.Close()
	c, err := cluster.New(cluster.Options{Volumes: 1, Filer: true})
	if err != nil {
		tr.Fatal("cluster: %v", err)
	}
	defer c.Close()
	conn, err := grpc.Dial(c.FilerGrpc, grpc.WithInsecure())
	if err != nil {
		tr.Fatal("dial: %v", err)
	}
	defer conn.Close()
	x := &e2e{c: c, fl: c.Filer.VerifFiler(), cl: filer_pb.NewSeaweedFilerClient(conn), serial: 1000}
	// the filer follows its own log (the aggregated stream is fed by that subscription): wait until a
	// change comes through an aggregated subscriber
	x.dir = "/c22e2e/warmup"
	x.subs, x.sizes = map[int]*e2eSub{}, map[string]uint64{}
	x.startSub(1, "agg", time.Now().UnixNano())
	deadline := time.Now().Add(30 * time.Second)
	for i := 0; ; i++ {
		x.change("create", fmt.Sprintf("w%d", i), "", false)
		time.Sleep(100 * time.Millisecond)
		x.subs[1].mu.Lock()
		n := len(x.subs[1].evs)
		x.subs[1].mu.Unlock()
		if n > 0 {
			break
		}
		if time.Now().After(deadline) {
			tr.Fatal("the filer's aggregator did not come up")
		}
	}
	x.subs[1].cancel()
	if _, ok := x.readLog(); !ok {
		tr.Fatal("log buffer flushed during warm-up")
	}
	if o.Mode == "wake" {
		// by-hand reproduction of C22-lost-wakeup: o.N subscribers, 300 pairs of changes; how often is a
		// subscriber not handed the latest change within 2 s (it then gets it together with the next one)?
		x.dir = "/c22e2e/wake"
		x.subs, x.sizes = map[int]*e2eSub{}, map[string]uint64{}
		x.logged = nil
		for r := 1; r <= o.N; r++ {
			kind := "loc"
			if r%2 == 0 {
				kind = "agg"
			}
			x.startSub(r, kind, time.Now().UnixNano())
		}
		time.Sleep(500 * time.Millisecond)
		slept := 0
		for i := 0; i < 300; i++ {
			// two changes back to back: the second is published while the subscribers are busy with the first
			for j := 0; j < 4; j++ {
				x.change("create", fmt.Sprintf("j%d_%d", i, j), "", false)
				time.Sleep(time.Duration((i*37+j*101)%400) * time.Microsecond)
			}
			x.change("create", fmt.Sprintf("k%d", i), "", false)
			x.readLog()
			ts := x.logged[len(x.logged)-1].tsNs
			deadline := time.Now().Add(2 * time.Second)
			for {
				miss := 0
				for _, s := range x.subs {
					if !s.has(ts) {
						miss++
					}
				}
				if miss == 0 {
					break
				}
				if time.Now().After(deadline) {
					slept += miss
					fmt.Fprintf(os.Stderr, "change %d: %d subscribers not handed it within 2 s\n", i, miss)
					break
				}
				time.Sleep(time.Millisecond)
			}
		}
		fmt.Fprintf(os.Stderr, "wake: %d subscribers x 300 changes, %d (change, subscriber) pairs slept through\n", o.N, slept)
		return
	}
	abandoned := 0
	for xi, ex := range tr.ReadScript(o.Script) {
		if x.timeouts >= 3 {
			// subscribers that are never served: no point in waiting 28 s for each of the remaining executions
			fmt.Fprintf(os.Stderr, "c22e: three timeouts, not driving the remaining executions\n")
			break
		}
		if !x.run(w, xi+1, ex) {
			abandoned++
			// continue from the buffer's present end
			x.last = x.fl.LocalMetaLogBuffer.VerifSnapshot().LastTs
		}
	}
	if abandoned > 0 {
		fmt.Fprintf(os.Stderr, "c22e: %d executions not recorded (a log buffer's own once-a-minute timer fired in between)\n", abandoned)
	}
}
