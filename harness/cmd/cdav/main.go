// cdav: the WebDAV gateway (weed/server.NewWebDavServer: golang.org/x/net/webdav over the real
// WebDavFileSystem) in front of a REAL filer + volume server. Ops over HTTP: mkcol{p} put{p,d}
// delete{p} move{o,n,ow}; each execution works under its own root collection. After every op a
// snapshot GETs every probe path: "none" (404), "dir" (405 on a collection) or the content token.
package main

import (
	"bytes"
	"fmt"
	"io/ioutil"
	"net/http"
	"net/http/httptest"
	"strings"
	"time"

	"google.golang.org/grpc"

	weed_server "github.com/chrislusf/seaweedfs/weed/server"

	"verifharness/cluster"
	"verifharness/tr"
)

var datas = map[string][]byte{
	"a": []byte("AAAA-data-a"),
	"b": []byte("bbbbbbbbbbbbbbbbbbbbbbbb-data-b"),
	"L": bytes.Repeat([]byte("0123456789abcdef"), 80000), // 1.28 MB: more than one chunk
	"e": {},
}

func dataToken(b []byte) string {
	for t, v := range datas {
		if bytes.Equal(v, b) {
			return t
		}
	}
	return "?"
}

func main() {
	o := tr.ParseFlags()
	w := tr.NewWriter(o.Out)
	defer w.Close()
	c, err := cluster.New(cluster.Options{Volumes: 1, Filer: true})
	if err != nil {
		tr.Fatal("cluster: %v", err)
	}
	defer c.Close()
	ws, err := weed_server.NewWebDavServer(&weed_server.WebDavOption{Filer: c.FilerAddr, FilerGrpcAddress: c.FilerGrpc,
		BucketsPath: "/buckets", GrpcDialOption: grpc.WithInsecure(), CacheDir: c.Base + "/davcache", CacheSizeMB: 16})
	if err != nil {
		tr.Fatal("webdav: %v", err)
	}
	srv := httptest.NewServer(ws.Handler)
	defer srv.Close()
	hc := &http.Client{Timeout: 60 * time.Second, CheckRedirect: func(*http.Request, []*http.Request) error { return http.ErrUseLastResponse }}
	do := func(method, url string, body []byte, hdr map[string]string) (int, []byte) {
		req, _ := http.NewRequest(method, url, bytes.NewReader(body))
		for k, v := range hdr {
			req.Header.Set(k, v)
		}
		resp, err := hc.Do(req)
		if err != nil {
			return 0, nil
		}
		b, _ := ioutil.ReadAll(resp.Body)
		resp.Body.Close()
		return resp.StatusCode, b
	}
	for xi, ex := range tr.ReadScript(o.Script) {
		root := fmt.Sprintf("%s/x%d", srv.URL, xi)
		if st, _ := do("MKCOL", root, nil, nil); st/100 != 2 {
			tr.Fatal("cannot create root collection: %d", st)
		}
		url := func(v interface{}) string { return root + "/" + strings.Join(tr.Strs(v), "/") }
		probe := tr.List(ex[0]["probe"])
		w.Emit(ex[0])
		for _, e := range ex[1:] {
			ev := tr.S(e, "ev")
			if ev == "snap" {
				continue
			}
			e = tr.Copy(e)
			var st int
			pan, timedOut := tr.GuardT(120*time.Second, func() {
				switch ev {
				case "mkcol":
					st, _ = do("MKCOL", url(e["p"]), nil, nil)
				case "put":
					st, _ = do("PUT", url(e["p"]), datas[tr.S(e, "d")], nil)
				case "delete":
					st, _ = do("DELETE", url(e["p"]), nil, nil)
				case "move":
					ow := "F"
					if tr.B(e, "ow") {
						ow = "T"
					}
					st, _ = do("MOVE", url(e["o"]), nil, map[string]string{"Destination": url(e["n"]), "Overwrite": ow})
				default:
					tr.Fatal("unknown op %s", ev)
				}
			})
			if timedOut {
				w.Emit(tr.Ev{"ev": "timeout", "op": e})
				break
			}
			if pan != "" {
				w.Emit(tr.Ev{"ev": "panic", "op": e, "msg": pan})
				break
			}
			e["status"] = st
			e["ok"] = st/100 == 2
			w.Emit(e)
			got := make([]string, len(probe))
			for i, p := range probe {
				s, body := do("GET", url(p), nil, nil)
				switch {
				case s == 200:
					got[i] = dataToken(body)
				case s == 404:
					got[i] = "none"
				case s == 405:
					got[i] = "dir"
				default:
					got[i] = fmt.Sprintf("status%d", s)
				}
			}
			w.Emit(tr.Ev{"ev": "snap", "got": got})
		}
		do("DELETE", root, nil, nil)
	}
}
