// c18: executes namespace scripts (create / update / write / link / delete /
// rename / lookup / list over paths given as name sequences) against a REAL
// filer server of the mini-cluster, only through its gRPC API, and records
// what every call answered, which chunk file ids the filer scheduled for
// deletion during the call (observer hook at the deletion sinks), and a full
// snapshot of the execution's subtree (recursive ListEntries) plus the
// hard-link KV records (KvGet) after the call.  Serves C18, C20 and C21.
//
// The driver executes and records; it has no opinion about any result.
//
// Composite client operations follow what the FUSE mount does:
//   link  (weed/filesys/dir_link.go): look the old name up, give it a fresh
//         hard-link id if it has none (counter 1), counter+1, UpdateEntry(old),
//         CreateEntry(new name with the same id, counter, chunks, attributes)
//   write (file handle flush): look the name up, replace chunks and
//         attributes, keep hard-link id and counter, send it back with
//         CreateEntry(o_excl=false) or UpdateEntry.
// A composite that cannot start (lookup says "no such file") is recorded with
// res "skip" and nothing is sent.
package main

import (
	"bytes"
	"context"
	"encoding/binary"
	"fmt"
	"io"
	"os"
	"sort"
	"strings"
	"sync"
	"time"

	"github.com/golang/protobuf/proto"
	"google.golang.org/grpc"
	"google.golang.org/grpc/codes"
	"google.golang.org/grpc/status"

	"github.com/chrislusf/seaweedfs/weed/filer"
	"github.com/chrislusf/seaweedfs/weed/pb/filer_pb"
	"github.com/chrislusf/seaweedfs/weed/storage/needle"

	"verifharness/cluster"
	"verifharness/tr"
)

const (
	fakeVolume = 7777 // never allocated by the stand-in master
	cookie     = 0x0badc0de
	chunkSpan  = 64 // chunk ids of one execution: key = exec*chunkSpan + id
)

var rpcTimeout = 8 * time.Second

// ---------------------------------------------------------------- observer
var (
	gcMu  sync.Mutex
	gcLog []string
)

func gcReset() {
	gcMu.Lock()
	gcLog = nil
	gcMu.Unlock()
}

func gcTake() []string {
	gcMu.Lock()
	defer gcMu.Unlock()
	r := gcLog
	gcLog = nil
	return r
}

// ---------------------------------------------------------------- execution
type run struct {
	cl      filer_pb.SeaweedFilerClient
	w       *tr.Writer
	x       int // execution ordinal (namespace)
	root    string
	nextLid int
	hung    bool
}

func (r *run) full(names []string) string {
	if len(names) == 0 {
		return r.root
	}
	return r.root + "/" + strings.Join(names, "/")
}

func (r *run) dirName(names []string) (string, string) {
	if len(names) == 0 {
		tr.Fatal("empty path operand")
	}
	return r.full(names[:len(names)-1]), names[len(names)-1]
}

func (r *run) fid(c int) string {
	return needle.NewFileId(needle.VolumeId(fakeVolume), uint64(r.x*chunkSpan+c), cookie).String()
}

// abstract chunk id of a file id string; 99 = not a chunk of this execution
func (r *run) chunkOf(fid string) int {
	f, err := needle.ParseFileIdFromString(fid)
	if err != nil || uint32(f.VolumeId) != fakeVolume {
		return 99
	}
	k := int(uint64(f.Key))
	if k/chunkSpan != r.x {
		return 99
	}
	return k % chunkSpan
}

func (r *run) linkBytes(lid int) []byte {
	b := make([]byte, 17)
	copy(b, "vf")
	binary.BigEndian.PutUint64(b[2:], uint64(r.x))
	binary.BigEndian.PutUint32(b[10:], uint32(lid))
	b[16] = 1 // HARD_LINK_MARKER
	return b
}

func (r *run) lidOf(b []byte) int {
	if len(b) == 0 {
		return 0
	}
	if len(b) != 17 || !bytes.Equal(b[:2], []byte("vf")) || binary.BigEndian.Uint64(b[2:]) != uint64(r.x) {
		return 99
	}
	return int(binary.BigEndian.Uint32(b[10:]))
}

func (r *run) chunks(ids []int) []*filer_pb.FileChunk {
	var cs []*filer_pb.FileChunk
	for _, c := range ids {
		cs = append(cs, &filer_pb.FileChunk{FileId: r.fid(c), Offset: int64(c) * 16, Size: 8, Mtime: int64(1000 + c)})
	}
	return cs
}

func attrs(kind string, attr int) *filer_pb.FuseAttributes {
	a := &filer_pb.FuseAttributes{Mtime: int64(1000 + attr), Crtime: 1000, Uid: uint32(5000 + attr), Gid: 7,
		Mime: fmt.Sprintf("a/%d", attr), FileMode: 0644}
	if kind == "d" {
		a.FileMode = uint32(os.ModeDir) | 0755
	}
	return a
}

func (r *run) entry(name, kind string, chunks []int, attr int) *filer_pb.Entry {
	e := &filer_pb.Entry{Name: name, IsDirectory: kind == "d", Attributes: attrs(kind, attr)}
	if kind != "d" {
		e.Chunks = r.chunks(chunks)
	}
	return e
}

// what an entry shows, as abstract values
func (r *run) view(p []string, e *filer_pb.Entry) tr.Ev {
	v := tr.Ev{"p": p, "kind": "f", "chunks": []int{}, "attr": 0, "link": 0, "cnt": 0}
	if e.IsDirectory {
		v["kind"] = "d"
		return v
	}
	ids := []int{}
	for _, c := range e.Chunks {
		ids = append(ids, r.chunkOf(c.GetFileIdString()))
	}
	sort.Ints(ids)
	v["chunks"] = ids
	v["attr"] = attrOf(e.Attributes)
	v["link"] = r.lidOf(e.HardLinkId)
	v["cnt"] = int(e.HardLinkCounter)
	return v
}

// the attribute token is carried by mtime, uid and mime; -2 = they disagree
func attrOf(a *filer_pb.FuseAttributes) int {
	if a == nil {
		return -1
	}
	t := int(a.Mtime - 1000)
	if int(a.Uid)-5000 != t || a.Mime != fmt.Sprintf("a/%d", t) {
		return -2
	}
	return t
}

func (r *run) ctx() (context.Context, context.CancelFunc) {
	return context.WithTimeout(context.Background(), rpcTimeout)
}

func isTimeout(err error) bool {
	return err != nil && (status.Code(err) == codes.DeadlineExceeded || err == context.DeadlineExceeded)
}

// classify the outcome of a unary call: ok / err / timeout
func (r *run) outcome(err error, respErr string) (string, string) {
	if isTimeout(err) {
		r.hung = true
		return "timeout", err.Error()
	}
	if err != nil {
		return "err", err.Error()
	}
	if respErr != "" {
		return "err", respErr
	}
	return "ok", ""
}

func (r *run) lookup(names []string) (*filer_pb.Entry, string) {
	d, n := r.dirName(names)
	ctx, cancel := r.ctx()
	defer cancel()
	resp, err := r.cl.LookupDirectoryEntry(ctx, &filer_pb.LookupDirectoryEntryRequest{Directory: d, Name: n})
	if isTimeout(err) {
		r.hung = true
		return nil, "timeout"
	}
	if err != nil || resp == nil || resp.Entry == nil {
		return nil, "none"
	}
	return resp.Entry, "ok"
}

func (r *run) list(dir string) ([]*filer_pb.Entry, string) {
	ctx, cancel := r.ctx()
	defer cancel()
	st, err := r.cl.ListEntries(ctx, &filer_pb.ListEntriesRequest{Directory: dir, Limit: 100000})
	if err != nil {
		if isTimeout(err) {
			r.hung = true
			return nil, "timeout"
		}
		return nil, "err"
	}
	var es []*filer_pb.Entry
	for {
		resp, err := st.Recv()
		if err == io.EOF {
			break
		}
		if err != nil {
			if isTimeout(err) {
				r.hung = true
				return nil, "timeout"
			}
			return es, "err"
		}
		es = append(es, resp.Entry)
	}
	return es, "ok"
}

// snapshot of the whole subtree below the execution's root, depth first in listing order
func (r *run) snapshot() ([]tr.Ev, string) {
	out := []tr.Ev{}
	var walk func(prefix []string, depth int) string
	walk = func(prefix []string, depth int) string {
		if depth > 12 {
			return "deep"
		}
		es, st := r.list(r.full(prefix))
		if st != "ok" {
			return st
		}
		for _, e := range es {
			p := append(append([]string{}, prefix...), e.Name)
			v := r.view(p, e)
			// the same name through the other read path (LookupDirectoryEntry -> FindEntry)
			le, lst := r.lookup(p)
			if lst == "timeout" {
				return lst
			}
			if le != nil {
				lv := r.view(p, le)
				delete(lv, "p")
				v["lk"] = lv
			} else {
				v["lk"] = noEntry
			}
			out = append(out, v)
			if e.IsDirectory {
				if st := walk(p, depth+1); st != "ok" {
					return st
				}
			}
		}
		return "ok"
	}
	st := walk(nil, 0)
	return out, st
}

// the hard-link records of this execution that exist in the filer's KV store
func (r *run) kv() ([]tr.Ev, string) {
	out := []tr.Ev{}
	for lid := 1; lid < r.nextLid; lid++ {
		ctx, cancel := r.ctx()
		resp, err := r.cl.KvGet(ctx, &filer_pb.KvGetRequest{Key: r.linkBytes(lid)})
		cancel()
		if isTimeout(err) {
			r.hung = true
			return out, "timeout"
		}
		if err != nil || resp.Error != "" {
			return out, "err"
		}
		if len(resp.Value) == 0 {
			continue
		}
		m := &filer_pb.Entry{}
		if err := proto.Unmarshal(resp.Value, m); err != nil {
			return out, "err"
		}
		filer_pb.AfterEntryDeserialization(m.Chunks)
		v := r.view(nil, m)
		delete(v, "p")
		delete(v, "kind")
		delete(v, "link")
		v["id"] = lid
		out = append(out, v)
	}
	return out, "ok"
}

func uniqSorted(a []int) []int {
	sort.Ints(a)
	out := []int{}
	for i, v := range a {
		if i == 0 || v != a[i-1] {
			out = append(out, v)
		}
	}
	return out
}

var noEntry = tr.Ev{"kind": "n", "chunks": []int{}, "attr": 0, "link": 0, "cnt": 0}

func (r *run) step(e tr.Ev) {
	gcReset()
	res, msg := "ok", ""
	switch tr.S(e, "ev") {
	case "create":
		p := tr.Strs(e["p"])
		d, n := r.dirName(p)
		ctx, cancel := r.ctx()
		resp, err := r.cl.CreateEntry(ctx, &filer_pb.CreateEntryRequest{Directory: d,
			Entry: r.entry(n, tr.S(e, "kind"), tr.Ints(e["chunks"]), tr.I(e, "attr")), OExcl: tr.B(e, "oexcl")})
		cancel()
		re := ""
		if resp != nil {
			re = resp.Error
		}
		res, msg = r.outcome(err, re)
	case "update":
		p := tr.Strs(e["p"])
		d, n := r.dirName(p)
		ctx, cancel := r.ctx()
		_, err := r.cl.UpdateEntry(ctx, &filer_pb.UpdateEntryRequest{Directory: d,
			Entry: r.entry(n, tr.S(e, "kind"), tr.Ints(e["chunks"]), tr.I(e, "attr"))})
		cancel()
		res, msg = r.outcome(err, "")
	case "write":
		p := tr.Strs(e["p"])
		d, _ := r.dirName(p)
		old, st := r.lookup(p)
		if st == "timeout" {
			res = "timeout"
			break
		}
		if old == nil || old.IsDirectory {
			res = "skip"
			break
		}
		old.Chunks = r.chunks(tr.Ints(e["chunks"]))
		old.Attributes = attrs("f", tr.I(e, "attr"))
		ctx, cancel := r.ctx()
		if tr.S(e, "via") == "update" {
			_, err := r.cl.UpdateEntry(ctx, &filer_pb.UpdateEntryRequest{Directory: d, Entry: old})
			res, msg = r.outcome(err, "")
		} else {
			resp, err := r.cl.CreateEntry(ctx, &filer_pb.CreateEntryRequest{Directory: d, Entry: old})
			re := ""
			if resp != nil {
				re = resp.Error
			}
			res, msg = r.outcome(err, re)
		}
		cancel()
	case "link":
		o, n := tr.Strs(e["o"]), tr.Strs(e["n"])
		e["lid"] = 0
		old, st := r.lookup(o)
		if st == "timeout" {
			res = "timeout"
			break
		}
		if old == nil || old.IsDirectory {
			res = "skip"
			break
		}
		if ne, st := r.lookup(n); ne != nil || st == "timeout" {
			// the kernel answers EEXIST before the mount is asked
			res = "skip"
			if st == "timeout" {
				res = "timeout"
			}
			break
		}
		if len(old.HardLinkId) == 0 {
			old.HardLinkId = r.linkBytes(r.nextLid)
			old.HardLinkCounter = 1
			e["lid"] = r.nextLid
			r.nextLid++
		}
		old.HardLinkCounter++
		od, _ := r.dirName(o)
		nd, nn := r.dirName(n)
		ctx, cancel := r.ctx()
		_, err := r.cl.UpdateEntry(ctx, &filer_pb.UpdateEntryRequest{Directory: od, Entry: old})
		cancel()
		res, msg = r.outcome(err, "")
		if res != "ok" {
			if res == "err" {
				res = "err1"
			}
			break
		}
		ctx, cancel = r.ctx()
		resp, err := r.cl.CreateEntry(ctx, &filer_pb.CreateEntryRequest{Directory: nd, Entry: &filer_pb.Entry{
			Name: nn, Attributes: old.Attributes, Chunks: old.Chunks, Extended: old.Extended,
			HardLinkId: old.HardLinkId, HardLinkCounter: old.HardLinkCounter}})
		cancel()
		re := ""
		if resp != nil {
			re = resp.Error
		}
		res, msg = r.outcome(err, re)
		if res == "err" {
			res = "err2"
		}
	case "delete":
		p := tr.Strs(e["p"])
		d, n := r.dirName(p)
		ctx, cancel := r.ctx()
		resp, err := r.cl.DeleteEntry(ctx, &filer_pb.DeleteEntryRequest{Directory: d, Name: n,
			IsRecursive: tr.B(e, "rec"), IsDeleteData: tr.B(e, "data"), IgnoreRecursiveError: tr.B(e, "ign")})
		cancel()
		re := ""
		if resp != nil {
			re = resp.Error
		}
		res, msg = r.outcome(err, re)
	case "rename":
		od, on := r.dirName(tr.Strs(e["o"]))
		nd, nn := r.dirName(tr.Strs(e["n"]))
		ctx, cancel := r.ctx()
		_, err := r.cl.AtomicRenameEntry(ctx, &filer_pb.AtomicRenameEntryRequest{OldDirectory: od, OldName: on,
			NewDirectory: nd, NewName: nn})
		cancel()
		res, msg = r.outcome(err, "")
	case "lookup":
		p := tr.Strs(e["p"])
		ent, st := r.lookup(p)
		res = st
		if ent != nil {
			v := r.view(p, ent)
			delete(v, "p")
			e["got"] = v
		} else {
			e["got"] = noEntry
		}
	case "list":
		p := tr.Strs(e["p"])
		es, st := r.list(r.full(p))
		res = st
		names := []string{}
		for _, x := range es {
			names = append(names, x.Name)
		}
		e["got"] = names
	default:
		tr.Fatal("unknown op %v", e["ev"])
	}
	e["res"] = res
	e["msg"] = msg
	gids := []int{}
	for _, f := range gcTake() {
		gids = append(gids, r.chunkOf(f))
	}
	e["gc"] = uniqSorted(gids)
	e["snap"] = []tr.Ev{}
	e["kv"] = []tr.Ev{}
	if r.hung {
		return
	}
	snap, st := r.snapshot()
	if st == "timeout" {
		e["res"] = "timeout"
		e["msg"] = "snapshot timed out after: " + msg
		return
	}
	if st != "ok" {
		tr.Fatal("snapshot of %s failed (%s) after %v", r.root, st, e)
	}
	kv, st := r.kv()
	if st == "timeout" {
		e["res"] = "timeout"
		return
	}
	if st != "ok" {
		tr.Fatal("KvGet failed after %v", e)
	}
	e["snap"] = snap
	e["kv"] = kv
}

func main() {
	o := tr.ParseFlags()
	store := o.Mode
	if store == "" {
		store = "leveldb2"
	}
	if s := os.Getenv("C18_RPC_TIMEOUT_MS"); s != "" {
		var ms int
		fmt.Sscanf(s, "%d", &ms)
		if ms > 0 {
			rpcTimeout = time.Duration(ms) * time.Millisecond
		}
	}
	execs := tr.ReadScript(o.Script)
	w := tr.NewWriter(o.Out)
	c, err := cluster.New(cluster.Options{Volumes: 1, Filer: true, FilerStore: store})
	if err != nil {
		tr.Fatal("cluster: %v", err)
	}
	finish := func(code int) {
		w.Close()
		c.Close()
		os.Exit(code)
	}
	filer.VerifObserveChunkDeletes(func(fids []string) {
		gcMu.Lock()
		gcLog = append(gcLog, fids...)
		gcMu.Unlock()
	})
	conn, err := grpc.Dial(c.FilerGrpc, grpc.WithInsecure())
	if err != nil {
		tr.Fatal("dial filer: %v", err)
	}
	cl := filer_pb.NewSeaweedFilerClient(conn)
	// the filer's gRPC listener may need a moment
	for i := 0; ; i++ {
		ctx, cancel := context.WithTimeout(context.Background(), 2*time.Second)
		_, err := cl.GetFilerConfiguration(ctx, &filer_pb.GetFilerConfigurationRequest{})
		cancel()
		if err == nil {
			break
		}
		if i > 100 {
			tr.Fatal("filer not reachable: %v", err)
		}
		time.Sleep(50 * time.Millisecond)
	}
	nonce := time.Now().UnixNano() % 1000
	for xi, ex := range execs {
		r := &run{cl: cl, w: w, x: xi + 1, nextLid: 1}
		r.root = fmt.Sprintf("/vf%d_%d", nonce, r.x)
		// the execution's root directory
		ctx, cancel := r.ctx()
		resp, err := cl.CreateEntry(ctx, &filer_pb.CreateEntryRequest{Directory: "/",
			Entry: &filer_pb.Entry{Name: r.root[1:], IsDirectory: true, Attributes: attrs("d", 0)}})
		cancel()
		if err != nil || resp.Error != "" {
			tr.Fatal("cannot create root %s: %v %v", r.root, err, resp)
		}
		gcReset()
		hdr := tr.Copy(ex[0])
		hdr["store"] = store
		w.Emit(hdr)
		for _, e := range ex[1:] {
			if tr.S(e, "ev") == "panic" {
				continue
			}
			e = tr.Copy(e)
			pan := tr.Guard(func() { r.step(e) })
			if pan != "" {
				w.Emit(tr.Ev{"ev": "panic", "msg": pan})
				break
			}
			w.Emit(e)
			if r.hung {
				// a call did not come back: the server side may still be running (and may
				// never stop); nothing more can be observed reliably from this process
				fmt.Fprintf(os.Stderr, "driver: call timed out in execution %d, stopping\n", r.x)
				finish(0)
			}
		}
	}
	conn.Close()
	finish(0)
}
