// c31: executes chunk-cache scripts (set / get / slice / restart) on the real
// weed/util/chunk_cache.TieredChunkCache (public constructor, real leveldb needle maps
// and data files in a temp directory) and records what every lookup returned.
//
// A content [d, n] is n bytes with byte j = (d + j) % 251.  A returned byte string is
// recorded losslessly as its maximal ramps [{s, n}, ...] (see spec/CacheSpec.tla); no
// comparison with what was stored happens here.
package main

import (
	"fmt"
	"os"

	"github.com/chrislusf/seaweedfs/weed/util/chunk_cache"

	"verifharness/tr"
)

const unit = 1024

func content(d, n int) []byte {
	b := make([]byte, n)
	for j := range b {
		b[j] = byte((d + j) % 251)
	}
	return b
}

// ramps: lossless run encoding; at most 32 runs are recorded (a correct answer has one).
func ramps(b []byte) []interface{} {
	res := []interface{}{}
	i := 0
	for i < len(b) {
		j := i + 1
		for j < len(b) && int(b[j]) == (int(b[j-1])+1)%251 {
			j++
		}
		res = append(res, tr.Ev{"s": int(b[i]), "n": j - i})
		if len(res) >= 32 {
			break
		}
		i = j
	}
	return res
}

func fidString(v interface{}) string {
	m, _ := v.(map[string]interface{})
	return fmt.Sprintf("%d,%02x%08x", tr.I(m, "v"), tr.I(m, "k"), 0x5a000000+tr.I(m, "c"))
}

func main() {
	o := tr.ParseFlags()
	w := tr.NewWriter(o.Out)
	defer w.Close()
	// tmpfs when there is one: every cache creation opens 7 leveldb needle maps (fsync-heavy on disk)
	base := ""
	if st, e := os.Stat("/dev/shm"); e == nil && st.IsDir() && os.Getenv("C31_ON_DISK") == "" {
		base = "/dev/shm"
	}
	root, err := os.MkdirTemp(base, "c31-")
	if err != nil {
		tr.Fatal("tmp: %v", err)
	}
	defer os.RemoveAll(root)
	for xi, ex := range tr.ReadScript(o.Script) {
		dir := fmt.Sprintf("%s/x%d", root, xi)
		os.MkdirAll(dir, 0755)
		cfg := ex[0]
		me, du := int64(tr.I(cfg, "me")), int64(tr.I(cfg, "du"))
		probeF := tr.List(cfg["pf"])
		probeM := tr.Ints(cfg["pm"])
		cache := chunk_cache.NewTieredChunkCache(me, dir, du, unit)
		w.Emit(cfg)
		for _, e := range ex[1:] {
			kind := tr.S(e, "ev")
			if kind == "snap" || kind == "panic" {
				continue
			}
			pan := tr.Guard(func() {
				switch kind {
				case "set":
					buf := content(tr.I(e, "d"), tr.I(e, "n"))
					cache.SetChunk(fidString(e["fid"]), buf)
					for i := range buf { // the caller's buffer is its own again after SetChunk returned
						buf[i] = 0xEE
					}
				case "get":
					e["res"] = ramps(cache.GetChunk(fidString(e["fid"]), uint64(tr.I(e, "min"))))
				case "slice":
					e["res"] = ramps(cache.GetChunkSlice(fidString(e["fid"]), uint64(tr.I(e, "off")), uint64(tr.I(e, "len"))))
				case "restart":
					cache.Shutdown()
					cache = chunk_cache.NewTieredChunkCache(me, dir, du, unit)
				default:
					tr.Fatal("unknown op %v", kind)
				}
			})
			if pan != "" {
				w.Emit(tr.Ev{"ev": "panic", "op": e, "msg": pan})
				break
			}
			w.Emit(e)
			if kind == "set" || kind == "restart" {
				got := make([]interface{}, len(probeF))
				for i, f := range probeF {
					row := make([]interface{}, len(probeM))
					for j, m := range probeM {
						row[j] = ramps(cache.GetChunk(fidString(f), uint64(m)))
					}
					got[i] = row
				}
				w.Emit(tr.Ev{"ev": "snap", "got": got})
			}
		}
		cache.Shutdown()
		os.RemoveAll(dir)
	}
}
