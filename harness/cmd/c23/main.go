// c23: executes add/del/match scripts on the real weed/filer.FilerConf and records
// what MatchStorageRule returns. Paths and location prefixes travel as sequences
// of single-character tokens; the driver only joins them into strings.
package main

import (
	"bytes"
	"strings"

	"github.com/chrislusf/seaweedfs/weed/filer"
	"github.com/chrislusf/seaweedfs/weed/pb/filer_pb"

	"verifharness/tr"
)

func str(v interface{}) string { return strings.Join(tr.Strs(v), "") }

func confOf(p string, v interface{}) *filer_pb.FilerConf_PathConf {
	m, _ := v.(map[string]interface{})
	return &filer_pb.FilerConf_PathConf{
		LocationPrefix:    p,
		Collection:        tr.S(m, "collection"),
		Replication:       tr.S(m, "replication"),
		Ttl:               tr.S(m, "ttl"),
		DiskType:          tr.S(m, "diskType"),
		Fsync:             tr.B(m, "fsync"),
		VolumeGrowthCount: uint32(tr.I(m, "growth")),
		ReadOnly:          tr.B(m, "readOnly"),
	}
}

func rec(c *filer_pb.FilerConf_PathConf) tr.Ev {
	return tr.Ev{
		"collection":  c.Collection,
		"replication": c.Replication,
		"ttl":         c.Ttl,
		"diskType":    c.DiskType,
		"fsync":       c.Fsync,
		"growth":      int(c.VolumeGrowthCount),
		"readOnly":    c.ReadOnly,
	}
}

func main() {
	o := tr.ParseFlags()
	w := tr.NewWriter(o.Out)
	defer w.Close()
	for _, ex := range tr.ReadScript(o.Script) {
		fc := filer.NewFilerConf()
		probe := tr.List(ex[0]["probe"])
		every := tr.B(ex[0], "snapEvery") // snapshot after every operation, else only at the end
		w.Emit(ex[0])
		snap := func() {
			got := make([]tr.Ev, len(probe))
			for i, p := range probe {
				got[i] = rec(fc.MatchStorageRule(str(p)))
			}
			w.Emit(tr.Ev{"ev": "snap", "got": got})
		}
		dump := func() {
			rules := make([]tr.Ev, 0)
			for _, l := range fc.ToProto().Locations {
				rules = append(rules, tr.Ev{"p": strings.Split(l.LocationPrefix, ""), "c": rec(l)})
			}
			w.Emit(tr.Ev{"ev": "dump", "rules": rules})
		}
		var ops []tr.Ev
		for _, e := range ex[1:] {
			if k := tr.S(e, "ev"); k != "snap" && k != "panic" && k != "dump" {
				ops = append(ops, e)
			}
		}
		broke := false
		for i, e := range ops {
			pan := tr.Guard(func() {
				switch tr.S(e, "ev") {
				case "add":
					p := str(e["p"])
					err := fc.AddLocationConf(confOf(p, e["c"]))
					e["err"] = ""
					if err != nil {
						e["err"] = err.Error()
					}
				case "del":
					fc.DeleteLocationConf(str(e["p"]))
				case "match":
					e["res"] = rec(fc.MatchStorageRule(str(e["path"])))
				case "reload":
					// what fs.configure persists, loaded the way the filer loads filer.conf
					var buf bytes.Buffer
					e["err"] = ""
					if err := fc.ToText(&buf); err != nil {
						e["err"] = "totext: " + err.Error()
						break
					}
					fc2 := filer.NewFilerConf()
					if err := fc2.LoadFromBytes(buf.Bytes()); err != nil {
						e["err"] = "load: " + err.Error()
						break
					}
					fc = fc2
				default:
					tr.Fatal("unknown op %v", e["ev"])
				}
			})
			if pan != "" {
				w.Emit(tr.Ev{"ev": "panic", "op": e, "msg": pan})
				broke = true
				break
			}
			w.Emit(e)
			if every && i < len(ops)-1 && tr.S(e, "ev") != "match" && tr.S(e, "ev") != "reload" {
				if pan := tr.Guard(snap); pan != "" {
					w.Emit(tr.Ev{"ev": "panic", "op": "snap", "msg": pan})
					broke = true
					break
				}
			}
		}
		if !broke {
			if pan := tr.Guard(func() { snap(); dump() }); pan != "" {
				w.Emit(tr.Ev{"ev": "panic", "op": "snap", "msg": pan})
			}
		}
	}
}
