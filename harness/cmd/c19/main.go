// c19: executes directory-listing scripts on the REAL metadata stores
// (weed/filer/leveldb, leveldb2, leveldb3), on filer.FilerStoreWrapper over
// them, on the wrapper over an in-memory store without native prefix listing
// (forces FilerStoreWrapper.prefixFilterEntries), and on filer.Filer
// (StreamListDirectoryEntries / ListDirectoryEntries: patterns, TTL expiry),
// and records what every listing delivered. It decides nothing.
//
// Script (ndjson):
//   reset: store (leveldb|leveldb2|leveldb3|mem), via (direct|wrapper|filer),
//          names, expired, fresh (arrays of byte arrays), deep (bool), base (dir path), slash (bool)
//   list : api (prefixed|plain|stream|page), start, incl, limit, prefix, pattern, excl
//          -> res, last, more, err
//   walk : the same + mode (emitted|returned|more) -> pages[{res,last,more}], end, err
package main

import (
	"context"
	"errors"
	"fmt"
	"os"
	"sort"
	"strings"
	"time"

	"github.com/chrislusf/seaweedfs/weed/filer"
	"github.com/chrislusf/seaweedfs/weed/filer/leveldb"
	leveldb2 "github.com/chrislusf/seaweedfs/weed/filer/leveldb2"
	leveldb3 "github.com/chrislusf/seaweedfs/weed/filer/leveldb3"
	"github.com/chrislusf/seaweedfs/weed/pb/filer_pb"
	"github.com/chrislusf/seaweedfs/weed/util"
	"google.golang.org/grpc"

	"verifharness/tr"
)

// ---------------------------------------------------------------- config for Initialize
type conf map[string]string

func (c conf) GetString(k string) string                { return c[k] }
func (c conf) GetBool(k string) bool                    { return false }
func (c conf) GetInt(k string) int                      { return 0 }
func (c conf) GetStringSlice(k string) []string         { return nil }
func (c conf) SetDefault(k string, value interface{}) {}

// ---------------------------------------------------------------- in-memory store without prefix listing
// A plain sorted map per directory. ListDirectoryPrefixedEntries answers
// ErrUnsupportedListDirectoryPrefixed like the redis/cassandra/etcd/mongodb
// stores do, so the wrapper has to filter by prefix itself. `calls` lets the
// driver bound a listing that does not terminate (no wall clock involved).
type memStore struct {
	dirs   map[string]map[string]*filer.Entry
	kv     map[string][]byte
	calls  int
	budget int
}

var errBudget = errors.New("c19: listing did not terminate within the call budget")

func newMem() *memStore {
	return &memStore{dirs: map[string]map[string]*filer.Entry{}, kv: map[string][]byte{}, budget: 1 << 30}
}
func (m *memStore) GetName() string                                       { return "c19mem" }
func (m *memStore) Initialize(c util.Configuration, prefix string) error { return nil }
func (m *memStore) InsertEntry(ctx context.Context, e *filer.Entry) error {
	d, n := e.FullPath.DirAndName()
	if m.dirs[d] == nil {
		m.dirs[d] = map[string]*filer.Entry{}
	}
	c := *e
	m.dirs[d][n] = &c
	return nil
}
func (m *memStore) UpdateEntry(ctx context.Context, e *filer.Entry) error { return m.InsertEntry(ctx, e) }
func (m *memStore) FindEntry(ctx context.Context, p util.FullPath) (*filer.Entry, error) {
	d, n := p.DirAndName()
	if e, ok := m.dirs[d][n]; ok {
		c := *e
		return &c, nil
	}
	return nil, filer_pb.ErrNotFound
}
func (m *memStore) DeleteEntry(ctx context.Context, p util.FullPath) error {
	d, n := p.DirAndName()
	delete(m.dirs[d], n)
	return nil
}
func (m *memStore) DeleteFolderChildren(ctx context.Context, p util.FullPath) error {
	delete(m.dirs, string(p))
	return nil
}
func (m *memStore) ListDirectoryEntries(ctx context.Context, dir util.FullPath, start string, incl bool, limit int64, each filer.ListEachEntryFunc) (string, error) {
	m.calls++
	if m.calls > m.budget {
		return "", errBudget
	}
	var ns []string
	for n := range m.dirs[string(dir)] {
		if n > start || (incl && n == start) {
			ns = append(ns, n)
		}
	}
	sort.Strings(ns)
	last := ""
	for _, n := range ns {
		if limit <= 0 {
			break
		}
		limit--
		last = n
		c := *m.dirs[string(dir)][n]
		if !each(&c) {
			break
		}
	}
	return last, nil
}
func (m *memStore) ListDirectoryPrefixedEntries(ctx context.Context, dir util.FullPath, start string, incl bool, limit int64, prefix string, each filer.ListEachEntryFunc) (string, error) {
	return "", filer.ErrUnsupportedListDirectoryPrefixed
}
func (m *memStore) BeginTransaction(ctx context.Context) (context.Context, error) { return ctx, nil }
func (m *memStore) CommitTransaction(ctx context.Context) error                   { return nil }
func (m *memStore) RollbackTransaction(ctx context.Context) error                 { return nil }
func (m *memStore) KvPut(ctx context.Context, k, v []byte) error {
	m.kv[string(k)] = v
	return nil
}
func (m *memStore) KvGet(ctx context.Context, k []byte) ([]byte, error) {
	if v, ok := m.kv[string(k)]; ok {
		return v, nil
	}
	return nil, filer.ErrKvNotFound
}
func (m *memStore) KvDelete(ctx context.Context, k []byte) error {
	delete(m.kv, string(k))
	return nil
}
func (m *memStore) Shutdown() {}

// ---------------------------------------------------------------- call counter in front of a real store
// Pure delegation; it only counts listing calls so that a filer-level listing
// that never terminates becomes an observed error instead of a hung driver.
type countStore struct {
	filer.FilerStore
	calls, budget int
}

func (c *countStore) ListDirectoryEntries(ctx context.Context, dir util.FullPath, start string, incl bool, limit int64, each filer.ListEachEntryFunc) (string, error) {
	c.calls++
	if c.calls > c.budget {
		return "", errBudget
	}
	return c.FilerStore.ListDirectoryEntries(ctx, dir, start, incl, limit, each)
}
func (c *countStore) ListDirectoryPrefixedEntries(ctx context.Context, dir util.FullPath, start string, incl bool, limit int64, prefix string, each filer.ListEachEntryFunc) (string, error) {
	c.calls++
	if c.calls > c.budget {
		return "", errBudget
	}
	return c.FilerStore.ListDirectoryPrefixedEntries(ctx, dir, start, incl, limit, prefix, each)
}

// ---------------------------------------------------------------- the code under test, by configuration
type target struct {
	counter *countStore
	raw     filer.FilerStore
	wrapper *filer.FilerStoreWrapper
	fl      *filer.Filer
	mem     *memStore
}

var tmpRoot string
var targets = map[string]*target{}

func getTarget(store string) *target {
	if t, ok := targets[store]; ok {
		return t
	}
	t := &target{}
	dir := fmt.Sprintf("%s/%s", tmpRoot, store)
	var err error
	switch store {
	case "leveldb":
		s := &leveldb.LevelDBStore{}
		err = s.Initialize(conf{"dir": dir}, "")
		t.raw = s
	case "leveldb2":
		s := &leveldb2.LevelDB2Store{}
		err = s.Initialize(conf{"dir": dir}, "")
		t.raw = s
	case "leveldb3":
		s := &leveldb3.LevelDB3Store{}
		err = s.Initialize(conf{"dir": dir}, "")
		t.raw = s
	case "mem":
		t.mem = newMem()
		t.raw = t.mem
	default:
		tr.Fatal("unknown store %q", store)
	}
	if err != nil {
		tr.Fatal("initialize %s: %v", store, err)
	}
	// no masters, nothing is dialled: NewFiler only builds the client object
	t.fl = filer.NewFiler(nil, grpc.WithInsecure(), "localhost", 0, "", "", "", func() {})
	t.counter = &countStore{FilerStore: t.raw, budget: 1 << 30}
	t.fl.SetStore(t.counter)
	t.wrapper = filer.NewFilerStoreWrapper(t.raw)
	targets[store] = t
	return t
}

func bs(v interface{}) string {
	a, _ := v.([]interface{})
	b := make([]byte, 0, len(a))
	for _, x := range a {
		f, _ := x.(float64)
		b = append(b, byte(f))
	}
	return string(b)
}
func names(v interface{}) []string {
	var r []string
	for _, x := range tr.List(v) {
		r = append(r, bs(x))
	}
	return r
}
func enc(s string) []int {
	r := make([]int, len(s))
	for i := 0; i < len(s); i++ {
		r[i] = int(s[i])
	}
	return r
}
func encAll(ss []string) [][]int {
	r := make([][]int, len(ss))
	for i, s := range ss {
		r[i] = enc(s)
	}
	return r
}

type request struct {
	api, start, prefix, pattern, excl string
	incl                              bool
	limit                             int64
}

type page struct {
	res  []string
	last string
	more bool
	err  string
}

// slash: the filer is asked with a trailing slash on the directory (it has to strip it)
var slash bool

func doList(t *target, via string, dir util.FullPath, r request) (p page) {
	ctx := context.Background()
	if t.mem != nil {
		t.mem.calls = 0
		t.mem.budget = 400
	}
	t.counter.calls, t.counter.budget = 0, 400
	each := func(e *filer.Entry) bool {
		d, n := e.FullPath.DirAndName()
		if d != string(dir) {
			n = string(e.FullPath) // an entry of another directory: recorded with its full path
		}
		p.res = append(p.res, n)
		return len(p.res) < 1000
	}
	var err error
	asked := dir
	if slash {
		asked += "/"
	}
	switch via + "/" + r.api {
	case "direct/prefixed":
		p.last, err = t.raw.ListDirectoryPrefixedEntries(ctx, dir, r.start, r.incl, r.limit, r.prefix, each)
	case "direct/plain":
		p.last, err = t.raw.ListDirectoryEntries(ctx, dir, r.start, r.incl, r.limit, each)
	case "wrapper/prefixed":
		p.last, err = t.wrapper.ListDirectoryPrefixedEntries(ctx, dir, r.start, r.incl, r.limit, r.prefix, each)
	case "wrapper/plain":
		p.last, err = t.wrapper.ListDirectoryEntries(ctx, dir, r.start, r.incl, r.limit, each)
	case "filer/stream":
		p.last, err = t.fl.StreamListDirectoryEntries(ctx, asked, r.start, r.incl, r.limit, r.prefix, r.pattern, r.excl, each)
	case "filer/page":
		var es []*filer.Entry
		es, p.more, err = t.fl.ListDirectoryEntries(ctx, asked, r.start, r.incl, r.limit, r.prefix, r.pattern, r.excl)
		for _, e := range es {
			each(e)
		}
	default:
		tr.Fatal("api %q not available via %q", r.api, via)
	}
	if err != nil {
		p.err = err.Error()
	}
	if len(p.res) >= 1000 {
		p.err = "c19: more than 1000 entries delivered"
	}
	return
}

func reqOf(e tr.Ev, via string) request {
	r := request{api: tr.S(e, "api"), start: bs(e["start"]), incl: tr.B(e, "incl"), limit: int64(tr.I(e, "limit")),
		prefix: bs(e["prefix"]), pattern: bs(e["pattern"]), excl: bs(e["excl"])}
	if via != "filer" { // the store interface has no patterns
		r.pattern, r.excl = "", ""
	}
	if r.api == "plain" {
		r.prefix = ""
	}
	return r
}

func putReq(e tr.Ev, r request) {
	e["start"], e["prefix"], e["pattern"], e["excl"] = enc(r.start), enc(r.prefix), enc(r.pattern), enc(r.excl)
	e["incl"], e["limit"], e["api"] = r.incl, r.limit, r.api
}

// last resort: a listing that hangs inside a real store. The event is recorded
// with an error (which no specification admits) and the driver stops.
func guarded(w *tr.Writer, e tr.Ev, f func()) string {
	done := make(chan string, 1)
	go func() { done <- tr.Guard(f) }()
	select {
	case p := <-done:
		return p
	case <-time.After(120 * time.Second):
		c := tr.Copy(e)
		c["res"], c["last"], c["more"], c["err"] = [][]int{}, []int{}, false, "c19: the call did not return within 120 s"
		if tr.S(e, "ev") == "walk" {
			delete(c, "res")
			delete(c, "last")
			delete(c, "more")
			c["pages"], c["end"] = []tr.Ev{}, "hung"
		}
		w.Emit(c)
		w.Close()
		os.Exit(0)
	}
	return ""
}

func main() {
	o := tr.ParseFlags()
	w := tr.NewWriter(o.Out)
	defer w.Close()
	var err error
	tmpRoot, err = os.MkdirTemp("", "c19-")
	if err != nil {
		tr.Fatal("tmp: %v", err)
	}
	defer os.RemoveAll(tmpRoot)
	now := time.Now()
	for xi, ex := range tr.ReadScript(o.Script) {
		rs := ex[0]
		store, via := tr.S(rs, "store"), tr.S(rs, "via")
		t := getTarget(store)
		base := tr.S(rs, "base")
		if base == "" {
			base = "/t"
		}
		dir := util.FullPath(fmt.Sprintf("%s/x%dy", base, xi))
		expired := map[string]bool{}
		for _, n := range names(rs["expired"]) {
			expired[n] = true
		}
		fresh := map[string]bool{}
		for _, n := range names(rs["fresh"]) {
			fresh[n] = true
		}
		insert := func(e *filer.Entry) {
			var err error
			if via == "direct" {
				err = t.raw.InsertEntry(context.Background(), e)
			} else if via == "wrapper" {
				err = t.wrapper.InsertEntry(context.Background(), e)
			} else {
				err = t.fl.Store.InsertEntry(context.Background(), e)
			}
			if err != nil {
				tr.Fatal("insert %s: %v", e.FullPath, err)
			}
		}
		for i, n := range names(rs["names"]) {
			if n == "" || strings.Contains(n, "/") {
				tr.Fatal("bad name %q", n)
			}
			e := &filer.Entry{FullPath: util.NewFullPath(string(dir), n),
				Attr: filer.Attr{Mtime: now, Crtime: now, Mode: 0644, Uid: 1, Gid: 1}}
			if expired[n] {
				e.TtlSec = 1
				e.Crtime = now.Add(-time.Hour)
			} else if fresh[n] {
				e.TtlSec = 1000000
			}
			if tr.B(rs, "deep") && i%2 == 0 {
				// the child is itself a directory with a child of its own: never part of this listing
				e.Mode |= os.ModeDir
				insert(&filer.Entry{FullPath: util.NewFullPath(string(e.FullPath), n),
					Attr: filer.Attr{Mtime: now, Crtime: now, Mode: 0644}})
			}
			insert(e)
		}
		if tr.B(rs, "deep") {
			// sibling directories whose paths extend this one's
			for _, sib := range []string{string(dir) + "0", string(dir) + "a"} {
				insert(&filer.Entry{FullPath: util.NewFullPath(sib, "ab"), Attr: filer.Attr{Mtime: now, Crtime: now, Mode: 0644}})
			}
		}
		slash = tr.B(rs, "slash")
		level := "store"
		if via == "filer" {
			level = "filer"
		}
		rs["level"] = level
		w.Emit(rs)
		for _, e := range ex[1:] {
			switch tr.S(e, "ev") {
			case "list":
				r := reqOf(e, via)
				var p page
				pan := guarded(w, e, func() { p = doList(t, via, dir, r) })
				if pan != "" {
					w.Emit(tr.Ev{"ev": "panic", "op": e, "msg": pan})
					continue
				}
				putReq(e, r)
				e["res"], e["last"], e["more"], e["err"] = encAll(p.res), enc(p.last), p.more, p.err
				w.Emit(e)
			case "walk":
				r := reqOf(e, via)
				mode := tr.S(e, "mode")
				pages := []tr.Ev{}
				end, errs := "done", ""
				cur := r
				pan := guarded(w, e, func() {
					for {
						if len(pages) >= 12 {
							end = "budget"
							break
						}
						p := doList(t, via, dir, cur)
						pages = append(pages, tr.Ev{"res": encAll(p.res), "last": enc(p.last), "more": p.more})
						if p.err != "" {
							errs = p.err
							break
						}
						if len(p.res) == 0 || (mode == "more" && !p.more) {
							break
						}
						if mode == "returned" {
							cur.start = p.last
						} else {
							cur.start = p.res[len(p.res)-1]
						}
						cur.incl = false
					}
				})
				if pan != "" {
					w.Emit(tr.Ev{"ev": "panic", "op": e, "msg": pan})
					continue
				}
				putReq(e, r)
				e["pages"], e["end"], e["err"] = pages, end, errs
				w.Emit(e)
			case "panic":
			default:
				tr.Fatal("unknown op %v", e["ev"])
			}
		}
	}
	for _, t := range targets {
		t.raw.Shutdown()
	}
}
