// c24: writes rich filer entries into the REAL embedded metadata stores
// (weed/filer/leveldb, leveldb2, leveldb3; directly or through
// filer.FilerStoreWrapper) and records, as tokens, what was written and what
// FindEntry / ListDirectoryEntries / ListDirectoryPrefixedEntries give back.
//
// A token is the sha1 of a canonical, deterministic serialization of a complete
// entry (this file, func canon). The driver computes it for the entry it is
// about to write ("tok") and for every entry it reads back ("got"); it never
// compares the two. Which token has to come back where is decided by
// spec/MetaStore.tla.
//
// Script (ndjson):
//   reset : store (leveldb|leveldb2|leveldb3), via (direct|wrapper|mounted), paths [[dir,name]..], ldirs [dir..]
//           (a dir is an array of names; via "mounted": the wrapper with a second leveldb store
//           mounted, through FilerStorePathTranlator, at the execution's directory d)
//   insert/update : dir, name, e {seed, chunks, fidobj, gz, hl, content, remote, ext, isdir}
//   delete : dir, name
//   deltree : dir                      (DeleteFolderChildren)
// After every operation the driver looks up every path and lists every
// directory (event "snap").
package main

import (
	"context"
	"crypto/sha1"
	"encoding/hex"
	"fmt"
	"hash"
	"math"
	"math/rand"
	"os"
	"sort"
	"strings"
	"time"

	"github.com/chrislusf/seaweedfs/weed/filer"
	"github.com/chrislusf/seaweedfs/weed/filer/leveldb"
	leveldb2 "github.com/chrislusf/seaweedfs/weed/filer/leveldb2"
	leveldb3 "github.com/chrislusf/seaweedfs/weed/filer/leveldb3"
	"github.com/chrislusf/seaweedfs/weed/pb/filer_pb"
	"github.com/chrislusf/seaweedfs/weed/util"

	"verifharness/tr"
)

type conf map[string]string

func (c conf) GetString(k string) string                { return c[k] }
func (c conf) GetBool(k string) bool                    { return false }
func (c conf) GetInt(k string) int                      { return 0 }
func (c conf) GetStringSlice(k string) []string         { return nil }
func (c conf) SetDefault(k string, value interface{}) {}

// ---------------------------------------------------------------- canonical projection
// the text form of a file id: volume id, comma, key in hex without leading zero
// bytes, cookie as 8 hex digits
func fidText(vid uint32, key uint64, cookie uint32) string {
	k := fmt.Sprintf("%016x", key)
	for len(k) > 2 && k[:2] == "00" {
		k = k[2:]
	}
	return fmt.Sprintf("%d,%s%08x", vid, k, cookie)
}

// the distinct non-empty texts under which a chunk names a blob
func fidSet(s string, f *filer_pb.FileId) string {
	var a []string
	if s != "" {
		a = append(a, s)
	}
	if f != nil {
		t := fidText(f.VolumeId, f.FileKey, f.Cookie)
		if len(a) == 0 || a[0] != t {
			a = append(a, t)
		}
	}
	sort.Strings(a)
	return strings.Join(a, "|")
}

func canon(h hash.Hash, e *filer.Entry) {
	a := e.Attr
	fmt.Fprintf(h, "mtime=%d crtime=%d mode=%d uid=%d gid=%d mime=%q repl=%q coll=%q ttl=%d disk=%q user=%q symlink=%q md5=%x size=%d\n",
		a.Mtime.Unix(), a.Crtime.Unix(), uint32(a.Mode), a.Uid, a.Gid, a.Mime, a.Replication, a.Collection, a.TtlSec,
		a.DiskType, a.UserName, a.SymlinkTarget, a.Md5, a.FileSize)
	fmt.Fprintf(h, "groups=%d", len(a.GroupNames))
	for _, g := range a.GroupNames {
		fmt.Fprintf(h, " %q", g)
	}
	var ks []string
	for k := range e.Extended {
		ks = append(ks, k)
	}
	sort.Strings(ks)
	fmt.Fprintf(h, "\next=%d", len(ks))
	for _, k := range ks {
		fmt.Fprintf(h, " %q=%x", k, e.Extended[k])
	}
	fmt.Fprintf(h, "\nchunks=%d\n", len(e.Chunks))
	for _, c := range e.Chunks {
		if c == nil {
			fmt.Fprintf(h, "nil\n")
			continue
		}
		fmt.Fprintf(h, "fid=%s off=%d size=%d mtime=%d etag=%q src=%s cipher=%x comp=%v manifest=%v\n",
			fidSet(c.FileId, c.Fid), c.Offset, c.Size, c.Mtime, c.ETag, fidSet(c.SourceFileId, c.SourceFid),
			c.CipherKey, c.IsCompressed, c.IsChunkManifest)
	}
	fmt.Fprintf(h, "hl=%x counter=%d\ncontent=%d:%x\n", []byte(e.HardLinkId), e.HardLinkCounter, len(e.Content), e.Content)
	if e.Remote == nil || (e.Remote.LastModifiedAt == 0 && e.Remote.Size == 0 && e.Remote.ETag == "") {
		fmt.Fprintf(h, "remote=-\n")
	} else {
		fmt.Fprintf(h, "remote=%d %d %q\n", e.Remote.LastModifiedAt, e.Remote.Size, e.Remote.ETag)
	}
}

// textFids: every chunk that names a blob (and every source) does so in text form
func textFids(e *filer.Entry) bool {
	for _, c := range e.Chunks {
		if c == nil {
			continue
		}
		if (c.FileId == "" && c.Fid != nil) || (c.SourceFileId == "" && c.SourceFid != nil) {
			return false
		}
	}
	return true
}

func token(e *filer.Entry) string {
	h := sha1.New()
	canon(h, e)
	return hex.EncodeToString(h.Sum(nil))
}

// ---------------------------------------------------------------- rich random entries
var words = []string{"", "a", "text/plain", "image/png", "000", "é", "日本語", "with space", "q\"uote", "line\nbreak", "nul\x00byte",
	"application/json", "hdd", "ssd", "010", "collection-1", strings.Repeat("x", 300)}

func pick64(r *rand.Rand) uint64 {
	switch r.Intn(6) {
	case 0:
		return 0
	case 1:
		return 1
	case 2:
		return math.MaxUint64
	case 3:
		return 1 << 32
	case 4:
		return uint64(r.Intn(100000))
	}
	return r.Uint64()
}
func pick32(r *rand.Rand) uint32 {
	switch r.Intn(5) {
	case 0:
		return 0
	case 1:
		return math.MaxUint32
	case 2:
		return uint32(r.Intn(1000))
	}
	return r.Uint32()
}
func blob(r *rand.Rand, n int, gz bool) []byte {
	b := make([]byte, n)
	r.Read(b)
	if gz && n >= 2 {
		b[0], b[1] = 0x1f, 0x8b
	}
	return b
}
func word(r *rand.Rand) string { return words[r.Intn(len(words))] }

func mkFid(r *rand.Rand) (uint32, uint64, uint32) {
	vid := uint32(1 + r.Intn(5000))
	if r.Intn(8) == 0 {
		vid = math.MaxUint32
	}
	var key uint64
	switch r.Intn(5) {
	case 0:
		key = 1
	case 1:
		key = uint64(1 + r.Intn(1<<20))
	case 2:
		key = math.MaxUint64
	case 3:
		key = 1<<32 + uint64(r.Intn(100))
	default:
		key = r.Uint64() | 1
	}
	return vid, key, pick32(r)
}

func build(dir, name string, d map[string]interface{}) *filer.Entry {
	seed := int64(tr.I(d, "seed"))
	r := rand.New(rand.NewSource(seed))
	gz := tr.B(d, "gz")
	e := &filer.Entry{FullPath: util.NewFullPath(dir, name)}
	sec := func() time.Time {
		switch r.Intn(5) {
		case 0:
			return time.Unix(0, 0)
		case 1:
			return time.Unix(1, 0)
		case 2:
			return time.Unix(int64(r.Intn(1<<31)), 0)
		case 3:
			return time.Unix(4102444800+int64(r.Intn(1000)), 0) // after 2100
		}
		return time.Unix(-int64(r.Intn(100000)), 0) // before 1970
	}
	e.Mtime, e.Crtime = sec(), sec()
	e.Mode = os.FileMode(r.Uint32())
	if tr.B(d, "isdir") {
		e.Mode |= os.ModeDir
	}
	e.Uid, e.Gid = pick32(r), pick32(r)
	e.Mime = word(r)
	e.Replication, e.Collection, e.DiskType = word(r), word(r), word(r)
	e.TtlSec = int32(r.Uint32())
	e.UserName, e.SymlinkTarget = word(r), word(r)
	for i := r.Intn(4); i > 0; i-- {
		e.GroupNames = append(e.GroupNames, word(r))
	}
	if r.Intn(2) == 0 {
		e.Md5 = blob(r, 16, gz)
	}
	e.FileSize = pick64(r)
	if n := tr.I(d, "ext"); n > 0 {
		e.Extended = map[string][]byte{}
		for i := 0; i < n; i++ {
			e.Extended[fmt.Sprintf("%s-%d", word(r), i)] = blob(r, []int{0, 1, 2, 5, 64, 700}[r.Intn(6)], gz)
		}
	}
	fidobj := tr.B(d, "fidobj")
	for i := tr.I(d, "chunks"); i > 0; i-- {
		c := &filer_pb.FileChunk{Offset: int64(pick64(r) >> 1), Size: pick64(r), Mtime: int64(pick64(r) >> 1), ETag: word(r)}
		vid, key, cookie := mkFid(r)
		if fidobj {
			c.Fid = &filer_pb.FileId{VolumeId: vid, FileKey: key, Cookie: cookie}
		} else {
			c.FileId = fidText(vid, key, cookie)
		}
		if r.Intn(3) == 0 {
			vid, key, cookie = mkFid(r)
			if fidobj {
				c.SourceFid = &filer_pb.FileId{VolumeId: vid, FileKey: key, Cookie: cookie}
			} else {
				c.SourceFileId = fidText(vid, key, cookie)
			}
		}
		if r.Intn(3) == 0 {
			c.CipherKey = blob(r, 32, gz)
		}
		c.IsCompressed = r.Intn(2) == 0
		c.IsChunkManifest = r.Intn(4) == 0
		e.Chunks = append(e.Chunks, c)
	}
	if tr.B(d, "hl") {
		// unique per (path, seed): this check is about storage, not about sharing between links
		s := sha1.Sum([]byte(fmt.Sprintf("%s/%s#%d", dir, name, seed)))
		e.HardLinkId = append([]byte{0x01}, s[:16]...)
		e.HardLinkCounter = int32(1 + r.Intn(5))
	}
	if n := tr.I(d, "content"); n >= 0 {
		e.Content = blob(r, n, gz)
	}
	if tr.B(d, "remote") {
		e.Remote = &filer_pb.Entry_Remote{LastModifiedAt: int64(pick64(r) >> 1), Size: int64(pick64(r)>>1) + 1, ETag: word(r)}
	}
	return e
}

// ---------------------------------------------------------------- stores
type target struct {
	raw     filer.FilerStore
	wrapper *filer.FilerStoreWrapper
}

var tmpRoot string
var targets = map[string]*target{}

func getTarget(store string) *target {
	if t, ok := targets[store]; ok {
		return t
	}
	t := &target{}
	dir := fmt.Sprintf("%s/%s", tmpRoot, store)
	var err error
	switch store {
	case "leveldb":
		s := &leveldb.LevelDBStore{}
		err = s.Initialize(conf{"dir": dir}, "")
		t.raw = s
	case "leveldb2":
		s := &leveldb2.LevelDB2Store{}
		err = s.Initialize(conf{"dir": dir}, "")
		t.raw = s
	case "leveldb3":
		s := &leveldb3.LevelDB3Store{}
		err = s.Initialize(conf{"dir": dir}, "")
		t.raw = s
	default:
		tr.Fatal("unknown store %q", store)
	}
	if err != nil {
		tr.Fatal("initialize %s: %v", store, err)
	}
	t.wrapper = filer.NewFilerStoreWrapper(t.raw)
	targets[store] = t
	return t
}

// inPlace makes cur (an entry object read from a store) carry the content of want by assigning fields; chunk
// objects are reused and their file ids are set in text form only
func inPlace(cur, want *filer.Entry, dropParsed bool) *filer.Entry {
	cur.Attr, cur.Extended, cur.HardLinkId, cur.HardLinkCounter = want.Attr, want.Extended, want.HardLinkId, want.HardLinkCounter
	cur.Content, cur.Remote = want.Content, want.Remote
	text := func(s string, f *filer_pb.FileId) string {
		if s != "" || f == nil {
			return s
		}
		return fidText(f.VolumeId, f.FileKey, f.Cookie)
	}
	var chunks []*filer_pb.FileChunk
	for i, nc := range want.Chunks {
		if i >= len(cur.Chunks) {
			chunks = append(chunks, nc)
			continue
		}
		c := cur.Chunks[i]
		c.FileId, c.SourceFileId = text(nc.FileId, nc.Fid), text(nc.SourceFileId, nc.SourceFid)
		if dropParsed {
			c.Fid, c.SourceFid = nil, nil
		}
		if c.SourceFileId == "" {
			c.SourceFid = nil
		}
		c.Offset, c.Size, c.Mtime, c.ETag = nc.Offset, nc.Size, nc.Mtime, nc.ETag
		c.CipherKey, c.IsCompressed, c.IsChunkManifest = nc.CipherKey, nc.IsCompressed, nc.IsChunkManifest
		chunks = append(chunks, c)
	}
	cur.Chunks = chunks
	return cur
}

func errText(err error) string {
	if err == nil {
		return ""
	}
	return err.Error()
}

func main() {
	o := tr.ParseFlags()
	w := tr.NewWriter(o.Out)
	defer w.Close()
	var err error
	tmpRoot, err = os.MkdirTemp("", "c24-")
	if err != nil {
		tr.Fatal("tmp: %v", err)
	}
	defer os.RemoveAll(tmpRoot)
	ctx := context.Background()
	for xi, ex := range tr.ReadScript(o.Script) {
		rs := ex[0]
		t := getTarget(tr.S(rs, "store"))
		var st filer.FilerStore = t.raw
		if tr.S(rs, "via") == "wrapper" {
			st = t.wrapper
		}
		// every execution lives below its own root so that the stores can stay open
		root := fmt.Sprintf("%s/x%dy", tr.S(rs, "pbase"), xi)
		real := func(dir interface{}) string { return root + "/" + strings.Join(tr.Strs(dir), "/") }
		var mounted *leveldb.LevelDBStore
		if tr.S(rs, "via") == "mounted" {
			mounted = &leveldb.LevelDBStore{}
			if err := mounted.Initialize(conf{"dir": fmt.Sprintf("%s/mnt%d", tmpRoot, xi)}, ""); err != nil {
				tr.Fatal("initialize mounted store: %v", err)
			}
			t.wrapper.AddPathSpecificStore(root+"/d", fmt.Sprintf("m%d", xi), mounted)
			st = t.wrapper
		}
		w.Emit(rs)
		snap := func() {
			finds := []tr.Ev{}
			for _, p := range tr.List(rs["paths"]) {
				dn := tr.List(p)
				name, _ := dn[1].(string)
				f := tr.Ev{"dir": dn[0], "name": name, "found": false, "got": "", "txt": true, "err": ""}
				want := util.NewFullPath(real(dn[0]), name)
				e, err := st.FindEntry(ctx, want)
				if err == filer_pb.ErrNotFound {
				} else if err != nil {
					f["err"] = err.Error()
				} else {
					f["found"] = true
					f["got"] = token(e)
					f["txt"] = textFids(e)
					if e.FullPath != want {
						f["got"] = "path:" + string(e.FullPath)
					}
				}
				finds = append(finds, f)
			}
			lists := []tr.Ev{}
			for _, d := range tr.List(rs["ldirs"]) {
				for _, api := range []string{"plain", "prefixed"} {
					items := []tr.Ev{}
					each := func(e *filer.Entry) bool {
						dd, n := e.FullPath.DirAndName()
						got := token(e)
						if dd != real(d) {
							got = "path:" + string(e.FullPath)
						}
						items = append(items, tr.Ev{"n": n, "got": got, "txt": textFids(e)})
						return true
					}
					var err error
					if api == "plain" {
						_, err = st.ListDirectoryEntries(ctx, util.FullPath(real(d)), "", true, 100000, each)
					} else {
						_, err = st.ListDirectoryPrefixedEntries(ctx, util.FullPath(real(d)), "", true, 100000, "", each)
					}
					lists = append(lists, tr.Ev{"dir": d, "api": api, "items": items, "err": errText(err)})
				}
			}
			w.Emit(tr.Ev{"ev": "snap", "finds": finds, "lists": lists})
		}
		for _, e := range ex[1:] {
			ev := tr.S(e, "ev")
			if ev == "snap" || ev == "panic" {
				continue
			}
			pan := tr.Guard(func() {
				dir, name := e["dir"], tr.S(e, "name")
				switch ev {
				case "insert", "update":
					d, _ := e["e"].(map[string]interface{})
					ent := build(real(dir), name, d)
					e["tok"] = token(ent) // before the call: the wrapper rewrites the chunks of the entry it is given
					if rmw, _ := e["rmw"].(bool); rmw {
						// read - modify - write: the entry object that the store returned is changed in place (its chunks keep
						// whatever parsed form the store left in them; the new ids are set as text, the way a client edits
						// chunk.FileId) and written back
						if cur, err := st.FindEntry(ctx, util.NewFullPath(real(dir), name)); err == nil {
							// the raw stores serialize a chunk as it is given (normalising the two forms of a file id is the
							// wrapper's job): there the edited chunk objects are made consistent first
							ent = inPlace(cur, ent, tr.S(rs, "via") == "direct")
						}
					}
					if ev == "insert" {
						e["err"] = errText(st.InsertEntry(ctx, ent))
					} else {
						e["err"] = errText(st.UpdateEntry(ctx, ent))
					}
				case "delete":
					e["err"] = errText(st.DeleteEntry(ctx, util.NewFullPath(real(dir), name)))
				case "deltree":
					e["err"] = errText(st.DeleteFolderChildren(ctx, util.FullPath(real(dir))))
				default:
					tr.Fatal("unknown op %v", ev)
				}
			})
			if pan != "" {
				w.Emit(tr.Ev{"ev": "panic", "op": e, "msg": pan})
				break
			}
			w.Emit(e)
			var span string
			span = tr.Guard(snap)
			if span != "" {
				w.Emit(tr.Ev{"ev": "panic", "op": "snap", "msg": span})
				break
			}
		}
		if mounted != nil {
			mounted.Shutdown()
			os.RemoveAll(fmt.Sprintf("%s/mnt%d", tmpRoot, xi))
		}
	}
	for _, t := range targets {
		t.raw.Shutdown()
	}
}
