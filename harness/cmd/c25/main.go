// c25: executes filer HTTP write scripts against the REAL filer + REAL volume
// server of the mini-cluster and records what came back.
//
// Script events (inputs) and what the driver adds (observations):
//
//	reset  {limit, cipher, chunk, etc, ext}  one fresh directory per execution (/c25/x<n>/ or /etc/c25/x<n>/);
//	       limit (SaveToFilerLimit) and cipher (chunks encrypted) select the driver process (--limit, --cipher)
//	write  {p, m: put|post|postdir, op: set|append, s, n, kind: rand|text, te, maxmb,
//	        fail: -1|j, fm: ""|reader|cut|cutte}
//	       -> st (HTTP status, 0 = no response / transport error), err (text, informational)
//	       the body is segment s: n bytes whose low nibble is s (so that any later
//	       content can be cut into slices of known segments); fail >= 0: the body
//	       breaks after j bytes: reader = the http client's body reader returns an
//	       error (chunked transfer encoding), cut = raw TCP with Content-Length n,
//	       j bytes, then the sending half is closed (the filer can still answer), cutte = same with one
//	       chunked-encoding chunk announced as n bytes, abort = as cut, but the connection is reset as
//	       soon as the request has entered the filer's handler
//	create {p, how: chunks|nosize|inline|grpcappend, segs: [{s, n}...]}
//	       -> st "ok"      entry made through the filer's gRPC API (AssignVolume + upload + CreateEntry
//	       with / without the FileSize attribute, inline Content, or AppendToEntry per segment)
//	get    {p} -> st, c (the content returned by the filer's GET as a sequence of slices
//	       {s, a, b} = bytes [a, b) of segment s; s = 0: bytes not recognised, s = -1: zero bytes),
//	       len, fsize / ctotal / clen / nchunks (the entry through gRPC LookupDirectoryEntry; informational)
//
// The driver executes and records; it has no opinion about any result.
package main

import (
	"bufio"
	"bytes"
	"context"
	"errors"
	"flag"
	"fmt"
	"github.com/chrislusf/seaweedfs/weed/storage"
	"io"
	"io/ioutil"
	"math/rand"
	"mime/multipart"
	"net"
	"net/http"
	"strings"
	"sync/atomic"
	"time"

	"github.com/chrislusf/seaweedfs/weed/filer"
	"github.com/chrislusf/seaweedfs/weed/operation"
	"github.com/chrislusf/seaweedfs/weed/pb/filer_pb"

	"verifharness/cluster"
	"verifharness/tr"
)

var inflight, started int64 // requests inside the filer's HTTP handler / PUT and POST requests that entered it

type run struct {
	c    *cluster.Cluster
	w    *tr.Writer
	x    int
	dir  string
	ext  string
	segs map[int][]byte
	hc   *http.Client
}

func genSeg(x, s, n int, kind string) []byte {
	b := make([]byte, n)
	if kind == "text" {
		for i := range b {
			b[i] = byte(((i/64)%16)<<4 | s)
		}
		return b
	}
	rnd := rand.New(rand.NewSource(int64(x)*131 + int64(s)))
	rnd.Read(b)
	for i := range b {
		b[i] = b[i]&0xf0 | byte(s)
	}
	return b
}

func (r *run) seg(s, n int, kind string) []byte {
	if b, ok := r.segs[s]; ok && len(b) == n {
		return b
	}
	b := genSeg(r.x, s, n, kind)
	r.segs[s] = b
	return b
}

// decompose cuts content into maximal runs of equal low nibble and locates every run in its segment.
func (r *run) decompose(c []byte) []interface{} {
	out := []interface{}{}
	for i := 0; i < len(c); {
		k := int(c[i] & 0x0f)
		j := i
		if c[i] == 0 {
			for j < len(c) && c[j] == 0 {
				j++
			}
			out = append(out, tr.Ev{"s": -1, "a": 0, "b": j - i})
			i = j
			continue
		}
		for j < len(c) && int(c[j]&0x0f) == k && c[j] != 0 {
			j++
		}
		piece := c[i:j]
		seg, ok := r.segs[k]
		switch {
		case ok && len(piece) <= len(seg) && bytes.Equal(seg[:len(piece)], piece):
			out = append(out, tr.Ev{"s": k, "a": 0, "b": len(piece)})
		case ok && bytes.Index(seg, piece) >= 0:
			a := bytes.Index(seg, piece)
			out = append(out, tr.Ev{"s": k, "a": a, "b": a + len(piece)})
		default:
			out = append(out, tr.Ev{"s": 0, "a": 0, "b": len(piece)})
		}
		i = j
	}
	return out
}

func waitIdle() {
	for i := 0; i < 20000 && atomic.LoadInt64(&inflight) > 0; i++ {
		time.Sleep(500 * time.Microsecond)
	}
}

type failReader struct {
	data []byte
	pos  int
}

func (f *failReader) Read(p []byte) (int, error) {
	if f.pos >= len(f.data) {
		return 0, errors.New("c25: injected body failure")
	}
	n := copy(p, f.data[f.pos:])
	f.pos += n
	return n, nil
}

func short(err error) string {
	if err == nil {
		return ""
	}
	s := err.Error()
	if len(s) > 160 {
		s = s[:160]
	}
	return s
}

func (r *run) write(e tr.Ev) {
	p, m, op := tr.S(e, "p"), tr.S(e, "m"), tr.S(e, "op")
	s, n, fail, fm := tr.I(e, "s"), tr.I(e, "n"), tr.I(e, "fail"), tr.S(e, "fm")
	data := r.seg(s, n, tr.S(e, "kind"))
	name := p + r.ext
	path := r.dir + "/" + name
	if m == "postdir" {
		path = r.dir + "/"
	}
	var q []string
	if op == "append" {
		q = append(q, "op=append")
	}
	if mb := tr.I(e, "maxmb"); mb > 0 {
		q = append(q, fmt.Sprintf("maxMB=%d", mb))
	}
	uri := path
	if len(q) > 0 {
		uri += "?" + strings.Join(q, "&")
	}
	method := "PUT"
	ctype := ""
	body := data
	cut := fail
	if m != "put" {
		method = "POST"
		var buf bytes.Buffer
		mw := multipart.NewWriter(&buf)
		fw, _ := mw.CreateFormFile("file", name)
		hdr := buf.Len()
		fw.Write(data)
		mw.Close()
		body = buf.Bytes()
		ctype = mw.FormDataContentType()
		if fail >= 0 {
			cut = hdr + fail
		}
	}
	if vro := tr.I(e, "vro"); vro > 0 {
		// "vro": N = every volume of the volume servers refuses writes (read-only) for the first N ms of this request:
		// the filer's first upload of a chunk fails and it has to assign another file id and send the chunk again.
		// Whatever the timing turns out to be, the statement holds: success => exactly the body, failure => unchanged.
		var vols []*storage.VolumeInfo
		for _, vs := range r.c.Volumes {
			st := vs.Server.VerifStore()
			for _, vi := range st.VolumeInfos() {
				if !vi.ReadOnly && st.MarkVolumeReadonly(vi.Id) == nil {
					vols = append(vols, vi)
				}
			}
		}
		back := make(chan struct{})
		go func() {
			time.Sleep(time.Duration(vro) * time.Millisecond)
			for _, vs := range r.c.Volumes {
				for _, vi := range vols {
					vs.Server.VerifStore().MarkVolumeWritable(vi.Id)
				}
			}
			close(back)
		}()
		defer func() { <-back }()
	}
	st, errText := 0, ""
	started0 := atomic.LoadInt64(&started)
	switch {
	case fail < 0 || fm == "reader":
		var rd io.Reader = bytes.NewReader(body)
		if fail >= 0 {
			rd = ioutil.NopCloser(&failReader{data: body[:cut]})
		} else if tr.B(e, "te") {
			rd = ioutil.NopCloser(bytes.NewReader(body)) // unknown length => chunked transfer encoding
		}
		req, err := http.NewRequest(method, "http://"+r.c.FilerAddr+uri, rd)
		if err != nil {
			tr.Fatal("request: %v", err)
		}
		if ctype != "" {
			req.Header.Set("Content-Type", ctype)
		}
		resp, err := r.hc.Do(req)
		if err != nil {
			errText = short(err)
			// the client gave up; the filer may not even have started on the request: give it a moment
			for i := 0; i < 100 && atomic.LoadInt64(&started) == started0; i++ {
				time.Sleep(time.Millisecond)
			}
		} else {
			rb, _ := ioutil.ReadAll(resp.Body)
			resp.Body.Close()
			st = resp.StatusCode
			if st >= 300 {
				errText = short(errors.New(string(rb)))
			}
		}
	default: // cut, cutte, abort: raw TCP
		conn, err := net.DialTimeout("tcp", r.c.FilerAddr, 5*time.Second)
		if err != nil {
			tr.Fatal("dial filer: %v", err)
		}
		var hb bytes.Buffer
		fmt.Fprintf(&hb, "%s %s HTTP/1.1\r\nHost: %s\r\nConnection: close\r\n", method, uri, r.c.FilerAddr)
		if ctype != "" {
			fmt.Fprintf(&hb, "Content-Type: %s\r\n", ctype)
		}
		if fm == "cutte" {
			fmt.Fprintf(&hb, "Transfer-Encoding: chunked\r\n\r\n%x\r\n", len(body))
		} else {
			fmt.Fprintf(&hb, "Content-Length: %d\r\n\r\n", len(body))
		}
		conn.SetDeadline(time.Now().Add(20 * time.Second))
		_, err = conn.Write(append(hb.Bytes(), body[:cut]...))
		if err == nil && fm == "abort" {
			for i := 0; i < 10000 && atomic.LoadInt64(&started) == started0; i++ {
				time.Sleep(500 * time.Microsecond)
			}
			conn.(*net.TCPConn).SetLinger(0)
			err = errors.New("c25: connection reset by the driver")
		} else if err == nil {
			err = conn.(*net.TCPConn).CloseWrite()
		}
		if err != nil {
			errText = short(err)
		} else {
			resp, err := http.ReadResponse(bufio.NewReader(conn), nil)
			if err != nil {
				errText = short(err)
			} else {
				rb, _ := ioutil.ReadAll(resp.Body)
				st = resp.StatusCode
				if st >= 300 {
					errText = short(errors.New(string(rb)))
				}
			}
		}
		conn.Close()
	}
	waitIdle()
	e["st"] = st
	e["err"] = errText
	r.w.Emit(e)
}

func (r *run) create(e tr.Ev) {
	p, how := tr.S(e, "p"), tr.S(e, "how")
	name := p + r.ext
	ctx, cancel := context.WithTimeout(context.Background(), 20*time.Second)
	defer cancel()
	err := r.c.FilerClient(func(cl filer_pb.SeaweedFilerClient) error {
		var chunks []*filer_pb.FileChunk
		var content []byte
		off := int64(0)
		for _, sx := range tr.List(e["segs"]) {
			sm := sx.(map[string]interface{})
			s, n := tr.I(sm, "s"), tr.I(sm, "n")
			data := r.seg(s, n, "rand")
			if how == "inline" {
				content = append(content, data...)
				continue
			}
			if n == 0 {
				if how == "grpcappend" { // an append of nothing still makes the entry
					if _, err := cl.AppendToEntry(ctx, &filer_pb.AppendToEntryRequest{Directory: r.dir, EntryName: name}); err != nil {
						return err
					}
				}
				continue
			}
			av, err := cl.AssignVolume(ctx, &filer_pb.AssignVolumeRequest{Count: 1, Path: r.dir + "/" + name})
			if err != nil {
				return err
			}
			if av.Error != "" {
				return errors.New(av.Error)
			}
			ur, err := operation.UploadData("http://"+av.Url+"/"+av.FileId, name, false, data, false, "", nil, "")
			if err != nil {
				return err
			}
			ch := ur.ToPbFileChunk(av.FileId, off)
			off += int64(n)
			if how == "grpcappend" {
				if _, err := cl.AppendToEntry(ctx, &filer_pb.AppendToEntryRequest{Directory: r.dir, EntryName: name,
					Chunks: []*filer_pb.FileChunk{ch}}); err != nil {
					return err
				}
				continue
			}
			chunks = append(chunks, ch)
		}
		if how == "grpcappend" {
			return nil
		}
		now := time.Now().Unix()
		attr := &filer_pb.FuseAttributes{Mtime: now, Crtime: now, FileMode: 0644}
		if how == "chunks" {
			attr.FileSize = uint64(off)
		}
		resp, err := cl.CreateEntry(ctx, &filer_pb.CreateEntryRequest{Directory: r.dir,
			Entry: &filer_pb.Entry{Name: name, Attributes: attr, Chunks: chunks, Content: content}})
		if err != nil {
			return err
		}
		if resp.Error != "" {
			return errors.New(resp.Error)
		}
		return nil
	})
	if err != nil {
		tr.Fatal("create %s (%s): %v", p, how, err)
	}
	e["st"] = "ok"
	r.w.Emit(e)
}

func (r *run) get(e tr.Ev) {
	p := tr.S(e, "p")
	name := p + r.ext
	st, errText := 0, ""
	var content []byte
	resp, err := r.hc.Get("http://" + r.c.FilerAddr + r.dir + "/" + name)
	if err != nil {
		errText = short(err)
	} else {
		b, rerr := ioutil.ReadAll(resp.Body)
		resp.Body.Close()
		st = resp.StatusCode
		if rerr != nil {
			st, errText = 0, short(rerr)
		} else if st == 200 {
			content = b
		}
	}
	e["st"] = st
	e["err"] = errText
	e["c"] = r.decompose(content)
	e["len"] = len(content)
	fsize, ctotal, clen, nchunks := -1, -1, -1, -1
	r.c.FilerClient(func(cl filer_pb.SeaweedFilerClient) error {
		ctx, cancel := context.WithTimeout(context.Background(), 10*time.Second)
		defer cancel()
		lr, err := cl.LookupDirectoryEntry(ctx, &filer_pb.LookupDirectoryEntryRequest{Directory: r.dir, Name: name})
		if err != nil || lr.Entry == nil {
			return nil
		}
		if lr.Entry.Attributes != nil {
			fsize = int(lr.Entry.Attributes.FileSize)
		}
		ctotal = int(filer.TotalSize(lr.Entry.Chunks))
		clen = len(lr.Entry.Content)
		nchunks = len(lr.Entry.Chunks)
		return nil
	})
	e["fsize"], e["ctotal"], e["clen"], e["nchunks"] = fsize, ctotal, clen, nchunks
	r.w.Emit(e)
}

func main() {
	limit := flag.Int64("limit", 0, "SaveToFilerLimit of the filer")
	cipher := flag.Bool("cipher", false, "filer encrypts the chunks")
	o := tr.ParseFlags()
	c, err := cluster.New(cluster.Options{Volumes: 1, Filer: true, MaxMB: 1, SaveToFilerLimit: *limit, Cipher: *cipher,
		FilerHTTPWrap: func(h http.Handler) http.Handler {
			return http.HandlerFunc(func(w http.ResponseWriter, r *http.Request) {
				atomic.AddInt64(&inflight, 1)
				defer atomic.AddInt64(&inflight, -1)
				if r.Method == "PUT" || r.Method == "POST" {
					atomic.AddInt64(&started, 1)
				}
				h.ServeHTTP(w, r)
			})
		}})
	if err != nil {
		tr.Fatal("cluster: %v", err)
	}
	defer c.Close()
	w := tr.NewWriter(o.Out)
	defer w.Close()
	hc := &http.Client{Timeout: 60 * time.Second}
	// the filer needs the master connection before the first assign succeeds
	for i := 0; ; i++ {
		req, _ := http.NewRequest("PUT", "http://"+c.FilerAddr+"/c25/warm", bytes.NewReader([]byte("warm-up")))
		resp, err := hc.Do(req)
		if err == nil {
			ioutil.ReadAll(resp.Body)
			resp.Body.Close()
			if resp.StatusCode < 300 {
				break
			}
		}
		if i > 200 {
			tr.Fatal("filer does not accept writes: %v", err)
		}
		time.Sleep(50 * time.Millisecond)
	}
	for x, ex := range tr.ReadScript(o.Script) {
		reset := ex[0]
		if int64(tr.I(reset, "limit")) != *limit || tr.B(reset, "cipher") != *cipher {
			continue // an execution for another configuration (other driver process)
		}
		r := &run{c: c, w: w, x: x, segs: map[int][]byte{}, hc: hc, ext: tr.S(reset, "ext")}
		r.dir = fmt.Sprintf("/c25/x%d", x)
		if tr.B(reset, "etc") {
			r.dir = fmt.Sprintf("/etc/c25/x%d", x)
		}
		w.Emit(reset)
		for _, e := range ex[1:] {
			var p string
			switch tr.S(e, "ev") {
			case "write":
				p = tr.Guard(func() { r.write(e) })
			case "create":
				p = tr.Guard(func() { r.create(e) })
			case "get":
				p = tr.Guard(func() { r.get(e) })
			default:
				tr.Fatal("unknown event %v", e["ev"])
			}
			if p != "" {
				w.Emit(tr.Ev{"ev": "panic", "what": p})
			}
		}
		// free the space of this execution (the chunks are deleted asynchronously)
		req, _ := http.NewRequest("DELETE", "http://"+c.FilerAddr+r.dir+"?recursive=true", nil)
		if resp, err := hc.Do(req); err == nil {
			ioutil.ReadAll(resp.Body)
			resp.Body.Close()
		}
	}
}
