// c28: object round trips through a real S3 gateway (real filer, real volume server, 1 MB chunks): plain and
// streaming-signed PUT, copy, multipart uploads (initiate / upload part / upload part copy / complete / abort),
// GET in full and by byte range, single and batch deletes. Objects are written as known byte segments; what is
// read back is recorded as the sequence of known segments it consists of ("?" = bytes that are no known
// segment), a range read as its status / length / whether it equals that slice of the full body just read.
// After every mutating request the set of existing keys (HEAD over the key universe of the execution) is
// recorded. The driver decides nothing; S3ObjectTrace.tla judges.
//
//	--mode inline : the filer keeps small files inline in the entry (SaveToFilerLimit = 2048) instead of chunks
package main

import (
	"bytes"
	"encoding/xml"
	"fmt"
	"io/ioutil"
	"net/http"
	"net/url"
	"os"
	"strconv"
	"strings"
	"time"

	"github.com/chrislusf/seaweedfs/weed/pb/filer_pb"

	"verifharness/cluster"
	"verifharness/s3obj"
	"verifharness/s3util"
	"verifharness/tr"
)

const ak, sk = "AKC28", "SKC280123456789abcdef0123456789"

var (
	c      *cluster.Cluster
	client = &http.Transport{MaxIdleConnsPerHost: 16}
	nx     = 0
)

func must(err error, what string) {
	if err != nil {
		tr.Fatal("%s: %v", what, err)
	}
}

func escKey(k string) string {
	parts := strings.Split(k, "/")
	for i, p := range parts {
		parts[i] = url.PathEscape(p)
	}
	return strings.Join(parts, "/")
}

type result struct {
	status int
	body   []byte
	hdr    http.Header
}

func send(req *http.Request) result {
	resp, err := client.RoundTrip(req)
	if err != nil {
		return result{status: 0}
	}
	b, _ := ioutil.ReadAll(resp.Body)
	resp.Body.Close()
	return result{resp.StatusCode, b, resp.Header}
}

func newReq(method, rawPath string, q url.Values, body []byte, hdr map[string]string) *http.Request {
	u := "http://" + c.S3Addr + rawPath
	if len(q) > 0 {
		u += "?" + q.Encode()
	}
	var req *http.Request
	var err error
	if body != nil {
		req, err = http.NewRequest(method, u, bytes.NewReader(body))
	} else {
		req, err = http.NewRequest(method, u, nil)
	}
	must(err, "request")
	for k, v := range hdr {
		req.Header.Set(k, v)
	}
	return req
}

func do(method, rawPath string, q url.Values, body []byte, hdr map[string]string) result {
	return send(newReq(method, rawPath, q, body, hdr))
}

// streaming-signed PUT (aws-chunked body, chunk signatures chained from the request signature)
func putStreaming(rawPath string, q url.Values, data []byte, chunk int) result {
	req := newReq("PUT", rawPath, q, []byte{}, nil)
	now := time.Now().UTC()
	req.Header.Set("X-Amz-Content-Sha256", s3util.StreamingSHA)
	req.Header.Set("X-Amz-Decoded-Content-Length", strconv.Itoa(len(data)))
	req.Header.Set("Content-Encoding", "aws-chunked")
	seed := s3util.SignV4Header(req, nil, ak, sk, now)
	s3util.SetBody(req, s3obj.StreamingBody(data, chunk, seed, sk, now))
	return send(req)
}

type execState struct {
	pre   string // real bucket name = pre + logical name
	segs  *s3obj.Segs
	univ  [][2]string
	uids  map[int]string
	etags map[string]string
	made  map[string]bool
}

func (x *execState) bucket(b string) string {
	rb := x.pre + b
	if !x.made[rb] {
		r := do("PUT", "/"+rb, nil, nil, nil)
		if r.status != 200 {
			tr.Fatal("create bucket %s: %d %s", rb, r.status, r.body)
		}
		x.made[rb] = true
	}
	return rb
}

func (x *execState) path(b, k string) string { return "/" + x.bucket(b) + "/" + escKey(k) }

func (x *execState) present() []interface{} {
	out := make([]interface{}, 0)
	for _, bk := range x.univ {
		if !x.made[x.pre+bk[0]] {
			continue // a bucket no request has touched yet holds nothing
		}
		if r := do("HEAD", x.path(bk[0], bk[1]), nil, nil, nil); r.status == 200 {
			out = append(out, []interface{}{bk[0], bk[1]})
		}
	}
	return out
}

// folders the filer holds below the buckets of this execution (not .uploads), as [logical bucket, path]
func (x *execState) folders() []interface{} {
	out := make([]interface{}, 0)
	c.FilerClient(func(cl filer_pb.SeaweedFilerClient) error {
		for rb := range x.made {
			lb := strings.TrimPrefix(rb, x.pre)
			var rec func(dir, rel string)
			rec = func(dir, rel string) {
				filer_pb.SeaweedList(cl, dir, "", func(e *filer_pb.Entry, isLast bool) error {
					if e.IsDirectory && !(rel == "" && e.Name == ".uploads") {
						out = append(out, []interface{}{lb, rel + e.Name})
						rec(dir+"/"+e.Name, rel+e.Name+"/")
					}
					return nil
				}, "", false, 10000)
			}
			rec("/buckets/"+rb, "")
		}
		return nil
	})
	return out
}

func (x *execState) cleanup() {
	for rb := range x.made {
		do("DELETE", "/"+rb, nil, nil, nil)
	}
}

func (x *execState) op(e tr.Ev) {
	b, k := tr.S(e, "b"), tr.S(e, "k")
	mut := true
	switch tr.S(e, "ev") {
	case "put":
		data := x.segs.Bytes(tr.S(e, "seg"))
		if tr.S(e, "mode") == "stream" {
			e["status"] = putStreaming(x.path(b, k), nil, data, tr.I(e, "chunk")).status
		} else {
			e["status"] = do("PUT", x.path(b, k), nil, append([]byte{}, data...), nil).status
		}
	case "get":
		mut = false
		r := do("GET", x.path(b, k), nil, nil, nil)
		e["status"] = r.status
		content := make([]interface{}, 0)
		size := -1
		if r.status == 200 {
			content = x.segs.Parse(r.body)
			size = len(r.body)
		}
		e["content"], e["size"] = content, size
		rr := make([]interface{}, 0)
		for _, rg := range tr.List(e["ranges"]) {
			lh := tr.Ints(rg)
			spec := ""
			switch {
			case lh[0] < 0:
				spec = fmt.Sprintf("bytes=-%d", lh[1])
			case lh[1] < 0:
				spec = fmt.Sprintf("bytes=%d-", lh[0])
			default:
				spec = fmt.Sprintf("bytes=%d-%d", lh[0], lh[1])
			}
			pr := do("GET", x.path(b, k), nil, nil, map[string]string{"Range": spec})
			same := false
			if r.status == 200 && pr.status == 206 {
				lo, hi := lh[0], lh[1]
				if lo < 0 { // suffix
					lo, hi = len(r.body)-lh[1], len(r.body)-1
					if lo < 0 {
						lo = 0
					}
				} else if hi < 0 || hi >= len(r.body) {
					hi = len(r.body) - 1
				}
				same = lo <= hi && hi < len(r.body) && bytes.Equal(pr.body, r.body[lo:hi+1])
			}
			rr = append(rr, map[string]interface{}{"lo": lh[0], "hi": lh[1], "status": pr.status, "len": len(pr.body), "same": same,
				"cr": pr.hdr.Get("Content-Range")})
		}
		e["rr"] = rr
	case "copy":
		src := "/" + x.bucket(tr.S(e, "sb")) + "/" + escKey(tr.S(e, "sk"))
		e["status"] = do("PUT", x.path(b, k), nil, nil, map[string]string{"X-Amz-Copy-Source": src}).status
	case "del":
		e["status"] = do("DELETE", x.path(b, k), nil, nil, nil).status
	case "bdel":
		var sb strings.Builder
		sb.WriteString("<Delete>")
		for _, dk := range tr.Strs(e["keys"]) {
			sb.WriteString("<Object><Key>" + dk + "</Key></Object>")
		}
		sb.WriteString("</Delete>")
		r := do("POST", "/"+x.bucket(b), url.Values{"delete": {""}}, []byte(sb.String()), nil)
		var dr struct {
			Deleted []struct {
				Key string `xml:"Key"`
			} `xml:"Deleted"`
			Errors []struct {
				Key string `xml:"Key"`
			} `xml:"Error"`
		}
		xml.Unmarshal(r.body, &dr)
		del, errs := make([]interface{}, 0), make([]interface{}, 0)
		for _, d := range dr.Deleted {
			del = append(del, d.Key)
		}
		for _, d := range dr.Errors {
			errs = append(errs, d.Key)
		}
		e["status"], e["deleted"], e["errors"] = r.status, del, errs
	case "init":
		r := do("POST", x.path(b, k), url.Values{"uploads": {""}}, nil, nil)
		var ir struct {
			UploadId string `xml:"UploadId"`
		}
		xml.Unmarshal(r.body, &ir)
		x.uids[tr.I(e, "u")] = ir.UploadId
		e["status"] = r.status
	case "part", "pcopy":
		u := tr.I(e, "u")
		q := url.Values{"uploadId": {x.uids[u]}, "partNumber": {strconv.Itoa(tr.I(e, "n"))}}
		var r result
		if tr.S(e, "ev") == "part" {
			data := x.segs.Bytes(tr.S(e, "seg"))
			if tr.S(e, "mode") == "stream" {
				r = putStreaming(x.path(b, k), q, data, tr.I(e, "chunk"))
			} else {
				r = do("PUT", x.path(b, k), q, append([]byte{}, data...), nil)
			}
		} else {
			hdr := map[string]string{"X-Amz-Copy-Source": "/" + x.bucket(tr.S(e, "sb")) + "/" + escKey(tr.S(e, "sk"))}
			if tr.I(e, "hi") >= 0 {
				hdr["X-Amz-Copy-Source-Range"] = fmt.Sprintf("bytes=%d-%d", tr.I(e, "lo"), tr.I(e, "hi"))
			}
			r = do("PUT", x.path(b, k), q, nil, hdr)
		}
		if r.status == 200 {
			x.etags[fmt.Sprintf("%d/%d", u, tr.I(e, "n"))] = r.hdr.Get("ETag")
		}
		e["status"] = r.status
	case "complete":
		u := tr.I(e, "u")
		var sb strings.Builder
		sb.WriteString("<CompleteMultipartUpload>")
		for _, n := range tr.Ints(e["parts"]) {
			sb.WriteString(fmt.Sprintf("<Part><PartNumber>%d</PartNumber><ETag>%s</ETag></Part>", n, x.etags[fmt.Sprintf("%d/%d", u, n)]))
		}
		sb.WriteString("</CompleteMultipartUpload>")
		e["status"] = do("POST", x.path(b, k), url.Values{"uploadId": {x.uids[u]}}, []byte(sb.String()), nil).status
	case "abort":
		e["status"] = do("DELETE", x.path(b, k), url.Values{"uploadId": {x.uids[tr.I(e, "u")]}}, nil, nil).status
	case "dump":
		mut = false
		objs := make([]interface{}, 0)
		for _, bk := range x.univ {
			if !x.made[x.pre+bk[0]] {
				continue
			}
			if r := do("GET", x.path(bk[0], bk[1]), nil, nil, nil); r.status == 200 {
				objs = append(objs, map[string]interface{}{"b": bk[0], "k": bk[1], "content": x.segs.Parse(r.body)})
			}
		}
		e["objs"] = objs
	default:
		tr.Fatal("unknown op %v", e["ev"])
	}
	if mut {
		e["after"] = x.present()
		e["zdirs"] = x.folders()
	}
}

func runExec(w *tr.Writer, ex []tr.Ev) {
	reset := ex[0]
	nx++
	x := &execState{pre: fmt.Sprintf("x%d", nx), uids: map[int]string{}, etags: map[string]string{}, made: map[string]bool{}}
	lens := map[string]int{}
	if m, ok := reset["segs"].(map[string]interface{}); ok {
		for id, v := range m {
			lens[id] = int(v.(float64))
		}
	}
	x.segs = s3obj.NewSegs(lens)
	for _, bk := range tr.List(reset["univ"]) {
		s := tr.Strs(bk)
		x.univ = append(x.univ, [2]string{s[0], s[1]})
	}
	defer x.cleanup()
	w.Emit(reset)
	for _, e := range ex[1:] {
		e := e
		if pan := tr.Guard(func() { x.op(e) }); pan != "" {
			w.Emit(tr.Ev{"ev": "panic", "msg": pan})
			return
		}
		w.Emit(e)
	}
}

func main() {
	o := tr.ParseFlags()
	w := tr.NewWriter(o.Out)
	defer w.Close()
	execs := tr.ReadScript(o.Script)
	base, err := ioutil.TempDir("", "c28cfg")
	must(err, "tempdir")
	cfg := base + "/identities.json"
	must(ioutil.WriteFile(cfg, []byte(`{"identities":[{"name":"anonymous","actions":["Admin"]},{"name":"c28","credentials":[{"accessKey":"`+ak+`","secretKey":"`+sk+`"}],"actions":["Admin"]}]}`), 0644), "config")
	opts := cluster.Options{Volumes: 1, S3: true, S3Config: cfg, MaxMB: 1}
	if o.Mode == "inline" {
		opts.SaveToFilerLimit = 2048
	}
	c, err = cluster.New(opts)
	must(err, "cluster")
	defer c.Close()
	defer os.RemoveAll(base)
	for i := 0; i < 100; i++ {
		if r := do("PUT", "/warmup", nil, nil, nil); r.status == 200 {
			if r = do("PUT", "/warmup/x", nil, []byte("x"), nil); r.status == 200 {
				break
			}
		}
		time.Sleep(50 * time.Millisecond)
	}
	do("DELETE", "/warmup", nil, nil, nil)
	for _, ex := range execs {
		runExec(w, ex)
	}
}
