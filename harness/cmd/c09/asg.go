// c09 --mode asg: the filer clause of C09 on the real code path
//
//	entry TTL in seconds -> operation.StorageOption.ToAssignRequests -> operation.Assign -> master -> volume
//
// Events (inputs from the script; everything after "|" is recorded):
//
//	toreq  {sec,count,coll,repl,disk,dc,rack,growth | pri,alt}      both requests, every field, nil as present=false;
//	       the ttl string also as ttlok (needle.ReadTTL accepts it) and minutes (TTL.Minutes)
//	assign {sec,dc,rack,reqs,ans | reqs,ans,seen,res}                operation.Assign against an in-process master stub
//	       (master_pb.SeaweedServer with only Assign) that answers the k-th arriving request with ans[k]
//	       (kind rpcerr = the call fails / zero = count 0 with an error text / ok = count and fid) and records
//	       what arrived; sec >= 0: the requests are those ToAssignRequests builds for that entry TTL
//	       (dc/rack decide whether there is an alternate), sec < 0: the requests of the script (nil = present false)
//	e2e    {via,sec,ttl,dc,rack | esec,reqok,reqmin,res,vid,vol}                  against the mini-cluster kit (stand-in master that
//	       grows a volume of the requested ttl through the real AllocateVolume RPC, real volume server, real filer):
//	       via direct = ToAssignRequests + operation.Assign by the driver; via grpc = the filer's AssignVolume RPC
//	       with TtlSec = sec; via post = a file POSTed to the filer with ?ttl=<ttl> (esec = the stored entry's
//	       TtlSec, reqmin = the minutes <ttl> asks for, file id = its first chunk). vol = the TTL of the volume of the returned file id as the volume
//	       server's /status reports it.
//
// The driver only executes and records.
package main

import (
	"bytes"
	"context"
	"encoding/json"
	"errors"
	"fmt"
	"io/ioutil"
	"net/http"
	"strconv"
	"sync"
	"time"

	"google.golang.org/grpc"

	"github.com/chrislusf/seaweedfs/weed/operation"
	"github.com/chrislusf/seaweedfs/weed/pb/filer_pb"
	"github.com/chrislusf/seaweedfs/weed/pb/master_pb"
	"github.com/chrislusf/seaweedfs/weed/storage/needle"

	"verifharness/cluster"
	"verifharness/tr"
)

func ttlFields(e tr.Ev, s string) {
	t, err := needle.ReadTTL(s)
	e["ttl"] = s
	e["ttlok"] = err == nil
	e["minutes"] = 0
	if err == nil && t != nil {
		e["minutes"] = int(t.Minutes())
	}
}

func reqRec(r *operation.VolumeAssignRequest) tr.Ev {
	e := tr.Ev{"present": r != nil, "count": 0, "repl": "", "coll": "", "disk": "", "dc": "", "rack": "", "node": "", "growth": 0}
	if r == nil {
		ttlFields(e, "")
		return e
	}
	e["count"] = int(r.Count)
	e["repl"] = r.Replication
	e["coll"] = r.Collection
	e["disk"] = r.DiskType
	e["dc"] = r.DataCenter
	e["rack"] = r.Rack
	e["node"] = r.DataNode
	e["growth"] = int(r.WritableVolumeCount)
	ttlFields(e, r.Ttl)
	return e
}

func reqFromEv(v interface{}) *operation.VolumeAssignRequest {
	m, _ := v.(map[string]interface{})
	if m == nil || !tr.B(m, "present") {
		return nil
	}
	return &operation.VolumeAssignRequest{Count: uint64(tr.I(m, "count")), Replication: tr.S(m, "repl"), Collection: tr.S(m, "coll"),
		Ttl: tr.S(m, "ttl"), DiskType: tr.S(m, "disk"), DataCenter: tr.S(m, "dc"), Rack: tr.S(m, "rack"), DataNode: tr.S(m, "node"),
		WritableVolumeCount: uint32(tr.I(m, "growth"))}
}

// stubMaster answers Assign from a script and records what arrived.
type stubMaster struct {
	master_pb.UnimplementedSeaweedServer
	mu     sync.Mutex
	script []tr.Ev
	used   []interface{}
	seen   []interface{}
}

func (m *stubMaster) arm(script []tr.Ev) {
	m.mu.Lock()
	defer m.mu.Unlock()
	m.script, m.used, m.seen = script, []interface{}{}, []interface{}{}
}

func (m *stubMaster) Assign(ctx context.Context, r *master_pb.AssignRequest) (*master_pb.AssignResponse, error) {
	m.mu.Lock()
	defer m.mu.Unlock()
	e := tr.Ev{"present": true, "count": int(r.Count), "repl": r.Replication, "coll": r.Collection, "disk": r.DiskType,
		"dc": r.DataCenter, "rack": r.Rack, "node": r.DataNode, "growth": int(r.WritableVolumeCount)}
	ttlFields(e, r.Ttl)
	m.seen = append(m.seen, e)
	a := tr.Ev{"kind": "rpcerr", "fid": "", "count": 0, "error": "no scripted answer"}
	if len(m.used) < len(m.script) {
		s := m.script[len(m.used)]
		a = tr.Ev{"kind": tr.S(s, "kind"), "fid": tr.S(s, "fid"), "count": tr.I(s, "count"), "error": tr.S(s, "error")}
	}
	m.used = append(m.used, a)
	if tr.S(a, "kind") == "rpcerr" {
		return nil, errors.New(tr.S(a, "error"))
	}
	return &master_pb.AssignResponse{Fid: tr.S(a, "fid"), Url: "127.0.0.1:1", PublicUrl: "127.0.0.1:1",
		Count: uint64(tr.I(a, "count")), Error: tr.S(a, "error")}, nil
}

func resRec(res *operation.AssignResult, err error) tr.Ev {
	e := tr.Ev{"err": err != nil, "nilres": res == nil, "fid": "", "count": 0, "error": ""}
	if res != nil {
		e["fid"] = res.Fid
		e["count"] = int(res.Count)
		e["error"] = res.Error
	}
	return e
}

func place(so *operation.StorageOption, e tr.Ev) {
	so.DataCenter = tr.S(e, "dc")
	so.Rack = tr.S(e, "rack")
}

// volTtl asks the real volume server which TTL the volume has.
func volTtl(c *cluster.Cluster, vid uint32) tr.Ev {
	v := tr.Ev{"found": false, "ttl": "", "minutes": 0, "coll": ""}
	for _, vn := range c.Volumes {
		resp, err := http.Get("http://" + vn.Url + "/status")
		if err != nil {
			continue
		}
		b, _ := ioutil.ReadAll(resp.Body)
		resp.Body.Close()
		var st struct {
			Volumes []struct {
				Id         uint32
				Collection string
				Ttl        *needle.TTL
			}
		}
		if json.Unmarshal(b, &st) != nil {
			continue
		}
		for _, x := range st.Volumes {
			if x.Id == vid {
				v["found"] = true
				v["coll"] = x.Collection
				if x.Ttl != nil {
					v["ttl"] = x.Ttl.String()
					v["minutes"] = int(x.Ttl.Minutes())
				}
				return v
			}
		}
	}
	return v
}

func runAsg(o *tr.Opts, w *tr.Writer) {
	stub := &stubMaster{}
	sp := cluster.FreePort()
	cluster.ServeGrpc(sp+10000, func(s *grpc.Server) { master_pb.RegisterSeaweedServer(s, stub) })
	stubAddr := "127.0.0.1:" + strconv.Itoa(sp)
	var c *cluster.Cluster
	defer func() {
		if c != nil {
			c.Close()
		}
	}()
	seq := 0
	for _, ex := range tr.ReadScript(o.Script) {
		w.Emit(ex[0])
		for _, e := range ex[1:] {
			e = tr.Copy(e)
			ev := tr.S(e, "ev")
			timedOut := false
			pan := ""
			switch ev {
			case "toreq":
				pan = tr.Guard(func() {
					so := &operation.StorageOption{TtlSeconds: int32(tr.I(e, "sec")), Replication: tr.S(e, "repl"), Collection: tr.S(e, "coll"),
						DiskType: tr.S(e, "disk"), VolumeGrowthCount: uint32(tr.I(e, "growth"))}
					place(so, e)
					pri, alt := so.ToAssignRequests(tr.I(e, "count"))
					e["pri"] = reqRec(pri)
					e["alt"] = reqRec(alt)
				})
			case "sec2ttl":
				pan = tr.Guard(func() {
					so := &operation.StorageOption{TtlSeconds: int32(tr.I(e, "sec"))}
					x := tr.Ev{}
					ttlFields(x, so.TtlString())
					e["ttl"] = x["ttl"]
					e["minutes"] = x["minutes"]
				})
			case "assign":
				var ans []tr.Ev
				for _, a := range tr.List(e["ans"]) {
					if m, ok := a.(map[string]interface{}); ok {
						ans = append(ans, m)
					}
				}
				var reqs []*operation.VolumeAssignRequest
				pan, timedOut = tr.GuardT(20*time.Second, func() {
					if tr.I(e, "sec") >= 0 {
						seq++
						so := &operation.StorageOption{TtlSeconds: int32(tr.I(e, "sec")), Collection: fmt.Sprintf("a%d", seq)}
						place(so, e)
						pri, alt := so.ToAssignRequests(1)
						reqs = []*operation.VolumeAssignRequest{pri, alt}
					} else {
						for _, r := range tr.List(e["reqs"]) {
							reqs = append(reqs, reqFromEv(r))
						}
					}
					recs := []interface{}{}
					for _, r := range reqs {
						recs = append(recs, reqRec(r))
					}
					e["reqs"] = recs
					stub.arm(ans)
					var res *operation.AssignResult
					var err error
					if len(reqs) == 0 {
						res, err = operation.Assign(func() string { return stubAddr }, grpc.WithInsecure(), nil)
					} else {
						res, err = operation.Assign(func() string { return stubAddr }, grpc.WithInsecure(), reqs[0], reqs[1:]...)
					}
					e["res"] = resRec(res, err)
				})
				stub.mu.Lock()
				// the answers actually given, padded with the unused ones of the script
				used := append([]interface{}{}, stub.used...)
				for i := len(used); i < len(ans); i++ {
					used = append(used, tr.Ev{"kind": tr.S(ans[i], "kind"), "fid": tr.S(ans[i], "fid"), "count": tr.I(ans[i], "count"), "error": tr.S(ans[i], "error")})
				}
				e["ans"] = used
				e["seen"] = append([]interface{}{}, stub.seen...)
				stub.mu.Unlock()
			case "e2e":
				if c == nil {
					var err error
					c, err = cluster.New(cluster.Options{Volumes: 1, Filer: true})
					if err != nil {
						tr.Fatal("cluster: %v", err)
					}
				}
				seq++
				coll := fmt.Sprintf("e%d", seq)
				e["esec"] = tr.I(e, "sec")
				// what the ?ttl= of a post asks for, in minutes
				rq := tr.Ev{}
				ttlFields(rq, tr.S(e, "ttl"))
				e["reqok"] = rq["ttlok"]
				e["reqmin"] = rq["minutes"]
				e["vid"] = 0
				e["vol"] = tr.Ev{"found": false, "ttl": "", "minutes": 0, "coll": ""}
				e["res"] = resRec(nil, errors.New("not run"))
				pan, timedOut = tr.GuardT(30*time.Second, func() {
					fid := ""
					switch tr.S(e, "via") {
					case "direct":
						so := &operation.StorageOption{TtlSeconds: int32(tr.I(e, "sec")), Collection: coll}
						place(so, e)
						pri, alt := so.ToAssignRequests(1)
						res, err := operation.Assign(func() string { return c.MasterAddr }, grpc.WithInsecure(), pri, alt)
						e["res"] = resRec(res, err)
						if err == nil && res != nil {
							fid = res.Fid
						}
					case "grpc":
						var resp *filer_pb.AssignVolumeResponse
						err := c.FilerClient(func(cl filer_pb.SeaweedFilerClient) error {
							var err error
							resp, err = cl.AssignVolume(context.Background(), &filer_pb.AssignVolumeRequest{Count: 1, Collection: coll,
								TtlSec: int32(tr.I(e, "sec")), DataCenter: tr.S(e, "dc"), Rack: tr.S(e, "rack"), Path: "/c09/" + coll + "/f"})
							return err
						})
						r := tr.Ev{"err": err != nil, "nilres": resp == nil, "fid": "", "count": 0, "error": ""}
						if resp != nil {
							r["err"] = err != nil || resp.Error != ""
							r["fid"] = resp.FileId
							r["count"] = int(resp.Count)
							r["error"] = resp.Error
							if err == nil && resp.Error == "" {
								fid = resp.FileId
							}
						}
						e["res"] = r
					case "post":
						path := "/c09/" + coll + "/f.bin"
						u := "http://" + c.FilerAddr + path + "?collection=" + coll + "&ttl=" + tr.S(e, "ttl")
						if dc := tr.S(e, "dc"); dc != "" {
							u += "&dataCenter=" + dc
						}
						if rk := tr.S(e, "rack"); rk != "" {
							u += "&rack=" + rk
						}
						req, _ := http.NewRequest("PUT", u, bytes.NewReader([]byte("c09 end to end "+coll)))
						resp, err := http.DefaultClient.Do(req)
						r := tr.Ev{"err": true, "nilres": false, "fid": "", "count": 0, "error": ""}
						if err == nil {
							ioutil.ReadAll(resp.Body)
							resp.Body.Close()
							r["error"] = strconv.Itoa(resp.StatusCode)
							if resp.StatusCode < 300 {
								c.FilerClient(func(cl filer_pb.SeaweedFilerClient) error {
									lr, err := cl.LookupDirectoryEntry(context.Background(), &filer_pb.LookupDirectoryEntryRequest{Directory: "/c09/" + coll, Name: "f.bin"})
									if err != nil || lr.Entry == nil || lr.Entry.Attributes == nil {
										return err
									}
									e["esec"] = int(lr.Entry.Attributes.TtlSec)
									if len(lr.Entry.Chunks) > 0 {
										fid = lr.Entry.Chunks[0].GetFileIdString()
										r["err"] = false
										r["fid"] = fid
										r["count"] = len(lr.Entry.Chunks)
									}
									return nil
								})
							}
						}
						e["res"] = r
					default:
						tr.Fatal("unknown via %s", tr.S(e, "via"))
					}
					if fid != "" {
						if f, err := needle.ParseFileIdFromString(fid); err == nil {
							e["vid"] = int(f.VolumeId)
							e["vol"] = volTtl(c, uint32(f.VolumeId))
						}
					}
				})
			default:
				tr.Fatal("unknown op %s", ev)
			}
			if timedOut {
				w.Emit(tr.Ev{"ev": "timeout", "op": e})
				return
			}
			if pan != "" {
				w.Emit(tr.Ev{"ev": "panic", "op": e, "msg": pan})
				break
			}
			w.Emit(e)
		}
	}
}
