// c09: TTL over (logical) time on a real storage.Store. Ops: write{k,d,bt,ts}
// read{k} age{min} compact{algo} commit hb, reset{vttl}. "age" closes the store, shifts
// every needle's AppendAtNs and LastModified and the data file's mtime back by the given
// minutes (rewriting the data file with the real needle reader/writer) and reopens it:
// for the code this is indistinguishable from the clock having advanced. After every op
// every key is read. Mode "sec2ttl": enumerates operation.StorageOption.TtlString() (kept for replaying
// old traces; the check now runs mode "asg", see asg.go: ToAssignRequests / Assign / end to end).
package main

import (
	"bytes"
	"fmt"
	"io/ioutil"
	"os"
	"path/filepath"
	"time"

	"github.com/chrislusf/seaweedfs/weed/operation"
	"github.com/chrislusf/seaweedfs/weed/storage"
	"github.com/chrislusf/seaweedfs/weed/storage/backend"
	"github.com/chrislusf/seaweedfs/weed/storage/needle"
	"github.com/chrislusf/seaweedfs/weed/storage/super_block"
	"github.com/chrislusf/seaweedfs/weed/storage/types"
	"github.com/chrislusf/seaweedfs/weed/util"

	"verifharness/tr"
)

var datas = map[string][]byte{"a": []byte("AAAA-data-a"), "b": []byte("bbbbbbbbbbbbbbbbbbbbbbbb-data-b")}

const oldDeltaMin = 10000

func dataToken(b []byte) string {
	for t, v := range datas {
		if bytes.Equal(v, b) {
			return t
		}
	}
	return "?"
}

func newStore(dir string) *storage.Store {
	s := storage.NewStore(nil, 0, "127.0.0.1", "127.0.0.1:0", []string{dir}, []int{8}, []util.MinFreeSpace{{}}, "",
		storage.NeedleMapInMemory, []types.DiskType{types.HardDriveType})
	s.SetVolumeSizeLimit(1 << 30)
	return s
}

// shift rewrites the data file with every needle's timestamps moved back by d.
func shift(datName string, d time.Duration) error {
	src, err := os.Open(datName)
	if err != nil {
		return err
	}
	sb := backend.NewDiskFile(src)
	superBlock, err := super_block.ReadSuperBlock(sb)
	if err != nil {
		sb.Close()
		return err
	}
	st, _ := os.Stat(datName)
	tmp := datName + ".aged"
	dstF, err := os.Create(tmp)
	if err != nil {
		return err
	}
	db := backend.NewDiskFile(dstF)
	db.WriteAt(superBlock.Bytes(), 0)
	version := superBlock.Version
	offset := int64(superBlock.BlockSize())
	for {
		n, _, bodyLen, err := needle.ReadNeedleHeader(sb, version, offset)
		if err != nil || n == nil {
			break
		}
		if _, err = n.ReadNeedleBody(sb, version, offset+types.NeedleHeaderSize, bodyLen); err != nil {
			break
		}
		if n.HasLastModifiedDate() && n.LastModified > uint64(d/time.Second) {
			n.LastModified -= uint64(d / time.Second)
		}
		if n.AppendAtNs > uint64(d) {
			n.AppendAtNs -= uint64(d)
		}
		if _, _, _, err := n.Append(db, version); err != nil {
			return err
		}
		offset += types.NeedleHeaderSize + bodyLen
	}
	sb.Close()
	nst, _ := dstF.Stat()
	db.Close()
	if nst.Size() != st.Size() {
		return fmt.Errorf("aged file has %d bytes, original %d", nst.Size(), st.Size())
	}
	if err := os.Rename(tmp, datName); err != nil {
		return err
	}
	mt := st.ModTime().Add(-d)
	return os.Chtimes(datName, mt, mt)
}

func main() {
	o := tr.ParseFlags()
	w := tr.NewWriter(o.Out)
	defer w.Close()
	if o.Mode == "asg" {
		runAsg(o, w)
		return
	}
	if o.Mode == "sec2ttl" {
		w.Emit(tr.Ev{"ev": "reset", "vttl": ""})
		emit := func(sec int32) {
			so := &operation.StorageOption{TtlSeconds: sec}
			s := so.TtlString()
			t, err := needle.ReadTTL(s)
			min := 0
			if err == nil && t != nil {
				min = int(t.Minutes())
			}
			w.Emit(tr.Ev{"ev": "sec2ttl", "sec": int(sec), "ttl": s, "minutes": min})
		}
		for s := int32(0); s <= 7300; s++ {
			emit(s)
		}
		for _, u := range []int32{3600, 86400, 7 * 86400, 30 * 86400, 365 * 86400} {
			for _, c := range []int32{1, 2, 3, 254, 255, 256, 257} {
				for _, d := range []int32{-1, 0, 1, 59, 61} {
					if v := int64(u)*int64(c) + int64(d); v > 0 && v < 2000000000 {
						emit(int32(v))
					}
				}
			}
		}
		return
	}
	shm := ""
	if st, err := os.Stat("/dev/shm"); err == nil && st.IsDir() {
		shm = "/dev/shm"
	}
	base, _ := ioutil.TempDir(shm, "c09")
	defer os.RemoveAll(base)
	vid := needle.VolumeId(9)
	for xi, ex := range tr.ReadScript(o.Script) {
		dir := filepath.Join(base, fmt.Sprintf("x%d", xi))
		os.MkdirAll(dir, 0755)
		s := newStore(dir)
		vttl := tr.S(ex[0], "vttl")
		if err := s.AddVolume(vid, "", storage.NeedleMapInMemory, "000", vttl, 0, 0, types.HardDriveType); err != nil {
			tr.Fatal("add volume: %v", err)
		}
		w.Emit(ex[0])
		keys := tr.Ints(ex[0]["keys"])
		gone := false
		for _, e := range ex[1:] {
			ev := tr.S(e, "ev")
			if ev == "read" {
				continue
			}
			e = tr.Copy(e)
			e["res"] = "ok"
			pan := tr.Guard(func() {
				switch ev {
				case "write":
					n := new(needle.Needle)
					n.Id = types.NeedleId(tr.I(e, "k"))
					n.Cookie = 0x11111111
					n.Data = append([]byte{}, datas[tr.S(e, "d")]...)
					n.Checksum = needle.NewCRC(n.Data)
					n.LastModified = uint64(time.Now().Unix())
					if tr.S(e, "ts") == "old" {
						n.LastModified -= oldDeltaMin * 60
					}
					n.SetHasLastModifiedDate()
					if bt := tr.S(e, "bt"); bt != "" {
						t, _ := needle.ReadTTL(bt)
						n.Ttl = t
						n.SetHasTtl()
					} else {
						n.Ttl = needle.EMPTY_TTL
					}
					unch, err := s.WriteVolumeNeedle(vid, n, false)
					e["unch"] = unch
					if err != nil {
						e["res"] = "err"
					}
				case "age":
					v := s.GetVolume(vid)
					if v == nil {
						e["res"] = "err"
						return
					}
					datName := v.FileName(".dat")
					s.Close()
					if err := shift(datName, time.Duration(tr.I(e, "min"))*time.Minute); err != nil {
						tr.Fatal("age: %v", err)
					}
					s = newStore(dir)
				case "compact":
					v := s.GetVolume(vid)
					var err error
					if v == nil {
						err = fmt.Errorf("no volume")
					} else if tr.I(e, "algo") == 1 {
						err = v.Compact(0, 0)
					} else {
						err = v.Compact2(0, 0)
					}
					if err != nil {
						e["res"] = "err"
					}
				case "commit":
					v := s.GetVolume(vid)
					if v == nil || v.CommitCompact() != nil {
						e["res"] = "err"
					}
				case "hb":
					s.CollectHeartbeat()
					if s.HasVolume(vid) {
						e["res"] = "kept"
					} else {
						e["res"] = "deleted"
						gone = true
					}
				default:
					tr.Fatal("unknown op %s", ev)
				}
			})
			if pan != "" {
				w.Emit(tr.Ev{"ev": "panic", "op": e, "msg": pan})
				break
			}
			w.Emit(e)
			for _, k := range keys {
				r := tr.Ev{"ev": "read", "k": k, "st": "notfound", "d": ""}
				if !gone {
					n := new(needle.Needle)
					n.Id = types.NeedleId(k)
					if _, err := s.ReadVolumeNeedle(vid, n, nil); err == nil {
						r["st"] = "data"
						r["d"] = dataToken(n.Data)
					} else if err != storage.ErrorNotFound && err != storage.ErrorDeleted {
						r["st"] = "err"
					}
				}
				w.Emit(r)
			}
		}
		s.Close()
		os.RemoveAll(dir)
	}
}
