// c11: feeds heartbeat histories to a real topology.Topology through the same
// calls that weed/server/master_grpc_server.go SendHeartbeat makes (default mode), or
// (--mode master, or "via": "master" in the reset line) to a REAL weed_server.MasterServer: every heartbeat goes through an
// in-memory stream served by MasterServer.SendHeartbeat, lookups through
// MasterServer.LookupVolume, picks also through MasterServer.Assign, and what a
// KeepConnected client is told is recorded in the snapshot (fields bc, bc2). After
// every step records what the master reports: ToTopologyInfo() at every level,
// the usage counters and AvailableSpaceFor of every node of the tree, Lookup of
// every known volume id and the writable lists of the volume layouts.
// Serves C11 (writables / lookups) and C12 (capacity accounting). No verdicts
// here: the trace is judged by spec/MasterViewTrace.tla.
package main

import (
	"context"
	"flag"
	"fmt"
	"os"
	"sort"
	"strings"
	"time"

	"github.com/chrislusf/seaweedfs/weed/pb/master_pb"
	"github.com/chrislusf/seaweedfs/weed/sequence"
	"github.com/chrislusf/seaweedfs/weed/storage/erasure_coding"
	"github.com/chrislusf/seaweedfs/weed/storage/needle"
	"github.com/chrislusf/seaweedfs/weed/storage/super_block"
	"github.com/chrislusf/seaweedfs/weed/storage/types"
	"github.com/chrislusf/seaweedfs/weed/topology"

	"verifharness/cluster"
	"verifharness/tr"
)

const port = 8080

type volStatic struct {
	id   uint32
	rp   *super_block.ReplicaPlacement
	col  string
	disk string
	ttl  uint32
}

type ecStatic struct {
	id   uint32
	col  string
	disk string
}

type nodeStatic struct {
	dc, rack string
}

type world struct {
	topo  *topology.Topology
	limit uint64
	nodes map[string]nodeStatic
	vols  map[uint32]volStatic
	ecs   map[uint32]ecStatic
	dts   []string
	sess  map[string]*topology.DataNode // open heartbeat streams: node name -> dn
	zomb  map[string]*topology.DataNode // streams the server has abandoned but the master still holds
	vids  []uint32                      // every id that is looked up after each step
	pickDcs []string                    // data center wishes tried with PickForWrite after each step ("" = none)

	// --mode master: the topology above is the one of a real master server
	rm     *cluster.RealMaster
	hs     map[string]*cluster.HBStream // open heartbeat streams
	hz     map[string]*cluster.HBStream // abandoned streams the master still serves
	ips    map[string]string            // node name -> ip the node reports
	byIP   map[string]string            // and back
	cl     *cluster.ClientStream        // a KeepConnected client connected before the first heartbeat
	cl2    *cluster.ClientStream        // a second one that connects in the middle of the execution
	cl2At  int                          // ... after this many steps
	nsteps int
	fail   string // an observation that ends the execution: "timeout: ..." | "returned: ..."
}

func rec(v interface{}) tr.Ev {
	m, _ := v.(map[string]interface{})
	return m
}

func newWorld(r tr.Ev, master bool, nops int) *world {
	w := &world{nodes: map[string]nodeStatic{}, vols: map[uint32]volStatic{}, ecs: map[uint32]ecStatic{},
		sess: map[string]*topology.DataNode{}, zomb: map[string]*topology.DataNode{}}
	if master {
		// the size limit of a master is a whole number of MB: sizes are expressed relative to it
		w.rm = cluster.NewRealMaster(cluster.RealMasterOptions{VolumeSizeLimitMB: 1, ReplicationAsMin: tr.B(r, "min")})
		w.topo = w.rm.MS.Topo
		w.limit = w.rm.Limit
		w.hs, w.hz = map[string]*cluster.HBStream{}, map[string]*cluster.HBStream{}
		w.ips, w.byIP = map[string]string{}, map[string]string{}
		w.cl2At = nops / 2
		var ok bool
		if w.cl, ok = w.rm.OpenClient("client", "127.0.0.9", 0); !ok {
			w.fail = "timeout: KeepConnected did not register the client"
		}
	} else {
		w.limit = uint64(tr.I(r, "limit"))
		w.topo = topology.NewTopology("topo", sequence.NewMemorySequencer(), w.limit, 5, tr.B(r, "min"))
	}
	for i, x := range tr.List(r["nodes"]) {
		n := rec(x)
		w.nodes[tr.S(n, "id")] = nodeStatic{tr.S(n, "dc"), tr.S(n, "rack")}
		if master {
			// loopback addresses nobody listens on: if the master ever dials a volume server it fails at once
			ip := fmt.Sprintf("127.0.1.%d", i+1)
			w.ips[tr.S(n, "id")] = ip
			w.byIP[ip] = tr.S(n, "id")
		}
	}
	seen := map[uint32]bool{}
	for _, x := range tr.List(r["vols"]) {
		v := rec(x)
		rp, err := super_block.NewReplicaPlacementFromString(tr.S(v, "rp"))
		if err != nil {
			fatal("bad rp %v", v)
		}
		id := uint32(tr.I(v, "id"))
		w.vols[id] = volStatic{id: id, rp: rp, col: tr.S(v, "col"), disk: tr.S(v, "disk"), ttl: uint32(tr.I(v, "ttl"))}
		if !seen[id] {
			seen[id] = true
			w.vids = append(w.vids, id)
		}
	}
	for _, x := range tr.List(r["vecs"]) {
		v := rec(x)
		id := uint32(tr.I(v, "id"))
		w.ecs[id] = ecStatic{id: id, col: tr.S(v, "col"), disk: tr.S(v, "disk")}
		if !seen[id] {
			seen[id] = true
			w.vids = append(w.vids, id)
		}
	}
	sort.Slice(w.vids, func(i, j int) bool { return w.vids[i] < w.vids[j] })
	w.dts = tr.Strs(r["types"])
	w.pickDcs = tr.Strs(r["wishes"])
	return w
}

// receive is the body of MasterServer.SendHeartbeat's loop for one message of
// the stream of node `name` (the broadcast to clients and the reply are left out).
func (w *world) receive(name string, hb *master_pb.Heartbeat) {
	if w.rm != nil {
		s := w.hs[name]
		if s == nil {
			s = w.rm.OpenHeartbeat(w.ips[name], 50000)
			w.hs[name] = s
		}
		w.ended("SendHeartbeat("+name+")", s, s.Push(hb), false)
		return
	}
	t := w.topo
	t.Sequence.SetMax(hb.MaxFileKey)
	dn := w.sess[name]
	if dn == nil {
		dcName, rackName := t.Configuration.Locate(hb.Ip, hb.DataCenter, hb.Rack)
		dc := t.GetOrCreateDataCenter(dcName)
		rack := dc.GetOrCreateRack(rackName)
		dn = rack.GetOrCreateDataNode(hb.Ip, int(hb.Port), hb.PublicUrl, hb.MaxVolumeCounts)
		w.sess[name] = dn
	}
	dn.AdjustMaxVolumeCounts(hb.MaxVolumeCounts)
	if len(hb.NewVolumes) > 0 || len(hb.DeletedVolumes) > 0 {
		t.IncrementalSyncDataNodeRegistration(hb.NewVolumes, hb.DeletedVolumes, dn)
	}
	if len(hb.Volumes) > 0 || hb.HasNoVolumes {
		t.SyncDataNodeRegistration(hb.Volumes, dn)
	}
	if len(hb.NewEcShards) > 0 || len(hb.DeletedEcShards) > 0 {
		t.IncrementalSyncDataNodeEcShards(hb.NewEcShards, hb.DeletedEcShards, dn)
	}
	if len(hb.EcShards) > 0 || hb.HasNoEcShards {
		t.SyncDataNodeEcShards(hb.EcShards, dn)
	}
}

// ended turns the way a push / close on a real master's stream ended into an observation
func (w *world) ended(what string, s *cluster.HBStream, res string, closing bool) {
	switch {
	case res == "ok" && !closing, res == "returned" && closing:
	case res == "panic":
		panic(s.Panic)
	case res == "timeout":
		w.fail = "timeout: " + what
	default:
		w.fail = fmt.Sprintf("returned: %s: handler returned %v", what, s.Err)
	}
}

// closeStream is the deferred part of SendHeartbeat: the stream of the node broke.
func (w *world) closeStream(name string) {
	if w.rm != nil {
		if s := w.hs[name]; s != nil {
			delete(w.hs, name)
			w.ended("close("+name+")", s, s.Close(), true)
		}
		return
	}
	if dn := w.sess[name]; dn != nil {
		w.topo.UnRegisterDataNode(dn)
		delete(w.sess, name)
	}
}

func (w *world) short(id uint32) *master_pb.VolumeShortInformationMessage {
	s, ok := w.vols[id]
	if !ok {
		fatal("unknown volume %d", id)
	}
	return &master_pb.VolumeShortInformationMessage{Id: id, Collection: s.col, ReplicaPlacement: uint32(s.rp.Byte()),
		Version: uint32(needle.CurrentVersion), Ttl: s.ttl, DiskType: s.disk}
}

func (w *world) ecMsgs(v interface{}) (res []*master_pb.VolumeEcShardInformationMessage) {
	for _, x := range tr.List(v) {
		e := rec(x)
		id := uint32(tr.I(e, "id"))
		s, ok := w.ecs[id]
		if !ok {
			fatal("unknown ec volume %d", id)
		}
		var bits erasure_coding.ShardBits
		for _, b := range tr.Ints(e["bits"]) {
			bits = bits.AddShardId(erasure_coding.ShardId(b))
		}
		res = append(res, &master_pb.VolumeEcShardInformationMessage{Id: id, Collection: s.col, EcIndexBits: uint32(bits), DiskType: s.disk})
	}
	return
}

func (w *world) step(e tr.Ev) {
	name := tr.S(e, "n")
	switch tr.S(e, "ev") {
	case "reopen": // the server dials again and sends its first full heartbeat while the master still serves the old stream
		if !w.open(name) || w.zombie(name) {
			fatal("reopen needs one open stream (%s)", name)
		}
		if w.rm != nil {
			w.hz[name] = w.hs[name]
			delete(w.hs, name)
		} else {
			w.zomb[name] = w.sess[name]
			delete(w.sess, name)
		}
		fallthrough
	case "full": // a full volume heartbeat (Store.CollectHeartbeat); opens the stream if need be
		ns, ok := w.nodes[name]
		if !ok {
			fatal("unknown node %q", name)
		}
		hb := &master_pb.Heartbeat{Ip: w.ip(name), Port: port, PublicUrl: name, DataCenter: ns.dc, Rack: ns.rack,
			MaxVolumeCounts: map[string]uint32{}, MaxFileKey: uint64(tr.I(e, "mfk"))}
		for _, x := range tr.List(e["max"]) {
			p := tr.List(x)
			dt, _ := p[0].(string)
			c, _ := p[1].(float64)
			hb.MaxVolumeCounts[dt] = uint32(c)
		}
		for _, x := range tr.List(e["vols"]) {
			v := rec(x)
			id := uint32(tr.I(v, "id"))
			s, ok := w.vols[id]
			if !ok {
				fatal("unknown volume %d", id)
			}
			m := &master_pb.VolumeInformationMessage{Id: id, Collection: s.col, ReplicaPlacement: uint32(s.rp.Byte()),
				Version: uint32(needle.CurrentVersion), Ttl: s.ttl, DiskType: s.disk, ReadOnly: tr.B(v, "ro"), Size: w.limit / 2, FileCount: 3}
			if tr.B(v, "big") {
				m.Size = w.limit + 1
			}
			if tr.B(v, "rem") {
				m.RemoteStorageName = "s3.default"
				m.RemoteStorageKey = "k"
			}
			hb.Volumes = append(hb.Volumes, m)
		}
		hb.HasNoVolumes = len(hb.Volumes) == 0
		w.receive(name, hb)
	case "inc": // delta heartbeat: new / deleted volumes in short form
		if !w.open(name) {
			fatal("inc on a closed stream (%s)", name)
		}
		hb := &master_pb.Heartbeat{}
		for _, id := range tr.Ints(e["newv"]) {
			hb.NewVolumes = append(hb.NewVolumes, w.short(uint32(id)))
		}
		for _, id := range tr.Ints(e["delv"]) {
			hb.DeletedVolumes = append(hb.DeletedVolumes, w.short(uint32(id)))
		}
		w.receive(name, hb)
	case "ecfull": // Store.CollectErasureCodingHeartbeat
		if !w.open(name) {
			fatal("ecfull on a closed stream (%s)", name)
		}
		hb := &master_pb.Heartbeat{EcShards: w.ecMsgs(e["ecs"])}
		hb.HasNoEcShards = len(hb.EcShards) == 0
		w.receive(name, hb)
	case "ecinc":
		if !w.open(name) {
			fatal("ecinc on a closed stream (%s)", name)
		}
		w.receive(name, &master_pb.Heartbeat{NewEcShards: w.ecMsgs(e["newec"]), DeletedEcShards: w.ecMsgs(e["delec"])})
	case "close":
		w.closeStream(name)
	case "zclose": // the handler of the abandoned stream returns: its deferred UnRegisterDataNode
		if !w.zombie(name) {
			fatal("zclose without an abandoned stream (%s)", name)
		}
		if w.rm != nil {
			s := w.hz[name]
			delete(w.hz, name)
			w.ended("zclose("+name+")", s, s.Close(), true)
		} else {
			w.topo.UnRegisterDataNode(w.zomb[name])
			delete(w.zomb, name)
		}
	case "collect": // what CollectDeadNodeAndFullVolumes + the chanFullVolumes consumer do for full volumes
		if w.rm != nil {
			// the master's real size check. It hands every full volume over an unbuffered channel to the consumer
			// goroutine the master started. Second round: its first hand-over is accepted only when the consumer has
			// finished the first round's last volume, and the second round itself changes nothing (idempotent).
			pan, late := tr.GuardT(cluster.StepDeadline, func() {
				for i := 0; i < 2; i++ {
					w.topo.CollectDeadNodeAndFullVolumes(time.Now().Unix()-15, w.limit, 0.9)
				}
			})
			if pan != "" {
				panic(pan)
			}
			if late {
				w.fail = "timeout: CollectDeadNodeAndFullVolumes"
			}
			break
		}
		for _, dc := range w.topo.Children() {
			for _, rack := range dc.Children() {
				for _, c := range rack.Children() {
					dn := c.(*topology.DataNode)
					for _, v := range dn.GetVolumes() {
						if v.Size >= w.limit {
							w.topo.SetVolumeCapacityFull(v)
						}
					}
				}
			}
		}
	default:
		fatal("unknown op %v", e["ev"])
	}
}

func (w *world) open(name string) bool {
	if w.rm != nil {
		return w.hs[name] != nil
	}
	return w.sess[name] != nil
}

func (w *world) zombie(name string) bool {
	if w.rm != nil {
		return w.hz[name] != nil
	}
	return w.zomb[name] != nil
}

// ip: what the node reports as its address (its name, or a loopback address in master mode)
func (w *world) ip(name string) string {
	if w.rm != nil {
		return w.ips[name]
	}
	return name
}

func clamp(v int64) int {
	const lim = 1000000
	if v > lim {
		return lim
	}
	if v < -lim {
		return -lim
	}
	return int(v)
}

// nodeName: a data node id / url (ip:port) -> the node's name in the script
func (w *world) nodeName(id string) string {
	if i := strings.LastIndex(id, ":"); i >= 0 {
		id = id[:i]
	}
	if w.rm != nil {
		if n, ok := w.byIP[id]; ok {
			return n
		}
	}
	return id
}

type lvl struct {
	k, dc, rack, n string
	node           topology.Node
	info           map[string]*master_pb.DiskInfo // aggregate DiskInfos of ToTopologyInfo at this level (nil at data nodes)
	disk           *master_pb.DiskInfo            // for k == "disk"
}

func (w *world) snap() tr.Ev {
	t := w.topo
	ti := t.ToTopologyInfo()
	tree := []interface{}{}
	vols := []interface{}{}
	ecs := []interface{}{}
	// index of the real node objects by path, for counters and AvailableSpaceFor
	obj := map[string]topology.Node{"": t}
	for _, dc := range t.Children() {
		obj[string(dc.Id())] = dc
		for _, rack := range dc.Children() {
			obj[string(dc.Id())+"/"+string(rack.Id())] = rack
			for _, dn := range rack.Children() {
				obj["@"+string(dn.Id())] = dn
				for _, d := range dn.Children() {
					obj["@"+string(dn.Id())+"|"+string(d.Id())] = d
				}
			}
		}
	}
	levels := []lvl{{k: "top", node: t, info: ti.DiskInfos}}
	sort.Slice(ti.DataCenterInfos, func(i, j int) bool { return ti.DataCenterInfos[i].Id < ti.DataCenterInfos[j].Id })
	for _, dci := range ti.DataCenterInfos {
		levels = append(levels, lvl{k: "dc", dc: dci.Id, node: obj[dci.Id], info: dci.DiskInfos})
		sort.Slice(dci.RackInfos, func(i, j int) bool { return dci.RackInfos[i].Id < dci.RackInfos[j].Id })
		for _, ri := range dci.RackInfos {
			levels = append(levels, lvl{k: "rack", dc: dci.Id, rack: ri.Id, node: obj[dci.Id+"/"+ri.Id], info: ri.DiskInfos})
			sort.Slice(ri.DataNodeInfos, func(i, j int) bool { return ri.DataNodeInfos[i].Id < ri.DataNodeInfos[j].Id })
			for _, dni := range ri.DataNodeInfos {
				nn := w.nodeName(dni.Id)
				tree = append(tree, tr.Ev{"n": nn, "dc": dci.Id, "rack": ri.Id})
				levels = append(levels, lvl{k: "node", dc: dci.Id, rack: ri.Id, n: nn, node: obj["@"+dni.Id]})
				var dks []string
				for k := range dni.DiskInfos {
					dks = append(dks, k)
				}
				sort.Strings(dks)
				for _, dk := range dks {
					di := dni.DiskInfos[dk]
					levels = append(levels, lvl{k: "disk", dc: dci.Id, rack: ri.Id, n: nn, node: obj["@"+dni.Id+"|"+dk], disk: di})
					sort.Slice(di.VolumeInfos, func(i, j int) bool { return di.VolumeInfos[i].Id < di.VolumeInfos[j].Id })
					for _, v := range di.VolumeInfos {
						vols = append(vols, tr.Ev{"n": nn, "t": dk, "id": int(v.Id), "ro": v.ReadOnly,
							"big": v.Size >= w.limit, "rem": v.RemoteStorageName != ""})
					}
					sort.Slice(di.EcShardInfos, func(i, j int) bool { return di.EcShardInfos[i].Id < di.EcShardInfos[j].Id })
					for _, s := range di.EcShardInfos {
						bits := []int{}
						for _, b := range erasure_coding.ShardBits(s.EcIndexBits).ShardIds() {
							bits = append(bits, int(b))
						}
						ecs = append(ecs, tr.Ev{"n": nn, "t": dk, "id": int(s.Id), "bits": bits})
					}
				}
			}
		}
	}
	lv := []interface{}{}
	for _, l := range levels {
		dts := w.dts
		if l.k == "disk" {
			dts = []string{l.disk.Type}
		}
		for _, dt := range dts {
			e := tr.Ev{"k": l.k, "dc": l.dc, "rack": l.rack, "n": l.n, "t": dt,
				"vc": 0, "rem": 0, "act": 0, "ec": 0, "max": 0, "avail": 0,
				"hasi": false, "ivc": 0, "imax": 0, "ifree": 0, "irem": 0}
			if l.node != nil {
				c := topology.VerifUsageCounts(l.node, dt)
				e["vc"], e["rem"], e["act"], e["ec"], e["max"] = clamp(c[0]), clamp(c[1]), clamp(c[2]), clamp(c[3]), clamp(c[4])
				e["avail"] = clamp(l.node.AvailableSpaceFor(&topology.VolumeGrowOption{DiskType: types.ToDiskType(dt)}))
			}
			var di *master_pb.DiskInfo
			if l.k == "disk" {
				di = l.disk
			} else if l.info != nil {
				di = l.info[string(types.ToDiskType(dt))]
				if di == nil && l.k != "node" {
					di = &master_pb.DiskInfo{} // no entry for this type reads as zeros
				}
			}
			if di != nil {
				e["hasi"] = true
				e["ivc"], e["imax"], e["ifree"], e["irem"] = clamp(int64(di.VolumeCount)), clamp(int64(di.MaxVolumeCount)),
					clamp(int64(di.FreeVolumeCount)), clamp(int64(di.RemoteVolumeCount))
			}
			lv = append(lv, e)
		}
	}
	look := []interface{}{}
	for _, id := range w.vids {
		if w.rm != nil {
			// the master's own answers: by volume id, and by a file id together with the volume's collection
			col := w.vols[id].col
			if _, ok := w.vols[id]; !ok {
				col = w.ecs[id].col
			}
			look = append(look, tr.Ev{"id": int(id), "ns": w.lookup(fmt.Sprint(id), "")},
				tr.Ev{"id": int(id), "ns": w.lookup(fmt.Sprintf("%d,01637037d6", id), col)})
			continue
		}
		ns := []string{}
		for _, dn := range t.Lookup("", needle.VolumeId(id)) {
			ns = append(ns, w.nodeName(string(dn.Id())))
		}
		sort.Strings(ns)
		look = append(look, tr.Ev{"id": int(id), "ns": ns})
	}
	wr := []int{}
	if m, ok := t.ToMap().(map[string]interface{}); ok {
		if ls, ok := m["Layouts"].([]interface{}); ok {
			for _, l := range ls {
				lm, _ := l.(map[string]interface{})
				ids, _ := lm["writables"].([]needle.VolumeId)
				for _, id := range ids {
					wr = append(wr, int(id))
				}
			}
		}
	}
	sort.Ints(wr)
	// PickForWrite is asked last and guarded on its own: if it panics the rest of the snapshot is still a valid observation
	picks := []interface{}{}
	pp := tr.Guard(func() { picks = w.picks() }) != ""
	if pp {
		picks = []interface{}{}
	}
	res := tr.Ev{"ev": "snap", "tree": tree, "lv": lv, "vols": vols, "ecs": ecs, "look": look, "wr": wr, "picks": picks, "pp": pp}
	if w.rm != nil {
		res["bc"], res["bc2on"], res["bc2"] = w.broadcasts()
	}
	return res
}

// lookup asks the real master (LookupVolume) and maps the urls back to node names
func (w *world) lookup(vid, collection string) []string {
	ns := []string{}
	resp, err := w.rm.MS.LookupVolume(context.Background(), &master_pb.LookupVolumeRequest{VolumeIds: []string{vid}, Collection: collection})
	if err != nil {
		panic("LookupVolume: " + err.Error())
	}
	for _, l := range resp.VolumeIdLocations {
		for _, loc := range l.Locations {
			ns = append(ns, w.nodeName(loc.Url))
		}
	}
	sort.Strings(ns)
	return ns
}

func (w *world) msgs(c *cluster.ClientStream) []interface{} {
	res := []interface{}{}
	for _, m := range c.Take() {
		nv, dv := []int{}, []int{}
		for _, v := range m.NewVids {
			nv = append(nv, int(v))
		}
		for _, v := range m.DeletedVids {
			dv = append(dv, int(v))
		}
		res = append(res, tr.Ev{"n": w.nodeName(m.Url), "pub": m.PublicUrl, "dc": m.DataCenter, "leader": m.Leader, "newv": nv, "delv": dv})
	}
	return res
}

// broadcasts: what the KeepConnected clients were sent since the previous snapshot, in order. The second
// client connects after half of the steps; its first batch is the master's full list of locations.
func (w *world) broadcasts() (bc []interface{}, on bool, bc2 []interface{}) {
	w.nsteps++
	if w.cl2 == nil && w.nsteps > w.cl2At {
		var ok bool
		if w.cl2, ok = w.rm.OpenClient("late", "127.0.0.8", 18888); !ok {
			w.fail = "timeout: KeepConnected did not register the second client"
		}
	} else if !w.rm.Sync() {
		w.fail = "timeout: a KeepConnected client did not receive what was queued for it"
	}
	bc2 = []interface{}{}
	if w.cl2 != nil {
		on, bc2 = true, w.msgs(w.cl2)
	}
	return w.msgs(w.cl), on, bc2
}

// picks asks the master for a volume to write to (Topology.PickForWrite), once per volume class of the
// configuration (collection, replication, ttl, disk type) without and with a data center wish.
func (w *world) picks() []interface{} {
	res := []interface{}{}
	type class struct {
		col, rp, disk string
		ttl           uint32
	}
	seen := map[class]bool{}
	var ids []uint32
	for id := range w.vols {
		ids = append(ids, id)
	}
	sort.Slice(ids, func(i, j int) bool { return ids[i] < ids[j] })
	for _, id := range ids {
		v := w.vols[id]
		c := class{v.col, v.rp.String(), v.disk, v.ttl}
		if seen[c] {
			continue
		}
		seen[c] = true
		for _, dc := range w.pickDcs {
			opt := &topology.VolumeGrowOption{Collection: v.col, ReplicaPlacement: v.rp, Ttl: needle.LoadTTLFromUint32(v.ttl),
				DiskType: types.ToDiskType(v.disk), DataCenter: dc}
			fid, _, dn, err := w.topo.PickForWrite(1, opt)
			e := tr.Ev{"cls": int(id), "dc": dc, "err": err != nil, "vid": 0, "node": ""}
			if err == nil {
				f, perr := needle.ParseFileIdFromString(fid)
				if perr != nil {
					fatal("PickForWrite returned an unparsable file id %q", fid)
				}
				e["vid"] = int(f.VolumeId)
				e["node"] = w.nodeName(string(dn.Id()))
			}
			res = append(res, e)
			if err == nil && w.rm != nil {
				res = append(res, w.assign(int(id), v, dc))
			}
		}
	}
	return res
}

// assign: the same request through the real master's Assign (only asked when a direct pick just succeeded:
// Assign polls for 10 s when nothing is writable)
func (w *world) assign(cls int, v volStatic, dc string) tr.Ev {
	e := tr.Ev{"cls": cls, "dc": dc, "err": true, "vid": 0, "node": ""}
	var resp *master_pb.AssignResponse
	var err error
	pan, late := tr.GuardT(15*time.Second, func() {
		resp, err = w.rm.MS.Assign(context.Background(), &master_pb.AssignRequest{Count: 1, Replication: v.rp.String(),
			Collection: v.col, Ttl: needle.LoadTTLFromUint32(v.ttl).String(), DataCenter: dc, DiskType: v.disk})
	})
	if pan != "" {
		panic(pan)
	}
	if late {
		w.fail = "timeout: Assign"
		return e
	}
	if err != nil || resp.Error != "" {
		return e
	}
	f, perr := needle.ParseFileIdFromString(resp.Fid)
	if perr != nil {
		fatal("Assign returned an unparsable file id %q", resp.Fid)
	}
	e["err"], e["vid"], e["node"] = false, int(f.VolumeId), w.nodeName(resp.Url)
	return e
}

var realStderr = os.Stderr

func fatal(f string, a ...interface{}) {
	fmt.Fprintf(realStderr, "driver: "+f+"\n", a...)
	os.Exit(3)
}

func main() {
	o := tr.ParseFlags()
	out := tr.NewWriter(o.Out)
	defer out.Close()
	script := tr.ReadScript(o.Script)
	// the topology package logs every registration through glog: keep it out of files and of our stderr
	flag.Set("logtostderr", "true")
	if dn, err := os.OpenFile(os.DevNull, os.O_WRONLY, 0); err == nil {
		os.Stderr = dn
	}
	for _, ex := range script {
		var w *world
		w = newWorld(ex[0], o.Mode == "master" || tr.S(ex[0], "via") == "master", len(ex)-1)
		out.Emit(ex[0])
		for _, e := range ex[1:] {
			if w.fail != "" {
				break
			}
			k := tr.S(e, "ev")
			if k == "snap" || k == "panic" {
				continue
			}
			if pan := tr.Guard(func() { w.step(e) }); pan != "" {
				out.Emit(tr.Ev{"ev": "panic", "op": e, "msg": pan})
				break
			}
			if w.fail != "" {
				break
			}
			out.Emit(e)
			var s tr.Ev
			if pan := tr.Guard(func() { s = w.snap() }); pan != "" {
				out.Emit(tr.Ev{"ev": "panic", "op": tr.Ev{"ev": "snap"}, "msg": pan})
				break
			}
			out.Emit(s)
		}
		if w.fail != "" {
			// a handler that did not answer or gave up: an observation no specification admits
			out.Emit(tr.Ev{"ev": strings.SplitN(w.fail, ":", 2)[0], "msg": w.fail})
		}
		if w.rm != nil {
			w.rm.Close()
		}
	}
}
