// c37: incremental volume backup converges to the source. A real volume server holds the
// source volume (ops over HTTP: write, delete; vacuum compact+commit over gRPC); "backup"
// runs the real `weed backup` procedure (command.runBackup through the VerifRunBackup hook:
// lookup, sync status, local Compact2+commit when the source was compacted, destroy-and-
// recreate when longer than the source, IncrementalBackup over the VolumeIncrementalCopy
// RPC). After every backup every key is read on the source (HTTP) and on the backup (a real
// Store opened on the backup directory).
package main

import (
	"bytes"
	"context"
	"fmt"
	"io/ioutil"
	"mime/multipart"
	"net/http"
	"os"
	"path/filepath"
	"time"

	"github.com/chrislusf/seaweedfs/weed/command"
	"github.com/chrislusf/seaweedfs/weed/pb/volume_server_pb"
	"github.com/chrislusf/seaweedfs/weed/storage"
	"github.com/chrislusf/seaweedfs/weed/storage/needle"
	"github.com/chrislusf/seaweedfs/weed/storage/types"
	"github.com/chrislusf/seaweedfs/weed/util"

	"verifharness/cluster"
	"verifharness/tr"
)

var datas = map[string][]byte{
	"a": []byte("AAAA-data-a"),
	"b": []byte("bbbbbbbbbbbbbbbbbbbbbbbb-data-b"),
	"L": bytes.Repeat([]byte("0123456789abcdef"), 40),
	"c": []byte("CCCC-data-c"), // same length as a
}

const cookie = 0x11111111

func dataToken(b []byte) string {
	for t, v := range datas {
		if bytes.Equal(v, b) {
			return t
		}
	}
	return "?"
}

func main() {
	o := tr.ParseFlags()
	w := tr.NewWriter(o.Out)
	defer w.Close()
	c, err := cluster.New(cluster.Options{Volumes: 1})
	if err != nil {
		tr.Fatal("cluster: %v", err)
	}
	defer c.Close()
	url := c.Volumes[0].Url
	hc := &http.Client{Timeout: 30 * time.Second}
	ctx := context.Background()
	bbase, _ := ioutil.TempDir("", "c37")
	defer os.RemoveAll(bbase)
	// runBackup prints to stdout: keep the driver's stdout clean
	devnull, _ := os.OpenFile(os.DevNull, os.O_WRONLY, 0)
	os.Stdout = devnull
	for xi, ex := range tr.ReadScript(o.Script) {
		vid, err := c.NewVolume("", "000", "")
		if err != nil {
			tr.Fatal("new volume: %v", err)
		}
		bdir := filepath.Join(bbase, fmt.Sprintf("b%d", xi))
		os.MkdirAll(bdir, 0755)
		keys := tr.Ints(ex[0]["keys"])
		w.Emit(ex[0])
		fid := func(k int) string { return needle.NewFileId(needle.VolumeId(vid), uint64(k), cookie).String() }
		admin := func(f func(cl volume_server_pb.VolumeServerClient) error) string {
			if err := cluster.WithVolumeServer(url, f); err != nil {
				return "err"
			}
			return "ok"
		}
		readSrc := func(k int) tr.Ev {
			e := tr.Ev{"ev": "sread", "k": k, "st": "err", "d": ""}
			resp, err := hc.Get("http://" + url + "/" + fid(k))
			if err != nil {
				return e
			}
			body, _ := ioutil.ReadAll(resp.Body)
			resp.Body.Close()
			if resp.StatusCode == 200 {
				e["st"] = "data"
				e["d"] = dataToken(body)
			} else if resp.StatusCode == 404 {
				e["st"] = "notfound"
			}
			return e
		}
		for _, e := range ex[1:] {
			ev := tr.S(e, "ev")
			if ev == "sread" || ev == "bread" {
				continue
			}
			e = tr.Copy(e)
			e["res"] = "ok"
			pan := tr.Guard(func() {
				switch ev {
				case "write":
					var buf bytes.Buffer
					mw := multipart.NewWriter(&buf)
					pw, _ := mw.CreateFormField("file")
					pw.Write(datas[tr.S(e, "d")])
					mw.Close()
					req, _ := http.NewRequest("POST", "http://"+url+"/"+fid(tr.I(e, "k")), &buf)
					req.Header.Set("Content-Type", mw.FormDataContentType())
					resp, err := hc.Do(req)
					if err != nil {
						e["res"] = "err"
						return
					}
					ioutil.ReadAll(resp.Body)
					resp.Body.Close()
					if resp.StatusCode != 201 && resp.StatusCode != 204 {
						e["res"] = "err"
					}
				case "delete":
					req, _ := http.NewRequest("DELETE", "http://"+url+"/"+fid(tr.I(e, "k")), nil)
					resp, err := hc.Do(req)
					if err != nil {
						e["res"] = "err"
						return
					}
					ioutil.ReadAll(resp.Body)
					resp.Body.Close()
					if resp.StatusCode == 404 {
						e["res"] = "notfound"
					} else if resp.StatusCode != 202 {
						e["res"] = "err"
					}
				case "compact":
					e["res"] = admin(func(cl volume_server_pb.VolumeServerClient) error {
						if _, err := cl.VacuumVolumeCompact(ctx, &volume_server_pb.VacuumVolumeCompactRequest{VolumeId: vid}); err != nil {
							return err
						}
						_, err := cl.VacuumVolumeCommit(ctx, &volume_server_pb.VacuumVolumeCommitRequest{VolumeId: vid})
						return err
					})
				case "backup":
					command.VerifRunBackup(c.MasterAddr, bdir, int(vid))
				default:
					tr.Fatal("unknown op %s", ev)
				}
			})
			if pan != "" {
				w.Emit(tr.Ev{"ev": "panic", "op": e, "msg": pan})
				break
			}
			w.Emit(e)
			for _, k := range keys {
				w.Emit(readSrc(k))
			}
			if ev == "backup" {
				// read the backup through a real Store opened on its directory
				var bs *storage.Store
				pan := tr.Guard(func() {
					bs = storage.NewStore(nil, 0, "127.0.0.1", "127.0.0.1:0", []string{bdir}, []int{8}, []util.MinFreeSpace{{}}, "",
						storage.NeedleMapInMemory, []types.DiskType{types.HardDriveType})
				})
				for _, k := range keys {
					r := tr.Ev{"ev": "bread", "k": k, "st": "err", "d": ""}
					if pan == "" && bs != nil && bs.HasVolume(needle.VolumeId(vid)) {
						n := new(needle.Needle)
						n.Id = types.NeedleId(k)
						_, err := bs.ReadVolumeNeedle(needle.VolumeId(vid), n, nil)
						if err == nil {
							r["st"] = "data"
							r["d"] = dataToken(n.Data)
						} else if err == storage.ErrorNotFound || err == storage.ErrorDeleted {
							r["st"] = "notfound"
						}
					} else {
						r["st"] = "novolume"
					}
					w.Emit(r)
				}
				if bs != nil {
					bs.Close()
				}
			}
		}
		admin(func(cl volume_server_pb.VolumeServerClient) error {
			_, err := cl.VolumeDelete(ctx, &volume_server_pb.VolumeDeleteRequest{VolumeId: vid})
			return err
		})
		os.RemoveAll(bdir)
	}
}
