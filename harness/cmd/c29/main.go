// c29: sends S3 requests with adversarial object keys, upload ids, copy sources and
// batch-delete keys to a real (unauthenticated) S3 gateway in front of a real filer and
// records, per request: every filer call made while it was in flight (gRPC interceptors
// and HTTP wrapper on the filer), the entries outside the bucket that appeared / vanished /
// changed (diff of the whole namespace), and whether the response leaked the content of a
// sentinel outside the bucket. The driver decides nothing; S3ContainmentTrace.tla judges.
package main

import (
	"bytes"
	"io/ioutil"
	"net/http"
	"net/url"
	"strconv"
	"strings"
	"time"

	"github.com/gorilla/mux"
	"google.golang.org/grpc"

	"github.com/chrislusf/seaweedfs/weed/pb/filer_pb"
	"github.com/chrislusf/seaweedfs/weed/s3api"

	"verifharness/cluster"
	"verifharness/s3util"
	"verifharness/tr"
)

const bucket = "b1"

var (
	rec      = &s3util.Recorder{}
	c        *cluster.Cluster
	fc       filer_pb.SeaweedFilerClient
	baseline s3util.Snapshot
	dirty    = true
	dirtyAll = true
	client   = &http.Transport{MaxIdleConnsPerHost: 16}
	secrets  = [][]byte{[]byte("OUTSIDESECRET"), []byte("B2SECRET")}
)

func must(err error, what string) {
	if err != nil {
		tr.Fatal("%s: %v", what, err)
	}
}

func snap() s3util.Snapshot {
	s, err := s3util.Snap(fc, "/topics")
	must(err, "snapshot")
	return s
}

func provisionB1() {
	must(s3util.RmRecursive(fc, "/buckets", "b1"), "rm b1")
	must(s3util.PutFile(c.FilerAddr, "/buckets/b1/obj", []byte("B1OBJ")), "put")
	must(s3util.PutFile(c.FilerAddr, "/buckets/b1/a/x", []byte("B1AX")), "put")
	must(s3util.Mkdir(fc, "/buckets/b1", ".uploads", nil), "mkdir")
	must(s3util.Mkdir(fc, "/buckets/b1/.uploads", "u1", map[string][]byte{"key": []byte("mpobj")}), "mkdir")
	must(s3util.PutFile(c.FilerAddr, "/buckets/b1/.uploads/u1/0001.part", []byte("PARTDATA")), "put")
}

// full = everything; otherwise only bucket b1 is rebuilt (nothing outside it changed)
func provision(full bool) {
	if full {
		must(s3util.RmRecursive(fc, "/", "buckets"), "rm buckets")
		must(s3util.RmRecursive(fc, "/", "outside"), "rm outside")
		// whatever a previous request may have created elsewhere at the top level
		if s, err := s3util.Snap(fc, "/topics"); err == nil {
			for p := range s {
				if strings.Count(p, "/") == 1 && p != "/etc" {
					s3util.RmRecursive(fc, "/", p[1:])
				}
			}
		}
	}
	provisionB1()
	if full {
		must(s3util.PutFile(c.FilerAddr, "/buckets/b2/obj", []byte("B2SECRET")), "put")
		must(s3util.Mkdir(fc, "/buckets/b2", ".uploads", nil), "mkdir")
		must(s3util.Mkdir(fc, "/buckets/b2/.uploads", "u2", map[string][]byte{"key": []byte("mpobj2")}), "mkdir")
		must(s3util.PutFile(c.FilerAddr, "/buckets/b2/.uploads/u2/0001.part", []byte("B2SECRET")), "put")
		must(s3util.PutFile(c.FilerAddr, "/outside/secret", []byte("OUTSIDESECRET")), "put")
		must(s3util.PutFile(c.FilerAddr, "/outside/dir/f", []byte("OUTSIDESECRET")), "put")
	}
	baseline = snap()
	dirty, dirtyAll = false, false
}

// Browser-form (POST policy) uploads only work on a gateway that has identities (the handler always
// verifies the policy signature), so those requests go to a second gateway over the same filer with one
// Admin identity and carry a validly signed form. Everything else uses the unauthenticated gateway.
var formGateway string

const formAK, formSK = "AKFORM", "SKFORM0123456789abcdef"

func formAddr() string {
	if formGateway != "" {
		return formGateway
	}
	cfg := c.Base + "/form-identities.json"
	must(ioutil.WriteFile(cfg, []byte(`{"identities":[{"name":"form","credentials":[{"accessKey":"`+formAK+`","secretKey":"`+formSK+`"}],"actions":["Admin"]}]}`), 0644), "config")
	sp := cluster.FreePort()
	router := mux.NewRouter().SkipClean(true)
	_, err := s3api.NewS3ApiServer(router, &s3api.S3ApiServerOption{Filer: c.FilerAddr, Port: sp,
		FilerGrpcAddress: c.FilerGrpc, BucketsPath: "/buckets", GrpcDialOption: grpc.WithInsecure(), Config: cfg})
	must(err, "form gateway")
	cluster.ServeHttp(sp, router)
	formGateway = "127.0.0.1:" + strconv.Itoa(sp)
	for i := 0; i < 100; i++ {
		if resp, err := http.Get("http://" + formGateway + "/"); err == nil {
			resp.Body.Close()
			break
		}
		time.Sleep(20 * time.Millisecond)
	}
	return formGateway
}

func join(v interface{}) string { return strings.Join(tr.Strs(v), "/") }

func doReq(e tr.Ev) {
	route := tr.S(e, "route")
	p := s3util.P{Bucket: bucket, Key: join(e["ktok"]), Uid: join(e["utok"]), Src: join(e["stok"]), Body: []byte("DATA"),
		Prefix: join(e["ptok"]), Delim: tr.S(e, "delim")}
	for _, d := range tr.List(e["dtok"]) {
		p.DKeys = append(p.DKeys, join(d))
	}
	r, err := s3util.Build(route, p)
	must(err, "build")
	addr := c.S3Addr
	if route == "PostPolicy" {
		// a form value is not URL-decoded by the gateway: give it the text the tokens stand for
		k, uerr := url.PathUnescape(p.Key)
		if uerr != nil {
			k = p.Key
		}
		now := time.Now().UTC()
		body, ct := s3util.PostForm(bucket, k, []byte("FORMDATA"), true, formAK, formSK, now, now.Add(time.Hour), false)
		r.Body = body
		r.Header.Set("Content-Type", ct)
		addr = formAddr()
	}
	req, err := r.HTTP(addr)
	e["key"] = p.Key
	if err != nil {
		// not expressible as an HTTP request
		e["status"], e["touched"], e["outch"], e["inch"], e["leak"], e["raw"] = -1, []interface{}{}, []interface{}{}, 0, false, []string{err.Error()}
		return
	}
	if dirty {
		provision(dirtyAll)
	}
	rec.Begin()
	resp, err := client.RoundTrip(req)
	status := 0
	var body []byte
	if err == nil {
		body, _ = ioutil.ReadAll(resp.Body)
		resp.Body.Close()
		status = resp.StatusCode
	}
	ts := rec.End()
	after := snap()
	diff := s3util.Diff(baseline, after)
	if len(diff) > 0 {
		dirty = true
	}
	outch := make([]interface{}, 0)
	inch := 0
	for _, d := range diff {
		if d == "/buckets/"+bucket || strings.HasPrefix(d, "/buckets/"+bucket+"/") {
			inch++
		} else {
			outch = append(outch, s3util.Segs(d))
			dirtyAll = true
		}
	}
	touched := make([]interface{}, 0, len(ts))
	raw := make([]string, 0, len(ts))
	for _, t := range ts {
		touched = append(touched, map[string]interface{}{"via": t.Via, "m": t.M, "p": s3util.Segs(t.Eff), "st": t.St})
		raw = append(raw, t.Via+" "+t.M+" "+t.Raw)
	}
	leak := false
	for _, s := range secrets {
		if bytes.Contains(body, s) {
			leak = true
		}
	}
	e["status"], e["touched"], e["outch"], e["inch"], e["leak"], e["raw"] = status, touched, outch, inch, leak, raw
}

func main() {
	o := tr.ParseFlags()
	w := tr.NewWriter(o.Out)
	defer w.Close()
	execs := tr.ReadScript(o.Script)
	var err error
	c, err = cluster.New(cluster.Options{Volumes: 1, S3: true, FilerUnary: rec.Unary(), FilerStream: rec.Stream(),
		FilerHTTPWrap: rec.HTTPWrap})
	must(err, "cluster")
	defer c.Close()
	conn, err := grpc.Dial(c.FilerGrpc, grpc.WithInsecure())
	must(err, "dial filer")
	fc = filer_pb.NewSeaweedFilerClient(conn)
	for i := 0; i < 100; i++ {
		if s3util.PutFile(c.FilerAddr, "/warmup/x", []byte("x")) == nil {
			break
		}
		time.Sleep(50 * time.Millisecond)
	}
	s3util.RmRecursive(fc, "/", "warmup")
	for _, ex := range execs {
		w.Emit(ex[0])
		for _, e := range ex[1:] {
			if tr.S(e, "ev") != "req" {
				continue
			}
			if pan := tr.Guard(func() { doReq(e) }); pan != "" {
				w.Emit(tr.Ev{"ev": "panic", "op": e, "msg": pan})
				dirty, dirtyAll = true, true
				break
			}
			w.Emit(e)
		}
	}
}
