// c16: feeds cluster snapshots with erasure-coded volumes to the REAL dry-run
// planner of ec.balance (weed/shell) and records every planned shard move (the
// observer inside moveMountedShardToEcNode) and, at the end, the planner's own
// bookkeeping: the shard bitmaps of every EcNode and its free slot counter.
//
// reset line: {"ev":"reset","mode":"ecbalance"|"ecevacuate","servers":[..],"reps":[..],"shards":[..],
//
//	"opt":{"col":"EACH_COLLECTION"|name,"dc":"","node":"s1","skip":true}}
//
// VERIF_REPEAT=n runs every execution n times (the planner iterates over Go maps).
package main

import (
	"bytes"
	"os"
	"strconv"

	"github.com/chrislusf/seaweedfs/weed/shell"

	"verifharness/plansnap"
	"verifharness/tr"
)

func main() {
	o := tr.ParseFlags()
	w := tr.NewWriter(o.Out)
	defer w.Close()
	repeat := 1
	if s := os.Getenv("VERIF_REPEAT"); s != "" {
		if v, err := strconv.Atoi(s); err == nil && v > 0 {
			repeat = v
		}
	}
	// the planner prints its progress to os.Stdout; it is not an observation
	if devnull, err := os.OpenFile(os.DevNull, os.O_WRONLY, 0); err == nil {
		os.Stdout = devnull
	}
	for _, ex := range tr.ReadScript(o.Script) {
		for i := 0; i < repeat; i++ {
			runOne(w, ex[0])
		}
	}
}

func runOne(w *tr.Writer, reset tr.Ev) {
	topo := plansnap.Build(reset)
	w.Emit(tr.Copy(reset))
	opt, _ := reset["opt"].(map[string]interface{})
	mode := tr.S(reset, "mode")
	shell.VerifObservePlannedMoves(func(m shell.VerifPlannedMove) {
		if !m.Ec {
			w.Emit(tr.Ev{"ev": "move", "vid": int(m.Vid), "from": m.From, "to": m.To, "dt": plansnap.DiskName(m.DiskType)})
			return
		}
		w.Emit(tr.Ev{"ev": "ecmove", "vid": int(m.Vid), "shard": m.Shard, "from": m.From, "to": m.To,
			"tofree": m.ToFreeEcSlot, "tohas": m.ToHasShard, "fromhas": m.FromHasShard})
	})
	defer shell.VerifObservePlannedMoves(nil)
	var err error
	var nodes []shell.VerifEcNodeState
	var out bytes.Buffer
	pan := tr.Guard(func() {
		switch mode {
		case "ecbalance":
			nodes, err = shell.VerifPlanEcBalance(topo, tr.S(opt, "col"), plansnap.Collections(topo, true), tr.S(opt, "dc"),
				func(name string) { w.Emit(tr.Ev{"ev": "phase", "name": name}) })
		case "ecevacuate":
			err = shell.VerifPlanEvacuateEc(topo, tr.S(opt, "node"), tr.B(opt, "skip"), &out)
		default:
			tr.Fatal("unknown mode %q", mode)
		}
	})
	if pan != "" {
		w.Emit(tr.Ev{"ev": "panic", "msg": pan})
		return
	}
	msg := ""
	if err != nil {
		msg = err.Error()
		if len(msg) > 200 {
			msg = msg[:200]
		}
	}
	free := []tr.Ev{}
	for _, n := range nodes {
		free = append(free, tr.Ev{"srv": n.Id, "n": n.FreeEcSlot})
	}
	w.Emit(tr.Ev{"ev": "final", "err": msg, "shards": plansnap.EcBits(topo), "free": free})
}
