// cvol: executes volume scripts against a REAL volume server (mini-cluster kit)
// through its HTTP handlers (POST/GET/DELETE /vid,fid) and admin RPCs
// (unmount+mount = reload, vacuum compact/commit/cleanup, mark read-only), and
// records every observed result. After every operation every (key, cookie)
// pair of the execution's universe is read back.
//
// Script ops: write{k,c,d,m} delete{k,c} restart compact{algo} commit cleanup ro{on}
// reset carries {vttl, keys, cookies}. Tokens are mapped to real values here
// (inputs only); results are reported as raw fields for the TLA+ judge.
package main

import (
	"bytes"
	"compress/gzip"
	"context"
	"fmt"
	"io/ioutil"
	"mime"
	"mime/multipart"
	"net/http"
	"net/textproto"
	"os"
	"sort"
	"strings"
	"sync"
	"sync/atomic"
	"time"

	"github.com/chrislusf/seaweedfs/weed/pb/volume_server_pb"
	"github.com/chrislusf/seaweedfs/weed/storage"
	"github.com/chrislusf/seaweedfs/weed/storage/needle"
	"github.com/chrislusf/seaweedfs/weed/storage/types"

	"verifharness/cluster"
	"verifharness/tr"
)

const oldTs = 1600000000

type meta struct {
	name, mime string
	pairs      [][2]string
	ts         int64
	gz         bool
	ttl        string
}

var metas = map[string]meta{
	"m0": {},
	"m1": {name: "f1.bin", mime: "application/x-verif", pairs: [][2]string{{"Seaweed-K1", "v1"}}, ts: oldTs},
	"m2": {name: "f2.dat", mime: "text/x-verif", gz: true},
	"mt": {ts: oldTs, ttl: "1h"},
	"mu": {name: "f5.bin", ttl: "1h"},
	"m3": {name: "f3.bin", mime: "application/x-" + strings.Repeat("v", 286)}, // 300 bytes: too long to be stored
}

var datas = map[string][]byte{
	"e": {},
	"a": []byte("AAAA-data-a"),
	"b": []byte("bbbbbbbbbbbbbbbbbbbbbbbb-data-b"),
	"L": bytes.Repeat([]byte("0123456789abcdef"), 200),
	"M": bytes.Repeat([]byte("fedcba9876543210"), 200),   // same length as L
	"c": []byte("CCCC-data-c"),                           // same length as a
	"H": bytes.Repeat([]byte("HHHHhhhh01234567"), 45000), // 720000 bytes: makes a throttled compaction last
	"I": bytes.Repeat([]byte("IIIIiiii76543210"), 45000), // same length as H
}

var cookies = map[string]uint32{"c1": 0x11111111, "c2": 0x22222222, "c3": 0x33333333}

func dataToken(b []byte) string {
	for t, v := range datas {
		if bytes.Equal(v, b) {
			return t
		}
	}
	return "?"
}

var stdHeaders = map[string]bool{"Accept-Ranges": true, "Content-Length": true, "Content-Type": true, "Etag": true,
	"Last-Modified": true, "Date": true, "Content-Disposition": true, "Content-Encoding": true, "Server": true,
	"Content-Md5": true, "Transfer-Encoding": true, "Connection": true}

type runner struct {
	c    *cluster.Cluster
	url  string
	http *http.Client
}

func (r *runner) fid(vid uint32, k int, c string) string {
	return needle.NewFileId(needle.VolumeId(vid), uint64(k), cookies[c]).String()
}

func (r *runner) write(vid uint32, e tr.Ev) { r.writeOpt(vid, e, false) }

func (r *runner) writeOpt(vid uint32, e tr.Ev, fsync bool) {
	m := metas[tr.S(e, "m")]
	body := datas[tr.S(e, "d")]
	if m.gz {
		var zb bytes.Buffer
		zw := gzip.NewWriter(&zb)
		zw.Write(body)
		zw.Close()
		body = zb.Bytes()
	}
	var buf bytes.Buffer
	mw := multipart.NewWriter(&buf)
	h := make(textproto.MIMEHeader)
	cd := `form-data; name="file"`
	if m.name != "" {
		cd += fmt.Sprintf(`; filename="%s"`, m.name)
	}
	h.Set("Content-Disposition", cd)
	if m.mime != "" {
		h.Set("Content-Type", m.mime)
	}
	if m.gz {
		h.Set("Content-Encoding", "gzip")
	}
	pw, _ := mw.CreatePart(h)
	pw.Write(body)
	mw.Close()
	u := "http://" + r.url + "/" + r.fid(vid, tr.I(e, "k"), tr.S(e, "c"))
	q := []string{}
	if m.ts != 0 {
		q = append(q, fmt.Sprintf("ts=%d", m.ts))
	}
	if m.ttl != "" {
		q = append(q, "ttl="+m.ttl)
	}
	if fsync {
		q = append(q, "fsync=true")
	}
	if len(q) > 0 {
		u += "?" + strings.Join(q, "&")
	}
	req, _ := http.NewRequest("POST", u, &buf)
	req.Header.Set("Content-Type", mw.FormDataContentType())
	for _, p := range m.pairs {
		req.Header.Set(p[0], p[1])
	}
	resp, err := r.http.Do(req)
	e["unch"] = false
	if err != nil {
		e["res"] = "err"
		e["status"] = 0
		return
	}
	ioutil.ReadAll(resp.Body)
	resp.Body.Close()
	e["status"] = resp.StatusCode
	switch {
	case resp.StatusCode == 201:
		e["res"] = "ok"
	case resp.StatusCode == 204:
		e["res"] = "ok"
		e["unch"] = true
	default:
		e["res"] = "err"
	}
}

func (r *runner) del(vid uint32, e tr.Ev) {
	u := "http://" + r.url + "/" + r.fid(vid, tr.I(e, "k"), tr.S(e, "c"))
	// "via": "replicate" = the request carries type=replicate, as a delete forwarded by another copy does (any
	// client can send it); the statement's cookie clause does not depend on it
	if via, _ := e["via"].(string); via == "replicate" {
		u += "?type=replicate"
	} else {
		e["via"] = ""
	}
	req, _ := http.NewRequest("DELETE", u, nil)
	resp, err := r.http.Do(req)
	if err != nil {
		e["res"] = "err"
		e["status"] = 0
		return
	}
	ioutil.ReadAll(resp.Body)
	resp.Body.Close()
	e["status"] = resp.StatusCode
	switch {
	case resp.StatusCode == 202:
		e["res"] = "ok"
	case resp.StatusCode == 404:
		e["res"] = "notfound"
	default:
		e["res"] = "err"
	}
}

func (r *runner) read(vid uint32, k int, c string) tr.Ev {
	e := tr.Ev{"ev": "read", "k": k, "c": c, "st": "err", "d": "?", "name": "", "mime": "", "pairs": []interface{}{},
		"lm": "none", "gz": false, "status": 0}
	req, _ := http.NewRequest("GET", "http://"+r.url+"/"+r.fid(vid, k, c), nil)
	req.Header.Set("Accept-Encoding", "gzip")
	resp, err := r.http.Do(req)
	if err != nil {
		return e
	}
	body, _ := ioutil.ReadAll(resp.Body)
	resp.Body.Close()
	e["status"] = resp.StatusCode
	switch resp.StatusCode {
	case 200:
		e["st"] = "data"
	case 404:
		e["st"] = "notfound"
		return e
	default:
		return e
	}
	if resp.Header.Get("Content-Encoding") == "gzip" {
		e["gz"] = true
		if zr, err := gzip.NewReader(bytes.NewReader(body)); err == nil {
			body, _ = ioutil.ReadAll(zr)
		} else {
			body = nil
		}
	}
	e["d"] = dataToken(body)
	if cd := resp.Header.Get("Content-Disposition"); cd != "" {
		if _, params, err := mime.ParseMediaType(cd); err == nil {
			e["name"] = params["filename"]
		} else {
			e["name"] = "?" + cd
		}
	}
	e["mime"] = resp.Header.Get("Content-Type")
	if lm := resp.Header.Get("Last-Modified"); lm != "" {
		if t, err := time.Parse(http.TimeFormat, lm); err == nil && t.Unix() == oldTs {
			e["lm"] = "old"
		} else {
			e["lm"] = "other"
		}
	}
	var pairs [][]string
	for hk, hv := range resp.Header {
		if !stdHeaders[hk] {
			pairs = append(pairs, []string{hk, strings.Join(hv, ",")})
		}
	}
	sort.Slice(pairs, func(i, j int) bool { return pairs[i][0] < pairs[j][0] })
	pl := make([]interface{}, 0, len(pairs))
	for _, p := range pairs {
		pl = append(pl, []interface{}{p[0], p[1]})
	}
	e["pairs"] = pl
	return e
}

func (r *runner) admin(f func(c volume_server_pb.VolumeServerClient) error) string {
	if err := cluster.WithVolumeServer(r.url, f); err != nil {
		return "err"
	}
	return "ok"
}

func (r *runner) runExec(ex []tr.Ev) []tr.Ev {
	ctx := context.Background()
	out := []tr.Ev{ex[0]}
	vttl := tr.S(ex[0], "vttl")
	keys := tr.Ints(ex[0]["keys"])
	cks := tr.Strs(ex[0]["cookies"])
	vid, err := r.c.NewVolume("", "000", vttl)
	if err != nil {
		tr.Fatal("new volume: %v", err)
	}
	defer r.admin(func(c volume_server_pb.VolumeServerClient) error {
		_, err := c.VolumeDelete(ctx, &volume_server_pb.VolumeDeleteRequest{VolumeId: vid})
		return err
	})
	for _, e := range ex[1:] {
		ev := tr.S(e, "ev")
		if ev == "read" || ev == "panic" {
			continue
		}
		e = tr.Copy(e)
		var during []tr.Ev
		pan := tr.Guard(func() {
			switch ev {
			case "write":
				r.write(vid, e)
			case "delete":
				r.del(vid, e)
			case "restart":
				e["res"] = r.admin(func(c volume_server_pb.VolumeServerClient) error {
					if _, err := c.VolumeUnmount(ctx, &volume_server_pb.VolumeUnmountRequest{VolumeId: vid}); err != nil {
						return err
					}
					_, err := c.VolumeMount(ctx, &volume_server_pb.VolumeMountRequest{VolumeId: vid})
					return err
				})
			case "compact":
				if tr.I(e, "algo") == 1 {
					v := r.c.Volumes[0].Server.VerifStore().GetVolume(needle.VolumeId(vid))
					if v == nil {
						e["res"] = "err"
					} else if err := v.Compact(0, 0); err != nil {
						e["res"] = "err"
					} else {
						e["res"] = "ok"
					}
				} else {
					// "during": operations issued while the (throttled) compaction RPC is running
					var dwg sync.WaitGroup
					var compacting atomic.Bool
					for _, d := range tr.List(e["during"]) {
						dop := tr.Copy(d.(map[string]interface{}))
						during = append(during, dop)
						dwg.Add(1)
						go func() {
							defer dwg.Done()
							time.Sleep(time.Duration(tr.I(dop, "delay")) * time.Millisecond)
							defer func() { dop["overlap"] = compacting.Load() }()
							switch tr.S(dop, "ev") {
							case "write":
								r.write(vid, dop)
							case "delete":
								r.del(vid, dop)
							}
						}()
					}
					t0 := time.Now()
					compacting.Store(true)
					e["res"] = r.admin(func(c volume_server_pb.VolumeServerClient) error {
						_, err := c.VacuumVolumeCompact(ctx, &volume_server_pb.VacuumVolumeCompactRequest{VolumeId: vid})
						return err
					})
					compacting.Store(false)
					e["ms"] = int(time.Since(t0) / time.Millisecond)
					dwg.Wait()
					delete(e, "during")
				}
			case "commit":
				e["res"] = r.admin(func(c volume_server_pb.VolumeServerClient) error {
					_, err := c.VacuumVolumeCommit(ctx, &volume_server_pb.VacuumVolumeCommitRequest{VolumeId: vid})
					return err
				})
			case "cleanup":
				e["res"] = r.admin(func(c volume_server_pb.VolumeServerClient) error {
					_, err := c.VacuumVolumeCleanup(ctx, &volume_server_pb.VacuumVolumeCleanupRequest{VolumeId: vid})
					return err
				})
			case "ro":
				if tr.B(e, "on") {
					e["res"] = r.admin(func(c volume_server_pb.VolumeServerClient) error {
						_, err := c.VolumeMarkReadonly(ctx, &volume_server_pb.VolumeMarkReadonlyRequest{VolumeId: vid})
						return err
					})
				} else {
					e["res"] = r.admin(func(c volume_server_pb.VolumeServerClient) error {
						_, err := c.VolumeMarkWritable(ctx, &volume_server_pb.VolumeMarkWritableRequest{VolumeId: vid})
						return err
					})
				}
			default:
				tr.Fatal("unknown op %v", ev)
			}
		})
		if pan != "" {
			out = append(out, tr.Ev{"ev": "panic", "op": e, "msg": pan})
			break
		}
		out = append(out, e)
		// operations that ran while the compaction was running are recorded after it: a compaction is
		// invisible, so their order relative to it carries no meaning for the judge
		for _, d := range during {
			delete(d, "delay")
			out = append(out, d)
		}
		for _, k := range keys {
			for _, c := range cks {
				out = append(out, r.read(vid, k, c))
			}
		}
	}
	return out
}

// runConc: concurrent execution (C38). The reset line carries "plan": one list of operations per
// process; every process logs call before sending and ret after the response, into one buffer under
// one mutex (the only ordering source). Afterwards every (key, cookie) pair is read sequentially.
func (r *runner) runConc(ex []tr.Ev, batched bool) []tr.Ev {
	ctx := context.Background()
	var mu sync.Mutex
	out := []tr.Ev{ex[0]}
	emit := func(e tr.Ev) {
		mu.Lock()
		out = append(out, e)
		mu.Unlock()
	}
	keys := tr.Ints(ex[0]["keys"])
	cks := tr.Strs(ex[0]["cookies"])
	plan := tr.List(ex[0]["plan"])
	vid, err := r.c.NewVolume("", "000", "")
	if err != nil {
		tr.Fatal("new volume: %v", err)
	}
	defer r.admin(func(c volume_server_pb.VolumeServerClient) error {
		_, err := c.VolumeDelete(ctx, &volume_server_pb.VolumeDeleteRequest{VolumeId: vid})
		return err
	})
	// "vols": 2 = the even keys live in a second volume of the same server (file ids of different volumes are
	// independent blobs; what one volume stores must not depend on what is written to another at the same time)
	vid1, vid2 := vid, vid
	if tr.I(ex[0], "vols") == 2 {
		v2, err := r.c.NewVolume("", "000", "")
		if err != nil {
			tr.Fatal("new volume: %v", err)
		}
		vid2 = v2
		defer r.admin(func(c volume_server_pb.VolumeServerClient) error {
			_, err := c.VolumeDelete(ctx, &volume_server_pb.VolumeDeleteRequest{VolumeId: v2})
			return err
		})
	}
	doOp := func(p int, op tr.Ev) {
		vid := vid1
		if tr.I(op, "k")%2 == 0 {
			vid = vid2
		}
		opName := tr.S(op, "op")
		if opName == "swrite" {
			opName = "write"
		} else if opName == "sread" {
			opName = "read"
		}
		if opName == "sburst" {
			opName = "burst"
		}
		if opName == "sdelrace" {
			opName = "delrace"
		}
		ds := []interface{}{}
		if opName == "burst" || opName == "delrace" {
			ds = tr.List(op["ds"])
		}
		call := tr.Ev{"ev": "call", "p": p, "op": opName, "k": tr.I(op, "k"), "c": tr.S(op, "c"),
			"d": tr.S(op, "d"), "m": tr.S(op, "m"), "ds": ds}
		emit(call)
		var ret tr.Ev
		switch tr.S(op, "op") {
		case "sburst":
			// write ds[1], read, write ds[2], read, ... on the Store; recorded compactly: what every read returned
			res := "ok"
			obs := []interface{}{}
			for _, d := range ds {
				w := r.storeOp(vid, p, tr.Ev{"op": "swrite", "k": op["k"], "c": op["c"], "d": d}, batched)
				if tr.S(w, "res") != "ok" {
					res = "err"
				}
				g := r.storeOp(vid, p, tr.Ev{"op": "sread", "k": op["k"], "c": op["c"]}, batched)
				if tr.S(g, "st") == "data" {
					obs = append(obs, tr.S(g, "d"))
				} else {
					obs = append(obs, "!"+tr.S(g, "st"))
				}
			}
			ret = tr.Ev{"ev": "ret", "p": p, "res": res, "obs": obs}
		case "sdelrace":
			// per element of ds: write it, then `par` Store-level deletes of the key at the same time; recorded
			// compactly: how many of them reported that they removed the blob
			res := "ok"
			obs := []interface{}{}
			par := tr.I(op, "par")
			for _, d := range ds {
				w := r.storeOp(vid, p, tr.Ev{"op": "swrite", "k": op["k"], "c": op["c"], "d": d}, batched)
				if tr.S(w, "res") != "ok" {
					res = "err"
				}
				var dwg sync.WaitGroup
				var removed int64
				go0 := make(chan struct{})
				for j := 0; j < par; j++ {
					dwg.Add(1)
					go func() {
						defer dwg.Done()
						<-go0
						x := r.storeOp(vid, p, tr.Ev{"op": "sdelete", "k": op["k"], "c": op["c"]}, batched)
						if tr.S(x, "res") == "removed" {
							atomic.AddInt64(&removed, 1)
						}
					}()
				}
				close(go0)
				dwg.Wait()
				obs = append(obs, int(removed))
			}
			ret = tr.Ev{"ev": "ret", "p": p, "res": res, "obs": obs}
		case "swrite", "sdelete", "sread":
			ret = r.storeOp(vid, p, op, batched)
		case "write":
			e := tr.Ev{"k": op["k"], "c": op["c"], "d": op["d"], "m": op["m"]}
			r.writeOpt(vid, e, batched)
			ret = tr.Ev{"ev": "ret", "p": p, "res": e["res"], "status": e["status"]}
		case "delete":
			e := tr.Ev{"k": op["k"], "c": op["c"]}
			r.del(vid, e)
			ret = tr.Ev{"ev": "ret", "p": p, "res": e["res"], "status": e["status"]}
		case "read":
			ret = r.read(vid, tr.I(op, "k"), tr.S(op, "c"))
			ret["ev"] = "ret"
			ret["p"] = p
		}
		emit(ret)
	}
	// "pre": operations executed sequentially (as process 1) before the goroutines start
	for _, o := range tr.List(ex[0]["pre"]) {
		doOp(1, o.(map[string]interface{}))
	}
	var wg sync.WaitGroup
	start := make(chan struct{})
	for pi, ops := range plan {
		wg.Add(1)
		go func(p int, ops []interface{}) {
			defer wg.Done()
			<-start
			for _, o := range ops {
				doOp(p, o.(map[string]interface{}))
			}
		}(pi+1, tr.List(ops))
	}
	close(start)
	wg.Wait()
	for _, k := range keys {
		for _, c := range cks {
			doOp(1, tr.Ev{"op": "read", "k": k, "c": c, "d": "", "m": ""})
		}
	}
	return out
}

// storeOp: the same operations directly on the running server's Store (the API level at which
// a delete reports how many bytes it removed)
func (r *runner) storeOp(vid uint32, p int, op tr.Ev, batched bool) tr.Ev {
	st := r.c.Volumes[0].Server.VerifStore()
	n := new(needle.Needle)
	n.Id = types.NeedleId(tr.I(op, "k"))
	n.Cookie = types.Cookie(cookies[tr.S(op, "c")])
	switch tr.S(op, "op") {
	case "swrite":
		n.Data = append([]byte{}, datas[tr.S(op, "d")]...)
		n.Checksum = needle.NewCRC(n.Data)
		n.LastModified = uint64(time.Now().Unix())
		n.SetHasLastModifiedDate()
		_, err := st.WriteVolumeNeedle(needle.VolumeId(vid), n, batched)
		res := "ok"
		if err != nil {
			res = "err"
		}
		return tr.Ev{"ev": "ret", "p": p, "res": res}
	case "sdelete":
		size, err := st.DeleteVolumeNeedle(needle.VolumeId(vid), n)
		res := "noop"
		if err != nil {
			res = "err"
		} else if size > 0 {
			res = "removed"
		}
		return tr.Ev{"ev": "ret", "p": p, "res": res}
	}
	e := tr.Ev{"ev": "ret", "p": p, "k": op["k"], "c": op["c"], "st": "err", "d": "?", "name": "", "mime": "",
		"pairs": []interface{}{}, "lm": "none", "gz": false}
	_, err := st.ReadVolumeNeedle(needle.VolumeId(vid), n, nil)
	if err == nil {
		e["st"] = "data"
		e["d"] = dataToken(n.Data)
	} else if err == storage.ErrorNotFound || err == storage.ErrorDeleted {
		e["st"] = "notfound"
	}
	return e
}

func main() {
	o := tr.ParseFlags()
	w := tr.NewWriter(o.Out)
	defer w.Close()
	mbps := 0
	if o.Mode == "throttled" {
		mbps = 1
	}
	c, err := cluster.New(cluster.Options{Volumes: 1, CompactionMBps: mbps})
	if err != nil {
		tr.Fatal("cluster: %v", err)
	}
	defer c.Close()
	execs := tr.ReadScript(o.Script)
	batched := o.Mode == "conc-batched"
	if batched {
		// the batched (async request) write path is only taken for fsync writes while the store is stopping
		c.Volumes[0].Server.SetStopping()
	}
	results := make([][]tr.Ev, len(execs))
	var wg sync.WaitGroup
	next := make(chan int, len(execs))
	for i := range execs {
		next <- i
	}
	close(next)
	workers := 8
	if strings.HasPrefix(o.Mode, "conc") {
		workers = 3
	}
	for wk := 0; wk < workers; wk++ {
		wg.Add(1)
		go func() {
			defer wg.Done()
			r := &runner{c: c, url: c.Volumes[0].Url, http: &http.Client{Timeout: 30 * time.Second}}
			for i := range next {
				if strings.HasPrefix(o.Mode, "conc") {
					results[i] = r.runConc(execs[i], batched)
				} else {
					results[i] = r.runExec(execs[i])
				}
			}
		}()
	}
	wg.Wait()
	if fds, err := ioutil.ReadDir("/proc/self/fd"); err == nil {
		fmt.Fprintf(os.Stderr, "open fds at end: %d after %d executions\n", len(fds), len(execs))
	}
	for _, res := range results {
		for _, e := range res {
			w.Emit(e)
		}
	}
}
