// c40: replicated writes. Executes scripts of uploads / deletes / replica faults against 2-3 REAL
// volume servers (mini-cluster kit) holding one replicated volume per execution, through the
// servers' HTTP handlers (POST/DELETE /vid,fid on any replica as the primary), and records after
// every operation, per key of the execution (event "snap"), what EACH replica holds: the needle read from
// that replica's own store (cookie, decoded content, name, mime, pairs, last-modified, ttl, stored
// compressed) plus what a client sees when it GETs the fid from that replica (read mode "local").
//
// An upload enters by one of several ways (input "via"): "mp" = a multipart POST typed here; "reader" /
// "breader" = operation.Upload with a plain io.Reader / a *util.BytesReader (the way of the filer and S3
// paths); "ereader" = operation.Upload with a reader that fails half way; "data" = operation.UploadData; all
// but the first with "cipher" = client-side encryption inside
// doUploadData (the upload result carries the key). A needle whose stored bytes decrypt with a key returned
// for that file id in this execution is recorded decrypted (dec = "key", ct = hash token of the ciphertext).
//
// Script ops (inputs only; tokens are mapped to real values here):
//   upload{to,k,c,d,name,mime,pairs,ts,ttl,gz,fsync,via,cipher}   delete{to,k,c}
//   fault{kind: ro|rw|unmount|mount|voldelete, r}
//   race{k,c,to1,d1,to2,d2}     two uploads for one file id at the same time
// reset carries {repl, vttl, n (copy count), keys}.
// The driver never compares replicas: the TLA+ judge (ReplWriteTrace) does.
package main

import (
	"bytes"
	"compress/gzip"
	"context"
	"crypto/sha1"
	"encoding/json"
	"fmt"
	"io"
	"io/ioutil"
	"math/rand"
	"mime/multipart"
	"net/http"
	"net/textproto"
	"os"
	"sort"
	"strconv"
	"strings"
	"sync"
	"time"

	"github.com/chrislusf/seaweedfs/weed/operation"
	"github.com/chrislusf/seaweedfs/weed/pb/volume_server_pb"
	"github.com/chrislusf/seaweedfs/weed/storage"
	"github.com/chrislusf/seaweedfs/weed/storage/needle"
	"github.com/chrislusf/seaweedfs/weed/storage/types"
	"github.com/chrislusf/seaweedfs/weed/util"

	"verifharness/cluster"
	"verifharness/tr"
)

const oldTs = 1600000000

var datas = map[string][]byte{
	"e": {},
	"a": []byte("AAAA-data-a plain text\n"),
	"b": []byte("bbbbbbbbbbbbbbbbbbbbbbbb-data-b\n"),
	"j": []byte(`{"json": true, "n": [1, 2, 3]}`),
	"L": bytes.Repeat([]byte("0123456789abcdef"), 200),                                  // 3200 bytes, text, compressible
	"r": {0x00, 0x01, 0x02, 0xfe, 0xff, 0x10, 0x80, 0x81, 0x00, 0x07, 0x1b, 0x7f, 0x03}, // sniffs as octet-stream
	"z": {0x1f, 0x8b, 0x08, 0x00, 0x00, 0x00, 0x00, 0x00, 0x00, 0xff, 0xde, 0xad, 0xbe, 0xef}, // looks gzipped, is not
	"p": append([]byte{0x89, 'P', 'N', 'G', 0x0d, 0x0a, 0x1a, 0x0a}, bytes.Repeat([]byte{0, 1, 2, 3}, 8)...),
	"h": []byte("<html><body>hello</body></html>"),
	"Z": gz(bytes.Repeat([]byte("body { margin: 0; padding: 0 }\n"), 300)), // a real gzip file, uploaded as opaque bytes
	// > 16 KiB without a mime type to sniff and without a telling name: the client library test-compresses the head
	"B": bytes.Repeat([]byte{0x00, 0x01, 0x02, 0x03, 0xfe, 0xff, 0x10, 0x11, 0x7f, 0x80, 0x05}, 1900), // 20900 bytes, compressible
	"R": noise(20000),                                                                              // incompressible
}

func noise(n int) []byte {
	b := make([]byte, n)
	rand.New(rand.NewSource(40)).Read(b)
	b[0], b[1], b[2], b[3] = 0x00, 0x05, 0x07, 0x01 // nothing http.DetectContentType knows
	return b
}

var names = map[string]string{
	"n0": "", "n1": "f1.txt", "n2": "f2.jpg", "n3": "f3.json", "n4": `we"ird \ü;name.bin`, "n5": "noext",
	"nL": strings.Repeat("long", 75) + ".txt", // 304 bytes: longer than a needle name can be
	"n6": "dir/sub/f6.html",
}

var mimes = map[string]string{
	"y0": "", "y1": "text/plain", "y2": "image/png", "y3": "application/x-verif", "y4": "application/octet-stream",
	"y5": "text/plain; charset=utf-8", "y6": "application/json",
}

var pairSets = map[string][][2]string{
	"p0": nil,
	"p1": {{"Seaweed-K1", "v1"}},
	"p2": {{"Seaweed-lowerCase", "V 2"}, {"Seaweed-Other-Key", "x=y; z"}},
}

var cookies = map[string]uint32{"c1": 0x11111111, "c2": 0x22222222}

func cookieToken(c uint32) string {
	for t, v := range cookies {
		if v == uint32(c) {
			return t
		}
	}
	return fmt.Sprintf("%08x", c)
}

func dataToken(b []byte) string {
	for t, v := range datas {
		if bytes.Equal(v, b) {
			return t
		}
	}
	return fmt.Sprintf("?%d:%x", len(b), sha1.Sum(b))[:16]
}

func gz(b []byte) []byte {
	var zb bytes.Buffer
	zw := gzip.NewWriter(&zb)
	zw.Write(b)
	zw.Close()
	return zb.Bytes()
}

func gunzip(b []byte) ([]byte, bool) {
	zr, err := gzip.NewReader(bytes.NewReader(b))
	if err != nil {
		return nil, false
	}
	out, err := ioutil.ReadAll(zr)
	if err != nil {
		return nil, false
	}
	return out, true
}

var quoteEscaper = strings.NewReplacer(`\`, `\\`, `"`, `\"`)

type runner struct {
	c    *cluster.Cluster
	http *http.Client
	// the cipher keys the upload results of this execution carried, per key of the execution (newest last)
	ckeys map[int][][]byte
}

// plainReader hides every other method of the reader it wraps (doUpload then has to ReadAll)
type plainReader struct{ r io.Reader }

func (p plainReader) Read(b []byte) (int, error) { return p.r.Read(b) }

// brokenReader delivers the first half of its bytes and then fails (way "ereader": the upload must not happen)
type brokenReader struct {
	b   []byte
	off int
}

func (p *brokenReader) Read(b []byte) (int, error) {
	if p.off >= len(p.b)/2 {
		return 0, io.ErrUnexpectedEOF
	}
	n := copy(b, p.b[p.off:len(p.b)/2])
	p.off += n
	return n, nil
}

// pairToken: which pair set of the table the stored pairs are (header names are case-insensitive)
func pairToken(m map[string]string) string {
	for _, t := range []string{"p0", "p1", "p2"} {
		ps := pairSets[t]
		if len(ps) != len(m) {
			continue
		}
		same := true
		for _, p := range ps {
			found := false
			for k, v := range m {
				if strings.EqualFold(needle.PairNamePrefix+k, p[0]) && v == p[1] {
					found = true
				}
			}
			same = same && found
		}
		if same {
			return t
		}
	}
	return "?"
}

// decrypt: the bytes decrypted with the key returned for k that opens them, and that key's name ("k1" = the
// first one an upload of k returned in this execution)
func (r *runner) decrypt(k int, b []byte) ([]byte, string) {
	for i, key := range r.ckeys[k] {
		if pt, err := util.Decrypt(b, util.CipherKey(key)); err == nil {
			return pt, fmt.Sprintf("k%d", i+1)
		}
	}
	return nil, ""
}

// uploadVia: the upload through the client library (operation.Upload / operation.UploadData)
func (r *runner) uploadVia(vid uint32, e tr.Ev, via string) {
	body := datas[tr.S(e, "d")]
	if tr.B(e, "gz") {
		body = gz(body)
	}
	u := "http://" + r.c.Volumes[tr.I(e, "to")].Url + "/" + fid(vid, tr.I(e, "k"), tr.S(e, "c"))
	if q := uploadQuery(e); q != "" {
		u += "?" + q
	}
	var pairMap map[string]string
	if ps := pairSets[tr.S(e, "pairs")]; len(ps) > 0 {
		pairMap = map[string]string{}
		for _, p := range ps {
			pairMap[p[0]] = p[1]
		}
	}
	name, mtype, cipher, isGz := names[tr.S(e, "name")], mimes[tr.S(e, "mime")], tr.B(e, "cipher"), tr.B(e, "gz")
	var res *operation.UploadResult
	var err error
	switch via {
	case "reader":
		res, err, _ = operation.Upload(u, name, cipher, plainReader{bytes.NewReader(body)}, isGz, mtype, pairMap, "")
	case "ereader":
		res, err, _ = operation.Upload(u, name, cipher, &brokenReader{b: body}, isGz, mtype, pairMap, "")
	case "breader":
		res, err, _ = operation.Upload(u, name, cipher, util.NewBytesReader(body), isGz, mtype, pairMap, "")
	case "data":
		res, err = operation.UploadData(u, name, cipher, body, isGz, mtype, pairMap, "")
	default:
		tr.Fatal("unknown way %q", via)
	}
	e["status"] = 0
	if err != nil || res == nil {
		e["res"] = "err"
		if err != nil {
			m := err.Error()
			// "unmarshalled error http://host:port/fid?query: <the server's message>": keep the message
			if i := strings.Index(m, "unmarshalled error "); i >= 0 {
				if j := strings.Index(m[i:], ": "); j >= 0 {
					m = m[i+j+2:]
				}
			}
			for _, v := range r.c.Volumes {
				m = strings.Replace(m, v.Url, "vs", -1)
			}
			e["msg"] = errText([]byte(m))
		}
		return
	}
	e["res"] = "ok"
	e["rsize"] = int(res.Size)
	e["rgz"] = res.Gzip > 0
	if len(res.CipherKey) > 0 {
		k := tr.I(e, "k")
		r.ckeys[k] = append(r.ckeys[k], append([]byte{}, res.CipherKey...))
		e["kid"] = fmt.Sprintf("k%d", len(r.ckeys[k]))
	}
}

func uploadQuery(e tr.Ev) string {
	q := []string{}
	switch tr.S(e, "ts") {
	case "old":
		q = append(q, fmt.Sprintf("ts=%d", oldTs))
	case "zero":
		q = append(q, "ts=0")
	}
	if t := tr.S(e, "ttl"); t != "" {
		q = append(q, "ttl="+t)
	}
	if tr.B(e, "fsync") {
		q = append(q, "fsync=true")
	}
	return strings.Join(q, "&")
}

func fid(vid uint32, k int, c string) string {
	return needle.NewFileId(needle.VolumeId(vid), uint64(k), cookies[c]).String()
}

func (r *runner) upload(vid uint32, e tr.Ev) {
	via := tr.S(e, "via")
	if via == "" {
		via = "mp"
	}
	e["via"], e["cipher"] = via, tr.B(e, "cipher") && via != "mp"
	e["unch"], e["msg"], e["rsize"], e["rgz"], e["kid"] = false, "", -1, false, ""
	if _, ok := datas[tr.S(e, "d")]; !ok {
		tr.Fatal("unknown payload %q", tr.S(e, "d"))
	}
	if via != "mp" {
		r.uploadVia(vid, e, via)
		return
	}
	body := datas[tr.S(e, "d")]
	if tr.B(e, "gz") {
		body = gz(body)
	}
	var buf bytes.Buffer
	mw := multipart.NewWriter(&buf)
	h := make(textproto.MIMEHeader)
	cd := `form-data; name="file"`
	if nm := names[tr.S(e, "name")]; nm != "" {
		cd += fmt.Sprintf(`; filename="%s"`, quoteEscaper.Replace(nm))
	}
	h.Set("Content-Disposition", cd)
	if m := mimes[tr.S(e, "mime")]; m != "" {
		h.Set("Content-Type", m)
	}
	if tr.B(e, "gz") {
		h.Set("Content-Encoding", "gzip")
	}
	pw, _ := mw.CreatePart(h)
	pw.Write(body)
	mw.Close()
	u := "http://" + r.c.Volumes[tr.I(e, "to")].Url + "/" + fid(vid, tr.I(e, "k"), tr.S(e, "c"))
	if q := uploadQuery(e); q != "" {
		u += "?" + q
	}
	req, _ := http.NewRequest("POST", u, &buf)
	req.Header.Set("Content-Type", mw.FormDataContentType())
	for _, p := range pairSets[tr.S(e, "pairs")] {
		req.Header[p[0]] = []string{p[1]} // as typed by the client (the server canonicalises)
	}
	resp, err := r.http.Do(req)
	if err != nil {
		e["res"] = "err"
		e["status"] = 0
		return
	}
	rb, _ := ioutil.ReadAll(resp.Body)
	resp.Body.Close()
	e["status"] = resp.StatusCode
	switch resp.StatusCode {
	case 201:
		e["res"] = "ok"
	case 204:
		e["res"] = "ok"
		e["unch"] = true
	default:
		e["res"] = "err"
		e["msg"] = errText(rb)
	}
}

// race: two uploads for the same file id issued at the same time (through the same or different copies as the
// primary). Inputs: k, c, to1, d1, to2, d2; both carry a name and a client timestamp of their own.
func (r *runner) race(vid uint32, e tr.Ev) {
	mk := func(to interface{}, d interface{}, name, ts string) tr.Ev {
		return tr.Ev{"to": to, "k": e["k"], "c": e["c"], "d": d, "name": name, "mime": "y3", "pairs": "p0", "ts": ts,
			"ttl": "", "gz": false, "fsync": false, "via": "mp", "cipher": false}
	}
	a, b := mk(e["to1"], e["d1"], "n1", "old"), mk(e["to2"], e["d2"], "n5", "none")
	var wg sync.WaitGroup
	start := make(chan struct{})
	for _, x := range []tr.Ev{a, b} {
		wg.Add(1)
		go func(x tr.Ev) {
			defer wg.Done()
			<-start
			r.upload(vid, x)
		}(x)
	}
	close(start)
	wg.Wait()
	e["res1"], e["status1"], e["res2"], e["status2"] = a["res"], a["status"], b["res"], b["status"]
}

func errText(rb []byte) string {
	var m map[string]interface{}
	s := string(rb)
	if json.Unmarshal(rb, &m) == nil {
		if x, ok := m["error"].(string); ok {
			s = x
		}
	}
	// ports differ from run to run: keep the trace stable
	if len(s) > 60 {
		s = s[:60]
	}
	return s
}

func (r *runner) del(vid uint32, e tr.Ev) {
	u := "http://" + r.c.Volumes[tr.I(e, "to")].Url + "/" + fid(vid, tr.I(e, "k"), tr.S(e, "c"))
	req, _ := http.NewRequest("DELETE", u, nil)
	resp, err := r.http.Do(req)
	e["msg"] = ""
	if err != nil {
		e["res"] = "err"
		e["status"] = 0
		return
	}
	rb, _ := ioutil.ReadAll(resp.Body)
	resp.Body.Close()
	e["status"] = resp.StatusCode
	switch resp.StatusCode {
	case 202:
		e["res"] = "ok"
	case 404:
		e["res"] = "notfound"
	default:
		e["res"] = "err"
		e["msg"] = errText(rb)
	}
}

// rread: what replica ri holds for key k. Store level first (all metadata), then the HTTP view.
func (r *runner) rread(vid uint32, ri, k int) tr.Ev {
	e := tr.Ev{"r": ri, "st": "err", "c": "", "d": "", "name": "", "mime": "", "pairs": "",
		"lm": "", "ttl": "", "gz": false, "hst": 0, "hd": "", "ctype": "", "ptok": "p0", "dec": "plain", "ct": ""}
	node := r.c.Volumes[ri]
	st := node.Server.VerifStore()
	if !st.HasVolume(needle.VolumeId(vid)) {
		e["st"] = "novol"
		return e
	}
	n := new(needle.Needle)
	n.Id = types.NeedleId(k)
	cnt, err := st.ReadVolumeNeedle(needle.VolumeId(vid), n, nil)
	cookieTok := "c1"
	switch {
	case err == storage.ErrorNotFound || err == storage.ErrorDeleted:
		e["st"] = "gone"
	case err != nil || cnt < 0:
		e["st"] = "err"
	default:
		e["st"] = "data"
		data := n.Data
		if pt, kid := r.decrypt(k, data); kid != "" {
			e["dec"] = kid
			e["ct"] = fmt.Sprintf("#%d:%x", len(data), sha1.Sum(data))[:24]
			data = pt
		}
		if n.IsCompressed() {
			e["gz"] = true
			if d, ok := gunzip(data); ok {
				data = d
			}
		}
		e["d"] = dataToken(data)
		if cnt == 0 {
			// size-0 needle: the record is not read at all, no cookie/metadata available
			e["c"] = "?"
		} else {
			e["c"] = cookieToken(uint32(n.Cookie))
			cookieTok = cookieToken(uint32(n.Cookie))
		}
		e["name"] = string(n.Name)
		e["mime"] = string(n.Mime)
		if n.HasPairs() {
			m := map[string]string{}
			if json.Unmarshal(n.Pairs, &m) == nil {
				ks := make([]string, 0, len(m))
				for k := range m {
					ks = append(ks, k)
				}
				sort.Strings(ks)
				var sb strings.Builder
				for _, k := range ks {
					sb.WriteString(k + "=" + m[k] + "|")
				}
				e["pairs"] = sb.String()
				e["ptok"] = pairToken(m)
			} else {
				e["pairs"] = "?" + string(n.Pairs)
				e["ptok"] = "?"
			}
		}
		if n.HasLastModifiedDate() {
			e["lm"] = strconv.FormatUint(n.LastModified, 10)
		}
		if n.HasTtl() && n.Ttl != nil {
			e["ttl"] = n.Ttl.String()
		}
	}
	// the client's view of this replica
	if _, ok := cookies[cookieTok]; !ok {
		cookieTok = "c1"
	}
	req, _ := http.NewRequest("GET", "http://"+node.Url+"/"+fid(vid, k, cookieTok), nil)
	req.Header.Set("Accept-Encoding", "gzip")
	resp, herr := r.http.Do(req)
	if herr != nil {
		return e
	}
	body, _ := ioutil.ReadAll(resp.Body)
	resp.Body.Close()
	e["hst"] = resp.StatusCode
	if resp.StatusCode == 200 {
		if resp.Header.Get("Content-Encoding") == "gzip" {
			if d, ok := gunzip(body); ok {
				body = d
			}
		}
		if pt, kid := r.decrypt(k, body); kid != "" {
			body = pt
		}
		e["hd"] = dataToken(body)
		e["ctype"] = resp.Header.Get("Content-Type")
	}
	return e
}

func (r *runner) admin(ri int, f func(c volume_server_pb.VolumeServerClient) error) string {
	if err := cluster.WithVolumeServer(r.c.Volumes[ri].Url, f); err != nil {
		return "err"
	}
	return "ok"
}

// waitMaster: until the stand-in master does (not) list replica ri for vid, so that a lookup by a
// volume server that has not cached the locations yet is deterministic.
func (r *runner) waitMaster(vid uint32, ri int, want bool) {
	url := r.c.Volumes[ri].Url
	for i := 0; i < 400; i++ {
		has := false
		for _, u := range r.c.Master.Locations(vid) {
			has = has || u == url
		}
		if has == want {
			return
		}
		time.Sleep(5 * time.Millisecond)
	}
}

func (r *runner) fault(vid uint32, e tr.Ev) {
	ctx := context.Background()
	ri := tr.I(e, "r")
	switch tr.S(e, "kind") {
	case "ro":
		e["res"] = r.admin(ri, func(c volume_server_pb.VolumeServerClient) error {
			_, err := c.VolumeMarkReadonly(ctx, &volume_server_pb.VolumeMarkReadonlyRequest{VolumeId: vid})
			return err
		})
	case "rw":
		e["res"] = r.admin(ri, func(c volume_server_pb.VolumeServerClient) error {
			_, err := c.VolumeMarkWritable(ctx, &volume_server_pb.VolumeMarkWritableRequest{VolumeId: vid})
			return err
		})
	case "unmount":
		e["res"] = r.admin(ri, func(c volume_server_pb.VolumeServerClient) error {
			_, err := c.VolumeUnmount(ctx, &volume_server_pb.VolumeUnmountRequest{VolumeId: vid})
			return err
		})
		r.waitMaster(vid, ri, false)
	case "mount":
		e["res"] = r.admin(ri, func(c volume_server_pb.VolumeServerClient) error {
			_, err := c.VolumeMount(ctx, &volume_server_pb.VolumeMountRequest{VolumeId: vid})
			return err
		})
		if e["res"] == "ok" {
			r.waitMaster(vid, ri, true)
		}
	case "voldelete":
		e["res"] = r.admin(ri, func(c volume_server_pb.VolumeServerClient) error {
			_, err := c.VolumeDelete(ctx, &volume_server_pb.VolumeDeleteRequest{VolumeId: vid})
			return err
		})
		r.waitMaster(vid, ri, false)
	default:
		tr.Fatal("unknown fault %v", e["kind"])
	}
}

func (r *runner) runExec(ex []tr.Ev) []tr.Ev {
	ctx := context.Background()
	out := []tr.Ev{ex[0]}
	r.ckeys = map[int][][]byte{}
	repl := tr.S(ex[0], "repl")
	n := tr.I(ex[0], "n")
	keys := tr.Ints(ex[0]["keys"])
	if n > len(r.c.Volumes) {
		tr.Fatal("need %d servers", n)
	}
	vid, err := r.c.NewVolume("", repl, tr.S(ex[0], "vttl"))
	if err != nil {
		tr.Fatal("new volume: %v", err)
	}
	if len(r.c.Master.Locations(vid)) != n {
		tr.Fatal("volume %d has locations %v, want %d", vid, r.c.Master.Locations(vid), n)
	}
	defer func() {
		for ri := 0; ri < n; ri++ {
			r.admin(ri, func(c volume_server_pb.VolumeServerClient) error {
				_, err := c.VolumeDelete(ctx, &volume_server_pb.VolumeDeleteRequest{VolumeId: vid})
				return err
			})
		}
	}()
	for _, e := range ex[1:] {
		ev := tr.S(e, "ev")
		if ev == "snap" || ev == "panic" {
			continue
		}
		e = tr.Copy(e)
		pan := tr.Guard(func() {
			switch ev {
			case "upload":
				r.upload(vid, e)
			case "delete":
				r.del(vid, e)
			case "race":
				r.race(vid, e)
			case "fault":
				r.fault(vid, e)
			default:
				tr.Fatal("unknown op %v", ev)
			}
		})
		if pan != "" {
			out = append(out, tr.Ev{"ev": "panic", "op": e, "msg": pan})
			break
		}
		out = append(out, e)
		for _, k := range keys {
			obs := make([]interface{}, 0, n)
			for ri := 0; ri < n; ri++ {
				obs = append(obs, r.rread(vid, ri, k))
			}
			out = append(out, tr.Ev{"ev": "snap", "k": k, "obs": obs})
		}
	}
	return out
}

func main() {
	o := tr.ParseFlags()
	w := tr.NewWriter(o.Out)
	defer w.Close()
	c, err := cluster.New(cluster.Options{Volumes: 3})
	if err != nil {
		tr.Fatal("cluster: %v", err)
	}
	defer c.Close()
	execs := tr.ReadScript(o.Script)
	results := make([][]tr.Ev, len(execs))
	var wg sync.WaitGroup
	next := make(chan int, len(execs))
	for i := range execs {
		next <- i
	}
	close(next)
	for wk := 0; wk < 60; wk++ { // latency-bound: a failing fan-out is retried 3 times with 1.4 s of sleeps, a failing library upload 3 times on top
		wg.Add(1)
		go func() {
			defer wg.Done()
			r := &runner{c: c, http: &http.Client{Timeout: 30 * time.Second}}
			for i := range next {
				results[i] = r.runExec(execs[i])
			}
		}()
	}
	wg.Wait()
	if fds, err := ioutil.ReadDir("/proc/self/fd"); err == nil {
		fmt.Fprintf(os.Stderr, "open fds at end: %d after %d executions\n", len(fds), len(execs))
	}
	for _, res := range results {
		for _, e := range res {
			w.Emit(e)
		}
	}
}
