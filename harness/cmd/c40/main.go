// c40: replicated writes. Executes scripts of uploads / deletes / replica faults against 2-3 REAL
// volume servers (mini-cluster kit) holding one replicated volume per execution, through the
// servers' HTTP handlers (POST/DELETE /vid,fid on any replica as the primary), and records after
// every operation, per key of the execution (event "snap"), what EACH replica holds: the needle read from
// that replica's own store (cookie, decoded content, name, mime, pairs, last-modified, ttl, stored
// compressed) plus what a client sees when it GETs the fid from that replica (read mode "local").
//
// Script ops (inputs only; tokens are mapped to real values here):
//   upload{to,k,c,d,name,mime,pairs,ts,ttl,gz,fsync}   delete{to,k,c}
//   fault{kind: ro|rw|unmount|mount|voldelete, r}
//   race{k,c,to1,d1,to2,d2}     two uploads for one file id at the same time
// reset carries {repl, vttl, n (copy count), keys}.
// The driver never compares replicas: the TLA+ judge (ReplWriteTrace) does.
package main

import (
	"bytes"
	"compress/gzip"
	"context"
	"crypto/sha1"
	"encoding/json"
	"fmt"
	"io/ioutil"
	"mime/multipart"
	"net/http"
	"net/textproto"
	"os"
	"sort"
	"strconv"
	"strings"
	"sync"
	"time"

	"github.com/chrislusf/seaweedfs/weed/pb/volume_server_pb"
	"github.com/chrislusf/seaweedfs/weed/storage"
	"github.com/chrislusf/seaweedfs/weed/storage/needle"
	"github.com/chrislusf/seaweedfs/weed/storage/types"

	"verifharness/cluster"
	"verifharness/tr"
)

const oldTs = 1600000000

var datas = map[string][]byte{
	"e": {},
	"a": []byte("AAAA-data-a plain text\n"),
	"b": []byte("bbbbbbbbbbbbbbbbbbbbbbbb-data-b\n"),
	"j": []byte(`{"json": true, "n": [1, 2, 3]}`),
	"L": bytes.Repeat([]byte("0123456789abcdef"), 200),                                  // 3200 bytes, text, compressible
	"r": {0x00, 0x01, 0x02, 0xfe, 0xff, 0x10, 0x80, 0x81, 0x00, 0x07, 0x1b, 0x7f, 0x03}, // sniffs as octet-stream
	"z": {0x1f, 0x8b, 0x08, 0x00, 0x00, 0x00, 0x00, 0x00, 0x00, 0xff, 0xde, 0xad, 0xbe, 0xef}, // looks gzipped, is not
	"p": append([]byte{0x89, 'P', 'N', 'G', 0x0d, 0x0a, 0x1a, 0x0a}, bytes.Repeat([]byte{0, 1, 2, 3}, 8)...),
	"h": []byte("<html><body>hello</body></html>"),
	"Z": gz(bytes.Repeat([]byte("body { margin: 0; padding: 0 }\n"), 300)), // a real gzip file, uploaded as opaque bytes
}

var names = map[string]string{
	"n0": "", "n1": "f1.txt", "n2": "f2.jpg", "n3": "f3.json", "n4": `we"ird \ü;name.bin`, "n5": "noext",
	"nL": strings.Repeat("long", 75) + ".txt", // 304 bytes: longer than a needle name can be
	"n6": "dir/sub/f6.html",
}

var mimes = map[string]string{
	"y0": "", "y1": "text/plain", "y2": "image/png", "y3": "application/x-verif", "y4": "application/octet-stream",
	"y5": "text/plain; charset=utf-8", "y6": "application/json",
}

var pairSets = map[string][][2]string{
	"p0": nil,
	"p1": {{"Seaweed-K1", "v1"}},
	"p2": {{"Seaweed-lowerCase", "V 2"}, {"Seaweed-Other-Key", "x=y; z"}},
}

var cookies = map[string]uint32{"c1": 0x11111111, "c2": 0x22222222}

func cookieToken(c uint32) string {
	for t, v := range cookies {
		if v == uint32(c) {
			return t
		}
	}
	return fmt.Sprintf("%08x", c)
}

func dataToken(b []byte) string {
	for t, v := range datas {
		if bytes.Equal(v, b) {
			return t
		}
	}
	return fmt.Sprintf("?%d:%x", len(b), sha1.Sum(b))[:16]
}

func gz(b []byte) []byte {
	var zb bytes.Buffer
	zw := gzip.NewWriter(&zb)
	zw.Write(b)
	zw.Close()
	return zb.Bytes()
}

func gunzip(b []byte) ([]byte, bool) {
	zr, err := gzip.NewReader(bytes.NewReader(b))
	if err != nil {
		return nil, false
	}
	out, err := ioutil.ReadAll(zr)
	if err != nil {
		return nil, false
	}
	return out, true
}

var quoteEscaper = strings.NewReplacer(`\`, `\\`, `"`, `\"`)

type runner struct {
	c    *cluster.Cluster
	http *http.Client
}

func fid(vid uint32, k int, c string) string {
	return needle.NewFileId(needle.VolumeId(vid), uint64(k), cookies[c]).String()
}

func (r *runner) upload(vid uint32, e tr.Ev) {
	body := datas[tr.S(e, "d")]
	if tr.B(e, "gz") {
		body = gz(body)
	}
	var buf bytes.Buffer
	mw := multipart.NewWriter(&buf)
	h := make(textproto.MIMEHeader)
	cd := `form-data; name="file"`
	if nm := names[tr.S(e, "name")]; nm != "" {
		cd += fmt.Sprintf(`; filename="%s"`, quoteEscaper.Replace(nm))
	}
	h.Set("Content-Disposition", cd)
	if m := mimes[tr.S(e, "mime")]; m != "" {
		h.Set("Content-Type", m)
	}
	if tr.B(e, "gz") {
		h.Set("Content-Encoding", "gzip")
	}
	pw, _ := mw.CreatePart(h)
	pw.Write(body)
	mw.Close()
	u := "http://" + r.c.Volumes[tr.I(e, "to")].Url + "/" + fid(vid, tr.I(e, "k"), tr.S(e, "c"))
	q := []string{}
	switch tr.S(e, "ts") {
	case "old":
		q = append(q, fmt.Sprintf("ts=%d", oldTs))
	case "zero":
		q = append(q, "ts=0")
	}
	if t := tr.S(e, "ttl"); t != "" {
		q = append(q, "ttl="+t)
	}
	if tr.B(e, "fsync") {
		q = append(q, "fsync=true")
	}
	if len(q) > 0 {
		u += "?" + strings.Join(q, "&")
	}
	req, _ := http.NewRequest("POST", u, &buf)
	req.Header.Set("Content-Type", mw.FormDataContentType())
	for _, p := range pairSets[tr.S(e, "pairs")] {
		req.Header[p[0]] = []string{p[1]} // as typed by the client (the server canonicalises)
	}
	resp, err := r.http.Do(req)
	e["unch"] = false
	e["msg"] = ""
	if err != nil {
		e["res"] = "err"
		e["status"] = 0
		return
	}
	rb, _ := ioutil.ReadAll(resp.Body)
	resp.Body.Close()
	e["status"] = resp.StatusCode
	switch resp.StatusCode {
	case 201:
		e["res"] = "ok"
	case 204:
		e["res"] = "ok"
		e["unch"] = true
	default:
		e["res"] = "err"
		e["msg"] = errText(rb)
	}
}

// race: two uploads for the same file id issued at the same time (through the same or different copies as the
// primary). Inputs: k, c, to1, d1, to2, d2; both carry a name and a client timestamp of their own.
func (r *runner) race(vid uint32, e tr.Ev) {
	mk := func(to interface{}, d interface{}, name, ts string) tr.Ev {
		return tr.Ev{"to": to, "k": e["k"], "c": e["c"], "d": d, "name": name, "mime": "y3", "pairs": "p0", "ts": ts,
			"ttl": "", "gz": false, "fsync": false}
	}
	a, b := mk(e["to1"], e["d1"], "n1", "old"), mk(e["to2"], e["d2"], "n5", "none")
	var wg sync.WaitGroup
	start := make(chan struct{})
	for _, x := range []tr.Ev{a, b} {
		wg.Add(1)
		go func(x tr.Ev) {
			defer wg.Done()
			<-start
			r.upload(vid, x)
		}(x)
	}
	close(start)
	wg.Wait()
	e["res1"], e["status1"], e["res2"], e["status2"] = a["res"], a["status"], b["res"], b["status"]
}

func errText(rb []byte) string {
	var m map[string]interface{}
	s := string(rb)
	if json.Unmarshal(rb, &m) == nil {
		if x, ok := m["error"].(string); ok {
			s = x
		}
	}
	// ports differ from run to run: keep the trace stable
	if len(s) > 60 {
		s = s[:60]
	}
	return s
}

func (r *runner) del(vid uint32, e tr.Ev) {
	u := "http://" + r.c.Volumes[tr.I(e, "to")].Url + "/" + fid(vid, tr.I(e, "k"), tr.S(e, "c"))
	req, _ := http.NewRequest("DELETE", u, nil)
	resp, err := r.http.Do(req)
	e["msg"] = ""
	if err != nil {
		e["res"] = "err"
		e["status"] = 0
		return
	}
	rb, _ := ioutil.ReadAll(resp.Body)
	resp.Body.Close()
	e["status"] = resp.StatusCode
	switch resp.StatusCode {
	case 202:
		e["res"] = "ok"
	case 404:
		e["res"] = "notfound"
	default:
		e["res"] = "err"
		e["msg"] = errText(rb)
	}
}

// rread: what replica ri holds for key k. Store level first (all metadata), then the HTTP view.
func (r *runner) rread(vid uint32, ri, k int) tr.Ev {
	e := tr.Ev{"r": ri, "st": "err", "c": "", "d": "", "name": "", "mime": "", "pairs": "",
		"lm": "", "ttl": "", "gz": false, "hst": 0, "hd": "", "ctype": ""}
	node := r.c.Volumes[ri]
	st := node.Server.VerifStore()
	if !st.HasVolume(needle.VolumeId(vid)) {
		e["st"] = "novol"
		return e
	}
	n := new(needle.Needle)
	n.Id = types.NeedleId(k)
	cnt, err := st.ReadVolumeNeedle(needle.VolumeId(vid), n, nil)
	cookieTok := "c1"
	switch {
	case err == storage.ErrorNotFound || err == storage.ErrorDeleted:
		e["st"] = "gone"
	case err != nil || cnt < 0:
		e["st"] = "err"
	default:
		e["st"] = "data"
		data := n.Data
		if n.IsCompressed() {
			e["gz"] = true
			if d, ok := gunzip(data); ok {
				data = d
			}
		}
		e["d"] = dataToken(data)
		if cnt == 0 {
			// size-0 needle: the record is not read at all, no cookie/metadata available
			e["c"] = "?"
		} else {
			e["c"] = cookieToken(uint32(n.Cookie))
			cookieTok = cookieToken(uint32(n.Cookie))
		}
		e["name"] = string(n.Name)
		e["mime"] = string(n.Mime)
		if n.HasPairs() {
			m := map[string]string{}
			if json.Unmarshal(n.Pairs, &m) == nil {
				ks := make([]string, 0, len(m))
				for k := range m {
					ks = append(ks, k)
				}
				sort.Strings(ks)
				var sb strings.Builder
				for _, k := range ks {
					sb.WriteString(k + "=" + m[k] + "|")
				}
				e["pairs"] = sb.String()
			} else {
				e["pairs"] = "?" + string(n.Pairs)
			}
		}
		if n.HasLastModifiedDate() {
			e["lm"] = strconv.FormatUint(n.LastModified, 10)
		}
		if n.HasTtl() && n.Ttl != nil {
			e["ttl"] = n.Ttl.String()
		}
	}
	// the client's view of this replica
	if _, ok := cookies[cookieTok]; !ok {
		cookieTok = "c1"
	}
	req, _ := http.NewRequest("GET", "http://"+node.Url+"/"+fid(vid, k, cookieTok), nil)
	req.Header.Set("Accept-Encoding", "gzip")
	resp, herr := r.http.Do(req)
	if herr != nil {
		return e
	}
	body, _ := ioutil.ReadAll(resp.Body)
	resp.Body.Close()
	e["hst"] = resp.StatusCode
	if resp.StatusCode == 200 {
		if resp.Header.Get("Content-Encoding") == "gzip" {
			if d, ok := gunzip(body); ok {
				body = d
			}
		}
		e["hd"] = dataToken(body)
		e["ctype"] = resp.Header.Get("Content-Type")
	}
	return e
}

func (r *runner) admin(ri int, f func(c volume_server_pb.VolumeServerClient) error) string {
	if err := cluster.WithVolumeServer(r.c.Volumes[ri].Url, f); err != nil {
		return "err"
	}
	return "ok"
}

// waitMaster: until the stand-in master does (not) list replica ri for vid, so that a lookup by a
// volume server that has not cached the locations yet is deterministic.
func (r *runner) waitMaster(vid uint32, ri int, want bool) {
	url := r.c.Volumes[ri].Url
	for i := 0; i < 400; i++ {
		has := false
		for _, u := range r.c.Master.Locations(vid) {
			has = has || u == url
		}
		if has == want {
			return
		}
		time.Sleep(5 * time.Millisecond)
	}
}

func (r *runner) fault(vid uint32, e tr.Ev) {
	ctx := context.Background()
	ri := tr.I(e, "r")
	switch tr.S(e, "kind") {
	case "ro":
		e["res"] = r.admin(ri, func(c volume_server_pb.VolumeServerClient) error {
			_, err := c.VolumeMarkReadonly(ctx, &volume_server_pb.VolumeMarkReadonlyRequest{VolumeId: vid})
			return err
		})
	case "rw":
		e["res"] = r.admin(ri, func(c volume_server_pb.VolumeServerClient) error {
			_, err := c.VolumeMarkWritable(ctx, &volume_server_pb.VolumeMarkWritableRequest{VolumeId: vid})
			return err
		})
	case "unmount":
		e["res"] = r.admin(ri, func(c volume_server_pb.VolumeServerClient) error {
			_, err := c.VolumeUnmount(ctx, &volume_server_pb.VolumeUnmountRequest{VolumeId: vid})
			return err
		})
		r.waitMaster(vid, ri, false)
	case "mount":
		e["res"] = r.admin(ri, func(c volume_server_pb.VolumeServerClient) error {
			_, err := c.VolumeMount(ctx, &volume_server_pb.VolumeMountRequest{VolumeId: vid})
			return err
		})
		if e["res"] == "ok" {
			r.waitMaster(vid, ri, true)
		}
	case "voldelete":
		e["res"] = r.admin(ri, func(c volume_server_pb.VolumeServerClient) error {
			_, err := c.VolumeDelete(ctx, &volume_server_pb.VolumeDeleteRequest{VolumeId: vid})
			return err
		})
		r.waitMaster(vid, ri, false)
	default:
		tr.Fatal("unknown fault %v", e["kind"])
	}
}

func (r *runner) runExec(ex []tr.Ev) []tr.Ev {
	ctx := context.Background()
	out := []tr.Ev{ex[0]}
	repl := tr.S(ex[0], "repl")
	n := tr.I(ex[0], "n")
	keys := tr.Ints(ex[0]["keys"])
	if n > len(r.c.Volumes) {
		tr.Fatal("need %d servers", n)
	}
	vid, err := r.c.NewVolume("", repl, tr.S(ex[0], "vttl"))
	if err != nil {
		tr.Fatal("new volume: %v", err)
	}
	if len(r.c.Master.Locations(vid)) != n {
		tr.Fatal("volume %d has locations %v, want %d", vid, r.c.Master.Locations(vid), n)
	}
	defer func() {
		for ri := 0; ri < n; ri++ {
			r.admin(ri, func(c volume_server_pb.VolumeServerClient) error {
				_, err := c.VolumeDelete(ctx, &volume_server_pb.VolumeDeleteRequest{VolumeId: vid})
				return err
			})
		}
	}()
	for _, e := range ex[1:] {
		ev := tr.S(e, "ev")
		if ev == "snap" || ev == "panic" {
			continue
		}
		e = tr.Copy(e)
		pan := tr.Guard(func() {
			switch ev {
			case "upload":
				r.upload(vid, e)
			case "delete":
				r.del(vid, e)
			case "race":
				r.race(vid, e)
			case "fault":
				r.fault(vid, e)
			default:
				tr.Fatal("unknown op %v", ev)
			}
		})
		if pan != "" {
			out = append(out, tr.Ev{"ev": "panic", "op": e, "msg": pan})
			break
		}
		out = append(out, e)
		for _, k := range keys {
			obs := make([]interface{}, 0, n)
			for ri := 0; ri < n; ri++ {
				obs = append(obs, r.rread(vid, ri, k))
			}
			out = append(out, tr.Ev{"ev": "snap", "k": k, "obs": obs})
		}
	}
	return out
}

func main() {
	o := tr.ParseFlags()
	w := tr.NewWriter(o.Out)
	defer w.Close()
	c, err := cluster.New(cluster.Options{Volumes: 3})
	if err != nil {
		tr.Fatal("cluster: %v", err)
	}
	defer c.Close()
	execs := tr.ReadScript(o.Script)
	results := make([][]tr.Ev, len(execs))
	var wg sync.WaitGroup
	next := make(chan int, len(execs))
	for i := range execs {
		next <- i
	}
	close(next)
	for wk := 0; wk < 20; wk++ { // latency-bound: a failing fan-out is retried 3 times with 1.4 s of sleeps
		wg.Add(1)
		go func() {
			defer wg.Done()
			r := &runner{c: c, http: &http.Client{Timeout: 30 * time.Second}}
			for i := range next {
				results[i] = r.runExec(execs[i])
			}
		}()
	}
	wg.Wait()
	if fds, err := ioutil.ReadDir("/proc/self/fd"); err == nil {
		fmt.Fprintf(os.Stderr, "open fds at end: %d after %d executions\n", len(fds), len(execs))
	}
	for _, res := range results {
		for _, e := range res {
			w.Emit(e)
		}
	}
}
