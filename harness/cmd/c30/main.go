// c30: executes file scripts (write / read / trunc / flush / reopen) on the REAL mount code
// without mounting FUSE, and interval scripts on the real dirty-page interval structures.
//
// mode wfs: filesys.NewSeaweedFileSystem against the mini-cluster's filer; Dir.Create, FileHandle
//
//	Write / Read / Flush / Release, File.Setattr / Attr / Open are called directly with the fuse
//	library's request structs, the way fs.Server dispatches them.  buf = "tmp": the production
//	temp-file dirty pages; buf = "mem": the in-memory ContinuousDirtyPages (swapped in by a hook).
//	After a flush the entry is fetched from the filer and its chunks (offset, size, rank of the
//	mtime, bytes fetched from the volume server) are recorded, and the filer's HTTP GET body.
//
// mode ivl: ContinuousIntervals (buf = "mem") and TempFileDirtyPages (buf = "tmp") directly.
//
// The driver records; it does not compare anything with an expected content.
package main

import (
	"context"
	"fmt"
	"io/ioutil"
	"net/http"
	"os"
	"sort"
	"time"

	"github.com/seaweedfs/fuse"
	"github.com/seaweedfs/fuse/fs"
	"google.golang.org/grpc"

	"github.com/chrislusf/seaweedfs/weed/filesys"
	"github.com/chrislusf/seaweedfs/weed/filesys/meta_cache"
	"github.com/chrislusf/seaweedfs/weed/pb/filer_pb"

	"verifharness/cluster"
	"verifharness/tr"
)

func ints(b []byte) []int {
	r := make([]int, len(b))
	for i, x := range b {
		r[i] = int(x)
	}
	return r
}

func bytesOf(v interface{}) []byte {
	a := tr.Ints(v)
	b := make([]byte, len(a))
	for i, x := range a {
		b[i] = byte(x)
	}
	return b
}

func errStr(err error) string {
	if err == nil {
		return ""
	}
	return err.Error()
}

type mount struct {
	c    *cluster.Cluster
	wfs  *filesys.WFS
	opt  *filesys.Option
	root *filesys.Dir
}

func newMount(c *cluster.Cluster, cacheDir string, cacheMB int64, writers int) *mount {
	mapper, _ := meta_cache.NewUidGidMapper("", "")
	opt := &filesys.Option{
		MountDirectory:     "/verif-c30",
		FilerAddresses:     []string{c.FilerAddr},
		FilerGrpcAddresses: []string{c.FilerGrpc},
		GrpcDialOption:     grpc.WithInsecure(),
		FilerMountRootPath: "/",
		ChunkSizeLimit:     4,
		ConcurrentWriters:  writers,
		CacheDir:           cacheDir,
		CacheSizeMB:        cacheMB,
		MountMode:          os.ModeDir | 0755,
		MountCtime:         time.Now(),
		MountMtime:         time.Now(),
		UidGidMapper:       mapper,
	}
	wfs := filesys.NewSeaweedFileSystem(opt)
	r, _ := wfs.Root()
	return &mount{c: c, wfs: wfs, opt: opt, root: r.(*filesys.Dir)}
}

// stored: the entry as the filer has it
func (m *mount) stored(name string) tr.Ev {
	ev := tr.Ev{"ev": "stored", "found": false, "fsize": 0, "chunks": []interface{}{}, "body": []int{}, "status": 0, "content": []int{}}
	var entry *filer_pb.Entry
	m.c.FilerClient(func(cl filer_pb.SeaweedFilerClient) error {
		resp, err := filer_pb.LookupEntry(cl, &filer_pb.LookupDirectoryEntryRequest{Directory: "/", Name: name})
		if err == nil {
			entry = resp.Entry
		}
		return nil
	})
	if entry == nil {
		return ev
	}
	ev["found"] = true
	ev["fsize"] = int(entry.Attributes.FileSize)
	ev["content"] = ints(entry.Content)
	// rank of the modification times (64-bit nanoseconds do not fit a TLC integer)
	var ms []int64
	for _, ch := range entry.Chunks {
		ms = append(ms, ch.Mtime)
	}
	sort.Slice(ms, func(i, j int) bool { return ms[i] < ms[j] })
	rank := map[int64]int{}
	for _, t := range ms {
		if _, ok := rank[t]; !ok {
			rank[t] = len(rank) + 1
		}
	}
	var chunks []interface{}
	for i, ch := range entry.Chunks {
		fid := ch.GetFileIdString()
		var data []byte
		url := ""
		m.c.FilerClient(func(cl filer_pb.SeaweedFilerClient) error {
			vid := fid[:len(fid)-len(fid[indexComma(fid):])]
			resp, err := cl.LookupVolume(context.Background(), &filer_pb.LookupVolumeRequest{VolumeIds: []string{vid}})
			if err == nil && resp.LocationsMap[vid] != nil && len(resp.LocationsMap[vid].Locations) > 0 {
				url = resp.LocationsMap[vid].Locations[0].Url
			}
			return nil
		})
		st := 0
		if url != "" {
			if r, err := http.Get("http://" + url + "/" + fid); err == nil {
				data, _ = ioutil.ReadAll(r.Body)
				r.Body.Close()
				st = r.StatusCode
			}
		}
		chunks = append(chunks, tr.Ev{"id": i + 1, "off": int(ch.Offset), "size": int(ch.Size), "mtime": rank[ch.Mtime],
			"bytes": ints(data), "st": st, "manifest": ch.IsChunkManifest})
	}
	if chunks != nil {
		ev["chunks"] = chunks
	}
	if r, err := http.Get("http://" + m.c.FilerAddr + "/" + name); err == nil {
		b, _ := ioutil.ReadAll(r.Body)
		r.Body.Close()
		ev["body"] = ints(b)
		ev["status"] = r.StatusCode
	}
	return ev
}

func indexComma(s string) int {
	for i := range s {
		if s[i] == ',' {
			return i
		}
	}
	return len(s)
}

func runWfs(o *tr.Opts, w *tr.Writer) {
	c, err := cluster.New(cluster.Options{Volumes: 1, Filer: true})
	if err != nil {
		tr.Fatal("cluster: %v", err)
	}
	defer c.Close()
	cacheDir, _ := os.MkdirTemp("", "c30-")
	defer os.RemoveAll(cacheDir)
	// mounts by (chunk cache, upload executor): `weed mount` runs with -concurrentWriters 32 by default
	mounts := map[string]*mount{}
	mountFor := func(cache, cw bool) *mount {
		key := fmt.Sprintf("%v-%v", cache, cw)
		if m, ok := mounts[key]; ok {
			return m
		}
		mb, wr := int64(0), 0
		if cache {
			mb = 1
		}
		if cw {
			wr = 4
		}
		mounts[key] = newMount(c, cacheDir+"/"+key, mb, wr)
		return mounts[key]
	}
	ctx := context.Background()
	for xi, ex := range tr.ReadScript(o.Script) {
		cfg := ex[0]
		m := mountFor(tr.B(cfg, "cache"), tr.B(cfg, "cw"))
		m.opt.ChunkSizeLimit = int64(tr.I(cfg, "limit"))
		mem := tr.S(cfg, "buf") == "mem"
		name := fmt.Sprintf("f%d-%d", os.Getpid(), xi)
		w.Emit(cfg)
		var file *filesys.File
		var fh *filesys.FileHandle
		open := func(create bool) string {
			var node fs.Node
			var h fs.Handle
			var err error
			if create {
				node, h, err = m.root.Create(ctx, &fuse.CreateRequest{Name: name, Flags: fuse.OpenReadWrite | fuse.OpenCreate, Mode: 0644}, &fuse.CreateResponse{})
			} else {
				node, err = m.root.Lookup(ctx, &fuse.LookupRequest{Name: name}, &fuse.LookupResponse{})
				if err == nil {
					h, err = node.(*filesys.File).Open(ctx, &fuse.OpenRequest{Flags: fuse.OpenReadWrite}, &fuse.OpenResponse{})
				}
			}
			if err != nil {
				return err.Error()
			}
			file, fh = node.(*filesys.File), h.(*filesys.FileHandle)
			if mem {
				filesys.VerifUseContinuousDirtyPages(fh)
			}
			return ""
		}
		if e := open(true); e != "" {
			tr.Fatal("create: %v", e)
		}
		for _, e := range ex[1:] {
			kind := tr.S(e, "ev")
			if kind == "stored" || kind == "panic" {
				continue
			}
			var extra []tr.Ev
			pan := tr.Guard(func() {
				switch kind {
				case "write":
					resp := &fuse.WriteResponse{}
					err := fh.Write(ctx, &fuse.WriteRequest{Offset: int64(tr.I(e, "off")), Data: bytesOf(e["data"])}, resp)
					e["n"], e["err"] = resp.Size, errStr(err)
				case "read":
					resp := &fuse.ReadResponse{Data: make([]byte, 0, tr.I(e, "n"))}
					err := fh.Read(ctx, &fuse.ReadRequest{Offset: int64(tr.I(e, "off")), Size: tr.I(e, "n")}, resp)
					e["got"], e["err"] = ints(resp.Data), errStr(err)
				case "trunc":
					err := file.Setattr(ctx, &fuse.SetattrRequest{Valid: fuse.SetattrSize, Size: uint64(tr.I(e, "size"))}, &fuse.SetattrResponse{})
					e["err"] = errStr(err)
				case "attr":
					a := &fuse.Attr{}
					err := file.Attr(ctx, a)
					e["size"], e["err"] = int(a.Size), errStr(err)
				case "flush":
					err := fh.Flush(ctx, &fuse.FlushRequest{})
					e["err"] = errStr(err)
					extra = append(extra, m.stored(name))
				case "reopen":
					// close(2): the kernel sends Flush, then Release; then a fresh Lookup + Open
					err := fh.Flush(ctx, &fuse.FlushRequest{})
					if err == nil {
						err = fh.Release(ctx, &fuse.ReleaseRequest{})
					}
					e["err"] = errStr(err)
					if err == nil {
						e["err"] = open(false)
					}
					extra = append(extra, m.stored(name))
				default:
					tr.Fatal("unknown op %v", kind)
				}
			})
			if pan != "" {
				w.Emit(tr.Ev{"ev": "panic", "op": e, "msg": pan})
				break
			}
			w.Emit(e)
			for _, x := range extra {
				w.Emit(x)
			}
		}
		tr.Guard(func() {
			fh.Release(ctx, &fuse.ReleaseRequest{})
			m.root.Remove(ctx, &fuse.RemoveRequest{Name: name})
		})
	}
}

// runIvl: the interval structures of the two buffers, driven through their own methods.
func runIvl(o *tr.Opts, w *tr.Writer) {
	dir, _ := os.MkdirTemp("", "c30ivl-")
	defer os.RemoveAll(dir)
	for _, ex := range tr.ReadScript(o.Script) {
		cfg := ex[0]
		mem := tr.S(cfg, "buf") == "mem"
		w.Emit(cfg)
		var ci *filesys.ContinuousIntervals
		var tp *filesys.TempFileDirtyPages
		if mem {
			ci = &filesys.ContinuousIntervals{}
		} else {
			tp = filesys.VerifNewTempFileDirtyPages(dir, int64(tr.I(cfg, "limit")))
		}
		for _, e := range ex[1:] {
			kind := tr.S(e, "ev")
			if kind == "panic" {
				continue
			}
			pan := tr.Guard(func() {
				switch kind {
				case "add":
					if mem {
						ci.AddInterval(bytesOf(e["data"]), int64(tr.I(e, "off")))
					} else {
						tp.AddPage(int64(tr.I(e, "off")), bytesOf(e["data"]))
					}
				case "dread":
					buf := make([]byte, tr.I(e, "n"))
					for i := range buf {
						buf[i] = 255
					}
					var stop int64
					if mem {
						stop = ci.ReadDataAt(buf, int64(tr.I(e, "off")))
					} else {
						stop = tp.ReadDirtyDataAt(buf, int64(tr.I(e, "off")))
					}
					e["got"], e["stop"] = ints(buf), int(stop)
				case "lists":
					ls := []interface{}{}
					if mem {
						for _, l := range ci.VerifLists() {
							b, _ := ioutil.ReadAll(l.ToReader())
							ls = append(ls, tr.Ev{"off": int(l.Offset()), "size": int(l.Size()), "bytes": ints(b)})
						}
					} else {
						for _, l := range tp.VerifLists() {
							b, _ := ioutil.ReadAll(l.ToReader(l.Offset(), l.Offset()+l.Size()))
							ls = append(ls, tr.Ev{"off": int(l.Offset()), "size": int(l.Size()), "bytes": ints(b)})
						}
					}
					e["ls"] = ls
				case "take":
					e["off"], e["size"], e["bytes"] = 0, -1, []int{}
					if mem {
						if l := ci.RemoveLargestIntervalLinkedList(); l != nil {
							b, _ := ioutil.ReadAll(l.ToReader())
							e["off"], e["size"], e["bytes"] = int(l.Offset()), int(l.Size()), ints(b)
						}
					} else {
						if l := tp.VerifIntervals().RemoveLargestIntervalLinkedList(); l != nil {
							b, _ := ioutil.ReadAll(l.ToReader(l.Offset(), l.Offset()+l.Size()))
							e["off"], e["size"], e["bytes"] = int(l.Offset()), int(l.Size()), ints(b)
						}
					}
				default:
					tr.Fatal("unknown op %v", kind)
				}
			})
			if pan != "" {
				w.Emit(tr.Ev{"ev": "panic", "op": e, "msg": pan})
				break
			}
			w.Emit(e)
		}
		if tp != nil {
			tp.VerifClose()
		}
	}
}

func main() {
	o := tr.ParseFlags()
	w := tr.NewWriter(o.Out)
	defer w.Close()
	switch o.Mode {
	case "wfs":
		runWfs(o, w)
	case "ivl":
		runIvl(o, w)
	default:
		tr.Fatal("unknown mode %q", o.Mode)
	}
}
