// c27: builds small buckets through a real S3 gateway (real filer, real volume server) and records
// ListObjects V1/V2 pages - single requests and whole pagination loops driven the way a client would
// (NextMarker, last key, NextContinuationToken, start-after = last key). Per page it records the request
// and the parsed XML (Contents keys, CommonPrefixes, IsTruncated, NextMarker / NextContinuationToken).
// The driver decides nothing; S3ListTrace.tla judges. Keys travel as sequences of single characters.
package main

import (
	"bytes"
	"encoding/xml"
	"io/ioutil"
	"net/http"
	"net/url"
	"strconv"
	"strings"
	"time"

	"github.com/gorilla/mux"
	"google.golang.org/grpc"

	"github.com/chrislusf/seaweedfs/weed/pb/filer_pb"
	"github.com/chrislusf/seaweedfs/weed/s3api"

	"verifharness/cluster"
	"verifharness/tr"
)

var (
	c                 *cluster.Cluster
	client            = &http.Transport{MaxIdleConnsPerHost: 16}
	gws               = map[string]string{} // gateway name -> address
	nb                = 0                   // bucket counter
	curSig, curBucket string
)

func must(err error, what string) {
	if err != nil {
		tr.Fatal("%s: %v", what, err)
	}
}

func toks(s string) []interface{} {
	out := make([]interface{}, 0, len(s))
	for _, r := range s {
		out = append(out, string(r))
	}
	return out
}

func join(v interface{}) string { return strings.Join(tr.Strs(v), "") }

func tokList(ss []string) []interface{} {
	out := make([]interface{}, 0, len(ss))
	for _, s := range ss {
		out = append(out, toks(s))
	}
	return out
}

func escKey(k string) string {
	parts := strings.Split(k, "/")
	for i, p := range parts {
		parts[i] = url.PathEscape(p)
	}
	return strings.Join(parts, "/")
}

func do(method, addr, rawPath string, q url.Values, body []byte) (int, []byte) {
	u := "http://" + addr + rawPath
	if len(q) > 0 {
		u += "?" + q.Encode()
	}
	var req *http.Request
	var err error
	if body != nil {
		req, err = http.NewRequest(method, u, bytes.NewReader(body))
	} else {
		req, err = http.NewRequest(method, u, nil)
	}
	must(err, "request")
	resp, err := client.RoundTrip(req)
	if err != nil {
		return 0, nil
	}
	b, _ := ioutil.ReadAll(resp.Body)
	resp.Body.Close()
	return resp.StatusCode, b
}

// a second gateway over the same filer that shows empty folders
func gateway(name string) string {
	if a, ok := gws[name]; ok {
		return a
	}
	sp := cluster.FreePort()
	router := mux.NewRouter().SkipClean(true)
	_, err := s3api.NewS3ApiServer(router, &s3api.S3ApiServerOption{Filer: c.FilerAddr, Port: sp,
		FilerGrpcAddress: c.FilerGrpc, BucketsPath: "/buckets", GrpcDialOption: grpc.WithInsecure(),
		AllowEmptyFolder: name == "allowempty"})
	must(err, "gateway")
	cluster.ServeHttp(sp, router)
	a := "127.0.0.1:" + strconv.Itoa(sp)
	for i := 0; i < 100; i++ {
		if resp, err := http.Get("http://" + a + "/"); err == nil {
			resp.Body.Close()
			break
		}
		time.Sleep(20 * time.Millisecond)
	}
	gws[name] = a
	return a
}

type listResult struct {
	Contents []struct {
		Key string `xml:"Key"`
	} `xml:"Contents"`
	CommonPrefixes []struct {
		Prefix string `xml:"Prefix"`
	} `xml:"CommonPrefixes"`
	IsTruncated           bool   `xml:"IsTruncated"`
	NextMarker            string `xml:"NextMarker"`
	NextContinuationToken string `xml:"NextContinuationToken"`
}

// ensure puts every key that a HEAD does not find and (re)creates the in-progress upload; returns the put
// statuses (0 = was already there) and what HEAD says afterwards.
func ensure(addr, bucket string, keys []string, upl bool, fresh bool) (puts []interface{}, present []interface{}) {
	puts = make([]interface{}, 0)
	present = make([]interface{}, 0)
	for _, k := range keys {
		st := 0
		if !fresh {
			st, _ = do("HEAD", addr, "/"+bucket+"/"+escKey(k), nil, nil)
		}
		if st == 200 {
			puts = append(puts, 0)
			continue
		}
		st, _ = do("PUT", addr, "/"+bucket+"/"+escKey(k), nil, []byte("D:"+k))
		puts = append(puts, st)
	}
	if upl && fresh {
		st, body := do("POST", addr, "/"+bucket+"/mp", url.Values{"uploads": {""}}, nil)
		var r struct {
			UploadId string `xml:"UploadId"`
		}
		xml.Unmarshal(body, &r)
		if st != 200 || r.UploadId == "" {
			tr.Fatal("initiate multipart: %d %s", st, body)
		}
		st, _ = do("PUT", addr, "/"+bucket+"/mp", url.Values{"uploadId": {r.UploadId}, "partNumber": {"1"}}, []byte("PARTDATA"))
		if st != 200 {
			tr.Fatal("upload part: %d", st)
		}
	}
	// candidates: what was put and every file the filer holds below the bucket outside .uploads
	cand := append([]string{}, keys...)
	seen := map[string]bool{}
	for _, k := range keys {
		seen[k] = true
	}
	for _, f := range walk(bucket, false) {
		if !seen[f] && f != ".uploads" && !strings.HasPrefix(f, ".uploads/") {
			seen[f] = true
			cand = append(cand, f)
		}
	}
	for _, k := range cand {
		st, _ := do("HEAD", addr, "/"+bucket+"/"+escKey(k), nil, nil)
		if st == 200 {
			present = append(present, toks(k))
		}
	}
	return
}

// walk lists the bucket through the filer: files (relative paths) or folders (relative paths ending in "/").
// Folders let the judge tell an existing empty folder from an invented common prefix.
func walk(bucket string, wantDirs bool) []string {
	out := make([]string, 0)
	c.FilerClient(func(cl filer_pb.SeaweedFilerClient) error {
		var rec func(dir, rel string)
		rec = func(dir, rel string) {
			filer_pb.SeaweedList(cl, dir, "", func(e *filer_pb.Entry, isLast bool) error {
				if e.IsDirectory {
					if wantDirs {
						out = append(out, rel+e.Name+"/")
					}
					rec(dir+"/"+e.Name, rel+e.Name+"/")
				} else if !wantDirs {
					out = append(out, rel+e.Name)
				}
				return nil
			}, "", false, 10000)
		}
		rec("/buckets/"+bucket, "")
		return nil
	})
	return out
}

func page(addr, bucket string, e tr.Ev, after string) (status int, r listResult) {
	q := url.Values{}
	api, style := tr.S(e, "api"), tr.S(e, "style")
	if api == "v2" {
		q.Set("list-type", "2")
	}
	if p := join(e["prefix"]); p != "" {
		q.Set("prefix", p)
	}
	if d := tr.S(e, "delim"); d != "" {
		q.Set("delimiter", d)
	}
	q.Set("max-keys", strconv.Itoa(tr.I(e, "maxkeys")))
	if after != "" {
		switch {
		case api == "v1":
			q.Set("marker", after)
		case style == "token":
			q.Set("continuation-token", after)
		default:
			q.Set("start-after", after)
		}
	}
	status, body := do("GET", addr, "/"+bucket, q, nil)
	if status == 200 {
		if err := xml.Unmarshal(body, &r); err != nil {
			status = -1
		}
	}
	return
}

func runExec(w *tr.Writer, ex []tr.Ev) {
	reset := ex[0]
	keys := make([]string, 0)
	for _, k := range tr.List(reset["keys"]) {
		keys = append(keys, join(k))
	}
	upl := tr.B(reset, "upl")
	gw := tr.S(reset, "gw")
	if gw == "" {
		gw = "default"
	}
	addr := c.S3Addr
	if gw != "default" {
		addr = gateway(gw)
	}
	// one live bucket at a time (a bucket is a collection with its own volumes): scripts are sorted by content
	sig := strings.Join(keys, "\x00") + "|" + strconv.FormatBool(upl)
	fresh := sig != curSig
	if fresh {
		if curBucket != "" {
			do("DELETE", c.S3Addr, "/"+curBucket, nil, nil)
		}
		nb++
		curBucket, curSig = "bk"+strconv.Itoa(nb), sig
		st, _ := do("PUT", addr, "/"+curBucket, nil, nil)
		if st != 200 {
			tr.Fatal("create bucket: %d", st)
		}
	}
	bucket := curBucket
	puts, present := ensure(addr, bucket, keys, upl, fresh)
	reset["puts"], reset["present"], reset["gw"], reset["upl"] = puts, present, gw, upl
	w.Emit(reset)
	for idx, e := range ex[1:] {
		// a recorded trace is a script too: the first page of a recorded loop restarts that loop
		if tr.S(e, "ev") == "page" && tr.I(e, "i") == 1 {
			e = tr.Copy(e)
			e["ev"], e["maxpages"] = "loop", 1
			for _, f := range ex[idx+2:] {
				if tr.S(f, "ev") == "end" {
					e["maxpages"] = 12
				}
				if tr.S(f, "ev") != "page" || tr.I(f, "i") == 1 {
					break
				}
			}
		}
		if tr.S(e, "ev") != "loop" {
			continue
		}
		after := join(e["after"])
		maxPages := tr.I(e, "maxpages")
		if maxPages == 0 {
			maxPages = 1
		}
		why := "cap"
		for i := 1; i <= maxPages; i++ {
			zdirs := tokList(walk(bucket, true))
			st, r := page(addr, bucket, e, after)
			ks := make([]string, 0)
			for _, x := range r.Contents {
				ks = append(ks, x.Key)
			}
			cps := make([]string, 0)
			for _, x := range r.CommonPrefixes {
				cps = append(cps, x.Prefix)
			}
			next := r.NextMarker
			if tr.S(e, "api") == "v2" {
				next = r.NextContinuationToken
			}
			w.Emit(tr.Ev{"ev": "page", "i": i, "api": e["api"], "style": e["style"], "prefix": e["prefix"], "delim": e["delim"],
				"maxkeys": e["maxkeys"], "after": toks(after), "status": st, "keys": tokList(ks), "cps": tokList(cps),
				"trunc": r.IsTruncated, "next": toks(next), "zdirs": zdirs})
			if st != 200 {
				why = "error"
				break
			}
			if !r.IsTruncated {
				why = "done"
				break
			}
			// the client's continuation
			switch tr.S(e, "style") {
			case "marker", "token":
				after = next
			default: // lastkey, startafter: the last key of the page; a page that ends in a common prefix only
				// tells where to go on through the server's marker / token
				if len(cps) == 0 && len(ks) > 0 {
					after = ks[len(ks)-1]
				} else {
					after = next
				}
			}
			if after == "" {
				why = "stuck"
				break
			}
		}
		if maxPages > 1 {
			w.Emit(tr.Ev{"ev": "end", "why": why})
		}
	}
}

func main() {
	o := tr.ParseFlags()
	w := tr.NewWriter(o.Out)
	defer w.Close()
	execs := tr.ReadScript(o.Script)
	var err error
	c, err = cluster.New(cluster.Options{Volumes: 1, S3: true})
	must(err, "cluster")
	defer c.Close()
	for i := 0; i < 100; i++ {
		if st, _ := do("PUT", c.S3Addr, "/warmup", nil, nil); st == 200 {
			if st, _ = do("PUT", c.S3Addr, "/warmup/x", nil, []byte("x")); st == 200 {
				break
			}
		}
		time.Sleep(50 * time.Millisecond)
	}
	for _, ex := range execs {
		ex := ex
		if pan := tr.Guard(func() { runExec(w, ex) }); pan != "" {
			w.Emit(tr.Ev{"ev": "panic", "msg": pan})
		}
	}
}
