// c08: calls the real SeaweedFS codecs (TTL, replica placement, file id, index
// entry, super block) with the inputs of a script and records what they return.
// Numbers wider than 16 bits travel as big-endian byte lists, text as code points.
// The driver converts representations and records; it never compares.
package main

import (
	"bytes"
	"encoding/binary"
	"net/http"
	"net/http/httptest"
	"net/url"
	"os"
	"path/filepath"

	"github.com/chrislusf/seaweedfs/weed/pb/master_pb"
	"github.com/chrislusf/seaweedfs/weed/storage/backend"
	"github.com/chrislusf/seaweedfs/weed/storage/idx"
	"github.com/chrislusf/seaweedfs/weed/storage/needle"
	"github.com/chrislusf/seaweedfs/weed/storage/needle_map"
	"github.com/chrislusf/seaweedfs/weed/storage/super_block"
	"github.com/chrislusf/seaweedfs/weed/storage/types"

	"verifharness/tr"
)

func str(v interface{}) string {
	cps := tr.Ints(v)
	rs := make([]rune, len(cps))
	for i, c := range cps {
		rs[i] = rune(c)
	}
	return string(rs)
}

func cps(s string) []int {
	r := []int{}
	for _, c := range s {
		r = append(r, int(c))
	}
	return r
}

func byteList(b []byte) []int {
	r := make([]int, len(b))
	for i, x := range b {
		r[i] = int(x)
	}
	return r
}

func toBytes(v interface{}) []byte {
	is := tr.Ints(v)
	b := make([]byte, len(is))
	for i, x := range is {
		b[i] = byte(x)
	}
	return b
}

func be(v interface{}) uint64 {
	var x uint64
	for _, b := range toBytes(v) {
		x = x<<8 | uint64(b)
	}
	return x
}

func beBytes(x uint64, n int) []int {
	b := make([]byte, 8)
	binary.BigEndian.PutUint64(b, x)
	return byteList(b[8-n:])
}

func rpList(rp *super_block.ReplicaPlacement) []int {
	if rp == nil {
		return []int{0, 0, 0}
	}
	return []int{rp.DiffDataCenterCount, rp.DiffRackCount, rp.SameRackCount}
}

func ttlList(t *needle.TTL) []int {
	if t == nil {
		return []int{0, 0}
	}
	return []int{int(t.Count), int(t.Unit)}
}

func ttlRes(t *needle.TTL, err error) tr.Ev {
	l := ttlList(t)
	if err != nil {
		l = []int{0, 0}
	}
	return tr.Ev{"err": err != nil, "c": l[0], "u": l[1]}
}

// upload hands the request to the volume server's upload parser the way VolumeServer.PostHandler does
func upload(r *http.Request, ok func(*needle.Needle) tr.Ev, failed tr.Ev) tr.Ev {
	if err := r.ParseForm(); err != nil {
		return failed
	}
	n, _, _, err := needle.CreateNeedleFromRequest(r, false, 1<<20, &bytes.Buffer{})
	if err != nil || n == nil {
		return failed
	}
	return ok(n)
}

func rpRes(rp *super_block.ReplicaPlacement, err error) tr.Ev {
	if err != nil {
		return tr.Ev{"err": true, "p": []int{0, 0, 0}}
	}
	return tr.Ev{"err": false, "p": rpList(rp)}
}

func fidRes(f *needle.FileId, err error) tr.Ev {
	if err != nil || f == nil {
		return tr.Ev{"err": true, "vid": []int{}, "key": []int{}, "ck": []int{}}
	}
	return tr.Ev{"err": false, "vid": beBytes(uint64(f.VolumeId), 4), "key": beBytes(uint64(f.Key), 8), "ck": beBytes(uint64(f.Cookie), 4)}
}

var tmpDir string
var fileSeq int

func tempFile(content []byte) *os.File {
	fileSeq++
	f, err := os.OpenFile(filepath.Join(tmpDir, "f"+itoa(fileSeq%8)), os.O_RDWR|os.O_CREATE|os.O_TRUNC, 0644)
	if err != nil {
		tr.Fatal("temp file: %v", err)
	}
	if _, err := f.Write(content); err != nil {
		tr.Fatal("temp write: %v", err)
	}
	return f
}

func itoa(i int) string { return string(rune('0' + i)) }

func extraEv(x *master_pb.SuperBlockExtra) tr.Ev {
	e := tr.Ev{"present": false, "data": 0, "parity": 0, "ids": []int{}}
	if x != nil && x.ErasureCoding != nil {
		e["present"] = true
		e["data"] = int(x.ErasureCoding.Data)
		e["parity"] = int(x.ErasureCoding.Parity)
		ids := []int{}
		for _, v := range x.ErasureCoding.VolumeIds {
			ids = append(ids, int(v))
		}
		e["ids"] = ids
	}
	return e
}

func sbRes(sb super_block.SuperBlock, err error) tr.Ev {
	if err != nil {
		return tr.Ev{"err": true, "ver": 0, "p": []int{0, 0, 0}, "ttl": []int{0, 0}, "rev": 0, "es": 0, "extra": extraEv(nil)}
	}
	return tr.Ev{"err": false, "ver": int(sb.Version), "p": rpList(sb.ReplicaPlacement), "ttl": ttlList(sb.Ttl),
		"rev": int(sb.CompactionRevision), "es": int(sb.ExtraSize), "extra": extraEv(sb.Extra)}
}

func step(e tr.Ev) {
	switch tr.S(e, "ev") {
	case "ttlval":
		t := &needle.TTL{Count: byte(tr.I(e, "c")), Unit: byte(tr.I(e, "u"))}
		s := t.String()
		u32 := t.ToUint32()
		by := make([]byte, 2)
		t.ToBytes(by)
		fs, err := needle.ReadTTL(s)
		e["res"] = tr.Ev{"str": cps(s), "u32": int(u32), "by": byteList(by),
			"fb": ttlList(needle.LoadTTLFromBytes(by)), "fu": ttlList(needle.LoadTTLFromUint32(u32)),
			"fs": ttlRes(fs, err)}
	case "ttlstr":
		t, err := needle.ReadTTL(str(e["s"]))
		e["res"] = ttlRes(t, err)
	case "upttl":
		// the same text as the ttl parameter of an upload (how a TTL string enters a stored needle)
		r := httptest.NewRequest("PUT", "/3,01deadbeef?ttl="+url.QueryEscape(str(e["s"])), bytes.NewReader([]byte("data")))
		e["res"] = upload(r, func(n *needle.Needle) tr.Ev { return ttlRes(n.Ttl, nil) }, ttlRes(nil, os.ErrInvalid))
	case "upfid":
		// the text behind the comma of an upload path "/<vid>,<key hex><cookie hex>[_<delta>][.<ext>]"
		r := httptest.NewRequest("PUT", "/", bytes.NewReader([]byte("data")))
		r.URL.Path = "/3," + str(e["s"])
		e["res"] = upload(r, func(n *needle.Needle) tr.Ev {
			return tr.Ev{"err": false, "key": beBytes(uint64(n.Id), 8), "ck": beBytes(uint64(n.Cookie), 4)}
		}, tr.Ev{"err": true, "key": []int{}, "ck": []int{}})
	case "rpval":
		p := tr.Ints(e["p"])
		rp := &super_block.ReplicaPlacement{DiffDataCenterCount: p[0], DiffRackCount: p[1], SameRackCount: p[2]}
		s := rp.String()
		b := rp.Byte()
		e["res"] = tr.Ev{"str": cps(s), "by": int(b),
			"fs": rpRes(super_block.NewReplicaPlacementFromString(s)),
			"fb": rpRes(super_block.NewReplicaPlacementFromByte(b))}
	case "rpstr":
		e["res"] = rpRes(super_block.NewReplicaPlacementFromString(str(e["s"])))
	case "rpbyte":
		e["res"] = rpRes(super_block.NewReplicaPlacementFromByte(byte(tr.I(e, "b"))))
	case "fidval":
		f := needle.NewFileId(needle.VolumeId(be(e["vid"])), be(e["key"]), uint32(be(e["ck"])))
		s := f.String()
		e["res"] = tr.Ev{"str": cps(s), "back": fidRes(needle.ParseFileIdFromString(s))}
	case "fidstr":
		e["res"] = fidRes(needle.ParseFileIdFromString(str(e["s"])))
	case "path":
		n := new(needle.Needle)
		err := n.ParsePath(str(e["s"]))
		r := tr.Ev{"err": err != nil, "key": []int{}, "ck": []int{}}
		if err == nil {
			r["key"], r["ck"] = beBytes(uint64(n.Id), 8), beBytes(uint64(n.Cookie), 4)
		}
		e["res"] = r
	case "idx":
		key := types.NeedleId(be(e["key"]))
		off := types.ToOffset(int64(be(e["off"])) * types.NeedlePaddingSize)
		size := types.Size(int32(uint32(be(e["size"]))))
		by := needle_map.ToBytes(key, off, size)
		nv := needle_map.NeedleValue{Key: key, Offset: off, Size: size}.ToBytes()
		k2, o2, s2 := idx.IdxFileEntry(by)
		e["res"] = tr.Ev{"by": byteList(by), "nv": byteList(nv), "back": tr.Ev{"key": beBytes(uint64(k2), 8),
			"off": beBytes(uint64(o2.ToActualOffset()/types.NeedlePaddingSize), 5), "size": beBytes(uint64(uint32(s2)), 4)}}
	case "idxraw":
		by := toBytes(e["by"])
		if len(by) != types.NeedleMapEntrySize {
			e["res"] = tr.Ev{"key": []int{}, "off": []int{}, "size": []int{}, "re": []int{}}
			break
		}
		k, o, s := idx.IdxFileEntry(by)
		e["res"] = tr.Ev{"key": beBytes(uint64(k), 8), "off": beBytes(uint64(o.ToActualOffset()/types.NeedlePaddingSize), 5),
			"size": beBytes(uint64(uint32(s)), 4), "re": byteList(needle_map.ToBytes(k, o, s))}
	case "walk":
		var buf bytes.Buffer
		for _, x := range tr.List(e["ents"]) {
			t := tr.Ints(x)
			buf.Write(needle_map.ToBytes(types.NeedleId(uint64(t[0])), types.ToOffset(int64(t[1])*types.NeedlePaddingSize), types.Size(int32(t[2]))))
		}
		got := [][]int{}
		err := idx.WalkIndexFile(bytes.NewReader(buf.Bytes()), func(k types.NeedleId, o types.Offset, s types.Size) error {
			got = append(got, []int{int(k), int(o.ToActualOffset() / types.NeedlePaddingSize), int(s)})
			return nil
		})
		e["res"] = tr.Ev{"err": err != nil, "got": got}
	case "sbval":
		p := tr.Ints(e["p"])
		t := tr.Ints(e["ttl"])
		sb := super_block.SuperBlock{Version: needle.Version(tr.I(e, "ver")),
			ReplicaPlacement:   &super_block.ReplicaPlacement{DiffDataCenterCount: p[0], DiffRackCount: p[1], SameRackCount: p[2]},
			Ttl:                &needle.TTL{Count: byte(t[0]), Unit: byte(t[1])},
			CompactionRevision: uint16(tr.I(e, "rev"))}
		x, _ := e["extra"].(map[string]interface{})
		if tr.B(x, "present") {
			ids := []uint32{}
			for _, v := range tr.Ints(x["ids"]) {
				ids = append(ids, uint32(v))
			}
			if len(ids) == 0 {
				ids = nil
			}
			sb.Extra = &master_pb.SuperBlockExtra{ErasureCoding: &master_pb.SuperBlockExtra_ErasureCoding{
				Data: uint32(tr.I(x, "data")), Parity: uint32(tr.I(x, "parity")), VolumeIds: ids}}
		}
		by := sb.Bytes()
		bs := sb.BlockSize()
		// the file continues with needle records: the decoder must take exactly its own bytes
		f := tempFile(append(append([]byte{}, by...), bytes.Repeat([]byte{0xEE}, 24)...))
		back, err := super_block.ReadSuperBlock(backend.NewDiskFile(f))
		f.Close()
		e["res"] = tr.Ev{"by": byteList(by), "bs": bs, "back": sbRes(back, err)}
	case "sbraw":
		f := tempFile(toBytes(e["by"]))
		back, err := super_block.ReadSuperBlock(backend.NewDiskFile(f))
		f.Close()
		r := sbRes(back, err)
		delete(r, "extra")
		e["res"] = r
	default:
		tr.Fatal("unknown op %v", e["ev"])
	}
}

func main() {
	o := tr.ParseFlags()
	w := tr.NewWriter(o.Out)
	defer w.Close()
	var err error
	tmpDir, err = os.MkdirTemp("", "c08-")
	if err != nil {
		tr.Fatal("tmp: %v", err)
	}
	defer os.RemoveAll(tmpDir)
	for _, ex := range tr.ReadScript(o.Script) {
		ex[0]["offsetSize"] = types.OffsetSize
		w.Emit(ex[0])
		for _, e := range ex[1:] {
			if tr.S(e, "ev") == "panic" {
				continue
			}
			delete(e, "res")
			pan := tr.Guard(func() { step(e) })
			if pan != "" {
				w.Emit(tr.Ev{"ev": "panic", "op": e, "msg": pan})
				break
			}
			w.Emit(e)
		}
	}
}
