// cmove: the live volume move of the shell (volume.move / volume.balance: LiveMoveVolume = copyVolume +
// tailVolume + delete source) between two REAL volume servers, step by step over the same RPCs, so that
// writes and deletes can land on the source between the copy and the tail, as the procedure intends.
// Ops: write{k,d} delete{k} compact (all on the source over HTTP / vacuum RPCs), copy, tail.
// After every op every key is read on the source; after a tail every key is read on the target.
package main

import (
	"bytes"
	"context"
	"io/ioutil"
	"mime/multipart"
	"net/http"
	"time"

	"github.com/chrislusf/seaweedfs/weed/pb/volume_server_pb"
	"github.com/chrislusf/seaweedfs/weed/storage/needle"

	"verifharness/cluster"
	"verifharness/tr"
)

var datas = map[string][]byte{
	"a": []byte("AAAA-data-a"),
	"b": []byte("bbbbbbbbbbbbbbbbbbbbbbbb-data-b"),
	"L": bytes.Repeat([]byte("0123456789abcdef"), 40),
	"c": []byte("CCCC-data-c"), // same length as a
}

const cookie = 0x11111111

func dataToken(b []byte) string {
	for t, v := range datas {
		if bytes.Equal(v, b) {
			return t
		}
	}
	return "?"
}

func main() {
	o := tr.ParseFlags()
	w := tr.NewWriter(o.Out)
	defer w.Close()
	c, err := cluster.New(cluster.Options{Volumes: 2})
	if err != nil {
		tr.Fatal("cluster: %v", err)
	}
	defer c.Close()
	url := c.Volumes[0].Url
	hc := &http.Client{Timeout: 30 * time.Second}
	ctx := context.Background()
	target := c.Volumes[1].Url
	for xi, ex := range tr.ReadScript(o.Script) {
		vid, err := c.NewVolume("", "000", "")
		if err != nil {
			tr.Fatal("new volume: %v", err)
		}
		_ = xi
		var sinceNs uint64
		keys := tr.Ints(ex[0]["keys"])
		w.Emit(ex[0])
		fid := func(k int) string { return needle.NewFileId(needle.VolumeId(vid), uint64(k), cookie).String() }
		admin := func(f func(cl volume_server_pb.VolumeServerClient) error) string {
			if err := cluster.WithVolumeServer(url, f); err != nil {
				return "err"
			}
			return "ok"
		}
		readSrc := func(k int) tr.Ev {
			e := tr.Ev{"ev": "sread", "k": k, "st": "err", "d": ""}
			resp, err := hc.Get("http://" + url + "/" + fid(k))
			if err != nil {
				return e
			}
			body, _ := ioutil.ReadAll(resp.Body)
			resp.Body.Close()
			if resp.StatusCode == 200 {
				e["st"] = "data"
				e["d"] = dataToken(body)
			} else if resp.StatusCode == 404 {
				e["st"] = "notfound"
			}
			return e
		}
		for _, e := range ex[1:] {
			ev := tr.S(e, "ev")
			if ev == "sread" || ev == "bread" {
				continue
			}
			e = tr.Copy(e)
			e["res"] = "ok"
			pan := tr.Guard(func() {
				switch ev {
				case "write":
					var buf bytes.Buffer
					mw := multipart.NewWriter(&buf)
					pw, _ := mw.CreateFormField("file")
					pw.Write(datas[tr.S(e, "d")])
					mw.Close()
					req, _ := http.NewRequest("POST", "http://"+url+"/"+fid(tr.I(e, "k")), &buf)
					req.Header.Set("Content-Type", mw.FormDataContentType())
					resp, err := hc.Do(req)
					if err != nil {
						e["res"] = "err"
						return
					}
					ioutil.ReadAll(resp.Body)
					resp.Body.Close()
					if resp.StatusCode != 201 && resp.StatusCode != 204 {
						e["res"] = "err"
					}
				case "delete":
					req, _ := http.NewRequest("DELETE", "http://"+url+"/"+fid(tr.I(e, "k")), nil)
					resp, err := hc.Do(req)
					if err != nil {
						e["res"] = "err"
						return
					}
					ioutil.ReadAll(resp.Body)
					resp.Body.Close()
					if resp.StatusCode == 404 {
						e["res"] = "notfound"
					} else if resp.StatusCode != 202 {
						e["res"] = "err"
					}
				case "compact":
					e["res"] = admin(func(cl volume_server_pb.VolumeServerClient) error {
						if _, err := cl.VacuumVolumeCompact(ctx, &volume_server_pb.VacuumVolumeCompactRequest{VolumeId: vid}); err != nil {
							return err
						}
						_, err := cl.VacuumVolumeCommit(ctx, &volume_server_pb.VacuumVolumeCommitRequest{VolumeId: vid})
						return err
					})
				case "copy":
					// copyVolume: mark the source read-only if it is not, VolumeCopy on the target, mark writable again
					e["res"] = admin(func(cl volume_server_pb.VolumeServerClient) error {
						_, err := cl.VolumeMarkReadonly(ctx, &volume_server_pb.VolumeMarkReadonlyRequest{VolumeId: vid})
						return err
					})
					if err := cluster.WithVolumeServer(target, func(cl volume_server_pb.VolumeServerClient) error {
						resp, err := cl.VolumeCopy(ctx, &volume_server_pb.VolumeCopyRequest{VolumeId: vid, SourceDataNode: url})
						if err == nil {
							sinceNs = resp.LastAppendAtNs
						}
						return err
					}); err != nil {
						e["res"] = "err"
						e["detail"] = err.Error()
					}
					admin(func(cl volume_server_pb.VolumeServerClient) error {
						_, err := cl.VolumeMarkWritable(ctx, &volume_server_pb.VolumeMarkWritableRequest{VolumeId: vid})
						return err
					})
				case "tail":
					if err := cluster.WithVolumeServer(target, func(cl volume_server_pb.VolumeServerClient) error {
						_, err := cl.VolumeTailReceiver(ctx, &volume_server_pb.VolumeTailReceiverRequest{VolumeId: vid, SinceNs: sinceNs,
							IdleTimeoutSeconds: 1, SourceVolumeServer: url})
						return err
					}); err != nil {
						e["res"] = "err"
						e["detail"] = err.Error()
					}
				default:
					tr.Fatal("unknown op %s", ev)
				}
			})
			if pan != "" {
				w.Emit(tr.Ev{"ev": "panic", "op": e, "msg": pan})
				break
			}
			w.Emit(e)
			for _, k := range keys {
				w.Emit(readSrc(k))
			}
			if ev == "tail" {
				for _, k := range keys {
					r := tr.Ev{"ev": "bread", "k": k, "st": "err", "d": ""}
					resp, err := hc.Get("http://" + target + "/" + fid(k))
					if err == nil {
						body, _ := ioutil.ReadAll(resp.Body)
						resp.Body.Close()
						if resp.StatusCode == 200 {
							r["st"] = "data"
							r["d"] = dataToken(body)
						} else if resp.StatusCode == 404 {
							r["st"] = "notfound"
						}
					}
					w.Emit(r)
				}
			}
		}
		cluster.WithVolumeServer(target, func(cl volume_server_pb.VolumeServerClient) error {
			cl.VolumeDelete(ctx, &volume_server_pb.VolumeDeleteRequest{VolumeId: vid})
			return nil
		})
		admin(func(cl volume_server_pb.VolumeServerClient) error {
			_, err := cl.VolumeDelete(ctx, &volume_server_pb.VolumeDeleteRequest{VolumeId: vid})
			return err
		})
	}
}
