// c06: executes erasure-coding scripts on the real weed/storage/erasure_coding
// package and records what it did. No expectations live here: the driver writes
// the data file the script describes, runs the real encoder / locator /
// rebuilder / decoder and records sizes, hashes and the bytes read (run-length
// coded, see runs()).
//
// Script (one execution per data file):
//
//	{"ev":"reset","large":8,"small":2,"buf":2,"n":83,"unit":1,"ka":7,"kb":3,"real":false,"vol":false}
//	{"ev":"encode"}
//	{"ev":"reads","off":16,"sizes":[1,2,8,67]}
//	{"ev":"rebuild","lost":[0,11]}
//	{"ev":"decode","size":83}                            (unit is echoed into the recorded event)
//	{"ev":"mount","needles":[[5,2,100],[9,40,3000]]}     (real=true only: id, offset/8, size)
//	{"ev":"needle","id":9}
//
// real=false: generateEcFiles / generateMissingEcFiles through the verif hook
// with the given block sizes; real=true: WriteEcFiles / RebuildEcFiles /
// WriteDatFile with the production constants (1 GiB / 1 MiB).
// unit > 1 (by hand only, tens of GiB of disk): the data file has n*unit bytes, is
// sparse with a distinct 8-byte mark at the start of every MiB, and only encode and
// decode (size in the same unit) are supported.
//
// mount writes an .ecx with the given entries and opens the real EcVolume with its
// 14 EcVolumeShards; needle runs EcVolume.LocateEcShardNeedle and reads the intervals
// as Store.readOneEcShardInterval does for local shards (FindEcVolumeShard + ReadAt).
//
// "vol": true in the reset line: the life cycle of one real volume, see vol.go.
//
// A read mirrors EcVolume.LocateEcShardNeedle + Store.readOneEcShardInterval:
// LocateData(large, small, DataShardsCount*<size of a shard file>, off, size),
// then for every interval ToShardIdAndOffset and ReadAt on the content of that
// shard file (read back from disk after the encoder / rebuilder wrote it).
package main

import (
	"bytes"
	"crypto/sha256"
	"encoding/binary"
	"encoding/hex"
	"flag"
	"fmt"
	"io"
	"os"
	"path/filepath"
	"sort"

	ec "github.com/chrislusf/seaweedfs/weed/storage/erasure_coding"
	"github.com/chrislusf/seaweedfs/weed/storage/needle"
	"github.com/chrislusf/seaweedfs/weed/storage/needle_map"
	"github.com/chrislusf/seaweedfs/weed/storage/types"

	"verifharness/tr"
)

type exec struct {
	dir          string
	base         string
	large, small int64
	buf          int
	n            int
	unit         int // 1, or bytes per unit of n for the huge sparse files
	ka, kb       int
	real         bool
	pristine     [][]byte // the 14 shard files as the encoder wrote them
	dirty        bool     // the shard files on disk may differ from pristine (after a rebuild)
	onDisk       [][]byte // the shard files as last read back from disk (nil: not loaded)
	vol          *ec.EcVolume
}

// datByte is the content convention of the script: byte i of the data file.
func (x *exec) datByte(i int) byte { return byte((x.ka*(i%251)+x.kb)%251 + 1) }

// runs is a lossless run-length code of a byte string: a run [b, m] is m bytes;
// b = 0: zeros; otherwise b, then each next byte = ((prev-1+ka) mod 251)+1.
func (x *exec) runs(p []byte) [][2]int {
	out := [][2]int{}
	for i := 0; i < len(p); {
		j := i + 1
		for j < len(p) {
			if p[i] == 0 {
				if p[j] != 0 {
					break
				}
			} else if int(p[j]) != (int(p[j-1])-1+x.ka)%251+1 {
				break
			}
			j++
		}
		out = append(out, [2]int{int(p[i]), j - i})
		i = j
	}
	return out
}

func hashBytes(p []byte) string {
	h := sha256.Sum256(p)
	return hex.EncodeToString(h[:8])
}

func hashFile(name string) string {
	f, err := os.Open(name)
	if err != nil {
		return "missing"
	}
	defer f.Close()
	h := sha256.New()
	if _, err := io.Copy(h, f); err != nil {
		return "unreadable"
	}
	return hex.EncodeToString(h.Sum(nil)[:8])
}

func errStr(err error) string {
	if err == nil {
		return ""
	}
	s := err.Error()
	if len(s) > 120 {
		s = s[:120]
	}
	if s == "" {
		s = "error"
	}
	return s
}

func (x *exec) shardName(i int) string { return x.base + ec.ToExt(i) }

func (x *exec) restore() {
	if !x.dirty {
		return
	}
	x.dirty = false
	x.onDisk = nil
	for i, p := range x.pristine {
		if p == nil {
			os.Remove(x.shardName(i))
			continue
		}
		if err := os.WriteFile(x.shardName(i), p, 0644); err != nil {
			tr.Fatal("restore shard: %v", err)
		}
	}
}

// encodeHuge: sparse data file of n*unit bytes, production encoder; nothing is kept in memory.
func (x *exec) encodeHuge(e tr.Ev) {
	size := int64(x.n) * int64(x.unit)
	f, err := os.Create(x.base + ".dat")
	if err != nil {
		tr.Fatal("create dat: %v", err)
	}
	if err = f.Truncate(size); err != nil {
		tr.Fatal("truncate dat: %v", err)
	}
	mark := make([]byte, 8)
	for o := int64(0); o+8 <= size; o += 1 << 20 {
		binary.BigEndian.PutUint64(mark, uint64(o>>20)+1)
		mark[0] = byte(x.ka)
		if _, err = f.WriteAt(mark, o); err != nil {
			tr.Fatal("mark dat: %v", err)
		}
	}
	f.Close()
	e["dat"] = hashFile(x.base + ".dat")
	e["err"] = errStr(ec.WriteEcFiles(x.base))
	sizes := make([]int, ec.TotalShardsCount)
	hashes := make([]string, ec.TotalShardsCount)
	for i := range sizes {
		sizes[i] = -1
		if fi, serr := os.Stat(x.shardName(i)); serr == nil {
			sizes[i] = int(fi.Size() / int64(x.unit))
		}
		hashes[i] = hashFile(x.shardName(i))
	}
	e["sizes"] = sizes
	e["hashes"] = hashes
	e["runs"] = [][][2]int{}
}

func (x *exec) encode(e tr.Ev) {
	if x.unit > 1 {
		x.encodeHuge(e)
		return
	}
	p := make([]byte, x.n)
	for i := range p {
		p[i] = x.datByte(i)
	}
	if err := os.WriteFile(x.base+".dat", p, 0644); err != nil {
		tr.Fatal("write dat: %v", err)
	}
	e["dat"] = hashBytes(p)
	var err error
	if x.real {
		err = ec.WriteEcFiles(x.base)
	} else {
		err = ec.VerifGenerateEcFiles(x.base, x.buf, x.large, x.small)
	}
	e["err"] = errStr(err)
	sizes := make([]int, ec.TotalShardsCount)
	hashes := make([]string, ec.TotalShardsCount)
	shardRuns := [][][2]int{}
	x.pristine = nil
	for i := 0; i < ec.TotalShardsCount; i++ {
		b, rerr := os.ReadFile(x.shardName(i))
		if rerr != nil {
			sizes[i] = -1
			hashes[i] = "missing"
			b = nil
		} else {
			sizes[i] = len(b)
			hashes[i] = hashBytes(b)
		}
		x.pristine = append(x.pristine, b)
		if i < ec.DataShardsCount {
			shardRuns = append(shardRuns, x.runs(b))
		}
	}
	e["sizes"] = sizes
	e["hashes"] = hashes
	e["runs"] = shardRuns
}

// shardReader serves ReadAt from the bytes of a shard file read back from disk (bytes.Reader has the
// semantics of os.File.ReadAt: short read + io.EOF at the end); one syscall per file instead of one per
// interval.
func (x *exec) loadShards() {
	if x.onDisk != nil {
		return
	}
	x.onDisk = make([][]byte, ec.TotalShardsCount)
	for i := range x.onDisk {
		b, err := os.ReadFile(x.shardName(i))
		if err == nil {
			if b == nil {
				b = []byte{}
			}
			x.onDisk[i] = b
		}
	}
}

func (x *exec) reads(e tr.Ev) {
	x.restore()
	x.loadShards()
	off := int64(tr.I(e, "off"))
	sizes := tr.Ints(e["sizes"])
	// the size of a shard file, as EcVolumeShard records it when it is opened (ecdFileSize)
	var shardSize int64
	if fi, err := os.Stat(x.shardName(0)); err == nil {
		shardSize = fi.Size()
	}
	large, small := x.large, x.small
	if x.real {
		large, small = ec.ErasureCodingLargeBlockSize, ec.ErasureCodingSmallBlockSize
	}
	errs := make([]string, len(sizes))
	got := make([][][2]int, len(sizes))
	for k, size := range sizes {
		var data []byte
		intervals := ec.LocateData(large, small, ec.DataShardsCount*shardSize, off, types.Size(size))
		for _, iv := range intervals {
			shardId, actualOffset := iv.ToShardIdAndOffset(large, small)
			d := make([]byte, iv.Size)
			if int(shardId) >= len(x.onDisk) || x.onDisk[shardId] == nil {
				errs[k] = "no shard file"
				break
			}
			m, err := bytes.NewReader(x.onDisk[shardId]).ReadAt(d, actualOffset)
			data = append(data, d[:m]...)
			if err != nil {
				errs[k] = errStr(err)
				break
			}
		}
		got[k] = x.runs(data)
	}
	e["errs"] = errs
	e["got"] = got
}

func (x *exec) rebuild(e tr.Ev) {
	x.restore()
	x.dirty = true
	x.onDisk = nil
	for _, s := range tr.Ints(e["lost"]) {
		os.Remove(x.shardName(s))
	}
	var err error
	if x.real {
		_, err = ec.RebuildEcFiles(x.base)
	} else {
		_, err = ec.VerifRebuildEcFiles(x.base, x.buf, x.large, x.small)
	}
	e["err"] = errStr(err)
	after := make([]string, ec.TotalShardsCount)
	for i := range after {
		after[i] = hashFile(x.shardName(i))
	}
	e["after"] = after
}

func (x *exec) mount(e tr.Ev) {
	x.restore()
	entries := tr.List(e["needles"])
	sort.Slice(entries, func(i, j int) bool { return tr.Ints(entries[i])[0] < tr.Ints(entries[j])[0] })
	var ecx []byte
	for _, en := range entries {
		v := tr.Ints(en)
		ecx = append(ecx, needle_map.ToBytes(types.NeedleId(v[0]), types.ToOffset(int64(v[1])*types.NeedlePaddingSize), types.Size(v[2]))...)
	}
	if err := os.WriteFile(x.base+".ecx", ecx, 0644); err != nil {
		tr.Fatal("write ecx: %v", err)
	}
	if x.vol != nil {
		x.vol.Close()
		x.vol = nil
	}
	vol, err := ec.NewEcVolume(types.HardDriveType, x.dir, x.dir, "", needle.VolumeId(1))
	if err == nil {
		for i := 0; i < ec.TotalShardsCount && err == nil; i++ {
			var sh *ec.EcVolumeShard
			if sh, err = ec.NewEcVolumeShard(types.HardDriveType, x.dir, "", needle.VolumeId(1), ec.ShardId(i)); err == nil {
				vol.AddEcVolumeShard(sh)
			}
		}
	}
	if err == nil {
		x.vol = vol
	}
	e["err"] = errStr(err)
}

func (x *exec) needle(e tr.Ev) {
	e["err"], e["off"], e["nsize"], e["asize"], e["got"] = "", -1, 0, 0, [][2]int{}
	if x.vol == nil {
		e["err"] = "not mounted"
		return
	}
	offset, size, intervals, err := x.vol.LocateEcShardNeedle(types.NeedleId(tr.I(e, "id")), x.vol.Version)
	if err != nil {
		e["err"] = errStr(err)
		return
	}
	e["off"] = offset.ToActualOffset()
	e["nsize"] = int(size)
	var data []byte
	asize := 0
	for _, iv := range intervals {
		asize += int(iv.Size)
		shardId, actualOffset := iv.ToShardIdAndOffset(ec.ErasureCodingLargeBlockSize, ec.ErasureCodingSmallBlockSize)
		shard, found := x.vol.FindEcVolumeShard(shardId)
		if !found {
			e["err"] = "shard not found"
			break
		}
		d := make([]byte, iv.Size)
		m, rerr := shard.ReadAt(d, actualOffset)
		data = append(data, d[:m]...)
		if rerr != nil {
			e["err"] = errStr(rerr)
			break
		}
	}
	e["asize"] = asize
	e["got"] = x.runs(data)
}

func (x *exec) decode(e tr.Ev) {
	x.restore()
	os.Rename(x.base+".dat", x.base+".orig")
	err := ec.WriteDatFile(x.base, int64(tr.I(e, "size"))*int64(x.unit))
	e["err"] = errStr(err)
	e["unit"] = x.unit
	e["hash"] = hashFile(x.base + ".dat")
	os.Remove(x.base + ".dat")
	os.Rename(x.base+".orig", x.base+".dat")
}

func main() {
	flag.Set("logtostderr", "true")
	o := tr.ParseFlags()
	w := tr.NewWriter(o.Out)
	defer w.Close()
	execs := tr.ReadScript(o.Script)
	volRes := runVolExecs(execs)
	for xi, ex := range execs {
		r := ex[0]
		if tr.B(r, "vol") {
			for _, e := range volRes[xi] {
				w.Emit(e)
			}
			continue
		}
		dir, err := os.MkdirTemp("", "c06-")
		if err != nil {
			tr.Fatal("mkdtemp: %v", err)
		}
		x := &exec{dir: dir, base: filepath.Join(dir, "1"), large: int64(tr.I(r, "large")), small: int64(tr.I(r, "small")),
			buf: tr.I(r, "buf"), n: tr.I(r, "n"), unit: tr.I(r, "unit"), ka: tr.I(r, "ka"), kb: tr.I(r, "kb"), real: tr.B(r, "real")}
		if x.unit <= 0 {
			x.unit = 1
		}
		if x.unit > 1 && !x.real {
			tr.Fatal("script: unit > 1 needs real=true")
		}
		if !x.real && (x.buf <= 0 || x.large%int64(x.buf) != 0 || x.small%int64(x.buf) != 0) {
			tr.Fatal("script: buf %d must divide the block sizes %d/%d", x.buf, x.large, x.small)
		}
		r["vol"] = false // every reset line carries the same fields (saved scripts from before the vol share lack it)
		w.Emit(r)
		encoded := false
		for _, e := range ex[1:] {
			kind := tr.S(e, "ev")
			if kind == "panic" {
				continue
			}
			if kind != "encode" && !encoded {
				tr.Fatal("script: %s before encode", kind)
			}
			if (kind == "mount" || kind == "needle") && !x.real {
				tr.Fatal("script: %s needs real=true", kind)
			}
			if x.unit > 1 && kind != "encode" && kind != "decode" {
				tr.Fatal("script: %s not supported with unit > 1", kind)
			}
			pan := tr.Guard(func() {
				switch kind {
				case "encode":
					x.encode(e)
					encoded = true
				case "reads":
					x.reads(e)
				case "rebuild":
					x.rebuild(e)
				case "decode":
					x.decode(e)
				case "mount":
					x.mount(e)
				case "needle":
					x.needle(e)
				default:
					tr.Fatal("unknown op %v", kind)
				}
			})
			if pan != "" {
				w.Emit(tr.Ev{"ev": "panic", "op": fmt.Sprint(kind), "msg": pan})
				break
			}
			w.Emit(e)
		}
		if x.vol != nil {
			x.vol.Close()
		}
		os.RemoveAll(dir)
	}
}
