// c06: executes erasure-coding scripts on the real weed/storage/erasure_coding
// package and records what it did. No expectations live here: the driver writes
// the data file the script describes, runs the real encoder / locator /
// rebuilder / decoder and records sizes, hashes and the bytes read (run-length
// coded, see runs()).
//
// Script (one execution per data file):
//
//	{"ev":"reset","large":8,"small":2,"buf":2,"n":83,"ka":7,"kb":3,"real":false}
//	{"ev":"encode"}
//	{"ev":"reads","off":16,"sizes":[1,2,8,67]}
//	{"ev":"rebuild","lost":[0,11]}
//	{"ev":"decode","size":83}
//
// real=false: generateEcFiles / generateMissingEcFiles through the verif hook
// with the given block sizes; real=true: WriteEcFiles / RebuildEcFiles /
// WriteDatFile with the production constants (1 GiB / 1 MiB).
//
// A read mirrors EcVolume.LocateEcShardNeedle + Store.readOneEcShardInterval:
// LocateData(large, small, DataShardsCount*<size of a shard file>, off, size),
// then for every interval ToShardIdAndOffset and ReadAt on the content of that
// shard file (read back from disk after the encoder / rebuilder wrote it).
package main

import (
	"bytes"
	"crypto/sha256"
	"encoding/hex"
	"flag"
	"fmt"
	"os"
	"path/filepath"

	ec "github.com/chrislusf/seaweedfs/weed/storage/erasure_coding"
	"github.com/chrislusf/seaweedfs/weed/storage/types"

	"verifharness/tr"
)

type exec struct {
	dir          string
	base         string
	large, small int64
	buf          int
	n            int
	ka, kb       int
	real         bool
	pristine     [][]byte // the 14 shard files as the encoder wrote them
	dirty        bool     // the shard files on disk may differ from pristine (after a rebuild)
	onDisk       [][]byte // the shard files as last read back from disk (nil: not loaded)
}

// datByte is the content convention of the script: byte i of the data file.
func (x *exec) datByte(i int) byte { return byte((x.ka*(i%251)+x.kb)%251 + 1) }

// runs is a lossless run-length code of a byte string: a run [b, m] is m bytes;
// b = 0: zeros; otherwise b, then each next byte = ((prev-1+ka) mod 251)+1.
func (x *exec) runs(p []byte) [][2]int {
	out := [][2]int{}
	for i := 0; i < len(p); {
		j := i + 1
		for j < len(p) {
			if p[i] == 0 {
				if p[j] != 0 {
					break
				}
			} else if int(p[j]) != (int(p[j-1])-1+x.ka)%251+1 {
				break
			}
			j++
		}
		out = append(out, [2]int{int(p[i]), j - i})
		i = j
	}
	return out
}

func hashBytes(p []byte) string {
	h := sha256.Sum256(p)
	return hex.EncodeToString(h[:8])
}

func hashFile(name string) string {
	p, err := os.ReadFile(name)
	if err != nil {
		return "missing"
	}
	return hashBytes(p)
}

func errStr(err error) string {
	if err == nil {
		return ""
	}
	s := err.Error()
	if len(s) > 120 {
		s = s[:120]
	}
	if s == "" {
		s = "error"
	}
	return s
}

func (x *exec) shardName(i int) string { return x.base + ec.ToExt(i) }

func (x *exec) restore() {
	if !x.dirty {
		return
	}
	x.dirty = false
	x.onDisk = nil
	for i, p := range x.pristine {
		if p == nil {
			os.Remove(x.shardName(i))
			continue
		}
		if err := os.WriteFile(x.shardName(i), p, 0644); err != nil {
			tr.Fatal("restore shard: %v", err)
		}
	}
}

func (x *exec) encode(e tr.Ev) {
	p := make([]byte, x.n)
	for i := range p {
		p[i] = x.datByte(i)
	}
	if err := os.WriteFile(x.base+".dat", p, 0644); err != nil {
		tr.Fatal("write dat: %v", err)
	}
	e["dat"] = hashBytes(p)
	var err error
	if x.real {
		err = ec.WriteEcFiles(x.base)
	} else {
		err = ec.VerifGenerateEcFiles(x.base, x.buf, x.large, x.small)
	}
	e["err"] = errStr(err)
	sizes := make([]int, ec.TotalShardsCount)
	hashes := make([]string, ec.TotalShardsCount)
	shardRuns := [][][2]int{}
	x.pristine = nil
	for i := 0; i < ec.TotalShardsCount; i++ {
		b, rerr := os.ReadFile(x.shardName(i))
		if rerr != nil {
			sizes[i] = -1
			hashes[i] = "missing"
			b = nil
		} else {
			sizes[i] = len(b)
			hashes[i] = hashBytes(b)
		}
		x.pristine = append(x.pristine, b)
		if i < ec.DataShardsCount {
			shardRuns = append(shardRuns, x.runs(b))
		}
	}
	e["sizes"] = sizes
	e["hashes"] = hashes
	e["runs"] = shardRuns
}

// shardReader serves ReadAt from the bytes of a shard file read back from disk (bytes.Reader has the
// semantics of os.File.ReadAt: short read + io.EOF at the end); one syscall per file instead of one per
// interval.
func (x *exec) loadShards() {
	if x.onDisk != nil {
		return
	}
	x.onDisk = make([][]byte, ec.TotalShardsCount)
	for i := range x.onDisk {
		b, err := os.ReadFile(x.shardName(i))
		if err == nil {
			if b == nil {
				b = []byte{}
			}
			x.onDisk[i] = b
		}
	}
}

func (x *exec) reads(e tr.Ev) {
	x.restore()
	x.loadShards()
	off := int64(tr.I(e, "off"))
	sizes := tr.Ints(e["sizes"])
	// the size of a shard file, as EcVolumeShard records it when it is opened (ecdFileSize)
	var shardSize int64
	if fi, err := os.Stat(x.shardName(0)); err == nil {
		shardSize = fi.Size()
	}
	large, small := x.large, x.small
	if x.real {
		large, small = ec.ErasureCodingLargeBlockSize, ec.ErasureCodingSmallBlockSize
	}
	errs := make([]string, len(sizes))
	got := make([][][2]int, len(sizes))
	for k, size := range sizes {
		var data []byte
		intervals := ec.LocateData(large, small, ec.DataShardsCount*shardSize, off, types.Size(size))
		for _, iv := range intervals {
			shardId, actualOffset := iv.ToShardIdAndOffset(large, small)
			d := make([]byte, iv.Size)
			if int(shardId) >= len(x.onDisk) || x.onDisk[shardId] == nil {
				errs[k] = "no shard file"
				break
			}
			m, err := bytes.NewReader(x.onDisk[shardId]).ReadAt(d, actualOffset)
			data = append(data, d[:m]...)
			if err != nil {
				errs[k] = errStr(err)
				break
			}
		}
		got[k] = x.runs(data)
	}
	e["errs"] = errs
	e["got"] = got
}

func (x *exec) rebuild(e tr.Ev) {
	x.restore()
	x.dirty = true
	x.onDisk = nil
	for _, s := range tr.Ints(e["lost"]) {
		os.Remove(x.shardName(s))
	}
	var err error
	if x.real {
		_, err = ec.RebuildEcFiles(x.base)
	} else {
		_, err = ec.VerifRebuildEcFiles(x.base, x.buf, x.large, x.small)
	}
	e["err"] = errStr(err)
	after := make([]string, ec.TotalShardsCount)
	for i := range after {
		after[i] = hashFile(x.shardName(i))
	}
	e["after"] = after
}

func (x *exec) decode(e tr.Ev) {
	x.restore()
	os.Rename(x.base+".dat", x.base+".orig")
	err := ec.WriteDatFile(x.base, int64(tr.I(e, "size")))
	e["err"] = errStr(err)
	e["hash"] = hashFile(x.base + ".dat")
	os.Remove(x.base + ".dat")
	os.Rename(x.base+".orig", x.base+".dat")
}

func main() {
	flag.Set("logtostderr", "true")
	o := tr.ParseFlags()
	w := tr.NewWriter(o.Out)
	defer w.Close()
	for _, ex := range tr.ReadScript(o.Script) {
		r := ex[0]
		dir, err := os.MkdirTemp("", "c06-")
		if err != nil {
			tr.Fatal("mkdtemp: %v", err)
		}
		x := &exec{dir: dir, base: filepath.Join(dir, "1"), large: int64(tr.I(r, "large")), small: int64(tr.I(r, "small")),
			buf: tr.I(r, "buf"), n: tr.I(r, "n"), ka: tr.I(r, "ka"), kb: tr.I(r, "kb"), real: tr.B(r, "real")}
		if !x.real && (x.buf <= 0 || x.large%int64(x.buf) != 0 || x.small%int64(x.buf) != 0) {
			tr.Fatal("script: buf %d must divide the block sizes %d/%d", x.buf, x.large, x.small)
		}
		w.Emit(r)
		encoded := false
		for _, e := range ex[1:] {
			kind := tr.S(e, "ev")
			if kind == "panic" {
				continue
			}
			if kind != "encode" && !encoded {
				tr.Fatal("script: %s before encode", kind)
			}
			pan := tr.Guard(func() {
				switch kind {
				case "encode":
					x.encode(e)
					encoded = true
				case "reads":
					x.reads(e)
				case "rebuild":
					x.rebuild(e)
				case "decode":
					x.decode(e)
				default:
					tr.Fatal("unknown op %v", kind)
				}
			})
			if pan != "" {
				w.Emit(tr.Ev{"ev": "panic", "op": fmt.Sprint(kind), "msg": pan})
				break
			}
			w.Emit(e)
		}
		os.RemoveAll(dir)
	}
}
