// vol.go: executions whose reset line says "vol": true - the life cycle of one REAL volume through
// erasure coding and back. Nothing is compared here: every step runs the real code and records
// error strings, sizes, hashes and content tokens.
//
//	{"ev":"reset", ..., "vol":true}
//	{"ev":"vwrite","k":2,"d":"L"}        Store.WriteVolumeNeedle         -> res, unch
//	{"ev":"vdelete","k":2}               Store.DeleteVolumeNeedle        -> res
//	{"ev":"vencode"}                     Store.Close; WriteEcFiles + WriteSortedFileFromIdx(".ecx") as
//	                                     VolumeEcShardsGenerate; the .dat/.idx are moved away
//	                                     -> err, xerr, n (.dat size), dat (hash), hashes (14 shards)
//	{"ev":"vecread","k":2}               the real EcVolume + 14 EcVolumeShards: LocateEcShardNeedle, shard
//	                                     ReadAt per interval, Needle.ReadBytes (as Store.ReadEcShardNeedle
//	                                     for local shards)               -> st, d
//	{"ev":"vecdelete","k":2}             EcVolume.DeleteNeedleFromEcx    -> err
//	{"ev":"rebuild","lost":[0,11]}       shard files removed, RebuildEcFiles -> err, after (14 hashes)
//	{"ev":"vfold","stale":false}         EcVolume closed, RebuildEcxFile (as VolumeEcShardsRebuild) -> err
//	{"ev":"vdecode","stale":true}        EcVolume closed; FindDatFileSize, WriteDatFile,
//	                                     WriteIdxFileFromEcIndex as VolumeEcShardsToVolume (stops at the
//	                                     first error) -> ferr, fsize, derr, ierr, dsize, hash (decoded .dat),
//	                                     phash (hash of the first fsize bytes of the original .dat)
//	{"ev":"vload"}                       .dat/.idx/.vif moved into a fresh directory, storage.NewStore loads it
//	                                     -> res, ro
//	{"ev":"vread","k":2}                 Store.ReadVolumeNeedle          -> st, d
//
// "stale": true puts back the .ecx as it was when the journal was last empty (at encode time / after
// the last fold) and keeps the .ecj: the files of a server that the deletions did not reach and that
// received the journal (ec.decode copies shards + .ecj, not the .ecx, to the decoding server).
package main

import (
	"bytes"
	"fmt"
	"os"
	"path/filepath"
	"strings"
	"sync"

	"github.com/chrislusf/seaweedfs/weed/storage"
	ec "github.com/chrislusf/seaweedfs/weed/storage/erasure_coding"
	"github.com/chrislusf/seaweedfs/weed/storage/needle"
	"github.com/chrislusf/seaweedfs/weed/storage/types"
	"github.com/chrislusf/seaweedfs/weed/util"

	"verifharness/tr"
)

const volId = needle.VolumeId(1)
const volCookie = 0x11111111

// content tokens: the bytes of a token are a fixed pseudo-random string (no period, so that swapped or
// shifted blocks never look alike); H is larger than four small blocks.
var tokenLen = map[string]int{"a": 11, "b": 31, "L": 320, "M": 70001, "H": 4<<20 + 7, "n": 15}
var tokenBytes = map[string][]byte{}
var tokenMu sync.Mutex

func content(tok string) []byte {
	tokenMu.Lock()
	defer tokenMu.Unlock()
	if b, ok := tokenBytes[tok]; ok {
		return b
	}
	ln, ok := tokenLen[tok]
	if !ok {
		tr.Fatal("script: unknown content token %q", tok)
	}
	s := uint64(0x9e3779b97f4a7c15)
	for _, c := range tok {
		s = s*1099511628211 + uint64(c)
	}
	b := make([]byte, ln)
	for i := range b {
		s ^= s << 13
		s ^= s >> 7
		s ^= s << 17
		b[i] = byte(s >> 24)
	}
	tokenBytes[tok] = b
	return b
}

func dataToken(b []byte) string {
	for tok, ln := range tokenLen {
		if ln == len(b) && bytes.Equal(content(tok), b) {
			return tok
		}
	}
	return fmt.Sprintf("?%d", len(b))
}

type volExec struct {
	root     string
	dir      string
	gen      int
	store    *storage.Store
	ecv      *ec.EcVolume
	staleEcx []byte // the .ecx when the journal was last empty
	out      []tr.Ev
}

func (x *volExec) base() string { return filepath.Join(x.dir, "1") }

func newVolStore(dir string) *storage.Store {
	return storage.NewStore(nil, 0, "127.0.0.1", "127.0.0.1:0", []string{dir}, []int{8}, []util.MinFreeSpace{{}}, "",
		storage.NeedleMapInMemory, []types.DiskType{types.HardDriveType})
}

func volNeedle(k int, d string) *needle.Needle {
	n := new(needle.Needle)
	n.Id = types.NeedleId(k)
	n.Cookie = types.Cookie(volCookie)
	n.Data = append([]byte{}, content(d)...)
	n.LastModified = 1600000000
	n.SetHasLastModifiedDate()
	n.Checksum = needle.NewCRC(n.Data)
	return n
}

func resStr(err error) string {
	if err == nil {
		return "ok"
	}
	return errStr(err)
}

func (x *volExec) closeEc() {
	if x.ecv != nil {
		x.ecv.Close()
		x.ecv = nil
	}
}

func (x *volExec) openEc() error {
	if x.ecv != nil {
		return nil
	}
	v, err := ec.NewEcVolume(types.HardDriveType, x.dir, x.dir, "", volId)
	if err != nil {
		return err
	}
	for i := 0; i < ec.TotalShardsCount; i++ {
		sh, serr := ec.NewEcVolumeShard(types.HardDriveType, x.dir, "", volId, ec.ShardId(i))
		if serr != nil {
			v.Close()
			return serr
		}
		v.AddEcVolumeShard(sh)
	}
	x.ecv = v
	return nil
}

func (x *volExec) write(e tr.Ev) {
	e["res"], e["unch"] = "nostore", false
	if x.store == nil {
		return
	}
	unch, err := x.store.WriteVolumeNeedle(volId, volNeedle(tr.I(e, "k"), tr.S(e, "d")), false)
	e["res"], e["unch"] = resStr(err), unch
}

func (x *volExec) delete(e tr.Ev) {
	e["res"] = "nostore"
	if x.store == nil {
		return
	}
	n := new(needle.Needle)
	n.Id = types.NeedleId(tr.I(e, "k"))
	n.Cookie = types.Cookie(volCookie)
	_, err := x.store.DeleteVolumeNeedle(volId, n)
	e["res"] = resStr(err)
}

func (x *volExec) read(e tr.Ev) {
	e["st"], e["d"] = "novol", ""
	if x.store == nil || x.store.GetVolume(volId) == nil {
		return
	}
	n := new(needle.Needle)
	n.Id = types.NeedleId(tr.I(e, "k"))
	_, err := x.store.ReadVolumeNeedle(volId, n, nil)
	switch {
	case err == storage.ErrorNotFound:
		e["st"] = "notfound"
	case err == storage.ErrorDeleted:
		e["st"] = "deleted"
	case err != nil:
		e["st"], e["d"] = "err", errStr(err)
	default:
		e["st"], e["d"] = "data", dataToken(n.Data)
	}
}

func (x *volExec) encode(e tr.Ev) {
	e["err"], e["xerr"], e["n"], e["dat"], e["hashes"] = "nostore", "nostore", 0, "", []string{}
	if x.store == nil {
		return
	}
	x.store.Close()
	x.store = nil
	base := x.base()
	if fi, err := os.Stat(base + ".dat"); err == nil {
		e["n"] = int(fi.Size())
	}
	e["dat"] = hashFile(base + ".dat")
	// as VolumeEcShardsGenerate: shards, then the sorted index (the .vif was saved when the volume was created)
	e["err"] = errStr(ec.WriteEcFiles(base))
	e["xerr"] = errStr(ec.WriteSortedFileFromIdx(base, ".ecx"))
	hashes := make([]string, ec.TotalShardsCount)
	for i := range hashes {
		hashes[i] = hashFile(base + ec.ToExt(i))
	}
	e["hashes"] = hashes
	x.staleEcx, _ = os.ReadFile(base + ".ecx")
	// the shell deletes the normal volume once the shards are mounted
	os.Rename(base+".dat", base+".dat.orig")
	os.Rename(base+".idx", base+".idx.orig")
}

func (x *volExec) ecRead(e tr.Ev) {
	e["st"], e["d"] = "err", ""
	if err := x.openEc(); err != nil {
		e["d"] = "open: " + errStr(err)
		return
	}
	n := new(needle.Needle)
	n.Id = types.NeedleId(tr.I(e, "k"))
	offset, size, intervals, err := x.ecv.LocateEcShardNeedle(n.Id, x.ecv.Version)
	if err != nil {
		if strings.Contains(err.Error(), ec.NotFoundError.Error()) {
			e["st"] = "notfound"
		} else {
			e["d"] = errStr(err)
		}
		return
	}
	if size.IsDeleted() {
		e["st"] = "deleted"
		return
	}
	var data []byte
	for _, iv := range intervals {
		shardId, actualOffset := iv.ToShardIdAndOffset(ec.ErasureCodingLargeBlockSize, ec.ErasureCodingSmallBlockSize)
		shard, found := x.ecv.FindEcVolumeShard(shardId)
		if !found {
			e["d"] = "shard not found"
			return
		}
		d := make([]byte, iv.Size)
		if _, rerr := shard.ReadAt(d, actualOffset); rerr != nil {
			e["d"] = "shard read: " + errStr(rerr)
			return
		}
		data = append(data, d...)
	}
	if err = n.ReadBytes(data, offset.ToActualOffset(), size, x.ecv.Version); err != nil {
		e["d"] = "readbytes: " + errStr(err)
		return
	}
	e["st"], e["d"] = "data", dataToken(n.Data)
}

func (x *volExec) ecDelete(e tr.Ev) {
	if err := x.openEc(); err != nil {
		e["err"] = "open: " + errStr(err)
		return
	}
	e["err"] = errStr(x.ecv.DeleteNeedleFromEcx(types.NeedleId(tr.I(e, "k"))))
}

func (x *volExec) rebuild(e tr.Ev) {
	x.closeEc()
	base := x.base()
	for _, s := range tr.Ints(e["lost"]) {
		os.Remove(base + ec.ToExt(s))
	}
	_, err := ec.RebuildEcFiles(base)
	e["err"] = errStr(err)
	after := make([]string, ec.TotalShardsCount)
	for i := range after {
		after[i] = hashFile(base + ec.ToExt(i))
	}
	e["after"] = after
}

func (x *volExec) putStale(stale bool) {
	if stale && x.staleEcx != nil {
		if err := os.WriteFile(x.base()+".ecx", x.staleEcx, 0644); err != nil {
			tr.Fatal("write stale ecx: %v", err)
		}
	}
}

func (x *volExec) fold(e tr.Ev) {
	x.closeEc()
	x.putStale(tr.B(e, "stale"))
	e["err"] = errStr(ec.RebuildEcxFile(x.base()))
	x.staleEcx, _ = os.ReadFile(x.base() + ".ecx")
}

func (x *volExec) decode(e tr.Ev) {
	x.closeEc()
	x.putStale(tr.B(e, "stale"))
	base := x.base()
	e["fsize"], e["derr"], e["ierr"], e["dsize"], e["hash"], e["phash"] = -1, "skipped", "skipped", -1, "", ""
	fsize, err := ec.FindDatFileSize(base, base)
	e["ferr"] = errStr(err)
	if err != nil {
		return
	}
	e["fsize"] = int(fsize)
	// the first fsize bytes of the original data file
	e["phash"] = "short"
	if orig, rerr := os.ReadFile(base + ".dat.orig"); rerr == nil && fsize >= 0 && int64(len(orig)) >= fsize {
		e["phash"] = hashBytes(orig[:fsize])
	}
	err = ec.WriteDatFile(base, fsize)
	e["derr"] = errStr(err)
	if fi, serr := os.Stat(base + ".dat"); serr == nil {
		e["dsize"] = int(fi.Size())
	}
	e["hash"] = hashFile(base + ".dat")
	if err != nil {
		return
	}
	e["ierr"] = errStr(ec.WriteIdxFileFromEcIndex(base))
}

func (x *volExec) load(e tr.Ev) {
	e["res"], e["ro"] = "err", false
	x.gen++
	ndir := filepath.Join(x.root, fmt.Sprintf("g%d", x.gen))
	if err := os.MkdirAll(ndir, 0755); err != nil {
		tr.Fatal("mkdir: %v", err)
	}
	for _, ext := range []string{".dat", ".idx", ".vif"} {
		os.Rename(x.base()+ext, filepath.Join(ndir, "1"+ext))
	}
	os.RemoveAll(x.dir)
	x.dir = ndir
	x.store = newVolStore(ndir)
	v := x.store.GetVolume(volId)
	if v == nil {
		e["res"] = "volume not loaded"
		return
	}
	e["res"], e["ro"] = "ok", v.IsReadOnly()
}

func (x *volExec) run(ex []tr.Ev) {
	emit := func(e tr.Ev) { x.out = append(x.out, e) }
	emit(ex[0])
	var err error
	if x.root, err = os.MkdirTemp("", "c06v-"); err != nil {
		tr.Fatal("mkdtemp: %v", err)
	}
	defer os.RemoveAll(x.root)
	x.dir = filepath.Join(x.root, "g0")
	os.MkdirAll(x.dir, 0755)
	x.store = newVolStore(x.dir)
	if err = x.store.AddVolume(volId, "", storage.NeedleMapInMemory, "000", "", 0, 0, types.HardDriveType); err != nil {
		tr.Fatal("add volume: %v", err)
	}
	defer func() {
		x.closeEc()
		if x.store != nil {
			x.store.Close()
		}
	}()
	for _, e := range ex[1:] {
		kind := tr.S(e, "ev")
		if kind == "panic" {
			continue
		}
		pan := tr.Guard(func() {
			switch kind {
			case "vwrite":
				x.write(e)
			case "vdelete":
				x.delete(e)
			case "vread":
				x.read(e)
			case "vencode":
				x.encode(e)
			case "vecread":
				x.ecRead(e)
			case "vecdelete":
				x.ecDelete(e)
			case "rebuild":
				x.rebuild(e)
			case "vfold":
				x.fold(e)
			case "vdecode":
				x.decode(e)
			case "vload":
				x.load(e)
			default:
				tr.Fatal("unknown op %v in a vol execution", kind)
			}
		})
		if pan != "" {
			emit(tr.Ev{"ev": "panic", "op": kind, "msg": pan})
			return
		}
		emit(e)
	}
}

// runVolExecs runs the vol executions of a script, four at a time; result: execution index -> events.
func runVolExecs(execs [][]tr.Ev) map[int][]tr.Ev {
	res := map[int][]tr.Ev{}
	var mu sync.Mutex
	var wg sync.WaitGroup
	sem := make(chan struct{}, 4)
	for xi, ex := range execs {
		if !tr.B(ex[0], "vol") {
			continue
		}
		wg.Add(1)
		sem <- struct{}{}
		go func(xi int, ex []tr.Ev) {
			defer wg.Done()
			defer func() { <-sem }()
			x := &volExec{}
			x.run(ex)
			mu.Lock()
			res[xi] = x.out
			mu.Unlock()
		}(xi, ex)
	}
	wg.Wait()
	return res
}
