// cagg (X05): several REAL filer servers (weed_server.NewFilerServer) with separate leveldb2 stores in one
// process, each with the others as peers, so that every filer runs the real MetaAggregator
// (weed/filer/meta_aggregator.go) against the others' SubscribeLocalMetadata. The stand-in master and one real
// volume server of the mini-cluster kit serve the filers' metadata log flushes.
//
// The driver executes a script (changes through each filer's gRPC, lookups, barriers, restarts), keeps
// metadata subscribers (SubscribeMetadata = aggregated, SubscribeLocalMetadata = local) on every filer and
// records what the real code did. It decides nothing: spec/MetaAggTrace.tla judges.
//
// Script operations (inputs) and what is recorded (outputs):
//
//	reset   {n}                      fresh directory /x<k>; subscribers started on every filer   -> + dir
//	put     {f,p,id}                 CreateEntry /x<k>/<p> with payload id at filer f             -> res
//	upd     {f,p,id}                 UpdateEntry                                                  -> res ok|nf|err
//	del     {f,p}                    DeleteEntry                                                  -> res
//	mv      {f,p,q}                  AtomicRenameEntry                                            -> res ok|err
//	look    {f,p}                    LookupDirectoryEntry                                         -> id ("" = absent)
//	restart {f}                      stop filer f (servers; local log flushed completely; store closed), new server
//	                                 object over the same store directory and port                -> off (per peer:
//	                                 number of that peer's changes of this execution not later than the offset
//	                                 record found in f's store; -1 for f itself), rec (offset record present)
//	hold    {f,g} / release {f,g}    hold back / let go the deliveries of g's local changes to f's aggregator
//	                                 (a gate in g's gRPC server around the stream's SendMsg)
//	await   {f,p,want}               poll (deadline) until f's store shows payload want under p    -> id (what it shows)
//	sub     {f,kind}                 a late subscriber (since = start of the execution)           -> c
//	sync    {}                       barrier: one marker change per filer, wait (deadline) until every marker is
//	                                 in every store and was delivered to every subscriber          -> marks
//	        then, as separate lines:  quiet | timeout,  ls {f,ents}  per filer,  got {c,f,kind,evs}  per subscriber
//
// Lines of kind quiet/timeout/ls/got/panic in a script are ignored (a recorded trace is a valid script).
// --mode shutdown: Filer.Shutdown itself, in a child process (one filer, one change)            -> shutdown {exit,where}
// -n 3: three filers.
package main

import (
	"context"
	"encoding/binary"
	"fmt"
	"net"
	"net/http"
	"os"
	"os/exec"
	"path/filepath"
	"sort"
	"strconv"
	"strings"
	"sync"
	"time"

	"google.golang.org/grpc"

	"github.com/chrislusf/seaweedfs/weed/filer"
	"github.com/chrislusf/seaweedfs/weed/pb"
	"github.com/chrislusf/seaweedfs/weed/pb/filer_pb"
	weed_server "github.com/chrislusf/seaweedfs/weed/server"
	"github.com/chrislusf/seaweedfs/weed/util"

	"verifharness/cluster"
	"verifharness/tr"
)

type node struct {
	idx  int // 1-based
	port int
	addr string
	dir  string
	fs   *weed_server.FilerServer
	gs   *grpc.Server
	hs   *http.Server
	hl   net.Listener
	gl   net.Listener
	// the aggregated buffer's last rotation time at the start of the execution; rotated by the script / replaced by a restart
	flush0 int64
	rot    bool
	// the local buffer's last completed flush as last seen by the driver
	lflush int64
	conn   *grpc.ClientConn
	cl     filer_pb.SeaweedFilerClient
	sig    int32
}

var (
	c       *cluster.Cluster
	nodes   []*node
	peers   []string
	w       *tr.Writer
	sigIdx  = map[int32]int{}
	syncDl  = 20 * time.Second
	stallDl = 10 * time.Second
	// barriers that failed for good; after the third the driver stops driving (every further barrier would
	// cost 30 s, and the run is rejected anyway)
	timeouts int
	// a local log buffer was flushed during the current execution (subscriptions may be polling the persisted log)
	execFlushed bool
	execNo      int
	curDir      string
	started     int64 // SinceNs of the execution's subscribers
)

func must(err error, what string) {
	if err != nil {
		tr.Fatal("%s: %v", what, err)
	}
}

// ---- the schedule: deliveries of filer g's local changes to filer f's aggregator can be held back.
// The gate sits in the gRPC server of g (which the driver owns), around SendMsg of the
// SubscribeLocalMetadata streams whose client name is "filer:<address of f>".
var (
	gateMu   sync.Mutex
	gateCond = sync.NewCond(&gateMu)
	held     = map[[2]int]bool{} // {f, g}
	heldC    = map[int]bool{}    // subscriber id
	addrIdx  = map[string]int{}
)

type gatedStream struct {
	grpc.ServerStream
	g int
	f int // the peer filer whose aggregator reads this stream (0: not an aggregator)
	c int // the driver's subscriber that reads this stream (0: not one of them)
}

func (s *gatedStream) RecvMsg(m interface{}) error {
	err := s.ServerStream.RecvMsg(m)
	if req, ok := m.(*filer_pb.SubscribeMetadataRequest); ok && err == nil {
		if strings.HasPrefix(req.ClientName, "filer:") {
			s.f = addrIdx[strings.TrimPrefix(req.ClientName, "filer:")]
		} else if strings.HasPrefix(req.ClientName, "x05c") {
			s.c, _ = strconv.Atoi(strings.TrimPrefix(req.ClientName, "x05c"))
		}
	}
	return err
}

func (s *gatedStream) SendMsg(m interface{}) error {
	if s.f != 0 || s.c != 0 {
		gateMu.Lock()
		for (held[[2]int{s.f, s.g}] || (s.c != 0 && heldC[s.c])) && s.Context().Err() == nil {
			gateCond.Wait()
		}
		gateMu.Unlock()
	}
	return s.ServerStream.SendMsg(m)
}

func setHeldC(c int, v bool) {
	gateMu.Lock()
	if v {
		heldC[c] = true
	} else {
		delete(heldC, c)
	}
	gateCond.Broadcast()
	gateMu.Unlock()
}

func setHeld(f, g int, v bool) {
	gateMu.Lock()
	if v {
		held[[2]int{f, g}] = true
	} else {
		delete(held, [2]int{f, g})
	}
	gateCond.Broadcast()
	gateMu.Unlock()
}

func releaseAll() {
	gateMu.Lock()
	held = map[[2]int]bool{}
	heldC = map[int]bool{}
	gateCond.Broadcast()
	gateMu.Unlock()
}

func gateFor(g int) grpc.StreamServerInterceptor {
	return func(srv interface{}, ss grpc.ServerStream, info *grpc.StreamServerInfo, handler grpc.StreamHandler) error {
		if strings.HasSuffix(info.FullMethod, "/SubscribeLocalMetadata") || strings.HasSuffix(info.FullMethod, "/SubscribeMetadata") {
			return handler(srv, &gatedStream{ServerStream: ss, g: g})
		}
		return handler(srv, ss)
	}
}

// listen takes the filer's two ports. After a stop this is done at once, before the slow parts of the
// restart: other processes on this machine probe for free ports all the time. Connections made before
// the new server serves wait in the backlog.
func (n *node) listen() {
	deadline := time.Now().Add(10 * time.Second)
	for {
		var err error
		if n.hl == nil {
			n.hl, err = net.Listen("tcp", "127.0.0.1:"+strconv.Itoa(n.port))
		}
		if err == nil && n.gl == nil {
			n.gl, err = net.Listen("tcp", "127.0.0.1:"+strconv.Itoa(n.port+10000))
		}
		if err == nil {
			return
		}
		if time.Now().After(deadline) {
			tr.Fatal("filer %d: cannot listen again: %v", n.idx, err)
		}
		time.Sleep(20 * time.Millisecond)
	}
}

func startFiler(n *node) {
	mux := http.NewServeMux()
	fs, err := weed_server.NewFilerServer(mux, mux, &weed_server.FilerOption{Masters: []string{c.MasterAddr},
		DefaultLevelDbDir: n.dir, Host: "127.0.0.1", Port: uint32(n.port), MaxMB: 1, DirListingLimit: 100000,
		Filers: append([]string{}, peers...)})
	must(err, "filer server")
	n.fs = fs
	if n.hl == nil || n.gl == nil {
		n.listen()
	}
	n.hs = &http.Server{Handler: mux}
	go n.hs.Serve(n.hl)
	n.gs = pb.NewGrpcServer(grpc.StreamInterceptor(gateFor(n.idx)))
	filer_pb.RegisterSeaweedFilerServer(n.gs, fs)
	go n.gs.Serve(n.gl)
	n.hl, n.gl = nil, nil
	if n.conn == nil {
		conn, err := grpc.Dial("127.0.0.1:"+strconv.Itoa(n.port+10000), grpc.WithInsecure())
		must(err, "dial filer")
		n.conn = conn
		n.cl = filer_pb.NewSeaweedFilerClient(conn)
	}
	n.sig = fs.VerifFiler().Signature
	sigIdx[n.sig] = n.idx
	// the client connection may be backing off after a restart: wait until the new server answers
	deadline := time.Now().Add(15 * time.Second)
	for {
		ctx, cancel := context.WithTimeout(context.Background(), 2*time.Second)
		_, err := n.cl.GetFilerConfiguration(ctx, &filer_pb.GetFilerConfigurationRequest{}, grpc.WaitForReady(true))
		cancel()
		if err == nil {
			break
		}
		if time.Now().After(deadline) {
			tr.Fatal("filer %d does not answer: %v", n.idx, err)
		}
	}
}

// stopFiler stops the servers, lets the local metadata log flush COMPLETELY and only then closes the store.
// (Filer.Shutdown itself closes the store while the flush is still running; the flush goroutine then
// dereferences a nil entry in appendToFile and the process dies - see checks/X05.notes.md.)
func stopFiler(n *node) bool {
	n.gs.Stop()
	n.hs.Close()
	n.listen()
	gateMu.Lock()
	gateCond.Broadcast() // held-back sends of the stopped server see their cancelled context
	gateMu.Unlock()
	f := n.fs.VerifFiler()
	before := f.LocalMetaLogBuffer.VerifSnapshot()
	f.LocalMetaLogBuffer.Shutdown()
	flushed := true
	if before.Cur.Size > 0 {
		deadline := time.Now().Add(15 * time.Second)
		for f.LocalMetaLogBuffer.VerifSnapshot().LastFlush != before.Cur.Stop {
			if time.Now().After(deadline) {
				flushed = false
				break
			}
			time.Sleep(2 * time.Millisecond)
		}
	}
	if flushed {
		// The stopped server's aggregator goroutines cannot be stopped and would go on replaying peer changes
		// into the store (in a real deployment the process has exited). They get a store that discards
		// everything; the real one is closed once calls already under way have returned.
		realStore := f.Store
		f.Store = filer.NewFilerStoreWrapper(&nullStore{})
		time.Sleep(100 * time.Millisecond)
		realStore.Shutdown()
	}
	return flushed
}

type nullStore struct{}

func (*nullStore) GetName() string                                 { return "x05null" }
func (*nullStore) Initialize(util.Configuration, string) error     { return nil }
func (*nullStore) InsertEntry(context.Context, *filer.Entry) error { return nil }
func (*nullStore) UpdateEntry(context.Context, *filer.Entry) error { return nil }
func (*nullStore) FindEntry(context.Context, util.FullPath) (*filer.Entry, error) {
	return nil, filer_pb.ErrNotFound
}
func (*nullStore) DeleteEntry(context.Context, util.FullPath) error          { return nil }
func (*nullStore) DeleteFolderChildren(context.Context, util.FullPath) error { return nil }
func (*nullStore) ListDirectoryEntries(context.Context, util.FullPath, string, bool, int64, filer.ListEachEntryFunc) (string, error) {
	return "", nil
}
func (*nullStore) ListDirectoryPrefixedEntries(context.Context, util.FullPath, string, bool, int64, string, filer.ListEachEntryFunc) (string, error) {
	return "", nil
}
func (*nullStore) BeginTransaction(ctx context.Context) (context.Context, error) { return ctx, nil }
func (*nullStore) CommitTransaction(context.Context) error                       { return nil }
func (*nullStore) RollbackTransaction(context.Context) error                     { return nil }
func (*nullStore) KvPut(context.Context, []byte, []byte) error                   { return nil }
func (*nullStore) KvGet(context.Context, []byte) ([]byte, error)                 { return nil, filer.ErrKvNotFound }
func (*nullStore) KvDelete(context.Context, []byte) error                        { return nil }
func (*nullStore) Shutdown()                                                     {}

// ---------------------------------------------------------------------------- subscribers

type subEv struct {
	o       int
	sg      []int
	op, oid string
	np, nid string
	tsNs    int64
	isResub bool
}

type subscriber struct {
	id     int
	f      int
	kind   string // agg | loc
	mu     sync.Mutex
	evs    []subEv
	rep    int // reported so far
	cancel context.CancelFunc
	done   chan struct{}
}

var subs []*subscriber

func vidOf(e *filer_pb.Entry) string {
	if e == nil {
		return ""
	}
	return string(e.Extended["vid"])
}

func nameOf(e *filer_pb.Entry) string {
	if e == nil {
		return ""
	}
	return e.Name
}

func (s *subscriber) run(ctx context.Context, since int64, prefix string) {
	defer close(s.done)
	n := nodes[s.f-1]
	last := since
	first := true
	for ctx.Err() == nil {
		if !first {
			s.mu.Lock()
			s.evs = append(s.evs, subEv{isResub: true})
			s.mu.Unlock()
		}
		first = false
		req := &filer_pb.SubscribeMetadataRequest{ClientName: fmt.Sprintf("x05c%d", s.id), PathPrefix: prefix, SinceNs: last}
		var stream interface {
			Recv() (*filer_pb.SubscribeMetadataResponse, error)
		}
		var err error
		if s.kind == "agg" {
			stream, err = n.cl.SubscribeMetadata(ctx, req)
		} else {
			stream, err = n.cl.SubscribeLocalMetadata(ctx, req)
		}
		for err == nil {
			var resp *filer_pb.SubscribeMetadataResponse
			resp, err = stream.Recv()
			if err != nil {
				break
			}
			ev := resp.EventNotification
			if ev == nil || (ev.OldEntry == nil && ev.NewEntry == nil) {
				continue // keep-alive
			}
			e := subEv{op: nameOf(ev.OldEntry), oid: vidOf(ev.OldEntry), np: nameOf(ev.NewEntry), nid: vidOf(ev.NewEntry), tsNs: resp.TsNs}
			for _, sg := range ev.Signatures {
				e.sg = append(e.sg, sigIdx[sg])
			}
			if len(e.sg) > 0 {
				e.o = e.sg[0]
			}
			last = resp.TsNs
			s.mu.Lock()
			s.evs = append(s.evs, e)
			s.mu.Unlock()
		}
		if ctx.Err() != nil {
			return
		}
		// the filer went away (restart): subscribe again from the last change seen, as the real clients do
		for ctx.Err() == nil {
			time.Sleep(50 * time.Millisecond)
			if _, e2 := n.cl.GetFilerConfiguration(ctx, &filer_pb.GetFilerConfigurationRequest{}); e2 == nil {
				break
			}
		}
	}
}

func newSub(f int, kind string) *subscriber {
	s := &subscriber{id: len(subs) + 1, f: f, kind: kind, done: make(chan struct{})}
	ctx, cancel := context.WithCancel(context.Background())
	s.cancel = cancel
	subs = append(subs, s)
	go s.run(ctx, started, curDir+"/")
	return s
}

func stopSubs() {
	for _, s := range subs {
		s.cancel()
	}
	for _, s := range subs {
		select {
		case <-s.done:
		case <-time.After(5 * time.Second):
		}
	}
	subs = nil
}

func (s *subscriber) hasNid(id string) bool {
	s.mu.Lock()
	defer s.mu.Unlock()
	for i := len(s.evs) - 1; i >= 0; i-- {
		if s.evs[i].nid == id && !s.evs[i].isResub {
			return true
		}
	}
	return false
}

func (s *subscriber) report() {
	s.mu.Lock()
	evs := append([]subEv{}, s.evs[s.rep:]...)
	s.rep = len(s.evs)
	s.mu.Unlock()
	out := []interface{}{}
	for _, e := range evs {
		if e.isResub {
			out = append(out, tr.Ev{"o": 0, "sg": []int{}, "op": "", "oid": "", "np": "", "nid": ""})
			continue
		}
		sg := e.sg
		if sg == nil {
			sg = []int{}
		}
		out = append(out, tr.Ev{"o": e.o, "sg": sg, "op": e.op, "oid": e.oid, "np": e.np, "nid": e.nid})
	}
	w.Emit(tr.Ev{"ev": "got", "c": s.id, "f": s.f, "kind": s.kind, "evs": out, "rot": rotated()})
}

// ---------------------------------------------------------------------------- operations

func entry(name, id string) *filer_pb.Entry {
	now := time.Now().Unix()
	return &filer_pb.Entry{Name: name, Attributes: &filer_pb.FuseAttributes{Mtime: now, Crtime: now, FileMode: 0644},
		Extended: map[string][]byte{"vid": []byte(id)}}
}

func rpcCtx() (context.Context, context.CancelFunc) {
	return context.WithTimeout(context.Background(), 15*time.Second)
}

func doPut(f int, p, id string) string {
	ctx, cancel := rpcCtx()
	defer cancel()
	resp, err := nodes[f-1].cl.CreateEntry(ctx, &filer_pb.CreateEntryRequest{Directory: curDir, Entry: entry(p, id)})
	if err != nil || resp.Error != "" {
		return "err"
	}
	return "ok"
}

func lookup(f int, p string) (string, bool, error) {
	ctx, cancel := rpcCtx()
	defer cancel()
	resp, err := nodes[f-1].cl.LookupDirectoryEntry(ctx, &filer_pb.LookupDirectoryEntryRequest{Directory: curDir, Name: p})
	if err != nil {
		if err == filer_pb.ErrNotFound || grpcNotFound(err) {
			return "", false, nil
		}
		return "", false, err
	}
	if resp.Entry == nil {
		return "", false, nil
	}
	return vidOf(resp.Entry), true, nil
}

func grpcNotFound(err error) bool {
	s := err.Error()
	return len(s) > 0 && (contains(s, "no entry is found") || contains(s, "not found"))
}

func contains(s, sub string) bool {
	for i := 0; i+len(sub) <= len(s); i++ {
		if s[i:i+len(sub)] == sub {
			return true
		}
	}
	return false
}

func list(f int) ([]interface{}, error) {
	ctx, cancel := rpcCtx()
	defer cancel()
	stream, err := nodes[f-1].cl.ListEntries(ctx, &filer_pb.ListEntriesRequest{Directory: curDir, Limit: 100000})
	if err != nil {
		return nil, err
	}
	type ne struct{ n, id string }
	var all []ne
	for {
		resp, err := stream.Recv()
		if err != nil {
			break
		}
		if resp.Entry != nil {
			all = append(all, ne{resp.Entry.Name, vidOf(resp.Entry)})
		}
	}
	sort.Slice(all, func(i, j int) bool { return all[i].n < all[j].n })
	out := []interface{}{}
	for _, e := range all {
		out = append(out, []string{e.n, e.id})
	}
	return out, nil
}

// number of filer g's changes of this execution (as seen by the driver's local subscriber on g) with a
// timestamp not later than off
func countUpTo(g int, off int64) int {
	for _, s := range subs {
		if s.f == g && s.kind == "loc" {
			if off > started {
				// the offset is the timestamp of one of g's changes: wait until the local subscriber has it too
				deadline := time.Now().Add(3 * time.Second)
				for time.Now().Before(deadline) {
					s.mu.Lock()
					have := false
					for _, e := range s.evs {
						have = have || (!e.isResub && e.tsNs >= off)
					}
					s.mu.Unlock()
					if have {
						break
					}
					time.Sleep(5 * time.Millisecond)
				}
			}
			s.mu.Lock()
			n := 0
			seen := map[int64]bool{}
			for _, e := range s.evs {
				if !e.isResub && e.tsNs <= off && !seen[e.tsNs] {
					seen[e.tsNs] = true
					n++
				}
			}
			s.mu.Unlock()
			return n
		}
	}
	return 0
}

func readOffset(f, g int) (int64, bool) {
	key := []byte(filer.MetaOffsetPrefix + "xxxx")
	binary.BigEndian.PutUint32(key[len(filer.MetaOffsetPrefix):], uint32(nodes[g-1].sig))
	ctx, cancel := rpcCtx()
	defer cancel()
	resp, err := nodes[f-1].cl.KvGet(ctx, &filer_pb.KvGetRequest{Key: key})
	if err != nil || resp.Error != "" || len(resp.Value) != 8 {
		return 0, false
	}
	return int64(binary.BigEndian.Uint64(resp.Value)), true
}

func doRestart(f int) tr.Ev {
	n := nodes[f-1]
	off := []int{}
	rec := []bool{}
	for g := 1; g <= len(nodes); g++ {
		if g == f {
			off = append(off, -1)
			rec = append(rec, false)
			continue
		}
		o, ok := readOffset(f, g)
		rec = append(rec, ok)
		if ok {
			off = append(off, countUpTo(g, o))
		} else {
			off = append(off, 0)
		}
	}
	t0 := time.Now()
	defer func() {
		if os.Getenv("X05_DEBUG") != "" {
			fmt.Fprintf(os.Stderr, "X05 restart of filer %d took %v\n", f, time.Since(t0))
		}
	}()
	if !stopFiler(n) {
		// the store stays open (closing it under the running flush would kill the process): stop driving
		w.Emit(tr.Ev{"ev": "timeout", "what": "flush of the local metadata log did not complete", "c": 0, "f": f, "kind": "flush", "rot": rotated()})
		w.Close()
		os.Exit(0)
	}
	if os.Getenv("X05_DEBUG") != "" {
		fmt.Fprintf(os.Stderr, "X05 stop of filer %d took %v\n", f, time.Since(t0))
	}
	startFiler(n)
	n.flush0 = aggFlush(n)
	return tr.Ev{"off": off, "rec": rec}
}

// doSync: the barrier. Round 1: one marker change per filer, wait until every marker is in every store and was
// handed to every subscriber. If that does not happen within stallDl, the line "stall" is recorded and a second
// round of markers is made (a subscription loop that slept through the last change wakes up with the next
// one); only if the second round does not complete either is it a "timeout".
func locFlush(n *node) int64 {
	return n.fs.VerifFiler().LocalMetaLogBuffer.VerifSnapshot().LastFlush
}

// pollFlushed records (line "flushed") that a filer's local log buffer has been flushed since the driver last looked
func pollFlushed() {
	for _, n := range nodes {
		if v := locFlush(n); v != n.lflush {
			n.lflush = v
			execFlushed = true
			w.Emit(tr.Ev{"ev": "flushed", "f": n.idx, "buf": "loc"})
		}
	}
}

func aggFlush(n *node) int64 {
	return n.fs.VerifFiler().MetaAggregator.MetaLogBuffer.VerifSnapshot().LastFlush
}

// the filers whose aggregated buffer was rotated (timer or script) since the execution began
func rotated() []int {
	r := []int{}
	for _, n := range nodes {
		if aggFlush(n) != n.flush0 || n.rot {
			r = append(r, n.idx)
		}
	}
	return r
}

// which subscriber a barrier is waiting for
type waitFor struct {
	c, f int
	kind string
}

// the barrier waits for a subscriber of the aggregated stream of a filer whose aggregated buffer was rotated
func rotStuck(wf waitFor) bool {
	if wf.kind != "agg" {
		return false
	}
	for _, f := range rotated() {
		if f == wf.f {
			return true
		}
	}
	return false
}

func doSync(k int) {
	type mk struct {
		f     int
		p, id string
	}
	var ms []mk
	what := ""
	var wf waitFor
	for round, suffix := range []string{"", "n"} {
		marks := []interface{}{}
		for _, n := range nodes {
			m := mk{n.idx, fmt.Sprintf("zs%d%sf%d", k, suffix, n.idx), fmt.Sprintf("m%d%sf%d", k, suffix, n.idx)}
			res := doPut(m.f, m.p, m.id)
			marks = append(marks, tr.Ev{"f": m.f, "p": m.p, "id": m.id, "res": res})
			ms = append(ms, m)
		}
		w.Emit(tr.Ev{"ev": "sync", "marks": marks})
		dl := stallDl
		if round == 1 {
			dl = syncDl
			if rotStuck(wf) {
				dl = 5 * time.Second // nothing but a flush of the filer's own log gets this subscriber going again
			}
		}
		deadline := time.Now().Add(dl)
		for {
			what = ""
			wf = waitFor{kind: "store"}
			for _, m := range ms {
				for _, n := range nodes {
					if id, _, err := lookup(n.idx, m.p); err != nil || id != m.id {
						what = fmt.Sprintf("marker %s not in the store of filer %d", m.p, n.idx)
						wf = waitFor{0, n.idx, "store"}
					}
				}
				if what != "" {
					continue
				}
				for _, s := range subs {
					if s.kind == "loc" && s.f != m.f {
						continue
					}
					if !s.hasNid(m.id) {
						what = fmt.Sprintf("marker %s not delivered to subscriber %d (%s of filer %d)", m.p, s.id, s.kind, s.f)
						wf = waitFor{s.id, s.f, s.kind}
					}
				}
			}
			if what == "" || time.Now().After(deadline) {
				break
			}
			time.Sleep(5 * time.Millisecond)
		}
		if what == "" {
			break
		}
		if round == 0 {
			w.Emit(tr.Ev{"ev": "stall", "what": what, "c": wf.c, "f": wf.f, "kind": wf.kind, "rot": rotated()})
		}
	}
	pollFlushed()
	if what != "" {
		if !rotStuck(wf) && !execFlushed {
			timeouts++
		}
		w.Emit(tr.Ev{"ev": "timeout", "what": what, "c": wf.c, "f": wf.f, "kind": wf.kind, "rot": rotated()})
	} else {
		w.Emit(tr.Ev{"ev": "quiet"})
	}
	for _, n := range nodes {
		ents, err := list(n.idx)
		if err != nil {
			w.Emit(tr.Ev{"ev": "timeout", "what": "list: " + err.Error(), "c": 0, "f": n.idx, "kind": "list", "rot": rotated()})
			continue
		}
		w.Emit(tr.Ev{"ev": "ls", "f": n.idx, "ents": ents})
	}
	for _, s := range subs {
		s.report()
	}
}

func runExec(ex []tr.Ev) {
	stopSubs()
	releaseAll()
	execNo++
	curDir = fmt.Sprintf("/x%d", execNo)
	started = time.Now().UnixNano()
	r := tr.Copy(ex[0])
	r["dir"] = curDir
	r["n"] = len(nodes)
	w.Emit(r)
	execFlushed = false
	for _, n := range nodes {
		n.flush0, n.rot = aggFlush(n), false
		n.lflush = locFlush(n)
		newSub(n.idx, "agg")
		newSub(n.idx, "loc")
	}
	syncs := 0
	for _, op := range ex[1:] {
		o := tr.Copy(op)
		f := tr.I(op, "f")
		kind := tr.S(op, "ev")
		switch kind {
		case "quiet", "timeout", "stall", "ls", "got", "panic", "flushed":
			continue
		}
		pollFlushed()
		if kind != "sync" && kind != "holdc" && kind != "releasec" && kind != "waitsec" && kind != "waitmin" && (f < 1 || f > len(nodes)) {
			tr.Fatal("bad filer index in %v", op)
		}
		pan := tr.Guard(func() {
			switch kind {
			case "put":
				o["res"] = doPut(f, tr.S(op, "p"), tr.S(op, "id"))
			case "upd":
				ctx, cancel := rpcCtx()
				_, err := nodes[f-1].cl.UpdateEntry(ctx, &filer_pb.UpdateEntryRequest{Directory: curDir, Entry: entry(tr.S(op, "p"), tr.S(op, "id"))})
				cancel()
				o["res"] = "ok"
				if err != nil {
					o["res"] = "err"
					if grpcNotFound(err) {
						o["res"] = "nf"
					}
				}
			case "del":
				ctx, cancel := rpcCtx()
				resp, err := nodes[f-1].cl.DeleteEntry(ctx, &filer_pb.DeleteEntryRequest{Directory: curDir, Name: tr.S(op, "p"), IsDeleteData: true})
				cancel()
				o["res"] = "ok"
				if err != nil || resp.Error != "" {
					o["res"] = "err"
				}
			case "mv":
				ctx, cancel := rpcCtx()
				_, err := nodes[f-1].cl.AtomicRenameEntry(ctx, &filer_pb.AtomicRenameEntryRequest{OldDirectory: curDir, OldName: tr.S(op, "p"),
					NewDirectory: curDir, NewName: tr.S(op, "q")})
				cancel()
				o["res"] = "ok"
				if err != nil {
					o["res"] = "err"
				}
			case "look":
				id, _, err := lookup(f, tr.S(op, "p"))
				o["id"] = id
				if err != nil {
					o["id"] = "?" + err.Error()
				}
			case "waitsec":
				// wait until the wall clock's second-of-minute is in [s, s+8)
				for {
					sec := time.Now().Second()
					if sec >= tr.I(op, "s") && sec < tr.I(op, "s")+8 {
						break
					}
					time.Sleep(100 * time.Millisecond)
				}
			case "waitmin":
				// wait until the wall clock's minute changes
				m := time.Now().Minute()
				for time.Now().Minute() == m {
					time.Sleep(50 * time.Millisecond)
				}
			case "holdc":
				setHeldC(tr.I(op, "c"), true)
			case "releasec":
				setHeldC(tr.I(op, "c"), false)
			case "rotate":
				// one iteration of the buffer's once-a-minute timer, now
				fl := nodes[f-1].fs.VerifFiler()
				if tr.S(op, "buf") == "loc" {
					before := fl.LocalMetaLogBuffer.VerifSnapshot()
					fl.LocalMetaLogBuffer.VerifTimerFlush()
					// the flush (upload, log file entry) runs in the buffer's flush goroutine: wait until it is done
					for dl := time.Now().Add(10 * time.Second); before.Cur.Size > 0 && time.Now().Before(dl) &&
						fl.LocalMetaLogBuffer.VerifSnapshot().LastFlush != before.Cur.Stop; {
						time.Sleep(2 * time.Millisecond)
					}
				} else {
					fl.MetaAggregator.MetaLogBuffer.VerifTimerFlush()
					nodes[f-1].rot = true
				}
			case "hold":
				setHeld(f, tr.I(op, "g"), true)
			case "release":
				setHeld(f, tr.I(op, "g"), false)
			case "await":
				// wait (deadline) until the store of f shows id under p; what it shows then is recorded
				deadline := time.Now().Add(10 * time.Second)
				for {
					id, _, err := lookup(f, tr.S(op, "p"))
					o["id"] = id
					if err != nil {
						o["id"] = "?" + err.Error()
					}
					if id == tr.S(op, "want") || time.Now().After(deadline) {
						break
					}
					time.Sleep(5 * time.Millisecond)
				}
			case "restart":
				for k, v := range doRestart(f) {
					o[k] = v
				}
			case "sub":
				s := newSub(f, tr.S(op, "kind"))
				o["c"] = s.id
			case "sync":
				syncs++
				doSync(syncs)
			default:
				tr.Fatal("unknown op %v", op)
			}
		})
		if pan != "" {
			w.Emit(tr.Ev{"ev": "panic", "what": pan})
			return
		}
		if kind != "sync" {
			w.Emit(o)
		}
	}
}

// ---- Filer.Shutdown as the filer command runs it on an interrupt: in a child process, because the
// flush goroutine's panic cannot be recovered. The child starts one real filer, accepts one change and
// calls Filer.Shutdown; the parent records how the child ended.
func shutdownChild() {
	var err error
	c, err = cluster.New(cluster.Options{Volumes: 1})
	must(err, "cluster")
	p := cluster.FreePort()
	n := &node{idx: 1, port: p, addr: "127.0.0.1:" + strconv.Itoa(p), dir: filepath.Join(c.Base, "filer1")}
	os.MkdirAll(n.dir, 0755)
	nodes = []*node{n}
	peers = nil
	startFiler(n)
	curDir = "/x1"
	if doPut(1, "a", "c1") != "ok" {
		tr.Fatal("child: put failed")
	}
	n.fs.VerifFiler().Shutdown()
	time.Sleep(3 * time.Second) // the flush needs a volume assignment and an upload
	fmt.Fprintln(os.Stderr, "X05-CHILD-CLEAN")
	c.Close()
	os.Exit(0)
}

func shutdownParent(o *tr.Opts) {
	w = tr.NewWriter(o.Out)
	defer w.Close()
	tmp, err := os.MkdirTemp("", "x05child")
	must(err, "tmp")
	defer os.RemoveAll(tmp)
	cmd := exec.Command(os.Args[0], "--mode", "shutdown-child", "--out", os.DevNull)
	cmd.Env = append(os.Environ(), "TMPDIR="+tmp)
	done := make(chan struct{})
	var out []byte
	go func() { out, err = cmd.CombinedOutput(); close(done) }()
	select {
	case <-done:
	case <-time.After(60 * time.Second):
		cmd.Process.Kill()
		<-done
	}
	txt := string(out)
	res, where := "other", ""
	if strings.Contains(txt, "X05-CHILD-CLEAN") && err == nil {
		res = "clean"
	} else if i := strings.Index(txt, "panic: "); i >= 0 {
		res = "panic"
		// the first frame of the code under test
		for _, line := range strings.Split(txt[i:], "\n") {
			line = strings.TrimSpace(line)
			if strings.HasPrefix(line, "/") && strings.Contains(line, "/weed/") {
				where = line[strings.Index(line, "/weed/")+1:]
				if j := strings.Index(where, " "); j >= 0 {
					where = where[:j]
				}
				break
			}
		}
	}
	w.Emit(tr.Ev{"ev": "reset", "n": 1, "dir": ""})
	w.Emit(tr.Ev{"ev": "shutdown", "exit": res, "where": where})
}

func main() {
	o := tr.ParseFlags()
	if o.Mode == "shutdown-child" {
		shutdownChild()
		return
	}
	if o.Mode == "shutdown" {
		shutdownParent(o)
		return
	}
	nf := o.N
	if nf == 0 {
		nf = 2
	}
	var err error
	c, err = cluster.New(cluster.Options{Volumes: 1})
	must(err, "cluster")
	defer c.Close()
	for i := 1; i <= nf; i++ {
		p := cluster.FreePort()
		n := &node{idx: i, port: p, addr: "127.0.0.1:" + strconv.Itoa(p), dir: filepath.Join(c.Base, fmt.Sprintf("filer%d", i))}
		os.MkdirAll(n.dir, 0755)
		nodes = append(nodes, n)
		peers = append(peers, n.addr)
		addrIdx[n.addr] = i
		n.listen()
	}
	for _, n := range nodes {
		startFiler(n)
	}
	w = tr.NewWriter(o.Out)
	defer w.Close()
	if o.Script == "" {
		tr.Fatal("--script required")
	}
	// warm-up (not recorded as an execution of its own: its events precede the first reset and are dropped):
	// the aggregators retry a peer that was not up yet every 1.357 s
	syncDl = 30 * time.Second
	warm := tr.NewWriter(os.DevNull)
	w, warm = warm, w
	runExec([]tr.Ev{{"ev": "reset"}, {"ev": "sync"}})
	w, warm = warm, w
	syncDl = 20 * time.Second
	if v, err := strconv.Atoi(os.Getenv("X05_STALL_MS")); err == nil && v > 0 {
		stallDl = time.Duration(v) * time.Millisecond
	}
	for _, ex := range tr.ReadScript(o.Script) {
		if timeouts >= 3 {
			break
		}
		runExec(ex)
	}
	stopSubs()
}
