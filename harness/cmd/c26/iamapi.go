package main

// Mode "iamapi": the real IAM API server (iamapi.NewIamApiServer, its configuration store is the
// real filer: /etc/iam/identity.json) next to a real S3 gateway that takes its identities from the
// filer (no -config file; it follows changes through its metadata subscription).
//   "iamop": one IAM API call (form POST to the real router -> DoActions); recorded: HTTP status and
//            the identities stored in the filer afterwards, every action string split into
//            [a, b, g] (g = no ":" in it).
//   "ireq":  a real S3 request, V4-header signed with the key pair an earlier CreateAccessKey call
//            returned (script token -> real key pair is kept here), recorded like "req".
// Before an execution: /etc/iam/identity.json is reset to the one base identity "admin".

import (
	"bytes"
	"context"
	"encoding/json"
	"fmt"
	"io/ioutil"
	"net/http"
	"net/url"
	"os"
	"regexp"
	"strings"
	"time"

	"github.com/gorilla/mux"
	"google.golang.org/grpc"

	"github.com/chrislusf/seaweedfs/weed/filer"
	"github.com/chrislusf/seaweedfs/weed/iamapi"
	"github.com/chrislusf/seaweedfs/weed/pb/iam_pb"
	"github.com/chrislusf/seaweedfs/weed/s3api"

	"verifharness/cluster"
	"verifharness/s3util"
	"verifharness/tr"
)

var (
	iamAddr  string
	iamGw    string
	iamKeys  = map[string][2]string{} // script key token -> access key, secret
	iamToken = map[string]string{}    // access key -> script token
)

var iamClient = &http.Transport{DisableKeepAlives: true}

const baseAK, baseSK = "AKAdmin", "SKAdmin0123456789abcdef"

func writeBase() {
	cfg := &iam_pb.S3ApiConfiguration{Identities: []*iam_pb.Identity{{Name: "admin",
		Credentials: []*iam_pb.Credential{{AccessKey: baseAK, SecretKey: baseSK}}, Actions: []string{"Admin"}}}}
	var b bytes.Buffer
	must(filer.ProtoToText(&b, cfg), "base identities")
	must(filer.SaveInsideFiler(fc, filer.IamConfigDirecotry, filer.IamIdentityFile, b.Bytes()), "save base identities")
}

func iamStart() {
	// the IAM API server first: with no identity file yet its own Auth wrapper is off, so the
	// calls of the script need no signature
	ip := cluster.FreePort()
	ir := mux.NewRouter().SkipClean(true)
	_, err := iamapi.NewIamApiServer(ir, &iamapi.IamServerOption{Masters: c.MasterAddr, Filer: c.FilerAddr, Port: ip,
		FilerGrpcAddress: c.FilerGrpc, GrpcDialOption: grpc.WithInsecure()})
	must(err, "iam api server")
	cluster.ServeHttp(ip, ir)
	iamAddr = fmt.Sprintf("127.0.0.1:%d", ip)
	// the gateway: started with the base identity in place, so that its Auth wrappers are on
	writeBase()
	sp := cluster.FreePort()
	router := mux.NewRouter().SkipClean(true)
	_, err = s3api.NewS3ApiServer(router, &s3api.S3ApiServerOption{Filer: c.FilerAddr, Port: sp,
		FilerGrpcAddress: c.FilerGrpc, BucketsPath: "/buckets", GrpcDialOption: grpc.WithInsecure()})
	must(err, "s3 gateway")
	cluster.ServeHttp(sp, router)
	iamGw = fmt.Sprintf("127.0.0.1:%d", sp)
	for i := 0; i < 100; i++ {
		resp, err := http.Get("http://" + iamGw + "/")
		if err == nil {
			ioutil.ReadAll(resp.Body)
			resp.Body.Close()
			break
		}
		time.Sleep(20 * time.Millisecond)
	}
	// its subscription starts in the background "from now": give it a moment, then make sure it follows
	time.Sleep(200 * time.Millisecond)
}

func iamReset() {
	writeBase()
	iamKeys = map[string][2]string{}
	iamOld = map[string]string{}
	iamToken = map[string]string{baseAK: "base"}
}

var (
	reAK = regexp.MustCompile(`<AccessKeyId>([^<]*)</AccessKeyId>`)
	reSK = regexp.MustCompile(`<SecretAccessKey>([^<]*)</SecretAccessKey>`)
)

func policyJSON(stmts []interface{}) string {
	var doc iamapi.PolicyDocument
	doc.Version = "2012-10-17"
	for _, s := range stmts {
		m := s.(map[string]interface{})
		doc.Statement = append(doc.Statement, &iamapi.Statement{Effect: tr.S(m, "eff"), Action: tr.Strs(m["acts"]), Resource: tr.Strs(m["res"])})
	}
	b, _ := json.Marshal(doc)
	return string(b)
}

func splitAction(a string) map[string]interface{} {
	i := strings.Index(a, ":")
	if i < 0 {
		return map[string]interface{}{"a": a, "b": "", "g": true}
	}
	return map[string]interface{}{"a": a[:i], "b": a[i+1:], "g": false}
}

func storedIdentities() []interface{} {
	content, err := filer.ReadInsideFiler(fc, filer.IamConfigDirecotry, filer.IamIdentityFile)
	must(err, "read identities")
	cfg := &iam_pb.S3ApiConfiguration{}
	if len(content) > 0 {
		must(filer.ParseS3ConfigurationFromBytes(content, cfg), "parse identities")
	}
	ids := make([]interface{}, 0)
	for _, id := range cfg.Identities {
		acts := make([]interface{}, 0)
		for _, a := range id.Actions {
			acts = append(acts, splitAction(a))
		}
		ids = append(ids, map[string]interface{}{"name": id.Name, "acts": acts, "nkeys": len(id.Credentials)})
	}
	return ids
}

// rotateSecret replaces the secret of the access key made for script token key in the stored identities (the access
// key id stays): what an operator does when a secret leaked. The IAM API of this version has no call for it, so the
// identity file is rewritten the way `s3.configure` does; the gateway follows the change like any other.
func rotateSecret(key string) bool {
	kp, ok := iamKeys[key]
	if !ok {
		return false
	}
	content, err := filer.ReadInsideFiler(fc, filer.IamConfigDirecotry, filer.IamIdentityFile)
	must(err, "read identities")
	cfg := &iam_pb.S3ApiConfiguration{}
	must(filer.ParseS3ConfigurationFromBytes(content, cfg), "parse identities")
	done := false
	for _, id := range cfg.Identities {
		for _, c := range id.Credentials {
			if c.AccessKey == kp[0] {
				c.SecretKey = "R" + kp[1][1:]
				if c.SecretKey == kp[1] {
					c.SecretKey = "Q" + kp[1][1:]
				}
				iamOld[key] = kp[1]
				iamKeys[key] = [2]string{kp[0], c.SecretKey}
				done = true
			}
		}
	}
	if done {
		var b bytes.Buffer
		must(filer.ProtoToText(&b, cfg), "identities")
		must(filer.SaveInsideFiler(fc, filer.IamConfigDirecotry, filer.IamIdentityFile, b.Bytes()), "save identities")
	}
	return done
}

var iamOld = map[string]string{} // script key token -> the secret it had before the last rotation

func doIamOp(e tr.Ev) {
	op, user, key := tr.S(e, "op"), tr.S(e, "user"), tr.S(e, "key")
	if op == "RotateSecret" {
		e["status"] = 404
		if rotateSecret(key) {
			e["status"] = 200
		}
		e["ids"] = storedIdentities()
		return
	}
	form := url.Values{"Action": {op}, "Version": {"2010-05-08"}}
	if user != "" {
		form.Set("UserName", user)
	}
	switch op {
	case "PutUserPolicy", "CreatePolicy":
		form.Set("PolicyName", tr.S(e, "pname"))
		form.Set("PolicyDocument", policyJSON(tr.List(e["stmts"])))
	case "GetUserPolicy", "DeleteUserPolicy":
		form.Set("PolicyName", tr.S(e, "pname"))
	case "DeleteAccessKey":
		form.Set("AccessKeyId", iamKeys[key][0])
	}
	// a connection per call: DoActions answers some refused calls twice (error + regular response), after
	// which net/http closes the connection under the next call
	preq, _ := http.NewRequest("POST", "http://"+iamAddr+"/", strings.NewReader(form.Encode()))
	preq.Header.Set("Content-Type", "application/x-www-form-urlencoded")
	resp, err := iamClient.RoundTrip(preq)
	must(err, "iam api call")
	body, _ := ioutil.ReadAll(resp.Body)
	resp.Body.Close()
	e["status"] = resp.StatusCode
	if op == "CreateAccessKey" && resp.StatusCode == 200 {
		ak, sk := reAK.FindSubmatch(body), reSK.FindSubmatch(body)
		if ak != nil && sk != nil {
			iamKeys[key] = [2]string{string(ak[1]), string(sk[1])}
			iamToken[string(ak[1])] = key
		}
	}
	e["ids"] = storedIdentities()
}

// iamAwait waits (3 s at most) until the gateway accepts the key made for token tok (ListBuckets needs nothing but
// an authenticated identity). The gateway applies identity changes in order, so it has then seen
// every earlier change of this execution too.
func iamAwait(tok string) bool {
	kp, ok := iamKeys[tok]
	if !ok {
		tr.Fatal("sync key was not created")
	}
	for i := 0; i < 300; i++ {
		req, _ := http.NewRequest("GET", "http://"+iamGw+"/", nil)
		s3util.SignV4Header(req, nil, kp[0], kp[1], time.Now().UTC())
		resp, err := client.RoundTrip(req)
		if err == nil {
			ioutil.ReadAll(resp.Body)
			resp.Body.Close()
			if resp.StatusCode == 200 {
				if os.Getenv("C26_DEBUG") != "" {
					fmt.Fprintf(os.Stderr, "C26DBG await iterations=%d\n", i)
				}
				return true
			}
		}
		time.Sleep(10 * time.Millisecond)
	}
	return false
}

func doIReq(e tr.Ev) {
	route, bucket := tr.S(e, "route"), tr.S(e, "bucket")
	kp, ok := iamKeys[tr.S(e, "key")]
	if !ok {
		kp = [2]string{"AKNEVERMADE", "SKNEVERMADE0123456789"}
	}
	// "sec": "old" = signed with the secret the key had before its last rotation (no longer configured)
	if sec, _ := e["sec"].(string); sec == "old" {
		if o, has := iamOld[tr.S(e, "key")]; has {
			kp[1] = o
		} else {
			kp[1] = "SKNEVERMADE0123456789"
		}
	} else {
		e["sec"] = "cur"
	}
	b := bucket
	if b == "" {
		b = "b1"
	}
	r, err := s3util.Build(route, params(route, b))
	must(err, "build")
	if r.Body != nil {
		r.Header.Set("Content-Type", "application/octet-stream")
	}
	req, err := r.HTTP(iamGw)
	must(err, "http request")
	s3util.SignV4Header(req, r.Body, kp[0], kp[1], time.Now().UTC())
	sendAndRecord(req, e)
	_ = context.Background
}
