package main

// "sreq": a streaming-signed upload (x-amz-content-sha256: STREAMING-AWS4-HMAC-SHA256-PAYLOAD) whose
// aws-chunked body is assembled from the script: per data chunk a size and a kind (ok, baddata,
// badsig, nosig, unchained), then the final zero-length chunk (ok, badsig, nosig, absent, cut), and
// the declared decoded length (exact, less, more). Chunk i is filled with the i-th capital letter
// (lower case where the data was changed after signing). Recorded besides the usual observations:
// whether the target object exists afterwards and its content, run-length encoded.

import (
	"bytes"
	"fmt"
	"io/ioutil"
	"net/http"
	"strings"
	"time"

	"verifharness/s3util"
	"verifharness/tr"
)

func flipHex(sig string) string {
	if sig == "" {
		return "0"
	}
	last := sig[len(sig)-1]
	if last == '0' {
		return sig[:len(sig)-1] + "1"
	}
	return sig[:len(sig)-1] + "0"
}

// streamBody encodes the chunks; seed is the seed signature the client computed.
func streamBody(chunks []interface{}, fin, seed, sk string, t time.Time) (body []byte, decoded int) {
	var out bytes.Buffer
	prev := seed
	lastStart, lastLen := 0, 0
	for i, ci := range chunks {
		c := ci.(map[string]interface{})
		n := tr.I(c, "n")
		kind := tr.S(c, "k")
		data := bytes.Repeat([]byte{byte('A' + i)}, n)
		from := prev
		if kind == "unchained" {
			from = strings.Repeat("0", 64)
		}
		sig := s3util.ChunkSig(from, sk, t, data)
		prev = sig
		switch kind {
		case "baddata":
			data = bytes.Repeat([]byte{byte('a' + i)}, n)
		case "badsig":
			sig = flipHex(sig)
		}
		if kind == "nosig" {
			fmt.Fprintf(&out, "%x\r\n", n)
		} else {
			fmt.Fprintf(&out, "%x;chunk-signature=%s\r\n", n, sig)
		}
		lastStart, lastLen = out.Len(), n
		out.Write(data)
		out.WriteString("\r\n")
		decoded += n
	}
	fsig := s3util.ChunkSig(prev, sk, t, nil)
	switch fin {
	case "ok":
		fmt.Fprintf(&out, "0;chunk-signature=%s\r\n\r\n", fsig)
	case "badsig":
		fmt.Fprintf(&out, "0;chunk-signature=%s\r\n\r\n", flipHex(fsig))
	case "nosig":
		out.WriteString("0\r\n\r\n")
	case "absent":
	case "cut":
		// the body breaks off inside the last data chunk
		return out.Bytes()[:lastStart+lastLen/2], decoded
	}
	return out.Bytes(), decoded
}

// rle: the content as runs [c, n]; bytes that are no ASCII letters are reported as "?";
// more than 6 runs: cut, with a closing ["+", 0].
func rle(b []byte) []interface{} {
	runs := make([]interface{}, 0)
	i := 0
	for i < len(b) {
		j := i
		for j < len(b) && b[j] == b[i] {
			j++
		}
		ch := "?"
		if (b[i] >= 'A' && b[i] <= 'Z') || (b[i] >= 'a' && b[i] <= 'z') {
			ch = string(b[i : i+1])
		}
		runs = append(runs, map[string]interface{}{"c": ch, "n": j - i})
		if len(runs) >= 6 && j < len(b) {
			runs = append(runs, map[string]interface{}{"c": "+", "n": 0})
			break
		}
		i = j
	}
	return runs
}

func doSReq(addr string, e tr.Ev) {
	route, cred, bucket := tr.S(e, "route"), tr.S(e, "cred"), tr.S(e, "bucket")
	ak, sk := keyPair(tr.S(e, "acts"), cred)
	now := time.Now().UTC()
	p := params(route, bucket)
	r, err := s3util.Build(route, p)
	must(err, "build")
	r.Header.Set("X-Amz-Meta-T", "a")
	r.Header.Set("Content-Type", "application/octet-stream")
	r.Header.Set("X-Amz-Content-Sha256", s3util.StreamingSHA)
	chunks := tr.List(e["chunks"])
	// the decoded length has to be known before signing (it is a signed header)
	decoded := 0
	for _, ci := range chunks {
		decoded += tr.I(ci.(map[string]interface{}), "n")
	}
	switch tr.S(e, "decl") {
	case "less":
		decoded--
	case "more":
		decoded += 7
	}
	r.Header.Set("X-Amz-Decoded-Content-Length", fmt.Sprint(decoded))
	r.Body = []byte{}
	req, err := r.HTTP(addr)
	must(err, "http request")
	seed := s3util.SignV4Header(req, nil, ak, sk, now)
	if cred == "tampered" {
		req.Header.Set("X-Amz-Meta-T", "b")
	}
	body, _ := streamBody(chunks, tr.S(e, "fin"), seed, sk, now)
	s3util.SetBody(req, body)
	sendAndRecord(req, e)
	// what is stored under the target key now (read from the filer directly)
	target := "/buckets/" + bucket + "/" + p.Key
	if route == "PutObjectPart" {
		target = "/buckets/" + bucket + "/.uploads/" + p.Uid + "/0003.part"
	}
	e["present"] = false
	e["stored"] = []interface{}{}
	resp, err := http.Get("http://" + c.FilerAddr + target)
	if err == nil {
		b, _ := ioutil.ReadAll(resp.Body)
		resp.Body.Close()
		if resp.StatusCode == 200 {
			e["present"] = true
			e["stored"] = rle(b)
		}
	}
}
