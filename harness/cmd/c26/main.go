// c26: instantiates abstract S3 requests (route x auth style x credential kind x identity
// action set x anonymous configuration) as real HTTP requests against real S3 gateways
// (one per anonymous configuration, identities loaded from a config file) in front of a
// real filer, and records what reached the filer: every filer gRPC / HTTP call made
// while the request was in flight (interceptors on the filer's servers) and whether the
// namespace changed. Event "sreq": a streaming-signed upload whose aws-chunked body is built
// chunk by chunk from the script (stream.go). Mode "iam": feeds policy documents to the real
// iamapi.GetActions. Mode "iamapi": a real IAM API server (iamapi.NewIamApiServer) over the real
// filer next to a real gateway that takes its identities from the filer (iamapi.go).
// The driver decides nothing; S3AuthTrace.tla judges the recorded events.
package main

import (
	"context"
	"encoding/json"
	"fmt"
	"io/ioutil"
	"net/http"
	"time"

	"github.com/gorilla/mux"
	"google.golang.org/grpc"

	"github.com/chrislusf/seaweedfs/weed/iamapi"
	"github.com/chrislusf/seaweedfs/weed/pb/filer_pb"
	"github.com/chrislusf/seaweedfs/weed/s3api"

	"verifharness/cluster"
	"verifharness/s3util"
	"verifharness/tr"
)

var (
	rec      = &s3util.Recorder{}
	c        *cluster.Cluster
	fc       filer_pb.SeaweedFilerClient
	gateways = map[string]string{} // config path -> gateway address
	baseline s3util.Snapshot
	dirty    = true
	reqNo    = 0
	client   = &http.Transport{MaxIdleConnsPerHost: 16}
)

func must(err error, what string) {
	if err != nil {
		tr.Fatal("%s: %v", what, err)
	}
}

func gateway(cfg string) string {
	if a, ok := gateways[cfg]; ok {
		return a
	}
	sp := cluster.FreePort()
	router := mux.NewRouter().SkipClean(true) // as weed/command/s3.go
	_, err := s3api.NewS3ApiServer(router, &s3api.S3ApiServerOption{Filer: c.FilerAddr, Port: sp,
		FilerGrpcAddress: c.FilerGrpc, BucketsPath: "/buckets", GrpcDialOption: grpc.WithInsecure(), Config: cfg})
	must(err, "s3 gateway")
	cluster.ServeHttp(sp, router)
	a := fmt.Sprintf("127.0.0.1:%d", sp)
	gateways[cfg] = a
	// wait until it answers
	for i := 0; i < 100; i++ {
		resp, err := http.Get("http://" + a + "/")
		if err == nil {
			ioutil.ReadAll(resp.Body)
			resp.Body.Close()
			break
		}
		time.Sleep(20 * time.Millisecond)
	}
	return a
}

func snap() s3util.Snapshot {
	skip := []string{"/topics"}
	if iamAddr != "" {
		// mode iamapi: /etc/iam is what the IAM API calls (and the reset before an execution) change
		skip = append(skip, "/etc")
	}
	s, err := s3util.Snap(fc, skip...)
	must(err, "snapshot")
	return s
}

// the fixed namespace every request starts from
func provision() {
	must(s3util.RmRecursive(fc, "/", "buckets"), "rm buckets")
	// b1x: same content as b1; its name has "b1" as a proper prefix
	for _, b := range []string{"b1", "b1x"} {
		must(s3util.PutFile(c.FilerAddr, "/buckets/"+b+"/obj", []byte("OBJ")), "put")
		must(s3util.SetExtended(fc, "/buckets/"+b, "obj", map[string][]byte{"X-Amz-Tagging-k": []byte("v")}), "tag")
		must(s3util.Mkdir(fc, "/buckets/"+b, ".uploads", nil), "mkdir")
		must(s3util.Mkdir(fc, "/buckets/"+b+"/.uploads", "u1", map[string][]byte{"key": []byte("mpobj")}), "mkdir")
		must(s3util.PutFile(c.FilerAddr, "/buckets/"+b+"/.uploads/u1/0001.part", []byte("PARTDATA")), "put")
	}
	must(s3util.PutFile(c.FilerAddr, "/buckets/b2/obj", []byte("B2OBJ")), "put")
	baseline = snap()
	dirty = false
}

func params(route, bucket string) s3util.P {
	p := s3util.P{Bucket: bucket, Key: "obj", Uid: "u1", Src: "/" + bucket + "/obj", DKeys: []string{"obj"}, Body: []byte("DATA")}
	switch route {
	case "PutObject", "NewMultipartUpload", "CompleteMultipartUpload":
		p.Key = "newobj"
	case "CopyObject":
		p.Key = "copied"
	}
	return p
}

// the key pair a request of identity `acts` is signed with, as the credential kind says
func keyPair(acts, cred string) (ak, sk string) {
	ak, sk = "AK"+acts, "SK"+acts+"0123456789abcdef"
	switch cred {
	case "wrongsecret":
		sk += "x"
	case "unknownkey":
		ak = "AKNOBODY"
	}
	return
}

func doReq(addr string, e tr.Ev) {
	route, style, cred := tr.S(e, "route"), tr.S(e, "style"), tr.S(e, "cred")
	bucket := tr.S(e, "bucket")
	if bucket == "" {
		bucket = "b1"
	}
	ak, sk := keyPair(tr.S(e, "acts"), cred)
	tamper := cred == "tampered"
	now := time.Now().UTC()
	p := params(route, bucket)
	r, err := s3util.Build(route, p)
	must(err, "build")
	r.Header.Set("X-Amz-Meta-T", "a")
	signedStyle := map[string]bool{"V2H": true, "V2P": true, "V4H": true, "V4P": true, "V4S": true, "POSTPOL": true, "POSTPOL2": true}[style]
	// browser-form bodies: the PostPolicy route only matches multipart/form-data requests
	if route == "PostPolicy" || style == "POSTPOL" || style == "POSTPOL2" {
		exp := now.Add(time.Hour)
		if cred == "expired" {
			exp = now.Add(-time.Hour)
		}
		var body []byte
		var ct string
		if style == "POSTPOL2" {
			body, ct = s3util.PostFormV2(bucket, "posted", []byte("FORMDATA"), ak, sk, exp, tamper)
		} else {
			body, ct = s3util.PostForm(bucket, "posted", []byte("FORMDATA"), signedStyle, ak, sk, now, exp, tamper)
		}
		r.Body = body
		r.Header.Set("Content-Type", ct)
	} else if r.Body != nil {
		r.Header.Set("Content-Type", "application/octet-stream")
	}
	if style == "UFORM" && route != "PostPolicy" {
		r.Header.Set("Content-Type", "multipart/form-data; boundary=zzzz")
	}
	if style == "USTREAM" {
		r.Header.Set("X-Amz-Content-Sha256", s3util.StreamingSHA)
	}
	body := r.Body
	var data []byte
	if style == "V4S" {
		data = body
		r.Header.Set("X-Amz-Content-Sha256", s3util.StreamingSHA)
		r.Header.Set("X-Amz-Decoded-Content-Length", fmt.Sprint(len(data)))
	}
	req, err := r.HTTP(addr)
	must(err, "http request")
	switch style {
	case "V4H":
		s3util.SignV4Header(req, body, ak, sk, now)
	case "V4S":
		seed := s3util.SignV4Header(req, nil, ak, sk, now)
		s3util.SetBody(req, s3util.StreamingBody(data, seed, sk, now))
	case "V4P":
		t, exp := now, 600
		if cred == "expired" {
			t, exp = now.Add(-2*time.Hour), 60
		}
		s3util.PresignV4(req, ak, sk, t, exp)
	case "V2H":
		s3util.SignV2Header(req, r.RawPath, ak, sk, now)
	case "V2P":
		exp := now.Unix() + 600
		if cred == "expired" {
			exp = now.Unix() - 600
		}
		s3util.PresignV2(req, r.RawPath, ak, sk, exp)
	case "BEARER":
		req.Header.Set("Authorization", "Bearer x")
	}
	if tamper && style != "POSTPOL" && style != "POSTPOL2" {
		req.Header.Set("X-Amz-Meta-T", "b") // covered by every header / presigned signature made above
	}
	sendAndRecord(req, e)
}

// sendAndRecord sends one request and adds the observations to e: status, the filer calls made
// while it was in flight, whether (and where) the namespace differs from the baseline.
func sendAndRecord(req *http.Request, e tr.Ev) {
	if dirty {
		provision()
	}
	reqNo++
	tag := fmt.Sprintf("r%d", reqNo)
	req.Header.Set(s3util.ReqTag, tag) // not covered by any signature made above
	rec.BeginTag(tag)
	resp, err := client.RoundTrip(req)
	status := 0
	if err == nil {
		ioutil.ReadAll(resp.Body)
		resp.Body.Close()
		status = resp.StatusCode
	}
	ts := rec.End()
	after := snap()
	diff := s3util.Diff(baseline, after)
	if len(diff) > 0 {
		dirty = true
	}
	touched := make([]interface{}, 0, len(ts))
	for _, t := range ts {
		touched = append(touched, map[string]interface{}{"via": t.Via, "m": t.M, "p": s3util.Segs(t.Eff), "st": t.St})
	}
	e["status"] = status
	e["touched"] = touched
	e["changed"] = len(diff) > 0
	if diff == nil {
		diff = []string{}
	}
	e["diff"] = diff
	if err != nil {
		e["err"] = err.Error()
	} else {
		e["err"] = ""
	}
}

func doPol(e tr.Ev) {
	var doc iamapi.PolicyDocument
	doc.Version = "2012-10-17"
	for _, s := range tr.List(e["stmts"]) {
		m := s.(map[string]interface{})
		doc.Statement = append(doc.Statement, &iamapi.Statement{Effect: tr.S(m, "eff"), Action: tr.Strs(m["acts"]), Resource: tr.Strs(m["res"])})
	}
	// through its JSON form, as the IAM API receives it
	b, _ := json.Marshal(doc)
	var parsed iamapi.PolicyDocument
	must(json.Unmarshal(b, &parsed), "policy json")
	out := make([]interface{}, 0)
	for _, a := range iamapi.GetActions(&parsed) {
		out = append(out, splitAction(a))
	}
	e["out"] = out
}

func main() {
	o := tr.ParseFlags()
	w := tr.NewWriter(o.Out)
	defer w.Close()
	execs := tr.ReadScript(o.Script)
	if o.Mode != "iam" {
		var err error
		c, err = cluster.New(cluster.Options{Volumes: 1, Filer: true, FilerUnary: rec.Unary(), FilerStream: rec.Stream(),
			FilerHTTPWrap: rec.HTTPWrap})
		must(err, "cluster")
		defer c.Close()
		conn, err := grpc.Dial(c.FilerGrpc, grpc.WithInsecure())
		must(err, "dial filer")
		fc = filer_pb.NewSeaweedFilerClient(conn)
		// the filer needs a moment before the first assign succeeds
		for i := 0; i < 100; i++ {
			if s3util.PutFile(c.FilerAddr, "/warmup/x", []byte("x")) == nil {
				break
			}
			time.Sleep(50 * time.Millisecond)
		}
		s3util.RmRecursive(fc, "/", "warmup")
		_ = context.Background
		if o.Mode == "iamapi" {
			// every gateway follows /etc/iam/identity.json of its filer, also one started with a
			// config file: IAM executions get a driver process of their own
			iamStart()
		}
	}
	for _, ex := range execs {
		w.Emit(ex[0])
		addr := ""
		if cfg := tr.S(ex[0], "zcfg"); cfg != "" {
			addr = gateway(cfg)
		}
		synced, nsync := false, 0
		if o.Mode == "iamapi" {
			iamReset()
		}
		for _, e := range ex[1:] {
			var pan string
			if tr.S(e, "ev") == "ireq" && !synced {
				// the gateway learns of identity changes through its metadata subscription: wait
				// until it has seen the last one (an access key made now is accepted)
				// (an identity change now and then reaches the subscription only together with the next
				// one: after 3 s another key is made)
				failed := false
				for attempt := 0; ; attempt++ {
					nsync++
					sk := fmt.Sprintf("ks%d", nsync)
					se := tr.Ev{"ev": "iamop", "op": "CreateAccessKey", "user": "zsync", "key": sk, "pname": "", "stmts": []interface{}{}}
					if p := tr.Guard(func() { doIamOp(se) }); p != "" {
						w.Emit(tr.Ev{"ev": "panic", "op": se, "msg": p})
						failed = true
						break
					}
					w.Emit(se)
					if iamAwait(sk) {
						break
					}
					if attempt == 39 {
						tr.Fatal("the gateway did not pick up the identity changes within 120 s")
					}
				}
				if failed {
					break
				}
				synced = true
			}
			switch tr.S(e, "ev") {
			case "req":
				pan = tr.Guard(func() { doReq(addr, e) })
			case "sreq":
				pan = tr.Guard(func() { doSReq(addr, e) })
			case "iamop":
				if tr.S(e, "user") == "zsync" {
					continue // a replayed script: the synchronisation calls are made anew
				}
				pan = tr.Guard(func() { doIamOp(e) })
				synced = false
			case "ireq":
				pan = tr.Guard(func() { doIReq(e) })
			case "pol":
				pan = tr.Guard(func() { doPol(e) })
			default:
				continue
			}
			if pan != "" {
				w.Emit(tr.Ev{"ev": "panic", "op": e, "msg": pan})
				break
			}
			w.Emit(e)
		}
	}
}
