// c36: feeds scripted filer change events to the REAL event-processing code of
// filer.replicate (replication.Replicator.Replicate), of filer.sync / filer.backup
// (command.genProcessFunction through the verif hook) and of one direction of
// filer.sync end to end (command.doSubscribeFilerMetaChanges with the real
// FilerSink, between two stand-in filer gRPC endpoints that only stream the
// scripted events / record the mutation requests they receive).
//
// The driver only executes and records: the sink calls (operation, raw key,
// new parent path, entry name/kind/content, signatures, found flag) and, for
// the real LocalSink, the directory tree below the sink directory after every
// event. It decides nothing.
//
// Script (ndjson):
//
//	{"ev":"reset","mode":"replicate|syncfn|sync","sink":"rec|local","sname":"filer|rec|local",
//	 "src":[comps],"srcslash":bool,"to":[comps],"toslash":bool,"incr":bool,
//	 "mt1":int,"mt2":int,"oday":"2006-01-02","nday":"..."}   (every key sorts after "ev")
//	{"ev":"apply","kind":"create|update|delete|rename","old":[comps],"new":[comps],"isdir":bool,
//	 "origin":"local|target|third","found":bool,"oc":"c1","nc":"c2"}
//
// old entries carry mtime mt1 and inline content oc, new entries mt2 and nc.
package main

import (
	"context"
	"fmt"
	"io/ioutil"
	"os"
	"path/filepath"
	"sort"
	"strings"

	"github.com/chrislusf/seaweedfs/weed/command"
	"github.com/chrislusf/seaweedfs/weed/pb/filer_pb"
	"github.com/chrislusf/seaweedfs/weed/replication"
	"github.com/chrislusf/seaweedfs/weed/replication/sink"
	"github.com/chrislusf/seaweedfs/weed/replication/sink/localsink"
	"github.com/chrislusf/seaweedfs/weed/replication/source"
	"github.com/chrislusf/seaweedfs/weed/util"

	"verifharness/tr"
)

const (
	sigSrc    = 11
	sigTarget = 22
	sigThird  = 33
)

// ---------------------------------------------------------------- configuration stand-in

type conf map[string]interface{}

func (c conf) GetString(k string) string {
	s, _ := c[k].(string)
	return s
}
func (c conf) GetBool(k string) bool {
	b, _ := c[k].(bool)
	return b
}
func (c conf) GetInt(k string) int {
	i, _ := c[k].(int)
	return i
}
func (c conf) GetStringSlice(k string) []string   { return nil }
func (c conf) SetDefault(k string, v interface{}) {}

// ---------------------------------------------------------------- recording sink

type call = map[string]interface{}

// recSink implements sink.ReplicationSink. With inner == nil it only records;
// otherwise it records and delegates to the real sink (LocalSink).
type recSink struct {
	name  string
	dir   string
	incr  bool
	found bool // scripted answer of UpdateEntry when there is no inner sink
	inner sink.ReplicationSink
	strip string // prefix removed from recorded keys (the temp root of the local sink)
	calls []interface{}
}

func sigList(s []int32) []int {
	r := make([]int, 0, len(s))
	for _, x := range s {
		r = append(r, int(x))
	}
	return r
}

func (r *recSink) rel(k string) string {
	if r.strip != "" && strings.HasPrefix(k, r.strip) {
		k = k[len(r.strip):]
		if k == "" {
			k = "/"
		}
	}
	return k
}

func (r *recSink) GetName() string                                                  { return r.name }
func (r *recSink) Initialize(configuration util.Configuration, prefix string) error { return nil }
func (r *recSink) GetSinkToDirectory() string {
	if r.inner != nil {
		return r.inner.GetSinkToDirectory()
	}
	return r.dir
}
func (r *recSink) SetSourceFiler(s *source.FilerSource) {
	if r.inner != nil {
		r.inner.SetSourceFiler(s)
	}
}
func (r *recSink) IsIncremental() bool {
	if r.inner != nil {
		return r.inner.IsIncremental()
	}
	return r.incr
}

func (r *recSink) DeleteEntry(key string, isDirectory, deleteIncludeChunks bool, signatures []int32) error {
	r.calls = append(r.calls, call{"op": "delete", "key": r.rel(key), "isdir": isDirectory, "np": "", "name": "", "on": "",
		"c": "", "found": false, "sigs": sigList(signatures), "other": true})
	if r.inner != nil {
		return r.inner.DeleteEntry(key, isDirectory, deleteIncludeChunks, signatures)
	}
	return nil
}

func (r *recSink) CreateEntry(key string, entry *filer_pb.Entry, signatures []int32) error {
	r.calls = append(r.calls, call{"op": "create", "key": r.rel(key), "isdir": entry.IsDirectory, "np": "", "name": entry.Name, "on": "",
		"c": string(entry.Content), "found": false, "sigs": sigList(signatures), "other": true})
	if r.inner != nil {
		return r.inner.CreateEntry(key, entry, signatures)
	}
	return nil
}

func (r *recSink) UpdateEntry(key string, oldEntry *filer_pb.Entry, newParentPath string, newEntry *filer_pb.Entry, deleteIncludeChunks bool, signatures []int32) (bool, error) {
	c := call{"op": "update", "key": r.rel(key), "isdir": newEntry.IsDirectory, "np": r.rel(newParentPath), "name": newEntry.Name, "on": oldEntry.Name,
		"c": string(newEntry.Content), "found": r.found, "sigs": sigList(signatures), "other": true}
	r.calls = append(r.calls, c)
	if r.inner != nil {
		found, err := r.inner.UpdateEntry(key, oldEntry, newParentPath, newEntry, deleteIncludeChunks, signatures)
		c["found"] = found
		return found, err
	}
	return r.found, nil
}

// ---------------------------------------------------------------- helpers

func rawPath(comps []string, slash bool) string {
	p := "/" + strings.Join(comps, "/")
	if slash && len(comps) > 0 {
		p += "/"
	}
	return p
}

func dirName(comps []string) (string, string) {
	return "/" + strings.Join(comps[:len(comps)-1], "/"), comps[len(comps)-1]
}

func mkEntry(name string, isDir bool, mtime int64, content string) *filer_pb.Entry {
	e := &filer_pb.Entry{
		Name:        name,
		IsDirectory: isDir,
		Attributes: &filer_pb.FuseAttributes{
			Mtime:    mtime,
			Crtime:   mtime,
			FileMode: 0644,
		},
	}
	if isDir {
		e.Attributes.FileMode = uint32(os.ModeDir) | 0755
	} else {
		e.Content = []byte(content)
		e.Attributes.FileSize = uint64(len(content))
		e.Attributes.Md5 = []byte(fmt.Sprintf("%-16s", content))[:16]
	}
	return e
}

// buildEvent turns a scripted event into what the filer publishes
// (filer.NotifyUpdateEvent / logMetaEvent): key = full path of the old entry, or
// of the new entry when there is no old one; Directory = its parent;
// NewParentPath = parent of the new entry.
func buildEvent(e tr.Ev, mt1, mt2 int64) (key string, resp *filer_pb.SubscribeMetadataResponse, sigs []int) {
	old, nw := tr.Strs(e["old"]), tr.Strs(e["new"])
	isDir := tr.B(e, "isdir")
	m := &filer_pb.EventNotification{DeleteChunks: true}
	var dir string
	if len(nw) > 0 {
		d, n := dirName(nw)
		m.NewEntry = mkEntry(n, isDir, mt2, tr.S(e, "nc"))
		m.NewParentPath = d
		dir = d
		key = rawPath(nw, false)
	}
	if len(old) > 0 {
		d, n := dirName(old)
		m.OldEntry = mkEntry(n, isDir, mt1, tr.S(e, "oc"))
		dir = d
		key = rawPath(old, false)
	}
	switch tr.S(e, "origin") {
	case "target":
		m.IsFromOtherCluster = true
		m.Signatures = []int32{sigTarget, sigSrc}
	case "third":
		m.IsFromOtherCluster = true
		m.Signatures = []int32{sigThird, sigSrc}
	default:
		m.Signatures = []int32{sigSrc}
	}
	return key, &filer_pb.SubscribeMetadataResponse{Directory: dir, EventNotification: m, TsNs: 1}, sigList(m.Signatures)
}

type node struct {
	P []string `json:"p"`
	K string   `json:"k"`
	C string   `json:"c"`
}

// render: the bytes of a sink file as a string TLC can compare: letters and digits as they
// are, a zero byte as "0", anything else as "?" (at most 4096 bytes, then "+<length>")
func render(b []byte) string {
	out := make([]byte, 0, len(b))
	for i, x := range b {
		if i == 4096 {
			return string(out) + fmt.Sprintf("+%d", len(b))
		}
		switch {
		case x == 0:
			out = append(out, '0')
		case x >= 'a' && x <= 'z', x >= 'A' && x <= 'Z', x >= '1' && x <= '9':
			out = append(out, x)
		default:
			out = append(out, '?')
		}
	}
	return string(out)
}

func listTree(root string) []interface{} {
	res := []interface{}{}
	var paths []string
	filepath.Walk(root, func(p string, info os.FileInfo, err error) error {
		if err == nil && p != root {
			paths = append(paths, p)
		}
		return nil
	})
	sort.Strings(paths)
	for _, p := range paths {
		st, err := os.Lstat(p)
		if err != nil {
			continue
		}
		rel, _ := filepath.Rel(root, p)
		n := map[string]interface{}{"p": strings.Split(filepath.ToSlash(rel), "/"), "k": "f", "c": ""}
		if st.IsDir() {
			n["k"] = "d"
		} else {
			b, _ := ioutil.ReadFile(p)
			n["c"] = render(b)
		}
		res = append(res, n)
	}
	return res
}

// ---------------------------------------------------------------- main

func main() {
	o := tr.ParseFlags()
	w := tr.NewWriter(o.Out)
	defer w.Close()
	defer cleanupBackup()
	for _, ex := range tr.ReadScript(o.Script) {
		runExec(w, ex)
	}
}

func runExec(w *tr.Writer, ex []tr.Ev) {
	cfg := ex[0]
	mode := tr.S(cfg, "mode")
	src := rawPath(tr.Strs(cfg["src"]), tr.B(cfg, "srcslash"))
	dst := rawPath(tr.Strs(cfg["to"]), tr.B(cfg, "toslash"))
	incr := tr.B(cfg, "incr")
	mt1, mt2 := int64(tr.I(cfg, "mt1")), int64(tr.I(cfg, "mt2"))
	w.Emit(cfg)

	if mode == "sync" {
		runSync(w, ex, src, dst, mt1, mt2)
		return
	}
	if mode == "backup" {
		runBackup(w, ex, src, dst, mt1, mt2)
		return
	}

	// the source filer of the sink: nobody, unless the execution has chunked entries
	// (then the kit's real filer, which answers the volume lookups)
	filerHTTP, filerGrpc := "127.0.0.1:1", "127.0.0.1:1"
	if hasChunked(ex) {
		k := ensureKit()
		filerHTTP, filerGrpc = k.FilerAddr, k.FilerGrpc
	}
	rs := &recSink{name: tr.S(cfg, "sname"), dir: dst, incr: incr}
	tmp := ""
	if tr.S(cfg, "sink") == "local" {
		var err error
		tmp, err = ioutil.TempDir("", "c36-")
		if err != nil {
			tr.Fatal("tempdir: %v", err)
		}
		defer os.RemoveAll(tmp)
		ls := &localsink.LocalSink{}
		if err := ls.Initialize(conf{"directory": tmp + dst, "is_incremental": incr}, ""); err != nil {
			tr.Fatal("local sink: %v", err)
		}
		rs.inner = ls
		rs.strip = tmp
		rs.name = ls.GetName()
	}

	var apply func(key string, resp *filer_pb.SubscribeMetadataResponse) error
	switch mode {
	case "replicate":
		// the constructor filer.replicate uses: source.filer.directory from the configuration
		r := replication.NewReplicator(conf{"source.filer.grpcAddress": filerGrpc, "source.filer.directory": src}, "source.filer.", rs)
		apply = func(key string, resp *filer_pb.SubscribeMetadataResponse) error {
			return r.Replicate(context.Background(), key, resp.EventNotification)
		}
	case "syncfn":
		// as doFilerBackup / doSubscribeFilerMetaChanges do
		fsrc := &source.FilerSource{}
		fsrc.DoInitialize(filerHTTP, filerGrpc, src, false)
		rs.SetSourceFiler(fsrc)
		fn := command.VerifGenProcessFunction(src, rs.GetSinkToDirectory(), rs, false)
		apply = func(key string, resp *filer_pb.SubscribeMetadataResponse) error { return fn(resp) }
	default:
		tr.Fatal("unknown mode %q", mode)
	}

	for _, e := range ex[1:] {
		if tr.S(e, "ev") != "apply" && tr.S(e, "ev") != "capply" {
			continue
		}
		key, resp, sigs := buildEvent(e, mt1, mt2)
		if tr.S(e, "ev") == "capply" {
			chunkify(e, resp, mt1, mt2)
		}
		rs.calls = []interface{}{}
		rs.found = tr.B(e, "found")
		var err error
		pan := tr.Guard(func() { err = apply(key, resp) })
		if pan != "" {
			w.Emit(tr.Ev{"ev": "panic", "op": e, "msg": pan})
			break
		}
		out := tr.Copy(e)
		out["sigs"] = sigs
		out["calls"] = rs.calls
		out["err"] = ""
		if err != nil {
			out["err"] = err.Error()
			if tmp != "" {
				out["err"] = strings.ReplaceAll(err.Error(), tmp, "")
			}
		}
		out["tree"] = []interface{}{}
		if tmp != "" {
			out["tree"] = listTree(tmp)
		}
		w.Emit(out)
	}
}
