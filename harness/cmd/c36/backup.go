package main

// "backup" mode: the real filer.backup round (command.doFilerBackup through the verif
// hook) runs in this process against the kit's REAL filer: it finds the local sink in the
// (viper) replication configuration, subscribes to the filer's metadata stream and applies
// every event the filer publishes through genProcessFunction to the real LocalSink, whose
// CreateEntry copies the chunks from the kit's real volume server.
//
// The script mutates the source through the filer's gRPC / HTTP API (entries with scripted
// chunk lists whose data the driver uploaded, inline content, POSTed bodies the filer chunks
// itself, deletes, renames). After every mutation the driver writes a marker entry inside the
// watched directory, waits until the marker shows up in the sink directory (the stream is
// ordered: everything before it has been applied) and records
//   - the source: every entry below the execution's directories as the filer lists it
//     (path, chunk list as stored, size attribute, inline content),
//   - the sink: the file tree below the sink directory (paths and bytes).
// Whether the sink mirrors the watched part of the source is decided by ReplMapTrace.tla.
//
// One process serves ONE backup configuration (the sink registry and viper are
// process-global); every execution works in its own sub-directories (the "roots" of the
// reset line).
//
//	{"ev":"reset","mode":"backup","sink":"local","sname":"local","src":[..],"to":[..],"incr":bool,...,
//	 "roots":[[comps]...],"ns":"x17"}
//	{"ev":"bop","do":"put","a":[comps],"b":[],"ch":[chunks],"sz":n,"c":"inline","mt":1|2,"via":"create|update"}
//	{"ev":"bop","do":"post","a":[comps],"b":[],"k":1,"len":n}
//	{"ev":"bop","do":"mkdir","a":[comps],"b":[]}
//	{"ev":"bop","do":"rm","a":[comps],"b":[]}          (recursive)
//	{"ev":"bop","do":"mv","a":[old comps],"b":[new comps]}
//	{"ev":"pre", ...the same fields...}   a mutation without marker and observation; in the first
//	   execution of a process: before the backup round starts (it must pick up what is already there)

import (
	"bytes"
	"context"
	"fmt"
	"io/ioutil"
	"net/http"
	"os"
	"path/filepath"
	"sort"
	"strings"
	"sync"
	"time"

	"google.golang.org/grpc"

	"github.com/chrislusf/seaweedfs/weed/command"
	"github.com/chrislusf/seaweedfs/weed/pb/filer_pb"
	"github.com/chrislusf/seaweedfs/weed/replication/source"
	"github.com/chrislusf/seaweedfs/weed/util"

	"verifharness/tr"
)

type backupRun struct {
	key     string // src|dst|incr of the one configuration of this process
	tmp     string
	fsrc    *source.FilerSource
	mu      sync.Mutex
	err     string // what doFilerBackup returned, if it returned
	fids    map[string]int
	seq     int
	src     string
	started bool
	gaveUp  bool // a marker never arrived: stop driving
}

var bk *backupRun

func startBackup(src, dst string, incr bool) *backupRun {
	key := fmt.Sprintf("%s|%s|%v", src, dst, incr)
	if bk != nil {
		if bk.key != key {
			tr.Fatal("backup mode: one configuration per process (have %s, got %s)", bk.key, key)
		}
		return bk
	}
	k := ensureKit()
	tmp, err := ioutil.TempDir("", "c36b-")
	if err != nil {
		tr.Fatal("tempdir: %v", err)
	}
	// replication.toml, as far as filer.backup reads it
	v := util.GetViper()
	v.Set("sink.local.enabled", true)
	v.Set("sink.local.directory", tmp+dst)
	v.Set("sink.local.is_incremental", incr)
	b := &backupRun{key: key, tmp: tmp, fids: map[string]int{}, src: src}
	b.fsrc = &source.FilerSource{}
	b.fsrc.DoInitialize(k.FilerAddr, k.FilerGrpc, "/", false)
	bk = b
	return b
}

// launch starts the backup round (once): "pre" mutations of the first execution happen before it.
func (b *backupRun) launch() {
	if b.started {
		return
	}
	b.started = true
	k := ensureKit()
	go func() {
		var err error
		pan := tr.Guard(func() { err = command.VerifFilerBackup(grpc.WithInsecure(), k.FilerAddr, b.src, false, 0) })
		b.mu.Lock()
		b.err = fmt.Sprintf("returned: %v %s", err, pan)
		b.mu.Unlock()
	}()
}

func (b *backupRun) client(fn func(c filer_pb.SeaweedFilerClient) error) error {
	return b.fsrc.WithFilerClient(fn)
}

func errS(err error) string {
	if err != nil {
		return err.Error()
	}
	return ""
}

func (b *backupRun) do(e tr.Ev, mt1, mt2 int64) string {
	pa, pb := tr.Strs(e["a"]), tr.Strs(e["b"])
	switch tr.S(e, "do") {
	case "put", "mkdir":
		d, n := dirName(pa)
		mt := mt2
		if tr.I(e, "mt") == 1 {
			mt = mt1
		}
		var ent *filer_pb.Entry
		if tr.S(e, "do") == "mkdir" {
			ent = mkEntry(n, true, mt, "")
		} else if c := tr.S(e, "c"); c != "" {
			ent = mkEntry(n, false, mt, c)
			ent.Attributes.Md5 = nil
		} else {
			ent = mkChunkEntry(n, mt, e["ch"], tr.I(e, "sz"), false)
			for i, x := range tr.List(e["ch"]) {
				m, _ := x.(map[string]interface{})
				b.fids[ent.Chunks[i].GetFileIdString()] = tr.I(tr.Ev(m), "k")
			}
		}
		return errS(b.client(func(c filer_pb.SeaweedFilerClient) error {
			if tr.S(e, "via") == "update" {
				_, err := c.UpdateEntry(context.Background(), &filer_pb.UpdateEntryRequest{Directory: d, Entry: ent})
				return err
			}
			return filer_pb.CreateEntry(c, &filer_pb.CreateEntryRequest{Directory: d, Entry: ent})
		}))
	case "post":
		k := ensureKit()
		req, _ := http.NewRequest("PUT", "http://"+k.FilerAddr+rawPath(pa, false), bytes.NewReader(chunkData(tr.I(e, "k"), tr.I(e, "len"))))
		req.Header.Set("Content-Type", "application/octet-stream")
		resp, err := http.DefaultClient.Do(req)
		if err != nil {
			return err.Error()
		}
		defer resp.Body.Close()
		ioutil.ReadAll(resp.Body)
		if resp.StatusCode >= 300 {
			return resp.Status
		}
		return ""
	case "rm":
		d, n := dirName(pa)
		return errS(b.client(func(c filer_pb.SeaweedFilerClient) error {
			resp, err := c.DeleteEntry(context.Background(), &filer_pb.DeleteEntryRequest{Directory: d, Name: n, IsDeleteData: true, IsRecursive: true})
			if err == nil && resp.Error != "" {
				return fmt.Errorf("%s", resp.Error)
			}
			return err
		}))
	case "mv":
		od, on := dirName(pa)
		nd, nn := dirName(pb)
		return errS(b.client(func(c filer_pb.SeaweedFilerClient) error {
			_, err := c.AtomicRenameEntry(context.Background(), &filer_pb.AtomicRenameEntryRequest{OldDirectory: od, OldName: on, NewDirectory: nd, NewName: nn})
			return err
		}))
	}
	tr.Fatal("unknown bop %v", e)
	return ""
}

const markerPrefix = ".s-"

// settle writes a marker entry into the watched directory and waits for it in the sink directory.
func (b *backupRun) settle(src []string, dst string, ns string, incr bool, nday string, mt2 int64) (timedOut bool) {
	b.seq++
	name := fmt.Sprintf("%s%d", markerPrefix, b.seq)
	dir := rawPath(append(append([]string{}, src...), ns), false)
	if err := b.client(func(c filer_pb.SeaweedFilerClient) error {
		return filer_pb.CreateEntry(c, &filer_pb.CreateEntryRequest{Directory: dir, Entry: mkEntry(name, false, mt2, "m")})
	}); err != nil {
		tr.Fatal("marker: %v", err)
	}
	want := b.tmp + dst
	if incr {
		want = filepath.Join(want, nday)
	}
	want = filepath.Join(want, ns, name)
	deadline := time.Now().Add(60 * time.Second)
	for time.Now().Before(deadline) {
		if st, err := os.Stat(want); err == nil && st.Size() > 0 {
			return false
		}
		b.mu.Lock()
		dead := b.err != ""
		b.mu.Unlock()
		if dead {
			return true
		}
		time.Sleep(time.Millisecond)
	}
	return true
}

// listSource: every entry below the roots as the filer lists it.
func (b *backupRun) listSource(roots [][]string) []interface{} {
	res := []interface{}{}
	var walk func(dir []string)
	walk = func(dir []string) {
		var ents []*filer_pb.Entry
		err := filer_pb.ReadDirAllEntries(b.fsrc, util.FullPath(rawPath(dir, false)), "", func(entry *filer_pb.Entry, isLast bool) error {
			ents = append(ents, entry)
			return nil
		})
		if err != nil {
			return // no such directory
		}
		for _, ent := range ents {
			if strings.HasPrefix(ent.Name, markerPrefix) {
				continue
			}
			p := append(append([]string{}, dir...), ent.Name)
			n := map[string]interface{}{"p": p, "k": "f", "c": "", "sz": 0, "ch": []interface{}{}}
			if ent.IsDirectory {
				n["k"] = "d"
				res = append(res, n)
				walk(p)
				continue
			}
			n["c"] = render(ent.Content)
			n["sz"] = int(ent.Attributes.GetFileSize())
			// logical write times as ranks (the filer's own chunks carry nanoseconds)
			order := make([]int, len(ent.Chunks))
			for i := range order {
				order[i] = i
			}
			sort.SliceStable(order, func(x, y int) bool { return ent.Chunks[order[x]].Mtime < ent.Chunks[order[y]].Mtime })
			rank := make([]int, len(ent.Chunks))
			for r, i := range order {
				rank[i] = r + 1
			}
			chs := []interface{}{}
			for i, c := range ent.Chunks {
				chs = append(chs, map[string]interface{}{"off": int(c.Offset), "len": int(c.Size), "k": b.alphabetOf(c), "ts": rank[i]})
			}
			n["ch"] = chs
			res = append(res, n)
		}
	}
	for _, r := range roots {
		walk(r)
	}
	return res
}

// alphabetOf: which alphabet the stored chunk holds: known for the chunks the driver uploaded,
// else (the filer uploaded it) read from the first byte of the stored blob.
func (b *backupRun) alphabetOf(c *filer_pb.FileChunk) int {
	fid := c.GetFileIdString()
	if k, ok := b.fids[fid]; ok {
		return k
	}
	k := 0
	urls, err := b.fsrc.LookupFileId(fid)
	if err == nil && len(urls) > 0 && len(c.CipherKey) == 0 {
		if data, _, err := util.Get(urls[0]); err == nil && len(data) > 0 {
			for i, a := range alpha {
				if a[0] == data[0] {
					k = i + 1
				}
			}
		}
	}
	b.fids[fid] = k
	return k
}

func (b *backupRun) listSink(ns string) []interface{} {
	res := []interface{}{}
	for _, x := range listTree(b.tmp) {
		n := x.(map[string]interface{})
		p := n["p"].([]string)
		mine := false
		for _, c := range p {
			if c == ns {
				mine = true
			}
		}
		if mine && !strings.HasPrefix(p[len(p)-1], markerPrefix) {
			res = append(res, n)
		}
	}
	return res
}

func runBackup(w *tr.Writer, ex []tr.Ev, src, dst string, mt1, mt2 int64) {
	cfg := ex[0]
	incr := tr.B(cfg, "incr")
	b := startBackup(src, dst, incr)
	ns := tr.S(cfg, "ns")
	var roots [][]string
	for _, r := range tr.List(cfg["roots"]) {
		roots = append(roots, tr.Strs(r))
	}
	if b.gaveUp {
		return
	}
	for _, e := range ex[1:] {
		if tr.S(e, "ev") == "pre" {
			// a mutation that is not observed on its own (e.g. before the backup round starts)
			out := tr.Copy(e)
			out["err"] = b.do(e, mt1, mt2)
			w.Emit(out)
			continue
		}
		if tr.S(e, "ev") != "bop" {
			continue
		}
		b.launch()
		out := tr.Copy(e) // the inputs (a saved execution is a script)
		out["err"] = b.do(e, mt1, mt2)
		out["timeout"] = b.settle(tr.Strs(cfg["src"]), dst, ns, incr, tr.S(cfg, "nday"), mt2)
		b.mu.Lock()
		out["berr"] = b.err
		b.mu.Unlock()
		out["src"] = b.listSource(roots)
		out["tree"] = b.listSink(ns)
		w.Emit(out)
		if out["timeout"].(bool) {
			b.gaveUp = true
			break
		}
	}
}

func cleanupBackup() {
	if bk != nil {
		os.RemoveAll(bk.tmp)
	}
	if kit != nil {
		kit.Close()
	}
}
