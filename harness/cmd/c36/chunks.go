package main

// Chunked source entries (C36, "what arrives at the sink"): the entries of the
// scripted events carry REAL chunks that were uploaded to a real volume server of
// the mini-cluster kit, the FilerSource of the sink looks volumes up at the kit's
// real filer, so LocalSink.CreateEntry / UpdateEntry -> repl_util.CopyFromChunkViews
// really fetches bytes and writes them into the sink directory.
//
// A chunk of the script is {"off":o,"len":n,"k":a,"ts":t,"gz":bool,"ci":bool}: n bytes
// of alphabet a (byte j = alpha[a][j mod 10]) at file offset o, written at logical
// time t; gz = stored compressed on the volume server, ci = stored encrypted (the
// chunk carries its cipher key). The driver uploads and records; what the bytes of
// the file are (later chunks cover earlier ones, holes read as zero bytes, the size
// is the larger of the size attribute and the extent of the chunks) is stated by
// ReplMap.tla, not here.

import (
	"fmt"
	"sync"

	"github.com/golang/protobuf/proto"
	"google.golang.org/grpc"

	"github.com/chrislusf/seaweedfs/weed/operation"
	"github.com/chrislusf/seaweedfs/weed/pb/filer_pb"

	"verifharness/cluster"
	"verifharness/tr"
)

var alpha = []string{"abcdefghij", "ABCDEFGHIJ", "qrstuvwxyz", "KLMNOPQRST"}

var (
	kit     *cluster.Cluster
	kitOnce sync.Once
	upCache = map[string]*filer_pb.FileChunk{}
)

func ensureKit() *cluster.Cluster {
	kitOnce.Do(func() {
		c, err := cluster.New(cluster.Options{Volumes: 1, Filer: true})
		if err != nil {
			tr.Fatal("cluster: %v", err)
		}
		kit = c
	})
	return kit
}

func chunkData(k, n int) []byte {
	a := alpha[(k-1)%len(alpha)]
	b := make([]byte, n)
	for j := range b {
		b[j] = a[j%len(a)]
	}
	return b
}

// uploadChunk stores the data of one scripted chunk on the volume server and returns the
// chunk record (file id, size, cipher key, compressed flag) the upload produced.
// cached = the same stored blob may back several entries (the event-processing
// functions never delete chunks of the source).
func uploadChunk(k, n int, gz, ci, cached bool) *filer_pb.FileChunk {
	key := fmt.Sprintf("%d/%d/%v/%v", k, n, gz, ci)
	if cached {
		if c, ok := upCache[key]; ok {
			return c
		}
	}
	c := ensureKit()
	var res *filer_pb.FileChunk
	var lastErr error
	for try := 0; try < 5 && res == nil; try++ {
		a, err := operation.Assign(func() string { return c.MasterAddr }, grpc.WithInsecure(), &operation.VolumeAssignRequest{Count: 1})
		if err != nil {
			lastErr = err
			continue
		}
		name, mime := "", "application/octet-stream"
		if gz {
			name, mime = "c.txt", "text/plain" // a compressible type: operation.UploadData gzips it
		}
		ur, err := operation.UploadData("http://"+a.Url+"/"+a.Fid, name, ci, chunkData(k, n), false, mime, nil, a.Auth)
		if err != nil {
			lastErr = err
			continue
		}
		if ur.Error != "" {
			lastErr = fmt.Errorf("%s", ur.Error)
			continue
		}
		res = ur.ToPbFileChunk(a.Fid, 0)
	}
	if res == nil {
		tr.Fatal("upload chunk: %v", lastErr)
	}
	if cached {
		upCache[key] = res
	}
	return res
}

func chunkList(v interface{}, cached bool) []*filer_pb.FileChunk {
	var out []*filer_pb.FileChunk
	for _, x := range tr.List(v) {
		m, _ := x.(map[string]interface{})
		e := tr.Ev(m)
		t := uploadChunk(tr.I(e, "k"), tr.I(e, "len"), tr.B(e, "gz"), tr.B(e, "ci"), cached)
		c := proto.Clone(t).(*filer_pb.FileChunk)
		c.Offset = int64(tr.I(e, "off"))
		c.Mtime = int64(tr.I(e, "ts"))
		out = append(out, c)
	}
	return out
}

// mkChunkEntry: a file entry with the scripted chunk list and size attribute, no inline content.
func mkChunkEntry(name string, mtime int64, chunks interface{}, size int, cached bool) *filer_pb.Entry {
	e := mkEntry(name, false, mtime, "")
	e.Content = nil
	e.Attributes.Md5 = nil
	e.Attributes.FileSize = uint64(size)
	e.Chunks = chunkList(chunks, cached)
	return e
}

// chunkify replaces the entries of a built event by chunked ones ("capply").
func chunkify(e tr.Ev, resp *filer_pb.SubscribeMetadataResponse, mt1, mt2 int64) {
	m := resp.EventNotification
	if m.OldEntry != nil {
		m.OldEntry = mkChunkEntry(m.OldEntry.Name, mt1, e["och"], tr.I(e, "osz"), true)
	}
	if m.NewEntry != nil {
		m.NewEntry = mkChunkEntry(m.NewEntry.Name, mt2, e["nch"], tr.I(e, "nsz"), true)
	}
}

func hasChunked(ex []tr.Ev) bool {
	for _, e := range ex {
		if tr.S(e, "ev") == "capply" {
			return true
		}
	}
	return false
}
