package main

// "sync" mode: one direction of filer.sync end to end. The real
// command.doSubscribeFilerMetaChanges (through the verif hook) reads the two
// filers' signatures, subscribes to the source filer, filters events that carry
// the target's signature and applies the rest through the real FilerSink. Both
// filers are stand-ins that speak the filer gRPC protocol on loopback:
//   - the source stand-in answers GetFilerConfiguration (signature 11) and
//     streams the one scripted event of the current step, then ends the stream;
//   - the target stand-in answers GetFilerConfiguration (signature 22), KvGet /
//     KvPut (the sync offset), LookupDirectoryEntry (found: the event's old
//     entry, when the script says the old key exists; else not found) and
//     RECORDS every CreateEntry / UpdateEntry / DeleteEntry request.
// The stand-ins hold no model of a file tree and decide nothing.

import (
	"context"
	"fmt"
	"net"
	"sync"

	"google.golang.org/grpc"

	"github.com/chrislusf/seaweedfs/weed/command"
	"github.com/chrislusf/seaweedfs/weed/pb/filer_pb"
	"github.com/chrislusf/seaweedfs/weed/util"

	"verifharness/tr"
)

type fakeFiler struct {
	filer_pb.UnimplementedSeaweedFilerServer
	mu        sync.Mutex
	signature int32
	httpAddr  string // host:port such that gRPC listens on port+10000

	// source role
	event *filer_pb.SubscribeMetadataResponse

	// target role
	found    bool
	oldEntry *filer_pb.Entry
	isDir    bool
	calls    []interface{}
}

func (f *fakeFiler) GetFilerConfiguration(ctx context.Context, req *filer_pb.GetFilerConfigurationRequest) (*filer_pb.GetFilerConfigurationResponse, error) {
	return &filer_pb.GetFilerConfigurationResponse{Signature: f.signature, MaxMb: 4}, nil
}

func (f *fakeFiler) KvGet(ctx context.Context, req *filer_pb.KvGetRequest) (*filer_pb.KvGetResponse, error) {
	return &filer_pb.KvGetResponse{}, nil
}

func (f *fakeFiler) KvPut(ctx context.Context, req *filer_pb.KvPutRequest) (*filer_pb.KvPutResponse, error) {
	return &filer_pb.KvPutResponse{}, nil
}

func (f *fakeFiler) SubscribeMetadata(req *filer_pb.SubscribeMetadataRequest, stream filer_pb.SeaweedFiler_SubscribeMetadataServer) error {
	f.mu.Lock()
	ev := f.event
	f.mu.Unlock()
	if ev != nil {
		if err := stream.Send(ev); err != nil {
			return err
		}
	}
	return nil // end of stream: the subscriber returns
}

func (f *fakeFiler) LookupDirectoryEntry(ctx context.Context, req *filer_pb.LookupDirectoryEntryRequest) (*filer_pb.LookupDirectoryEntryResponse, error) {
	f.mu.Lock()
	defer f.mu.Unlock()
	if !f.found || f.oldEntry == nil {
		return nil, filer_pb.ErrNotFound
	}
	e := *f.oldEntry
	e.Name = req.Name
	return &filer_pb.LookupDirectoryEntryResponse{Entry: &e}, nil
}

func (f *fakeFiler) record(op, dir string, entry *filer_pb.Entry, name string, fromOther bool, sigs []int32) {
	f.mu.Lock()
	defer f.mu.Unlock()
	c := call{"op": op, "key": util.Join(dir, name), "isdir": f.isDir, "np": "", "name": "", "on": "", "c": "", "found": false,
		"sigs": sigList(sigs), "other": fromOther}
	if entry != nil {
		c["isdir"] = entry.IsDirectory
		c["name"] = entry.Name
		c["c"] = string(entry.Content)
	}
	if op == "update" {
		// the request names the directory to save into and the entry (with its name)
		c["np"] = dir
		c["on"] = entry.Name
		c["found"] = true
	}
	f.calls = append(f.calls, c)
}

func (f *fakeFiler) CreateEntry(ctx context.Context, req *filer_pb.CreateEntryRequest) (*filer_pb.CreateEntryResponse, error) {
	f.record("create", req.Directory, req.Entry, req.Entry.Name, req.IsFromOtherCluster, req.Signatures)
	return &filer_pb.CreateEntryResponse{}, nil
}

func (f *fakeFiler) UpdateEntry(ctx context.Context, req *filer_pb.UpdateEntryRequest) (*filer_pb.UpdateEntryResponse, error) {
	f.record("update", req.Directory, req.Entry, req.Entry.Name, req.IsFromOtherCluster, req.Signatures)
	return &filer_pb.UpdateEntryResponse{}, nil
}

func (f *fakeFiler) DeleteEntry(ctx context.Context, req *filer_pb.DeleteEntryRequest) (*filer_pb.DeleteEntryResponse, error) {
	f.record("delete", req.Directory, nil, req.Name, req.IsFromOtherCluster, req.Signatures)
	return &filer_pb.DeleteEntryResponse{}, nil
}

func startFake(sig int32) *fakeFiler {
	for try := 0; try < 50; try++ {
		l, err := net.Listen("tcp", "127.0.0.1:0")
		if err != nil {
			tr.Fatal("listen: %v", err)
		}
		port := l.Addr().(*net.TCPAddr).Port
		if port <= 11000 {
			l.Close()
			continue
		}
		f := &fakeFiler{signature: sig, httpAddr: fmt.Sprintf("127.0.0.1:%d", port-10000)}
		s := grpc.NewServer()
		filer_pb.RegisterSeaweedFilerServer(s, f)
		go s.Serve(l)
		return f
	}
	tr.Fatal("no usable port")
	return nil
}

var (
	fakeSrc, fakeDst *fakeFiler
)

func runSync(w *tr.Writer, ex []tr.Ev, src, dst string, mt1, mt2 int64) {
	if fakeSrc == nil {
		fakeSrc = startFake(sigSrc)
		fakeDst = startFake(sigTarget)
	}
	for _, e := range ex[1:] {
		if tr.S(e, "ev") != "apply" {
			continue
		}
		_, resp, sigs := buildEvent(e, mt1, mt2)
		fakeSrc.mu.Lock()
		fakeSrc.event = resp
		fakeSrc.mu.Unlock()
		fakeDst.mu.Lock()
		fakeDst.calls = []interface{}{}
		fakeDst.found = tr.B(e, "found")
		fakeDst.oldEntry = resp.EventNotification.OldEntry
		fakeDst.isDir = tr.B(e, "isdir")
		fakeDst.mu.Unlock()
		var err error
		pan := tr.Guard(func() {
			err = command.VerifSyncOneDirection(grpc.WithInsecure(), fakeSrc.httpAddr, src, fakeDst.httpAddr, dst)
		})
		if pan != "" {
			w.Emit(tr.Ev{"ev": "panic", "op": e, "msg": pan})
			break
		}
		out := tr.Copy(e)
		out["sigs"] = sigs
		fakeDst.mu.Lock()
		out["calls"] = fakeDst.calls
		fakeDst.mu.Unlock()
		out["err"] = ""
		if err != nil {
			out["err"] = err.Error()
		}
		out["tree"] = []interface{}{}
		w.Emit(out)
	}
}
