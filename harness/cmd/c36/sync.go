package main

import "verifharness/tr"

func runSync(w *tr.Writer, ex []tr.Ev, src, dst string, mt1, mt2 int64) {
	tr.Fatal("sync mode not implemented")
}
