// cec: the erasure-coding life cycle of a volume on one REAL volume server, driven over
// the same RPCs the shell's ec.encode / ec.rebuild / ec.decode use, with reads, writes and
// deletes over HTTP. Ops: write{k,d} delete{k} encode lose{shards} rebuild decode.
// After every op every key is read over HTTP.
package main

import (
	"bytes"
	"context"
	"io/ioutil"
	"mime/multipart"
	"net/http"
	"time"

	"github.com/chrislusf/seaweedfs/weed/pb/volume_server_pb"
	"github.com/chrislusf/seaweedfs/weed/storage/needle"

	"verifharness/cluster"
	"verifharness/tr"
)

var datas = map[string][]byte{
	"a": []byte("AAAA-data-a"),
	"b": []byte("bbbbbbbbbbbbbbbbbbbbbbbb-data-b"),
	"L": bytes.Repeat([]byte("0123456789abcdef"), 4000), // 64000 bytes
}

const cookie = 0x11111111

func dataToken(b []byte) string {
	for t, v := range datas {
		if bytes.Equal(v, b) {
			return t
		}
	}
	return "?"
}

func main() {
	o := tr.ParseFlags()
	w := tr.NewWriter(o.Out)
	defer w.Close()
	c, err := cluster.New(cluster.Options{Volumes: 1})
	if err != nil {
		tr.Fatal("cluster: %v", err)
	}
	defer c.Close()
	url := c.Volumes[0].Url
	hc := &http.Client{Timeout: 30 * time.Second}
	ctx := context.Background()
	all := make([]uint32, 14)
	for i := range all {
		all[i] = uint32(i)
	}
	for _, ex := range tr.ReadScript(o.Script) {
		vid, err := c.NewVolume("", "000", "")
		if err != nil {
			tr.Fatal("new volume: %v", err)
		}
		keys := tr.Ints(ex[0]["keys"])
		w.Emit(ex[0])
		fid := func(k int) string { return needle.NewFileId(needle.VolumeId(vid), uint64(k), cookie).String() }
		rpc := func(f func(cl volume_server_pb.VolumeServerClient) error) string {
			if err := cluster.WithVolumeServer(url, f); err != nil {
				return "err:" + err.Error()
			}
			return "ok"
		}
		phaseEc := false
		var lost []uint32
		for _, e := range ex[1:] {
			ev := tr.S(e, "ev")
			if ev == "read" {
				continue
			}
			e = tr.Copy(e)
			e["res"] = "ok"
			pan, timedOut := tr.GuardT(120*time.Second, func() {
				switch ev {
				case "write":
					var buf bytes.Buffer
					mw := multipart.NewWriter(&buf)
					pw, _ := mw.CreateFormField("file")
					pw.Write(datas[tr.S(e, "d")])
					mw.Close()
					req, _ := http.NewRequest("POST", "http://"+url+"/"+fid(tr.I(e, "k")), &buf)
					req.Header.Set("Content-Type", mw.FormDataContentType())
					resp, err := hc.Do(req)
					if err != nil {
						e["res"] = "err"
						return
					}
					ioutil.ReadAll(resp.Body)
					resp.Body.Close()
					if resp.StatusCode != 201 && resp.StatusCode != 204 {
						e["res"] = "err"
					}
				case "delete":
					req, _ := http.NewRequest("DELETE", "http://"+url+"/"+fid(tr.I(e, "k")), nil)
					resp, err := hc.Do(req)
					if err != nil {
						e["res"] = "err"
						return
					}
					ioutil.ReadAll(resp.Body)
					resp.Body.Close()
					if resp.StatusCode == 404 {
						e["res"] = "notfound"
					} else if resp.StatusCode != 202 {
						e["res"] = "err"
					}
				case "encode":
					e["res"] = rpc(func(cl volume_server_pb.VolumeServerClient) error {
						if _, err := cl.VolumeMarkReadonly(ctx, &volume_server_pb.VolumeMarkReadonlyRequest{VolumeId: vid}); err != nil {
							return err
						}
						if _, err := cl.VolumeEcShardsGenerate(ctx, &volume_server_pb.VolumeEcShardsGenerateRequest{VolumeId: vid}); err != nil {
							return err
						}
						if _, err := cl.VolumeEcShardsMount(ctx, &volume_server_pb.VolumeEcShardsMountRequest{VolumeId: vid, ShardIds: all}); err != nil {
							return err
						}
						// the shell then removes the normal volume (after the shards were spread)
						if _, err := cl.VolumeUnmount(ctx, &volume_server_pb.VolumeUnmountRequest{VolumeId: vid}); err != nil {
							return err
						}
						return nil
					})
					phaseEc = true
				case "lose":
					lost = nil
					for _, s := range tr.Ints(e["shards"]) {
						lost = append(lost, uint32(s))
					}
					e["res"] = rpc(func(cl volume_server_pb.VolumeServerClient) error {
						if _, err := cl.VolumeEcShardsUnmount(ctx, &volume_server_pb.VolumeEcShardsUnmountRequest{VolumeId: vid, ShardIds: lost}); err != nil {
							return err
						}
						_, err := cl.VolumeEcShardsDelete(ctx, &volume_server_pb.VolumeEcShardsDeleteRequest{VolumeId: vid, ShardIds: lost})
						return err
					})
				case "rebuild":
					e["res"] = rpc(func(cl volume_server_pb.VolumeServerClient) error {
						r, err := cl.VolumeEcShardsRebuild(ctx, &volume_server_pb.VolumeEcShardsRebuildRequest{VolumeId: vid})
						if err != nil {
							return err
						}
						e["rebuilt"] = len(r.RebuiltShardIds)
						_, err = cl.VolumeEcShardsMount(ctx, &volume_server_pb.VolumeEcShardsMountRequest{VolumeId: vid, ShardIds: r.RebuiltShardIds})
						return err
					})
				case "decode":
					e["res"] = rpc(func(cl volume_server_pb.VolumeServerClient) error {
						if _, err := cl.VolumeEcShardsToVolume(ctx, &volume_server_pb.VolumeEcShardsToVolumeRequest{VolumeId: vid}); err != nil {
							return err
						}
						if _, err := cl.VolumeEcShardsUnmount(ctx, &volume_server_pb.VolumeEcShardsUnmountRequest{VolumeId: vid, ShardIds: all}); err != nil {
							return err
						}
						if _, err := cl.VolumeMount(ctx, &volume_server_pb.VolumeMountRequest{VolumeId: vid}); err != nil {
							return err
						}
						if _, err := cl.VolumeEcShardsDelete(ctx, &volume_server_pb.VolumeEcShardsDeleteRequest{VolumeId: vid, ShardIds: all}); err != nil {
							return err
						}
						_, err := cl.VolumeMarkWritable(ctx, &volume_server_pb.VolumeMarkWritableRequest{VolumeId: vid})
						return err
					})
					phaseEc = false
				default:
					tr.Fatal("unknown op %s", ev)
				}
			})
			if timedOut {
				w.Emit(tr.Ev{"ev": "timeout", "op": e})
				break
			}
			if pan != "" {
				w.Emit(tr.Ev{"ev": "panic", "op": e, "msg": pan})
				break
			}
			if r := tr.S(e, "res"); len(r) > 4 && r[:4] == "err:" {
				e["detail"] = r
				e["res"] = "err"
			}
			w.Emit(e)
			for _, k := range keys {
				r := tr.Ev{"ev": "read", "k": k, "st": "err", "d": ""}
				resp, err := hc.Get("http://" + url + "/" + fid(k))
				if err == nil {
					body, _ := ioutil.ReadAll(resp.Body)
					resp.Body.Close()
					if resp.StatusCode == 200 {
						r["st"] = "data"
						r["d"] = dataToken(body)
					} else if resp.StatusCode == 404 {
						r["st"] = "notfound"
					}
				}
				w.Emit(r)
			}
		}
		// clean up whatever form the volume is in
		rpc(func(cl volume_server_pb.VolumeServerClient) error {
			cl.VolumeEcShardsUnmount(ctx, &volume_server_pb.VolumeEcShardsUnmountRequest{VolumeId: vid, ShardIds: all})
			cl.VolumeEcShardsDelete(ctx, &volume_server_pb.VolumeEcShardsDeleteRequest{VolumeId: vid, ShardIds: all})
			cl.VolumeMount(ctx, &volume_server_pb.VolumeMountRequest{VolumeId: vid})
			cl.VolumeDelete(ctx, &volume_server_pb.VolumeDeleteRequest{VolumeId: vid})
			return nil
		})
		_ = phaseEc
	}
}
