// scratch probe (not part of any check)
package main

import (
	"fmt"
	"io/ioutil"
	"net/http"
	"os"
	"strings"
	"time"

	"github.com/gorilla/mux"
	"google.golang.org/grpc"

	"github.com/chrislusf/seaweedfs/weed/pb/filer_pb"
	"github.com/chrislusf/seaweedfs/weed/s3api"

	"verifharness/cluster"
	"verifharness/s3util"
	"verifharness/tr"
)

var rec = &s3util.Recorder{}
var c *cluster.Cluster

func do(addr string, req *http.Request) {
	rec.Begin()
	resp, err := http.DefaultTransport.RoundTrip(req)
	if err != nil {
		fmt.Println("ERR", err)
		rec.End()
		return
	}
	b, _ := ioutil.ReadAll(resp.Body)
	resp.Body.Close()
	ts := rec.End()
	bs := string(b)
	if len(bs) > 200 {
		bs = bs[:200]
	}
	fmt.Printf("%s %s -> %d %q\n", req.Method, req.URL.String(), resp.StatusCode, bs)
	for _, t := range ts {
		fmt.Printf("     %s %s raw=%s eff=%s st=%d\n", t.Via, t.M, t.Raw, t.Eff, t.St)
	}
}

func provision() {
	c.FilerClient(func(cl filer_pb.SeaweedFilerClient) error {
		s3util.RmRecursive(cl, "/", "buckets")
		s3util.RmRecursive(cl, "/", "outside")
		return nil
	})
	must(s3util.PutFile(c.FilerAddr, "/buckets/b1/obj", []byte("B1OBJ")))
	must(s3util.PutFile(c.FilerAddr, "/buckets/b2/obj", []byte("B2SECRET")))
	must(s3util.PutFile(c.FilerAddr, "/outside/secret", []byte("OUTSIDESECRET")))
	must(s3util.PutFile(c.FilerAddr, "/buckets/b1/.uploads/u1/0001.part", []byte("PARTDATA")))
}
func must(err error) {
	if err != nil {
		fmt.Println("MUST", err)
		os.Exit(1)
	}
}
func snap() s3util.Snapshot {
	var s s3util.Snapshot
	c.FilerClient(func(cl filer_pb.SeaweedFilerClient) error {
		var err error
		s, err = s3util.Snap(cl, "/topics")
		must(err)
		return nil
	})
	return s
}

func main() {
	tr.ParseFlags()
	var err error
	c, err = cluster.New(cluster.Options{Volumes: 1, S3: true, FilerUnary: rec.Unary(), FilerStream: rec.Stream(), FilerHTTPWrap: rec.HTTPWrap})
	must(err)
	defer c.Close()
	// second gateway with identities
	cfg := c.Base + "/ident.json"
	ioutil.WriteFile(cfg, []byte(`{"identities":[{"name":"adm","credentials":[{"accessKey":"AKADM","secretKey":"SKADM"}],"actions":["Admin"]},
	 {"name":"rd","credentials":[{"accessKey":"AKRD","secretKey":"SKRD"}],"actions":["Read"]}]}`), 0644)
	sp := cluster.FreePort()
	router := mux.NewRouter().SkipClean(true)
	_, err = s3api.NewS3ApiServer(router, &s3api.S3ApiServerOption{Filer: c.FilerAddr, Port: sp, FilerGrpcAddress: c.FilerGrpc,
		BucketsPath: "/buckets", GrpcDialOption: grpc.WithInsecure(), Config: cfg})
	must(err)
	cluster.ServeHttp(sp, router)
	auth := fmt.Sprintf("127.0.0.1:%d", sp)
	time.Sleep(300 * time.Millisecond)
	provision()
	base := snap()
	for p, s := range base {
		fmt.Println("SNAP", p, s)
	}
	mode := os.Args[len(os.Args)-1]
	_ = mode
	mk := func(addr, route string, p s3util.P) *http.Request {
		r, err := s3util.Build(route, p)
		must(err)
		q, err := r.HTTP(addr)
		must(err)
		return q
	}
	fmt.Println("=== C29 probes (no auth)")
	na := c.S3Addr
	for _, k := range []string{"obj", "../b2/obj", "%2e%2e/b2/obj", "../../outside/secret", ".uploads/u1/0001.part", "a//b", "//x"} {
		do(na, mk(na, "GetObject", s3util.P{Bucket: "b1", Key: k}))
		do(na, mk(na, "GetObjectTagging", s3util.P{Bucket: "b1", Key: k}))
	}
	do(na, mk(na, "CopyObject", s3util.P{Bucket: "b1", Key: "cp", Src: "../outside/secret"}))
	do(na, mk(na, "GetObject", s3util.P{Bucket: "b1", Key: "cp"}))
	do(na, mk(na, "PutObject", s3util.P{Bucket: "b1", Key: "../b2/new", Body: []byte("x")}))
	do(na, mk(na, "DeleteObject", s3util.P{Bucket: "b1", Key: "../b2/obj"}))
	fmt.Println("DIFF", s3util.Diff(base, snap()))
	do(na, mk(na, "DeleteMultipleObjects", s3util.P{Bucket: "b1", DKeys: []string{"../b2/obj"}}))
	fmt.Println("DIFF", s3util.Diff(base, snap()))
	do(na, mk(na, "AbortMultipartUpload", s3util.P{Bucket: "b1", Key: "k", Uid: "../../../outside"}))
	fmt.Println("DIFF", s3util.Diff(base, snap()))
	provision()
	base = snap()
	fmt.Println("=== C26 probes (auth)")
	r := mk(auth, "GetObject", s3util.P{Bucket: "b1", Key: "obj"})
	do(auth, r)
	r = mk(auth, "GetObject", s3util.P{Bucket: "b1", Key: "obj"})
	s3util.SignV4Header(r, nil, "AKRD", "SKRD", time.Now().UTC())
	do(auth, r)
	r = mk(auth, "GetObject", s3util.P{Bucket: "b1", Key: "obj"})
	s3util.PresignV4(r, "AKRD", "SKRD", time.Now().UTC(), 600)
	do(auth, r)
	r = mk(auth, "GetObject", s3util.P{Bucket: "b1", Key: "obj"})
	s3util.SignV2Header(r, "/b1/obj", "AKRD", "SKRD", time.Now())
	do(auth, r)
	r = mk(auth, "GetObject", s3util.P{Bucket: "b1", Key: "obj"})
	s3util.PresignV2(r, "/b1/obj", "AKRD", "SKRD", time.Now().Unix()+600)
	do(auth, r)
	r = mk(auth, "PutObject", s3util.P{Bucket: "b1", Key: "new", Body: []byte("zz")})
	s3util.SignV4Header(r, []byte("zz"), "AKRD", "SKRD", time.Now().UTC())
	do(auth, r)
	// streaming valid by admin
	t := time.Now().UTC()
	r = mk(auth, "PutObject", s3util.P{Bucket: "b1", Key: "stream", Body: []byte("zz")})
	r.Header.Set("X-Amz-Content-Sha256", s3util.StreamingSHA)
	r.Header.Set("X-Amz-Decoded-Content-Length", "2")
	seed := s3util.SignV4Header(r, nil, "AKADM", "SKADM", t)
	s3util.SetBody(r, s3util.StreamingBody([]byte("zz"), seed, "SKADM", t))
	do(auth, r)
	do(na, mk(na, "GetObject", s3util.P{Bucket: "b1", Key: "stream"}))
	// unsigned streaming on several PUT routes
	for _, rt := range []string{"PutObject", "PutObjectPart", "CopyObject", "PutObjectTagging", "PutBucket", "CopyObjectPart"} {
		p := s3util.P{Bucket: "b1", Key: "us" + rt, Body: []byte("zz"), Uid: "u1", Src: "/b2/obj"}
		if rt == "PutBucket" {
			p.Bucket = "b3"
		}
		if rt == "PutObjectTagging" {
			p.Key = "obj"
		}
		r = mk(auth, rt, p)
		r.Header.Set("X-Amz-Content-Sha256", s3util.StreamingSHA)
		do(auth, r)
	}
	for _, rt := range []string{"CompleteMultipartUpload", "NewMultipartUpload", "DeleteMultipleObjects", "PostPolicy"} {
		p := s3util.P{Bucket: "b1", Key: "uf" + rt, Uid: "u1", DKeys: []string{"obj"}}
		r = mk(auth, rt, p)
		r.Header.Set("Content-Type", "multipart/form-data; boundary=xyz")
		do(auth, r)
	}
	// post policy signed by read-only identity
	body, ct := s3util.PostForm("b1", "posted", []byte("PP"), true, "AKRD", "SKRD", t, t.Add(time.Hour), false)
	r = mk(auth, "PostPolicy", s3util.P{Bucket: "b1"})
	s3util.SetBody(r, body)
	r.Header.Set("Content-Type", ct)
	do(auth, r)
	fmt.Println("DIFF", s3util.Diff(base, snap()))
	_ = strings.Join
}
