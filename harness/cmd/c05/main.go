// c05: executes needle-map scripts on the REAL index implementations of
// weed/storage (needle_map.CompactMap, needle_map.MemDb, storage.NeedleMap via
// NewCompactNeedleMap/LoadCompactNeedleMap, LevelDbNeedleMap, SortedFileNeedleMap)
// in a temp dir and records what they return. No reference model here: keys and
// offsets are tokens (indexes into the tables of the reset line), the driver only
// translates tokens to the real 64-bit values and back.
//
// reset: {"ev":"reset","kind":"cm|memdb|mem|ldb","keys":["<uint64>",..],"offs":["<offset in 8-byte units>",..]}
// ops:   fill{base,n,stride,o,s}  put{k,o,s}  del{k,o}  get{k}  reload{how}  freeze{}  visit{} (cm, memdb)
// after every state-changing op the driver appends   snap{got:[{f,o,s,k}..]}  (a Get of every
// token key) and, for the NeedleMapper kinds,        cnt{fc,dc,fb,db,maxk}.
package main

import (
	"flag"
	"fmt"
	"os"
	"path/filepath"
	"strconv"

	"github.com/syndtr/goleveldb/leveldb/opt"

	"github.com/chrislusf/seaweedfs/weed/storage"
	"github.com/chrislusf/seaweedfs/weed/storage/needle_map"
	"github.com/chrislusf/seaweedfs/weed/storage/types"

	"verifharness/tr"
)

const clampAt = 1 << 30

func clamp(v int64) int64 {
	if v > clampAt {
		return clampAt
	}
	if v < -clampAt {
		return -clampAt
	}
	return v
}

func clampU(v uint64) int64 {
	if v > clampAt {
		return clampAt
	}
	return int64(v)
}

type got struct {
	found bool
	off   int64 // 8-byte units
	size  int32
	key   uint64
}

type impl interface {
	Put(k uint64, off int64, size int32) error
	Del(k uint64, off int64) (res int64, hasres bool, err error)
	Get(k uint64) got
	Cnt() (fc, dc int, fb, db, maxk uint64, ok bool)
	Reload(how string) error
	Visit(func(needle_map.NeedleValue) error) error // nil function result = unsupported
	Close()
}

var errNoVisit = fmt.Errorf("unsupported")

func toOff(units int64) types.Offset { return types.ToOffset(units * types.NeedlePaddingSize) }
func fromOff(o types.Offset) int64   { return o.ToActualOffset() / types.NeedlePaddingSize }

func fromNV(nv *needle_map.NeedleValue, ok bool) got {
	if !ok || nv == nil {
		return got{found: ok && nv != nil}
	}
	return got{found: true, off: fromOff(nv.Offset), size: int32(nv.Size), key: uint64(nv.Key)}
}

// ---- raw needle_map.CompactMap
type cmImpl struct{ m *needle_map.CompactMap }

func (c *cmImpl) Put(k uint64, off int64, size int32) error {
	c.m.Set(types.NeedleId(k), toOff(off), types.Size(size))
	return nil
}
func (c *cmImpl) Del(k uint64, off int64) (int64, bool, error) {
	return int64(c.m.Delete(types.NeedleId(k))), true, nil
}
func (c *cmImpl) Get(k uint64) got { return fromNV(c.m.Get(types.NeedleId(k))) }
func (c *cmImpl) Cnt() (int, int, uint64, uint64, uint64, bool) {
	return 0, 0, 0, 0, 0, false
}
func (c *cmImpl) Reload(how string) error { return fmt.Errorf("unsupported") }
func (c *cmImpl) Visit(f func(needle_map.NeedleValue) error) error {
	return c.m.AscendingVisit(f)
}
func (c *cmImpl) Close() {}

// ---- raw needle_map.MemDb; reload = SaveToIdx + LoadFromIdx into a new MemDb
type memdbImpl struct {
	m   *needle_map.MemDb
	dir string
	n   int
}

func (c *memdbImpl) Put(k uint64, off int64, size int32) error {
	return c.m.Set(types.NeedleId(k), toOff(off), types.Size(size))
}
func (c *memdbImpl) Del(k uint64, off int64) (int64, bool, error) {
	return 0, false, c.m.Delete(types.NeedleId(k))
}
func (c *memdbImpl) Get(k uint64) got { return fromNV(c.m.Get(types.NeedleId(k))) }
func (c *memdbImpl) Cnt() (int, int, uint64, uint64, uint64, bool) {
	return 0, 0, 0, 0, 0, false
}
func (c *memdbImpl) Reload(how string) error {
	c.n++
	p := filepath.Join(c.dir, fmt.Sprintf("m%d.idx", c.n))
	if err := c.m.SaveToIdx(p); err != nil {
		return err
	}
	c.m.Close()
	c.m = needle_map.NewMemDb()
	return c.m.LoadFromIdx(p)
}
func (c *memdbImpl) Close() { c.m.Close() }
func (c *memdbImpl) Visit(f func(needle_map.NeedleValue) error) error {
	return c.m.AscendingVisit(f)
}

// ---- storage.NeedleMapper kinds over <dir>/v.idx
type mapperImpl struct {
	kind string // mem | ldb | sorted
	dir  string
	nm   storage.NeedleMapper
}

func ldbOpts() *opt.Options {
	return &opt.Options{BlockCacheCapacity: 2 * 1024 * 1024, WriteBuffer: 1 * 1024 * 1024, CompactionTableSizeMultiplier: 10}
}

func (c *mapperImpl) open(load bool) error {
	f, err := os.OpenFile(filepath.Join(c.dir, "v.idx"), os.O_RDWR|os.O_CREATE, 0644)
	if err != nil {
		tr.Fatal("open idx: %v", err)
	}
	switch c.kind {
	case "mem":
		if load {
			c.nm, err = storage.LoadCompactNeedleMap(f)
		} else {
			c.nm = storage.NewCompactNeedleMap(f)
		}
	case "ldb":
		var m *storage.LevelDbNeedleMap
		m, err = storage.NewLevelDbNeedleMap(filepath.Join(c.dir, "v.ldb"), f, ldbOpts())
		if err == nil {
			c.nm = m
		}
	case "sorted":
		var m *storage.SortedFileNeedleMap
		m, err = storage.NewSortedFileNeedleMap(filepath.Join(c.dir, "v"), f)
		if err == nil {
			c.nm = m
		}
	}
	if err != nil {
		c.nm = nil
	}
	return err
}
func (c *mapperImpl) Put(k uint64, off int64, size int32) error {
	return c.nm.Put(types.NeedleId(k), toOff(off), types.Size(size))
}
func (c *mapperImpl) Del(k uint64, off int64) (int64, bool, error) {
	return 0, false, c.nm.Delete(types.NeedleId(k), toOff(off))
}
func (c *mapperImpl) Get(k uint64) got { return fromNV(c.nm.Get(types.NeedleId(k))) }
func (c *mapperImpl) Cnt() (int, int, uint64, uint64, uint64, bool) {
	return c.nm.FileCount(), c.nm.DeletedCount(), c.nm.ContentSize(), c.nm.DeletedSize(), uint64(c.nm.MaxFileKey()), true
}
func (c *mapperImpl) Reload(how string) error {
	c.nm.Close()
	switch how {
	case "regen": // drop the derived files: they have to be regenerated from the .idx
		os.RemoveAll(filepath.Join(c.dir, "v.ldb"))
		os.Remove(filepath.Join(c.dir, "v.sdx"))
	}
	return c.open(true)
}
func (c *mapperImpl) Visit(f func(needle_map.NeedleValue) error) error { return errNoVisit }
func (c *mapperImpl) Close() {
	if c.nm != nil {
		c.nm.Close()
	}
}

func main() {
	flag.Set("logtostderr", "true") // glog of the code under test: no files in /tmp
	o := tr.ParseFlags()
	w := tr.NewWriter(o.Out)
	defer w.Close()
	root, err := os.MkdirTemp("", "c05-")
	if err != nil {
		tr.Fatal("tmp: %v", err)
	}
	defer os.RemoveAll(root)
	for xi, ex := range tr.ReadScript(o.Script) {
		dir := filepath.Join(root, strconv.Itoa(xi))
		os.MkdirAll(dir, 0755)
		runExec(w, ex, dir)
		os.RemoveAll(dir)
	}
}

func parseU(s string) uint64 {
	v, err := strconv.ParseUint(s, 10, 64)
	if err != nil {
		tr.Fatal("bad number %q", s)
	}
	return v
}

func runExec(w *tr.Writer, ex []tr.Ev, dir string) {
	cfg := ex[0]
	kind := tr.S(cfg, "kind")
	var keys []uint64
	keyIdx := map[uint64]int{}
	for i, s := range tr.Strs(cfg["keys"]) {
		keys = append(keys, parseU(s))
		keyIdx[keys[i]] = i
	}
	var offs []int64
	offIdx := map[int64]int{}
	for i, s := range tr.Strs(cfg["offs"]) {
		offs = append(offs, int64(parseU(s)))
		offIdx[offs[i]] = i
	}
	var im impl
	switch kind {
	case "cm":
		im = &cmImpl{m: needle_map.NewCompactMap()}
	case "memdb":
		im = &memdbImpl{m: needle_map.NewMemDb(), dir: dir}
	case "mem", "ldb":
		mi := &mapperImpl{kind: kind, dir: dir}
		if err := mi.open(false); err != nil {
			tr.Fatal("open %s: %v", kind, err)
		}
		im = mi
	default:
		tr.Fatal("unknown kind %q", kind)
	}
	defer func() { im.Close() }()
	w.Emit(cfg)
	errs := func(e error) string {
		if e == nil {
			return ""
		}
		return e.Error()
	}
	keyTok := func(k uint64) int {
		if i, ok := keyIdx[k]; ok {
			return i
		}
		return -2
	}
	obs := func(g got) tr.Ev {
		if !g.found {
			return tr.Ev{"f": false, "o": -1, "s": 0, "k": -1}
		}
		oi, ok := offIdx[g.off]
		if !ok {
			oi = -2
		}
		return tr.Ev{"f": true, "o": oi, "s": clamp(int64(g.size)), "k": keyTok(g.key)}
	}
	after := func() {
		gs := make([]tr.Ev, len(keys))
		for i, k := range keys {
			gs[i] = obs(im.Get(k))
		}
		w.Emit(tr.Ev{"ev": "snap", "got": gs})
		if fc, dc, fb, db, maxk, ok := im.Cnt(); ok {
			mt := -1 // key 0 (NeedleIdEmpty) is never a token: 0 means "no key yet"
			if maxk != 0 {
				mt = keyTok(maxk)
			}
			w.Emit(tr.Ev{"ev": "cnt", "fc": fc, "dc": dc, "fb": clampU(fb), "db": clampU(db), "maxk": mt})
		}
	}
	for _, e := range ex[1:] {
		ev := tr.S(e, "ev")
		if ev == "snap" || ev == "cnt" || ev == "panic" {
			continue
		}
		stop := false
		pan := tr.Guard(func() {
			switch ev {
			case "fill":
				base, n, stride := parseU(tr.S(e, "base")), tr.I(e, "n"), uint64(tr.I(e, "stride"))
				off, size := offs[tr.I(e, "o")], int32(tr.I(e, "s"))
				msg := ""
				for i := 0; i < n; i++ {
					if err := im.Put(base+uint64(i)*stride, off, size); err != nil && msg == "" {
						msg = err.Error()
					}
				}
				e["err"] = msg
			case "put":
				e["err"] = errs(im.Put(keys[tr.I(e, "k")], offs[tr.I(e, "o")], int32(tr.I(e, "s"))))
			case "del":
				res, has, err := im.Del(keys[tr.I(e, "k")], offs[tr.I(e, "o")])
				e["res"], e["hasres"], e["err"] = clamp(res), has, errs(err)
			case "get":
				g := obs(im.Get(keys[tr.I(e, "k")]))
				e["found"], e["o"], e["s"], e["key"] = g["f"], g["o"], g["s"], g["k"]
			case "visit": // AscendingVisit: token entries in visiting order, number of other entries, order
				ents := []tr.Ev{}
				other, asc, first := 0, true, true
				var prev uint64
				err := im.Visit(func(nv needle_map.NeedleValue) error {
					k := uint64(nv.Key)
					if !first && k <= prev {
						asc = false
					}
					first, prev = false, k
					if t := keyTok(k); t >= 0 {
						g := obs(got{found: true, off: fromOff(nv.Offset), size: int32(nv.Size), key: k})
						ents = append(ents, tr.Ev{"k": t, "o": g["o"], "s": g["s"]})
					} else {
						other++
					}
					return nil
				})
				e["err"], e["ents"], e["other"], e["asc"] = errs(err), ents, other, asc
			case "reload":
				err := im.Reload(tr.S(e, "how"))
				e["err"] = errs(err)
				stop = err != nil
			case "freeze":
				mi, ok := im.(*mapperImpl)
				if !ok {
					tr.Fatal("freeze on kind %s", kind)
				}
				mi.nm.Close()
				mi.kind = "sorted"
				err := mi.open(true)
				e["err"] = errs(err)
				stop = err != nil
			default:
				tr.Fatal("unknown op %v", e["ev"])
			}
		})
		if pan != "" {
			w.Emit(tr.Ev{"ev": "panic", "op": e, "msg": pan})
			return
		}
		w.Emit(e)
		if stop {
			return
		}
		if ev != "get" && ev != "visit" {
			after()
		}
	}
}
