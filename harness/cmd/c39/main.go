// c39: executes FsCache scripts (set/get/delete/move over paths given as name
// sequences) on the real weed/filesys.FsCache and records what lookups return.
package main

import (
	"strings"
	"time"

	"github.com/seaweedfs/fuse/fs"

	"github.com/chrislusf/seaweedfs/weed/filesys"
	"github.com/chrislusf/seaweedfs/weed/util"

	"verifharness/tr"
)

func path(v interface{}) util.FullPath {
	return util.FullPath("/" + strings.Join(tr.Strs(v), "/"))
}

func main() {
	o := tr.ParseFlags()
	w := tr.NewWriter(o.Out)
	defer w.Close()
	timeouts := 0
	for _, ex := range tr.ReadScript(o.Script) {
		if timeouts >= 3 {
			break
		}
		cache := filesys.VerifNewFsCache()
		ids := map[fs.Node]int{}
		lookup := func(p util.FullPath) int {
			n := cache.GetFsNode(p)
			if n == nil {
				return 0
			}
			id, ok := ids[n]
			if !ok {
				return -1 // a node that was never inserted
			}
			return id
		}
		probe := tr.List(ex[0]["probe"])
		w.Emit(ex[0])
		for _, e := range ex[1:] {
			if tr.S(e, "ev") == "snap" || tr.S(e, "ev") == "panic" {
				continue
			}
			pan, timedOut := tr.GuardT(10*time.Second, func() { step(cache, ids, lookup, e) })
			if timedOut {
				// the cache operation never returned: recorded, and the run is cut short (the abandoned
				// goroutine may spin forever)
				w.Emit(tr.Ev{"ev": "timeout", "op": e})
				timeouts++
				break
			}
			if pan != "" {
				w.Emit(tr.Ev{"ev": "panic", "op": e, "msg": pan})
				break
			}
			w.Emit(e)
			if tr.S(e, "ev") != "get" {
				got := make([]int, len(probe))
				for i, p := range probe {
					got[i] = lookup(path(p))
				}
				w.Emit(tr.Ev{"ev": "snap", "got": got})
			}
		}
	}
}

func step(cache *filesys.FsCache, ids map[fs.Node]int, lookup func(util.FullPath) int, e tr.Ev) {
	{
		{
			switch tr.S(e, "ev") {
			case "set":
				var n fs.Node
				if tr.S(e, "kind") == "d" {
					n = &filesys.Dir{}
				} else {
					n = &filesys.File{Name: "n"}
				}
				ids[n] = tr.I(e, "id")
				cache.SetFsNode(path(e["p"]), n)
			case "delete":
				cache.DeleteFsNode(path(e["p"]))
			case "move":
				cache.Move(path(e["o"]), path(e["n"]))
			case "get":
				e["res"] = lookup(path(e["p"]))
			default:
				tr.Fatal("unknown op %v", e["ev"])
			}
		}
	}
}
