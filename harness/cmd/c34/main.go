// c34: token checks of a REAL volume server (mini-cluster kit), one key configuration per process
// (--mode "w=<key name>,r=<key name>", names k1 k2 k3 or empty; viper is process-global).
//
// Script: executions {"ev":"reset","cfg":{"w":..,"r":..},"present":bool} followed by
// {"ev":"op","op":"upload|post|delete|read|head","form":..,"via":..,"tok":{shape,alg,key,exp,nbf,claim}}.
// Executions whose cfg is not the one of this process are skipped.  For every op the driver builds
// exactly the described token as text, sends the request and records: the status class, whether
// the answer carried the blob or its metadata, whether the volume changed (fingerprint taken over
// gRPC, which no key configuration guards) and whether the target needle exists afterwards.
package main

import (
	"bytes"
	"context"
	"crypto"
	"crypto/hmac"
	"crypto/rand"
	"crypto/rsa"
	"crypto/sha256"
	"crypto/sha512"
	"encoding/base64"
	"encoding/json"
	"fmt"
	"hash"
	"io/ioutil"
	"mime/multipart"
	"net/http"
	"net/url"
	"strings"
	"time"

	"github.com/chrislusf/seaweedfs/weed/pb/volume_server_pb"
	"github.com/chrislusf/seaweedfs/weed/security"
	"github.com/chrislusf/seaweedfs/weed/storage/needle"
	"google.golang.org/grpc"

	"verifharness/cluster"
	"verifharness/tr"
)

var client = &http.Client{Transport: &http.Transport{DisableCompression: true, MaxIdleConnsPerHost: 64},
	CheckRedirect: func(*http.Request, []*http.Request) error { return http.ErrUseLastResponse }}

var keyText = map[string]string{"": "", "k1": "verif-signing-key-ONE-0123456789", "k2": "verif-signing-key-TWO-9876543210", "k3": "verif-signing-key-THREE-55555"}

var rsaKey *rsa.PrivateKey

// Content-Type of the multipart body while a "post" operation is being sent
var postType string

func b64(b []byte) string { return base64.RawURLEncoding.EncodeToString(b) }

func hmacSig(alg string, key []byte, msg string) []byte {
	var h func() hash.Hash
	switch alg {
	case "HS384":
		h = sha512.New384
	case "HS512":
		h = sha512.New
	default:
		h = sha256.New
	}
	m := hmac.New(h, key)
	m.Write([]byte(msg))
	return m.Sum(nil)
}

type target struct {
	vid    uint32
	key    uint64
	cookie uint32
}

func (t target) canon() string {
	return needle.NewFileId(needle.VolumeId(t.vid), t.key, t.cookie).String()
}

// keycookie part of the canonical id
func (t target) kc() string {
	c := t.canon()
	return c[strings.Index(c, ",")+1:]
}

func claimText(t target, kind string) (string, bool) {
	switch kind {
	case "same":
		return t.canon(), true
	case "samesuffix":
		return t.canon() + "_1", true
	case "lzvid":
		return "0" + t.canon(), true
	case "upper":
		return strings.ToUpper(t.canon()), true
	case "otherkey":
		return target{t.vid, t.key + 7, t.cookie}.canon(), true
	case "othercookie":
		return target{t.vid, t.key, t.cookie + 1}.canon(), true
	case "othervid":
		return target{t.vid + 1, t.key, t.cookie}.canon(), true
	case "vidonly":
		return fmt.Sprint(t.vid), true
	case "empty":
		return "", true
	case "nofid":
		return "", false
	}
	tr.Fatal("unknown claim kind %q", kind)
	return "", false
}

// the token text described by tok; ok=false means: send no token at all
func buildToken(tok map[string]interface{}, t target) (string, bool) {
	shape := tr.S(tok, "shape")
	switch shape {
	case "missing":
		return "", false
	case "empty":
		return "", true
	case "garbage":
		return "abc.def.ghi", true
	}
	alg, key := tr.S(tok, "alg"), []byte(keyText[tr.S(tok, "key")])
	var text string
	if alg == "HS256" && tr.S(tok, "exp") == "future" && tr.S(tok, "nbf") == "absent" && tr.S(tok, "claim") == "same" {
		// the token a master / filer would hand out
		text = string(security.GenJwt(security.SigningKey(key), 3600, t.canon()))
	} else {
		claims := map[string]interface{}{}
		if c, has := claimText(t, tr.S(tok, "claim")); has {
			claims["fid"] = c
		}
		now := time.Now().Unix()
		switch tr.S(tok, "exp") {
		case "future":
			claims["exp"] = now + 3600
		case "past":
			claims["exp"] = now - 3600
		}
		switch tr.S(tok, "nbf") {
		case "future":
			claims["nbf"] = now + 3600
		case "past":
			claims["nbf"] = now - 3600
		}
		halg := alg
		if alg == "RS256hmac" {
			halg = "RS256"
		}
		hb, _ := json.Marshal(map[string]string{"alg": halg, "typ": "JWT"})
		cb, _ := json.Marshal(claims)
		msg := b64(hb) + "." + b64(cb)
		var sig []byte
		switch alg {
		case "HS256", "HS384", "HS512":
			sig = hmacSig(alg, key, msg)
		case "RS256hmac":
			sig = hmacSig("HS256", key, msg)
		case "RS256":
			d := sha256.Sum256([]byte(msg))
			sig, _ = rsa.SignPKCS1v15(rand.Reader, rsaKey, crypto.SHA256, d[:])
		case "none":
			sig = nil
		default:
			tr.Fatal("unknown alg %q", alg)
		}
		text = msg + "." + b64(sig)
	}
	switch shape {
	case "jwt":
	case "truncated":
		if len(text) > 6 {
			text = text[:len(text)-6]
		}
	case "badsig":
		i := strings.LastIndex(text, ".") + 1
		if i < len(text) {
			c := byte('A')
			if text[i] == 'A' {
				c = 'B'
			}
			text = text[:i] + string(c) + text[i+1:]
		} else {
			text += "AAAA"
		}
	case "twoparts":
		text = text[:strings.LastIndex(text, ".")]
	default:
		tr.Fatal("unknown shape %q", shape)
	}
	return text, true
}

func pathOf(t target, form string) string {
	switch form {
	case "plain":
		return "/" + t.canon()
	case "suffix":
		return "/" + t.canon() + "_1"
	case "ext":
		return "/" + t.canon() + ".jpg"
	case "path":
		return fmt.Sprintf("/%d/%s", t.vid, t.kc())
	case "pathname":
		return fmt.Sprintf("/%d/%s/pic.jpg", t.vid, t.kc())
	case "lzvid":
		return "/0" + t.canon()
	}
	tr.Fatal("unknown form %q", form)
	return ""
}

func main() {
	o := tr.ParseFlags()
	w := tr.NewWriter(o.Out)
	defer w.Close()
	cfgW, cfgR := "", ""
	for _, kv := range strings.Split(o.Mode, ",") {
		if strings.HasPrefix(kv, "w=") {
			cfgW = kv[2:]
		}
		if strings.HasPrefix(kv, "r=") {
			cfgR = kv[2:]
		}
	}
	var err error
	rsaKey, err = rsa.GenerateKey(rand.Reader, 1024)
	if err != nil {
		tr.Fatal("rsa: %v", err)
	}
	c, err := cluster.New(cluster.Options{Volumes: 1, JwtWrite: keyText[cfgW], JwtRead: keyText[cfgR]})
	if err != nil {
		tr.Fatal("cluster: %v", err)
	}
	defer c.Close()
	vid, err := c.NewVolume("", "000", "")
	if err != nil {
		tr.Fatal("new volume: %v", err)
	}
	vurl := c.Volumes[0].Url

	needleState := func(cl volume_server_pb.VolumeServerClient, key uint64) string {
		r, err := cl.VolumeNeedleStatus(context.Background(), &volume_server_pb.VolumeNeedleStatusRequest{VolumeId: vid, NeedleId: key})
		if err != nil {
			return "absent"
		}
		return fmt.Sprintf("%d:%d:%d:%d", r.Size, r.Crc, r.Cookie, r.LastModified)
	}
	// fingerprint of everything a request on the target could touch
	conn, err := grpc.Dial(fmt.Sprintf("127.0.0.1:%d", c.Volumes[0].Port+10000), grpc.WithInsecure())
	if err != nil {
		tr.Fatal("grpc dial: %v", err)
	}
	defer conn.Close()
	cl := volume_server_pb.NewVolumeServerClient(conn)
	fingerprint := func(t target) (fp string, present bool) {
		a, b := needleState(cl, t.key), needleState(cl, t.key+1)
		fs, err := cl.ReadVolumeFileStatus(context.Background(), &volume_server_pb.ReadVolumeFileStatusRequest{VolumeId: vid})
		if err != nil {
			tr.Fatal("fingerprint: %v", err)
		}
		fp = fmt.Sprintf("%s|%s|%d|%d|%d", a, b, fs.DatFileSize, fs.IdxFileSize, fs.FileCount)
		return fp, a != "absent"
	}
	extraQuery := ""
	do := func(method, path string, body []byte, token string, hasTok bool, via string) (*http.Response, []byte) {
		u := "http://" + vurl + path
		if hasTok && via == "query" {
			u += "?jwt=" + url.QueryEscape(token)
		}
		if extraQuery != "" { // further query parameters any client may add (type=replicate, ...): access control must not depend on them
			if strings.Contains(u, "?") {
				u += "&" + extraQuery
			} else {
				u += "?" + extraQuery
			}
		}
		var rd *bytes.Reader
		if body != nil {
			rd = bytes.NewReader(body)
		}
		var req *http.Request
		if rd != nil {
			req, _ = http.NewRequest(method, u, rd)
			req.Header.Set("Content-Type", "application/octet-stream")
			if postType != "" {
				req.Header.Set("Content-Type", postType)
			}
		} else {
			req, _ = http.NewRequest(method, u, nil)
		}
		if hasTok && via == "bearer" {
			req.Header.Set("Authorization", "Bearer "+token)
		}
		if hasTok && via == "bearerlower" {
			req.Header.Set("Authorization", "bearer "+token)
		}
		resp, err := client.Do(req)
		if err != nil {
			tr.Fatal("http %s %s: %v", method, path, err)
		}
		b, _ := ioutil.ReadAll(resp.Body)
		resp.Body.Close()
		return resp, b
	}

	n := uint64(0)
	for _, ex := range tr.ReadScript(o.Script) {
		r0 := ex[0]
		cfg, _ := r0["cfg"].(map[string]interface{})
		if tr.S(cfg, "w") != cfgW || tr.S(cfg, "r") != cfgR {
			continue
		}
		n++
		t := target{vid: vid, key: 0x100 + n*16, cookie: 0x5a5a0000 + uint32(n)}
		marker := fmt.Sprintf("C34-secret-blob-%06d-", n)
		content := []byte(marker + "v0")
		if tr.B(r0, "present") {
			// setup through the front door with the token the configuration asks for
			tok := string(security.GenJwt(security.SigningKey(keyText[cfgW]), 3600, t.canon()))
			resp, b := do("PUT", "/"+t.canon(), content, tok, tok != "", "bearer")
			if resp.StatusCode != 201 {
				tr.Fatal("setup upload: %d %s", resp.StatusCode, b)
			}
		}
		_, present := fingerprint(t)
		if present != tr.B(r0, "present") {
			tr.Fatal("setup: present=%v wanted %v", present, tr.B(r0, "present"))
		}
		w.Emit(tr.Ev{"ev": "reset", "cfg": tr.Ev{"w": cfgW, "r": cfgR}, "present": present})
		for i, e := range ex[1:] {
			if tr.S(e, "ev") != "op" {
				continue
			}
			tok, _ := e["tok"].(map[string]interface{})
			text, has := buildToken(tok, t)
			path := pathOf(t, tr.S(e, "form"))
			extraQuery, _ = e["q"].(string)
			before, _ := fingerprint(t)
			var resp *http.Response
			var body []byte
			switch tr.S(e, "op") {
			case "upload":
				content = []byte(fmt.Sprintf("%sv%d", marker, i+1))
				resp, body = do("PUT", path, content, text, has, tr.S(e, "via"))
			case "post":
				content = []byte(fmt.Sprintf("%sv%d", marker, i+1))
				var mb bytes.Buffer
				mw := multipart.NewWriter(&mb)
				fw, _ := mw.CreateFormFile("file", "blob.bin")
				fw.Write(content)
				mw.Close()
				postType = mw.FormDataContentType()
				resp, body = do("POST", path, mb.Bytes(), text, has, tr.S(e, "via"))
				postType = ""
			case "delete":
				resp, body = do("DELETE", path, nil, text, has, tr.S(e, "via"))
			case "read":
				resp, body = do("GET", path, nil, text, has, tr.S(e, "via"))
			case "head":
				resp, body = do("HEAD", path, nil, text, has, tr.S(e, "via"))
			default:
				tr.Fatal("unknown op %q", tr.S(e, "op"))
			}
			after, presentAfter := fingerprint(t)
			cls := "other"
			switch {
			case resp.StatusCode >= 200 && resp.StatusCode < 400:
				cls = "ok"
			case resp.StatusCode == 401 || resp.StatusCode == 403:
				cls = "denied"
			}
			data := bytes.Contains(body, []byte(marker)) || resp.Header.Get("ETag") != "" ||
				resp.Header.Get("Last-Modified") != "" || resp.Header.Get("Content-MD5") != "" ||
				(tr.S(e, "op") == "head" && resp.StatusCode == 200 && resp.ContentLength > 0)
			w.Emit(tr.Ev{"ev": "op", "op": tr.S(e, "op"), "form": tr.S(e, "form"), "via": tr.S(e, "via"), "tok": tok, "q": extraQuery,
				"res": tr.Ev{"st": resp.StatusCode, "cls": cls, "data": data, "changed": before != after, "present": presentAfter}})
		}
	}
}
