// cmeta (X04): the mount's local metadata cache (weed/filesys/meta_cache) next to a REAL filer.
//
// Per execution: a fresh base directory /x<pid>-<i> on the mini-cluster's filer and a fresh REAL mount
// object (filesys.NewSeaweedFileSystem, no FUSE device) rooted there.  The driver runs
// meta_cache.SubscribeMetaEvents - the call WFS.StartBackgroundTasks makes - on the mount's own cache and
// signature, with a filer client whose event stream it can step: a pump goroutine reads the real
// SubscribeMetadata stream into a queue, the subscriber's Recv takes an event from the queue only when the
// script says `deliver`.  After every change of the filer a barrier (an attribute update of the base
// directory's own entry) is sent and awaited in the pump, so the queue holds exactly the events emitted so far.
//
// Script events (paths are name lists below the base directory):
//
//	op{who:"o", k: put|mkdir|del|mv, p, n, d}   ANOTHER client: gRPC CreateEntry / DeleteEntry(recursive) / AtomicRenameEntry
//	op{who:"m", k: put|mkdir|del|mv, p, n, d}   the mount itself, the way the kernel drives it: Dir.Lookup down the
//	                                            path, Lookup of the name, then Dir.Mknod / File.Setattr / Dir.Mkdir /
//	                                            Dir.Remove / Dir.Rename (they change the filer with the mount's
//	                                            signature and update the cache directly)
//	visit{p}                                    the mount lists p: Lookup chain + Dir.ReadDirAll (EnsureVisited)
//	deliver{n}                                  the subscription applies the next n queued events
//
// Recorded: ok (no error), vis/vis2 (how many directories of the path the mount looked into = EnsureVisited
// calls), q (events still queued), and after every step a snap: for every probe directory the cache's own
// listing (MetaCache.ListDirectoryEntries: refused "unsync" or the entries) and the filer's listing (gRPC).
// A file's content token is its permission bits.  The driver compares nothing.
package main

import (
	"context"
	"fmt"
	"io"
	"os"
	"sort"
	"strings"
	"sync"
	"time"

	"github.com/seaweedfs/fuse"
	"github.com/seaweedfs/fuse/fs"
	"google.golang.org/grpc"

	"github.com/chrislusf/seaweedfs/weed/filer"
	"github.com/chrislusf/seaweedfs/weed/filesys"
	"github.com/chrislusf/seaweedfs/weed/filesys/meta_cache"
	"github.com/chrislusf/seaweedfs/weed/pb/filer_pb"
	"github.com/chrislusf/seaweedfs/weed/util"

	"verifharness/cluster"
	"verifharness/tr"
)

var tokMode = map[string]uint32{"a": 0644, "b": 0600, "c": 0640, "e": 0755}

func tokOf(isDir bool, mode uint32) string {
	if isDir {
		return "dir"
	}
	for t, m := range tokMode {
		if m == mode&0777 {
			return t
		}
	}
	return fmt.Sprintf("m%o", mode&0777)
}

const wait = 10 * time.Second

// ---------------------------------------------------------------- stepping the subscription

type gate struct {
	mu      sync.Mutex
	cond    *sync.Cond
	base    string
	queue   []*filer_pb.SubscribeMetadataResponse
	permits int
	idle    bool // the subscriber is blocked in Recv: everything handed to it has been applied
	seen    int64
	err     error
	closed  bool
}

func (g *gate) waitFor(d time.Duration, pred func() bool) bool { // g.mu held
	t := time.AfterFunc(d, func() { g.mu.Lock(); g.cond.Broadcast(); g.mu.Unlock() })
	defer t.Stop()
	dl := time.Now().Add(d)
	for !pred() {
		if time.Now().After(dl) {
			return false
		}
		g.cond.Wait()
	}
	return true
}

func (g *gate) pump(inner filer_pb.SeaweedFiler_SubscribeMetadataClient) {
	for {
		resp, err := inner.Recv()
		g.mu.Lock()
		if err != nil {
			g.err = err
			g.cond.Broadcast()
			g.mu.Unlock()
			return
		}
		m := resp.EventNotification
		if resp.Directory == "/" || resp.Directory == "" { // "": the filer's keep-alive after many filtered events
			// about the base directory's own entry (its creation, the driver's barriers): not handed on
			if m != nil && m.OldEntry != nil && m.NewEntry != nil && m.NewEntry.Name == g.base && m.NewEntry.Attributes.Mtime > g.seen {
				g.seen = m.NewEntry.Attributes.Mtime
			}
		} else {
			g.queue = append(g.queue, resp)
		}
		g.cond.Broadcast()
		g.mu.Unlock()
	}
}

type gstream struct {
	filer_pb.SeaweedFiler_SubscribeMetadataClient
	g *gate
}

func (s *gstream) Recv() (*filer_pb.SubscribeMetadataResponse, error) {
	g := s.g
	g.mu.Lock()
	defer g.mu.Unlock()
	g.idle = true
	g.cond.Broadcast()
	for !(g.closed || g.err != nil || (g.permits > 0 && len(g.queue) > 0)) {
		g.cond.Wait()
	}
	if g.closed || g.err != nil {
		return nil, io.EOF
	}
	g.permits--
	r := g.queue[0]
	g.queue = g.queue[1:]
	g.idle = false
	return r, nil
}

type gfiler struct {
	filer_pb.SeaweedFilerClient
	g *gate
}

func (f *gfiler) SubscribeMetadata(ctx context.Context, in *filer_pb.SubscribeMetadataRequest, opts ...grpc.CallOption) (filer_pb.SeaweedFiler_SubscribeMetadataClient, error) {
	inner, err := f.SeaweedFilerClient.SubscribeMetadata(ctx, in, opts...)
	if err != nil {
		return nil, err
	}
	go f.g.pump(inner)
	return &gstream{inner, f.g}, nil
}

// gclient is the filer_pb.FilerClient handed to SubscribeMetaEvents
type gclient struct {
	g    *gate
	conn *grpc.ClientConn
}

func (c *gclient) WithFilerClient(fn func(filer_pb.SeaweedFilerClient) error) error {
	c.g.mu.Lock()
	closed := c.g.closed
	c.g.mu.Unlock()
	if closed {
		select {} // the execution is over: SubscribeMetaEvents has no way to stop, park it
	}
	return fn(&gfiler{filer_pb.NewSeaweedFilerClient(c.conn), c.g})
}
func (c *gclient) AdjustedUrl(l *filer_pb.Location) string { return l.Url }

// ---------------------------------------------------------------- one execution

type exec struct {
	c     *cluster.Cluster
	fc    filer_pb.SeaweedFilerClient
	base  string
	wfs   *filesys.WFS
	root  *filesys.Dir
	mc    *meta_cache.MetaCache
	g     *gate
	gc    *gclient
	nbar  int64
	cache string
}

func (x *exec) full(p []string) string {
	if len(p) == 0 {
		return "/" + x.base
	}
	return "/" + x.base + "/" + strings.Join(p, "/")
}

func (x *exec) dirName(p []string) (string, string) {
	return x.full(p[:len(p)-1]), p[len(p)-1]
}

// barrier: everything the filer has emitted so far is in the queue when this returns true.
// A subscriber of the filer's log buffer that finds nothing new and is about to wait misses an event added in
// between (LoopProcessLogData: ReadFromBuffer, then Cond.Wait; AddToBuffer broadcasts without the lock) and sleeps
// until the NEXT event: a barrier that has not arrived after a while is therefore sent again (counted in nudges).
func (x *exec) barrier() bool {
	deadline := time.Now().Add(wait)
	for first := true; ; first = false {
		x.nbar++
		_, err := x.fc.UpdateEntry(context.Background(), &filer_pb.UpdateEntryRequest{Directory: "/", Entry: &filer_pb.Entry{Name: x.base, IsDirectory: true,
			Attributes: &filer_pb.FuseAttributes{Mtime: x.nbar, Crtime: 1, FileMode: uint32(os.ModeDir | 0755)}}})
		if err != nil {
			tr.Fatal("barrier: %v", err)
		}
		if !first {
			nudges++
		}
		x.g.mu.Lock()
		n := x.nbar
		if !first {
			n-- // the nudged one is enough: the stream is ordered
		}
		ok := x.g.waitFor(500*time.Millisecond, func() bool { return x.g.seen >= n || x.g.err != nil })
		bad := x.g.err != nil
		x.g.mu.Unlock()
		if bad {
			return false
		}
		if ok {
			return true
		}
		if time.Now().After(deadline) {
			return false
		}
	}
}

var nudges int

func (x *exec) qlen() int {
	x.g.mu.Lock()
	defer x.g.mu.Unlock()
	return len(x.g.queue)
}

func (x *exec) deliver(n int) (int, bool) {
	g := x.g
	g.mu.Lock()
	defer g.mu.Unlock()
	k := n
	if len(g.queue) < k {
		k = len(g.queue)
	}
	g.permits = k
	g.cond.Broadcast()
	ok := g.waitFor(wait, func() bool { return g.permits == 0 && g.idle })
	return k, ok
}

// ---- another client

func (x *exec) other(k string, p, n []string, d string) bool {
	ctx := context.Background()
	switch k {
	case "put", "mkdir":
		dir, name := x.dirName(p)
		e := &filer_pb.Entry{Name: name, IsDirectory: k == "mkdir", Attributes: &filer_pb.FuseAttributes{Mtime: time.Now().Unix(), Crtime: time.Now().Unix(), FileMode: tokMode[d]}}
		if k == "mkdir" {
			e.Attributes.FileMode = uint32(os.ModeDir | 0755)
		}
		return filer_pb.CreateEntry(x.fc, &filer_pb.CreateEntryRequest{Directory: dir, Entry: e}) == nil
	case "del":
		dir, name := x.dirName(p)
		resp, err := x.fc.DeleteEntry(ctx, &filer_pb.DeleteEntryRequest{Directory: dir, Name: name, IsDeleteData: true, IsRecursive: true})
		return err == nil && resp.Error == ""
	case "mv":
		od, on := x.dirName(p)
		nd, nn := x.dirName(n)
		_, err := x.fc.AtomicRenameEntry(ctx, &filer_pb.AtomicRenameEntryRequest{OldDirectory: od, OldName: on, NewDirectory: nd, NewName: nn})
		return err == nil
	}
	tr.Fatal("unknown op %s", k)
	return false
}

// ---- the mount, driven the way the kernel drives it

// walk looks the directory p up from the mount's root; vis = number of directories looked into
func (x *exec) walk(p []string) (d *filesys.Dir, vis int) {
	d = x.root
	for _, name := range p {
		vis++
		node, err := d.Lookup(context.Background(), &fuse.LookupRequest{Name: name}, &fuse.LookupResponse{})
		if err != nil {
			return nil, vis
		}
		nd, isDir := node.(*filesys.Dir)
		if !isDir {
			return nil, vis
		}
		d = nd
	}
	return d, vis
}

func (x *exec) mine(k string, p, n []string, d string) (ok bool, vis, vis2 int) {
	ctx := context.Background()
	dir, vis := x.walk(p[:len(p)-1])
	if dir == nil {
		return false, vis, 0
	}
	name := p[len(p)-1]
	vis++
	node, lerr := dir.Lookup(ctx, &fuse.LookupRequest{Name: name}, &fuse.LookupResponse{})
	switch k {
	case "put":
		if lerr != nil {
			_, err := dir.Mknod(ctx, &fuse.MknodRequest{Name: name, Mode: os.FileMode(tokMode[d])})
			return err == nil, vis, 0
		}
		f, isFile := node.(*filesys.File)
		if !isFile {
			return false, vis, 0
		}
		err := f.Setattr(ctx, &fuse.SetattrRequest{Valid: fuse.SetattrMode, Mode: os.FileMode(tokMode[d])}, &fuse.SetattrResponse{})
		return err == nil, vis, 0
	case "mkdir":
		if lerr == nil {
			return false, vis, 0 // the kernel answers EEXIST itself
		}
		_, err := dir.Mkdir(ctx, &fuse.MkdirRequest{Name: name, Mode: os.ModeDir | 0755})
		return err == nil, vis, 0
	case "del":
		if lerr != nil {
			return false, vis, 0
		}
		_, isDir := node.(*filesys.Dir)
		return dir.Remove(ctx, &fuse.RemoveRequest{Name: name, Dir: isDir}) == nil, vis, 0
	case "mv":
		if lerr != nil {
			return false, vis, 0
		}
		ndir, vis2 := x.walk(n[:len(n)-1])
		if ndir == nil {
			return false, vis, vis2
		}
		vis2++
		ndir.Lookup(ctx, &fuse.LookupRequest{Name: n[len(n)-1]}, &fuse.LookupResponse{})
		return dir.Rename(ctx, &fuse.RenameRequest{OldName: name, NewName: n[len(n)-1]}, ndir) == nil, vis, vis2
	}
	tr.Fatal("unknown op %s", k)
	return
}

func (x *exec) visit(p []string) (bool, int) {
	d, vis := x.walk(p)
	if d == nil {
		return false, vis
	}
	_, err := d.ReadDirAll(context.Background())
	return err == nil, vis + 1
}

// ---- observations

func listing(st string, es [][]string) tr.Ev {
	sort.Slice(es, func(i, j int) bool { return es[i][0] < es[j][0] })
	l := make([]interface{}, 0, len(es))
	for _, e := range es {
		l = append(l, e)
	}
	return tr.Ev{"st": st, "es": l}
}

func (x *exec) snap(probe [][]string) tr.Ev {
	var cs, fs []interface{}
	for _, p := range probe {
		var es [][]string
		err := x.mc.ListDirectoryEntries(context.Background(), util.FullPath(x.full(p)), "", false, 100000, func(e *filer.Entry) bool {
			es = append(es, []string{e.Name(), tokOf(e.IsDirectory(), uint32(e.Attr.Mode))})
			return true
		})
		switch {
		case err == nil:
			cs = append(cs, listing("ok", es))
		case strings.Contains(err.Error(), "unsynchronized"):
			cs = append(cs, listing("unsync", nil))
		default:
			cs = append(cs, listing("err:"+err.Error(), nil))
		}
		var fes [][]string
		err = filer_pb.SeaweedList(x.fc, x.full(p), "", func(e *filer_pb.Entry, isLast bool) error {
			fes = append(fes, []string{e.Name, tokOf(e.IsDirectory, e.Attributes.FileMode)})
			return nil
		}, "", false, 100000)
		if err != nil {
			fs = append(fs, listing("err:"+err.Error(), nil))
		} else {
			fs = append(fs, listing("ok", fes))
		}
	}
	return tr.Ev{"ev": "snap", "q": x.qlen(), "c": cs, "f": fs}
}

func paths(v interface{}) [][]string {
	var r [][]string
	for _, p := range tr.List(v) {
		r = append(r, tr.Strs(p))
	}
	return r
}

func main() {
	o := tr.ParseFlags()
	w := tr.NewWriter(o.Out)
	defer w.Close()
	c, err := cluster.New(cluster.Options{Volumes: 1, Filer: true})
	if err != nil {
		tr.Fatal("cluster: %v", err)
	}
	defer c.Close()
	cacheRoot, _ := os.MkdirTemp("", "cmeta-")
	defer os.RemoveAll(cacheRoot)
	conn, err := grpc.Dial(c.FilerGrpc, grpc.WithInsecure())
	if err != nil {
		tr.Fatal("dial: %v", err)
	}
	fc := filer_pb.NewSeaweedFilerClient(conn)
	mapper, _ := meta_cache.NewUidGidMapper("", "")

	streamDead := false // the change stream does not deliver any more: an observation (timeout), then nothing else can be driven
	for xi, ex := range tr.ReadScript(o.Script) {
		if streamDead {
			break
		}
		x := &exec{c: c, fc: fc, base: fmt.Sprintf("x%d-%d", os.Getpid(), xi), cache: fmt.Sprintf("%s/%d", cacheRoot, xi)}
		if err := filer_pb.CreateEntry(fc, &filer_pb.CreateEntryRequest{Directory: "/", Entry: &filer_pb.Entry{Name: x.base, IsDirectory: true,
			Attributes: &filer_pb.FuseAttributes{Mtime: 0, Crtime: 1, FileMode: uint32(os.ModeDir | 0755)}}}); err != nil {
			tr.Fatal("base dir: %v", err)
		}
		opt := &filesys.Option{MountDirectory: "/verif-x04", FilerAddresses: []string{c.FilerAddr}, FilerGrpcAddresses: []string{c.FilerGrpc},
			GrpcDialOption: grpc.WithInsecure(), FilerMountRootPath: "/" + x.base, ChunkSizeLimit: 4, CacheDir: x.cache,
			MountMode: os.ModeDir | 0755, MountCtime: time.Now(), MountMtime: time.Now(), UidGidMapper: mapper}
		x.wfs = filesys.NewSeaweedFileSystem(opt)
		x.wfs.Server = fs.New(nil, nil) // no kernel: invalidations find nothing cached
		r, _ := x.wfs.Root()
		x.root = r.(*filesys.Dir)
		x.mc = x.wfs.VerifMetaCache()
		x.g = &gate{base: x.base}
		x.g.cond = sync.NewCond(&x.g.mu)
		sconn, err := grpc.Dial(c.FilerGrpc, grpc.WithInsecure())
		if err != nil {
			tr.Fatal("dial: %v", err)
		}
		x.gc = &gclient{g: x.g, conn: sconn}
		go meta_cache.SubscribeMetaEvents(x.mc, x.wfs.VerifSignature(), x.gc, "/"+x.base, time.Now().UnixNano())

		probe := paths(ex[0]["probe"])
		w.Emit(ex[0])
		dead := false
		if !x.barrier() {
			w.Emit(tr.Ev{"ev": "timeout", "op": tr.Ev{"ev": "subscribe"}})
			dead, streamDead = true, true
		}
		for _, e := range ex[1:] {
			if dead {
				break
			}
			ev := tr.S(e, "ev")
			if ev == "snap" || ev == "timeout" || ev == "panic" {
				continue
			}
			e = tr.Copy(e)
			pan, timedOut := tr.GuardT(3*wait, func() {
				switch ev {
				case "op":
					p, n := tr.Strs(e["p"]), tr.Strs(e["n"])
					if tr.S(e, "who") == "m" {
						e["ok"], e["vis"], e["vis2"] = x.mine(tr.S(e, "k"), p, n, tr.S(e, "d"))
					} else {
						e["ok"], e["vis"], e["vis2"] = x.other(tr.S(e, "k"), p, n, tr.S(e, "d")), 0, 0
					}
					if !x.barrier() {
						dead = true
					}
				case "visit":
					e["ok"], e["vis"] = x.visit(tr.Strs(e["p"]))
				case "deliver":
					var fin bool
					e["got"], fin = x.deliver(tr.I(e, "n"))
					if !fin {
						dead = true
					}
				default:
					tr.Fatal("unknown event %s", ev)
				}
			})
			if timedOut || dead {
				w.Emit(tr.Ev{"ev": "timeout", "op": e})
				dead, streamDead = true, true
				break
			}
			if pan != "" {
				w.Emit(tr.Ev{"ev": "panic", "op": e, "msg": pan})
				dead = true
				break
			}
			e["q"] = x.qlen()
			w.Emit(e)
			w.Emit(x.snap(probe))
		}
		// cut the subscription (it is idle in Recv unless it hangs), then close the cache
		x.g.mu.Lock()
		x.g.closed = true
		x.g.cond.Broadcast()
		idle := x.g.waitFor(2*time.Second, func() bool { return x.g.idle })
		x.g.mu.Unlock()
		sconn.Close()
		if idle && !dead {
			x.mc.Shutdown()
		}
		fc.DeleteEntry(context.Background(), &filer_pb.DeleteEntryRequest{Directory: "/", Name: x.base, IsDeleteData: true, IsRecursive: true})
		os.RemoveAll(x.cache)
	}
	fmt.Fprintf(os.Stderr, "cmeta: %d barriers arrived only after a later event was emitted\n", nudges)
}
