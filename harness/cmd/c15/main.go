// c15: feeds cluster snapshots to the REAL dry-run planners of weed/shell
// (volume.balance, volumeServer.evacuate, volume.fix.replication) and records
// every planned step. Nothing is decided here: moves are reported by the
// observer inside moveVolume, copies/deletions of volume.fix.replication are
// the lines the command prints to its writer.
//
// reset line: {"ev":"reset","mode":"balance"|"evacuate"|"fix","servers":[..],"reps":[..],"shards":[],
//
//	"opt":{"col":"ALL_COLLECTIONS"|"EACH_COLLECTION"|name,"dc":"","node":"s1","skip":true,"limit":30}}
//
// VERIF_REPEAT=n runs every execution n times (the planners iterate over Go maps).
package main

import (
	"bytes"
	"fmt"
	"os"
	"strconv"
	"strings"

	"github.com/chrislusf/seaweedfs/weed/shell"

	"verifharness/plansnap"
	"verifharness/tr"
)

func main() {
	o := tr.ParseFlags()
	w := tr.NewWriter(o.Out)
	defer w.Close()
	repeat := 1
	if s := os.Getenv("VERIF_REPEAT"); s != "" {
		if v, err := strconv.Atoi(s); err == nil && v > 0 {
			repeat = v
		}
	}
	// the planners print their progress to os.Stdout; it is not an observation
	if devnull, err := os.OpenFile(os.DevNull, os.O_WRONLY, 0); err == nil {
		os.Stdout = devnull
	}
	for _, ex := range tr.ReadScript(o.Script) {
		for i := 0; i < repeat; i++ {
			runOne(w, ex[0])
		}
	}
}

func runOne(w *tr.Writer, reset tr.Ev) {
	topo := plansnap.Build(reset)
	w.Emit(tr.Copy(reset))
	opt, _ := reset["opt"].(map[string]interface{})
	mode := tr.S(reset, "mode")
	shell.VerifObservePlannedMoves(func(m shell.VerifPlannedMove) {
		if m.Ec {
			w.Emit(tr.Ev{"ev": "ecmove", "vid": int(m.Vid), "shard": m.Shard, "from": m.From, "to": m.To,
				"tofree": m.ToFreeEcSlot, "tohas": m.ToHasShard, "fromhas": m.FromHasShard})
			return
		}
		w.Emit(tr.Ev{"ev": "move", "vid": int(m.Vid), "from": m.From, "to": m.To, "dt": plansnap.DiskName(m.DiskType)})
	})
	defer shell.VerifObservePlannedMoves(nil)
	var out bytes.Buffer
	var err error
	pan := tr.Guard(func() {
		switch mode {
		case "balance":
			err = shell.VerifPlanVolumeBalance(topo, uint64(tr.I(opt, "limit")), tr.S(opt, "col"), plansnap.Collections(topo, false), tr.S(opt, "dc"))
		case "evacuate":
			err = shell.VerifPlanEvacuate(topo, tr.S(opt, "node"), tr.B(opt, "skip"), &out)
		case "fix":
			err = shell.VerifPlanFixReplication(topo, "", &out)
		default:
			tr.Fatal("unknown mode %q", mode)
		}
	})
	if mode == "fix" {
		for _, line := range strings.Split(out.String(), "\n") {
			emitFixLine(w, line)
		}
	}
	if pan != "" {
		w.Emit(tr.Ev{"ev": "panic", "msg": pan})
		return
	}
	msg := ""
	if err != nil {
		msg = err.Error()
		if len(msg) > 200 {
			msg = msg[:200]
		}
	}
	w.Emit(tr.Ev{"ev": "final", "err": msg, "shards": []tr.Ev{}, "free": []tr.Ev{}})
}

// emitFixLine turns the two plan lines of volume.fix.replication into events:
//
//	replicating volume %d %s from %s to dataNode %s ...
//	deleting volume %d from %s ...
func emitFixLine(w *tr.Writer, line string) {
	switch {
	case strings.HasPrefix(line, "replicating volume "):
		var vid int
		var rp, from, to string
		if n, err := fmt.Sscanf(line, "replicating volume %d %s from %s to dataNode %s ...", &vid, &rp, &from, &to); err != nil || n != 4 {
			tr.Fatal("cannot parse fix.replication line %q", line)
		}
		w.Emit(tr.Ev{"ev": "copy", "vid": vid, "from": from, "to": to})
	case strings.HasPrefix(line, "deleting volume "):
		var vid int
		var from string
		if n, err := fmt.Sscanf(line, "deleting volume %d from %s ...", &vid, &from); err != nil || n != 2 {
			tr.Fatal("cannot parse fix.replication line %q", line)
		}
		w.Emit(tr.Ev{"ev": "delete", "vid": vid, "from": from})
	}
}
