package cluster

// realcluster.go: a whole small cluster around the REAL master, over the network (loopback):
//
//   - a real weed_server.MasterServer (public constructor) whose gRPC service (Seaweed) listens on
//     port p+10000 and whose HTTP router (/dir/assign, /dir/lookup, /vol/grow, /vol/vacuum,
//     /col/delete, /dir/status, ...) listens on port p, the way weed/command/master.go wires it;
//     raft is a stand-in that is always leader (single master) and remembers the committed
//     maximum volume id, which is all a raft log / snapshot of a single master would give back
//     to a restarted master;
//   - 2-3 REAL volume servers (NewVolumeServer) in the data centers / racks given by the options;
//     they heartbeat to the master over real gRPC with pulseSeconds = 1 (the constructor takes
//     whole seconds; a broken stream is re-dialled after one pulse).
//
// Master restart = the listeners of the old master are closed (every stream breaks) and a NEW
// MasterServer object is served on the same ports: fresh topology, fresh memory sequencer; the
// volume servers reconnect by themselves. Volume server restart = heartbeat stopped, listeners
// closed, store closed, then a new server over the same directory and ports.
//
// Nothing here decides anything. The Wait* functions poll observations (the master's VolumeList
// against what the volume servers themselves report) until they agree or a deadline passes and
// return which of the two happened; the drivers record that.

import (
	"context"
	"encoding/json"
	"fmt"
	"io/ioutil"
	"net/http"
	"os"
	"path/filepath"
	"sort"
	"strconv"
	"sync"
	"sync/atomic"
	"time"

	"github.com/chrislusf/raft"
	"github.com/gorilla/mux"
	"google.golang.org/grpc"

	"github.com/chrislusf/seaweedfs/weed/operation"
	"github.com/chrislusf/seaweedfs/weed/pb/master_pb"
	"github.com/chrislusf/seaweedfs/weed/pb/volume_server_pb"
	weed_server "github.com/chrislusf/seaweedfs/weed/server"
	"github.com/chrislusf/seaweedfs/weed/storage"
	"github.com/chrislusf/seaweedfs/weed/storage/needle"
	"github.com/chrislusf/seaweedfs/weed/storage/types"
	"github.com/chrislusf/seaweedfs/weed/util"
)

type ServerSpec struct {
	DC, Rack string
}

type RealClusterOptions struct {
	Servers           []ServerSpec // default: dc1/r1, dc1/r1, dc1/r2
	VolumeSizeLimitMB uint         // default 64
	DefaultRepl       string       // default "000"
	PulseSeconds      int          // heartbeat interval of the volume servers, default 1
	MaxVolumes        int          // volume slots per server, default 200
	GarbageThreshold  float64      // the master's own default threshold, default 0.3
	// master.volume_growth.copy_1 / copy_2 / copy_3 (master.toml): how many volumes one automatic
	// growth creates. 0 keeps the defaults (7 / 6 / 3).
	GrowCounts [3]int
	ReadMode   string // volume servers' -readMode, default "local"
}

type RealNode struct {
	Id     int
	DC     string
	Rack   string
	Url    string
	Port   int
	Dir    string
	Up     bool
	Server *weed_server.VolumeServer
	httpS  *http.Server
	grpcS  *grpc.Server
}

type RealCluster struct {
	Base       string
	Opt        RealClusterOptions
	MasterPort int
	MasterAddr string // host:port (HTTP); gRPC at port+10000
	MS         *weed_server.MasterServer
	Epoch      int // number of master objects started so far
	Nodes      []*RealNode

	mu       sync.Mutex
	raft     *netRaft
	mhttp    *http.Server
	mgrpc    *grpc.Server
	maxVid   uint32 // committed by the raft stand-in
	masterUp bool
}

// netRaft: single-master raft stand-in. Leader while its master is served; a committed
// MaxVolumeId command is applied to the master's topology and remembered by the cluster.
type netRaft struct {
	raft.Server
	c       *RealCluster
	ms      *weed_server.MasterServer
	name    string
	stopped int32
}

func (r *netRaft) Name() string { return r.name }
func (r *netRaft) Leader() string {
	if atomic.LoadInt32(&r.stopped) != 0 {
		return ""
	}
	return r.name
}
func (r *netRaft) State() string {
	if atomic.LoadInt32(&r.stopped) != 0 {
		return raft.Stopped
	}
	return raft.Leader
}
func (r *netRaft) Context() interface{}                        { return r.ms.Topo }
func (r *netRaft) AddEventListener(string, raft.EventListener) {}
func (r *netRaft) Do(c raft.Command) (interface{}, error) {
	if atomic.LoadInt32(&r.stopped) != 0 {
		return nil, raft.NotLeaderError
	}
	ap, ok := c.(interface {
		Apply(raft.Server) (interface{}, error)
	})
	if !ok {
		return nil, fmt.Errorf("command %s has no Apply", c.CommandName())
	}
	res, err := ap.Apply(r)
	if err == nil {
		r.c.mu.Lock()
		if v := uint32(r.ms.Topo.GetMaxVolumeId()); v > r.c.maxVid {
			r.c.maxVid = v
		}
		r.c.mu.Unlock()
	}
	return res, err
}

// NewRealCluster starts the master and the volume servers and waits until the master lists
// every volume server.
func NewRealCluster(o RealClusterOptions) (*RealCluster, error) {
	if len(o.Servers) == 0 {
		o.Servers = []ServerSpec{{"dc1", "r1"}, {"dc1", "r1"}, {"dc1", "r2"}}
	}
	if o.VolumeSizeLimitMB == 0 {
		o.VolumeSizeLimitMB = 64
	}
	if o.DefaultRepl == "" {
		o.DefaultRepl = "000"
	}
	if o.PulseSeconds <= 0 {
		o.PulseSeconds = 1
	}
	if o.MaxVolumes == 0 {
		o.MaxVolumes = 200
	}
	if o.GarbageThreshold == 0 {
		o.GarbageThreshold = 0.3
	}
	if o.ReadMode == "" {
		o.ReadMode = "local"
	}
	base, err := os.MkdirTemp("", "vfrealcluster")
	if err != nil {
		return nil, err
	}
	c := &RealCluster{Base: base, Opt: o}
	c.MasterPort = FreePort()
	c.MasterAddr = "127.0.0.1:" + strconv.Itoa(c.MasterPort)
	if err := c.StartMaster(); err != nil {
		return nil, err
	}
	for i, sp := range o.Servers {
		vp := FreePort()
		dir := filepath.Join(base, fmt.Sprintf("v%d", i))
		os.MkdirAll(dir, 0755)
		n := &RealNode{Id: i, DC: sp.DC, Rack: sp.Rack, Port: vp, Url: "127.0.0.1:" + strconv.Itoa(vp), Dir: dir}
		c.Nodes = append(c.Nodes, n)
		if err := c.StartVolumeServer(i); err != nil {
			return nil, err
		}
	}
	if !c.WaitSettled(30 * time.Second) {
		return nil, fmt.Errorf("the master does not list every volume server")
	}
	return c, nil
}

// StartMaster serves a new MasterServer object on the cluster's master ports.
func (c *RealCluster) StartMaster() error {
	c.mu.Lock()
	if c.masterUp {
		c.mu.Unlock()
		return fmt.Errorf("master is running")
	}
	maxVid := c.maxVid
	c.mu.Unlock()
	viperMu.Lock()
	v := util.GetViper()
	for i, n := range c.Opt.GrowCounts {
		if n > 0 {
			v.Set(fmt.Sprintf("master.volume_growth.copy_%d", i+1), n)
		}
	}
	r := mux.NewRouter()
	ms := weed_server.NewMasterServer(r, &weed_server.MasterOption{
		Host: "127.0.0.1", Port: c.MasterPort, MetaFolder: "", VolumeSizeLimitMB: c.Opt.VolumeSizeLimitMB,
		DefaultReplicaPlacement: c.Opt.DefaultRepl, GarbageThreshold: c.Opt.GarbageThreshold,
	}, nil)
	viperMu.Unlock()
	rs := &netRaft{c: c, ms: ms, name: c.MasterAddr}
	ms.Topo.RaftServer = rs
	// what the raft log of a single master gives back after a restart
	ms.Topo.UpAdjustMaxVolumeId(needle.VolumeId(maxVid))
	gs := ServeGrpc(c.MasterPort+10000, func(s *grpc.Server) { master_pb.RegisterSeaweedServer(s, ms) })
	hs := ServeHttp(c.MasterPort, r)
	c.mu.Lock()
	c.MS, c.raft, c.mgrpc, c.mhttp, c.masterUp = ms, rs, gs, hs, true
	c.Epoch++
	c.mu.Unlock()
	return nil
}

// StopMaster closes the master's listeners and connections: every heartbeat stream breaks. The
// MasterServer object is abandoned (its background goroutines cannot be stopped; its raft
// stand-in reports "stopped" from now on, so they do nothing).
func (c *RealCluster) StopMaster() {
	c.mu.Lock()
	if !c.masterUp {
		c.mu.Unlock()
		return
	}
	rs, gs, hs := c.raft, c.mgrpc, c.mhttp
	c.masterUp = false
	c.mu.Unlock()
	atomic.StoreInt32(&rs.stopped, 1)
	gs.Stop()
	hs.Close()
}

func (c *RealCluster) RestartMaster() error {
	c.StopMaster()
	return c.StartMaster()
}

// StartVolumeServer builds a new volume server over node i's directory on node i's ports.
func (c *RealCluster) StartVolumeServer(i int) error {
	n := c.Nodes[i]
	if n.Up {
		return fmt.Errorf("volume server %d is running", i)
	}
	vmux := http.NewServeMux()
	vs := weed_server.NewVolumeServer(vmux, vmux, "127.0.0.1", n.Port, n.Url, []string{n.Dir}, []int{c.Opt.MaxVolumes},
		[]util.MinFreeSpace{{}}, []types.DiskType{types.HardDriveType}, "", storage.NeedleMapInMemory,
		[]string{c.MasterAddr}, c.Opt.PulseSeconds, n.DC, n.Rack, nil, false, c.Opt.ReadMode, 0, 256, 0)
	n.httpS = ServeHttp(n.Port, vmux)
	n.grpcS = ServeGrpc(n.Port+10000, func(s *grpc.Server) { volume_server_pb.RegisterVolumeServerServer(s, vs) })
	n.Server = vs
	n.Up = true
	// Connections to this address cached by other servers of this process (pb.WithCachedGrpcClient,
	// keyed by address) may still belong to the previous incarnation; the first call on such a
	// connection fails and drops it from the cache. Flush them here so that a restart is over when
	// this function returns.
	for k := 0; k < 4; k++ {
		err := operation.WithVolumeServerClient(n.Url, grpc.WithInsecure(), func(cl volume_server_pb.VolumeServerClient) error {
			ctx, cancel := context.WithTimeout(context.Background(), 5*time.Second)
			defer cancel()
			_, e := cl.VolumeServerStatus(ctx, &volume_server_pb.VolumeServerStatusRequest{})
			return e
		})
		if err == nil {
			break
		}
		time.Sleep(50 * time.Millisecond)
	}
	return nil
}

// StopVolumeServer: the order of weed/command/volume.go - stop the heartbeat (the server tells the
// master that it has no volumes any more and closes the stream), close the listeners, close the store.
func (c *RealCluster) StopVolumeServer(i int) {
	n := c.Nodes[i]
	if !n.Up {
		return
	}
	n.Up = false
	n.Server.StopHeartbeat()
	n.httpS.Close()
	n.grpcS.Stop()
	n.Server.Shutdown()
}

// ---------------------------------------------------------------- observations

// WithMaster runs f with a gRPC client of the master over a fresh connection.
func (c *RealCluster) WithMaster(f func(cl master_pb.SeaweedClient) error) error {
	ctx, cancel := context.WithTimeout(context.Background(), 10*time.Second)
	defer cancel()
	conn, err := grpc.DialContext(ctx, "127.0.0.1:"+strconv.Itoa(c.MasterPort+10000), grpc.WithInsecure(), grpc.WithBlock())
	if err != nil {
		return err
	}
	defer conn.Close()
	return f(master_pb.NewSeaweedClient(conn))
}

// NodeVolume: one volume as a volume server itself reports it (GET /status).
type NodeVolume struct {
	Id               uint32
	Collection       string
	Replication      string
	Ttl              string
	FileCount        int
	DeleteCount      int
	DeletedByteCount uint64
	Size             uint64
	ReadOnly         bool
	CompactRevision  uint32
}

var statusClient = &http.Client{Timeout: 20 * time.Second, Transport: &http.Transport{DisableKeepAlives: true}}

// NodeVolumes asks volume server i for its volumes. ok = false: no answer.
func (c *RealCluster) NodeVolumes(i int) (vols []NodeVolume, ok bool) {
	n := c.Nodes[i]
	resp, err := statusClient.Get("http://" + n.Url + "/status")
	if err != nil {
		return nil, false
	}
	defer resp.Body.Close()
	b, _ := ioutil.ReadAll(resp.Body)
	var st struct {
		Volumes []struct {
			Id               uint32
			Size             uint64
			ReplicaPlacement struct {
				SameRackCount       int `json:"node"`
				DiffRackCount       int `json:"rack"`
				DiffDataCenterCount int `json:"dc"`
			}
			Ttl              struct {
				Count int
				Unit  int
			}
			Collection       string
			FileCount        int
			DeleteCount      int
			DeletedByteCount uint64
			ReadOnly         bool
			CompactRevision  uint32
		}
	}
	if resp.StatusCode != 200 || json.Unmarshal(b, &st) != nil {
		return nil, false
	}
	for _, v := range st.Volumes {
		ttl := ""
		if v.Ttl.Count > 0 {
			ttl = (&needle.TTL{Count: byte(v.Ttl.Count), Unit: byte(v.Ttl.Unit)}).String()
		}
		vols = append(vols, NodeVolume{Id: v.Id, Collection: v.Collection,
			Replication: fmt.Sprintf("%d%d%d", v.ReplicaPlacement.DiffDataCenterCount, v.ReplicaPlacement.DiffRackCount, v.ReplicaPlacement.SameRackCount),
			Ttl:         ttl, FileCount: v.FileCount, DeleteCount: v.DeleteCount, DeletedByteCount: v.DeletedByteCount, Size: v.Size,
			ReadOnly: v.ReadOnly, CompactRevision: v.CompactRevision})
	}
	sort.Slice(vols, func(a, b int) bool { return vols[a].Id < vols[b].Id })
	return vols, true
}

// MasterNodes returns what the master's VolumeList says: url -> sorted volume ids, and the data
// center / rack it files each url under.
func (c *RealCluster) MasterNodes() (vids map[string][]uint32, place map[string][2]string, err error) {
	vids = map[string][]uint32{}
	place = map[string][2]string{}
	err = c.WithMaster(func(cl master_pb.SeaweedClient) error {
		ctx, cancel := context.WithTimeout(context.Background(), 10*time.Second)
		defer cancel()
		resp, e := cl.VolumeList(ctx, &master_pb.VolumeListRequest{})
		if e != nil {
			return e
		}
		for _, dc := range resp.TopologyInfo.DataCenterInfos {
			for _, rk := range dc.RackInfos {
				for _, dn := range rk.DataNodeInfos {
					ids := []uint32{}
					for _, di := range dn.DiskInfos {
						for _, vi := range di.VolumeInfos {
							ids = append(ids, vi.Id)
						}
					}
					sort.Slice(ids, func(a, b int) bool { return ids[a] < ids[b] })
					vids[dn.Id] = ids
					place[dn.Id] = [2]string{dc.Id, rk.Id}
				}
			}
		}
		return nil
	})
	return
}

// Settled: the master lists exactly the running volume servers, each with (at least) every volume
// the server itself reports. (A volume a server has just deleted with its collection stays in the
// master's list of that server until the server's next full heartbeat; that is not waited for.)
func (c *RealCluster) Settled() bool {
	vids, _, err := c.MasterNodes()
	if err != nil {
		return false
	}
	up := 0
	for i, n := range c.Nodes {
		if !n.Up {
			if _, listed := vids[n.Url]; listed {
				return false
			}
			continue
		}
		up++
		got, listed := vids[n.Url]
		if !listed {
			return false
		}
		own, ok := c.NodeVolumes(i)
		if !ok {
			return false
		}
		have := map[uint32]bool{}
		for _, v := range got {
			have[v] = true
		}
		for _, v := range own {
			if !have[v.Id] {
				return false
			}
		}
	}
	return len(vids) == up
}

// WaitSettled polls Settled until it holds (true) or the deadline passes (false).
func (c *RealCluster) WaitSettled(d time.Duration) bool {
	end := time.Now().Add(d)
	for {
		if c.Settled() {
			return true
		}
		if time.Now().After(end) {
			return false
		}
		time.Sleep(25 * time.Millisecond)
	}
}

func (c *RealCluster) Close() {
	for i := range c.Nodes {
		c.StopVolumeServer(i)
	}
	c.StopMaster()
	os.RemoveAll(c.Base)
}
