// Package cluster: an in-process SeaweedFS mini-cluster on loopback for the
// drivers: a stand-in master (gRPC Seaweed service + /dir/lookup, /dir/assign),
// REAL volume servers, a REAL filer server and a REAL S3 gateway, all built by
// their public constructors. Only the master is a stand-in: it keeps a registry
// of volumes from heartbeats, assigns file ids (growing volumes on demand via the
// real AllocateVolume RPC) and streams volume locations to clients.
package cluster

import (
	"context"
	"encoding/json"
	"fmt"
	"net"
	"net/http"
	"os"
	"path/filepath"
	"sort"
	"strconv"
	"strings"
	"sync"
	"time"

	"github.com/gorilla/mux"
	"google.golang.org/grpc"

	"github.com/chrislusf/seaweedfs/weed/pb"
	"github.com/chrislusf/seaweedfs/weed/pb/filer_pb"
	"github.com/chrislusf/seaweedfs/weed/pb/master_pb"
	"github.com/chrislusf/seaweedfs/weed/pb/volume_server_pb"
	"github.com/chrislusf/seaweedfs/weed/s3api"
	"github.com/chrislusf/seaweedfs/weed/security"
	"github.com/chrislusf/seaweedfs/weed/sequence"
	weed_server "github.com/chrislusf/seaweedfs/weed/server"
	"github.com/chrislusf/seaweedfs/weed/storage"
	"github.com/chrislusf/seaweedfs/weed/storage/needle"
	"github.com/chrislusf/seaweedfs/weed/storage/super_block"
	"github.com/chrislusf/seaweedfs/weed/storage/types"
	"github.com/chrislusf/seaweedfs/weed/util"
)

type Options struct {
	Volumes          int    // number of volume servers (default 1)
	Filer            bool   // start a filer
	S3               bool   // start an S3 gateway (implies Filer)
	S3Config         string // path of the identities json ("" = no auth)
	MaxMB            int    // filer chunk size in MB (default 1)
	SaveToFilerLimit int64  // inline limit
	FilerStore       string // "", "leveldb", "leveldb2", "leveldb3"
	Cipher           bool
	JwtWrite         string // jwt.signing.key
	JwtRead          string // jwt.signing.read.key
	VolumeSizeLimit  uint64 // default 1 GiB
	FileSizeLimitMB  int    // volume server upload limit (default 256)
	DefaultRepl      string
	CompactionMBps   int // volume server compaction throttle (0 = unthrottled)
	// interceptors installed on the filer's gRPC server (to record what reaches it)
	FilerUnary  grpc.UnaryServerInterceptor
	FilerStream grpc.StreamServerInterceptor
	// wraps the filer's HTTP handler
	FilerHTTPWrap func(http.Handler) http.Handler
}

type VolInfo struct {
	Id          uint32
	Collection  string
	Replication string
	Ttl         string
	DiskType    string
	Urls        []string
}

type Master struct {
	master_pb.UnimplementedSeaweedServer
	mu         sync.Mutex
	seq        *sequence.MemorySequencer
	Vols       map[uint32]*VolInfo
	chans      []chan *master_pb.VolumeLocation
	nextVid    uint32
	servers    []string // volume server urls in start order
	Addr       string
	jwt        string
	sizeLim    uint64
	defRepl    string
	NoGrow     bool
	Heartbeats int
	// ec shard registry from heartbeats: vid -> url -> shard bits
	ec map[uint32]map[string]uint32
}

func (m *Master) GetMasterConfiguration(ctx context.Context, r *master_pb.GetMasterConfigurationRequest) (*master_pb.GetMasterConfigurationResponse, error) {
	return &master_pb.GetMasterConfigurationResponse{DefaultReplication: m.defRepl, Leader: m.Addr}, nil
}

func (m *Master) broadcast(msg *master_pb.VolumeLocation) {
	for _, c := range m.chans {
		select {
		case c <- msg:
		default:
		}
	}
}

func (m *Master) SendHeartbeat(s master_pb.Seaweed_SendHeartbeatServer) error {
	first := true
	url := ""
	for {
		hb, err := s.Recv()
		if err != nil {
			return err
		}
		if hb.Ip != "" {
			url = hb.Ip + ":" + strconv.Itoa(int(hb.Port))
		}
		if url == "" {
			continue
		}
		m.mu.Lock()
		m.Heartbeats++
		msg := &master_pb.VolumeLocation{Url: url, PublicUrl: url}
		add := func(id uint32, coll, ttl, disk string, rp uint32) {
			vi := m.Vols[id]
			if vi == nil {
				r, _ := super_block.NewReplicaPlacementFromByte(byte(rp))
				vi = &VolInfo{Id: id, Collection: coll, Replication: r.String(), Ttl: ttl, DiskType: disk}
				m.Vols[id] = vi
			}
			for _, u := range vi.Urls {
				if u == url {
					return
				}
			}
			vi.Urls = append(vi.Urls, url)
			msg.NewVids = append(msg.NewVids, id)
			if id >= m.nextVid {
				m.nextVid = id + 1
			}
		}
		del := func(id uint32) {
			vi := m.Vols[id]
			if vi == nil {
				return
			}
			for i, u := range vi.Urls {
				if u == url {
					vi.Urls = append(vi.Urls[:i:i], vi.Urls[i+1:]...)
					msg.DeletedVids = append(msg.DeletedVids, id)
				}
			}
			if len(vi.Urls) == 0 {
				delete(m.Vols, id)
			}
		}
		if len(hb.Volumes) > 0 || hb.HasNoVolumes {
			// full sync: drop what this server no longer reports
			seen := map[uint32]bool{}
			for _, v := range hb.Volumes {
				seen[v.Id] = true
			}
			for id, vi := range m.Vols {
				for _, u := range vi.Urls {
					if u == url && !seen[id] {
						del(id)
					}
				}
			}
		}
		for _, v := range hb.Volumes {
			add(v.Id, v.Collection, needle.LoadTTLFromUint32(v.Ttl).String(), v.DiskType, v.ReplicaPlacement)
			if v.FileCount > 0 {
				m.seq.SetMax(hb.MaxFileKey)
			}
		}
		for _, v := range hb.NewVolumes {
			add(v.Id, v.Collection, needle.LoadTTLFromUint32(v.Ttl).String(), v.DiskType, v.ReplicaPlacement)
		}
		for _, v := range hb.DeletedVolumes {
			del(v.Id)
		}
		if hb.MaxFileKey > 0 {
			m.seq.SetMax(hb.MaxFileKey)
		}
		if m.ec == nil {
			m.ec = map[uint32]map[string]uint32{}
		}
		setEc := func(id uint32, bits uint32, mode int) {
			if m.ec[id] == nil {
				m.ec[id] = map[string]uint32{}
			}
			switch mode {
			case 0:
				m.ec[id][url] = bits
			case 1:
				m.ec[id][url] |= bits
			case 2:
				m.ec[id][url] &^= bits
			}
			if m.ec[id][url] == 0 {
				delete(m.ec[id], url)
			}
		}
		if len(hb.EcShards) > 0 || hb.HasNoEcShards {
			for id := range m.ec {
				delete(m.ec[id], url)
			}
			for _, e := range hb.EcShards {
				setEc(e.Id, e.EcIndexBits, 0)
			}
		}
		for _, e := range hb.NewEcShards {
			setEc(e.Id, e.EcIndexBits, 1)
		}
		for _, e := range hb.DeletedEcShards {
			setEc(e.Id, e.EcIndexBits, 2)
		}
		if len(msg.NewVids) > 0 || len(msg.DeletedVids) > 0 {
			m.broadcast(msg)
		}
		m.mu.Unlock()
		if first {
			first = false
			s.Send(&master_pb.HeartbeatResponse{VolumeSizeLimit: m.sizeLim, Leader: m.Addr})
		}
	}
}

func (m *Master) KeepConnected(s master_pb.Seaweed_KeepConnectedServer) error {
	if _, err := s.Recv(); err != nil {
		return err
	}
	c := make(chan *master_pb.VolumeLocation, 1000)
	m.mu.Lock()
	for vid, vi := range m.Vols {
		for _, u := range vi.Urls {
			s.Send(&master_pb.VolumeLocation{Url: u, PublicUrl: u, NewVids: []uint32{vid}})
		}
	}
	m.chans = append(m.chans, c)
	m.mu.Unlock()
	for msg := range c {
		if err := s.Send(msg); err != nil {
			return err
		}
	}
	return nil
}

func normTtl(t string) string {
	tt, err := needle.ReadTTL(t)
	if err != nil {
		return ""
	}
	return tt.String()
}

func normRepl(r, def string) string {
	if r == "" {
		r = def
	}
	if r == "" {
		r = "000"
	}
	rp, err := super_block.NewReplicaPlacementFromString(r)
	if err != nil {
		return "000"
	}
	return rp.String()
}

// Grow allocates a new volume on the first n servers through the real AllocateVolume RPC.
func (m *Master) Grow(coll, repl, ttl, disk string) (*VolInfo, error) {
	rp, _ := super_block.NewReplicaPlacementFromString(repl)
	n := rp.GetCopyCount()
	m.mu.Lock()
	if n > len(m.servers) {
		m.mu.Unlock()
		return nil, fmt.Errorf("need %d servers for %s, have %d", n, repl, len(m.servers))
	}
	vid := m.nextVid
	m.nextVid++
	servers := append([]string{}, m.servers[:n]...)
	m.mu.Unlock()
	vi := &VolInfo{Id: vid, Collection: coll, Replication: repl, Ttl: ttl, DiskType: disk}
	for _, u := range servers {
		if err := AllocateVolume(u, vid, coll, repl, ttl, disk); err != nil {
			return nil, err
		}
		vi.Urls = append(vi.Urls, u)
	}
	m.mu.Lock()
	if old := m.Vols[vid]; old != nil {
		vi = old
		for _, u := range servers {
			found := false
			for _, x := range old.Urls {
				found = found || x == u
			}
			if !found {
				old.Urls = append(old.Urls, u)
			}
		}
	} else {
		m.Vols[vid] = vi
	}
	for _, u := range servers {
		m.broadcast(&master_pb.VolumeLocation{Url: u, PublicUrl: u, NewVids: []uint32{vid}})
	}
	m.mu.Unlock()
	return vi, nil
}

func AllocateVolume(url string, vid uint32, coll, repl, ttl, disk string) error {
	return WithVolumeServer(url, func(c volume_server_pb.VolumeServerClient) error {
		_, err := c.AllocateVolume(context.Background(), &volume_server_pb.AllocateVolumeRequest{
			VolumeId: vid, Collection: coll, Replication: repl, Ttl: ttl, DiskType: disk})
		return err
	})
}

func grpcAddr(url string) string {
	h, p, _ := net.SplitHostPort(url)
	pi, _ := strconv.Atoi(p)
	return h + ":" + strconv.Itoa(pi+10000)
}

func WithVolumeServer(url string, f func(c volume_server_pb.VolumeServerClient) error) error {
	conn, err := grpc.Dial(grpcAddr(url), grpc.WithInsecure())
	if err != nil {
		return err
	}
	defer conn.Close()
	return f(volume_server_pb.NewVolumeServerClient(conn))
}

func (m *Master) pick(coll, repl, ttl, disk string) *VolInfo {
	var ids []int
	for id, vi := range m.Vols {
		if vi.Collection == coll && vi.Replication == repl && vi.Ttl == ttl && vi.DiskType == disk && len(vi.Urls) > 0 {
			ids = append(ids, int(id))
		}
	}
	if len(ids) == 0 {
		return nil
	}
	sort.Ints(ids)
	return m.Vols[uint32(ids[0])]
}

func (m *Master) Assign(ctx context.Context, r *master_pb.AssignRequest) (*master_pb.AssignResponse, error) {
	repl := normRepl(r.Replication, m.defRepl)
	ttl := normTtl(r.Ttl)
	disk := types.ToDiskType(r.DiskType).String()
	if r.Count == 0 {
		r.Count = 1
	}
	m.mu.Lock()
	vi := m.pick(r.Collection, repl, ttl, disk)
	m.mu.Unlock()
	if vi == nil {
		if m.NoGrow {
			return &master_pb.AssignResponse{Error: "no writable volumes"}, nil
		}
		var err error
		vi, err = m.Grow(r.Collection, repl, ttl, disk)
		if err != nil {
			return &master_pb.AssignResponse{Error: err.Error()}, nil
		}
	}
	m.mu.Lock()
	defer m.mu.Unlock()
	key := m.seq.NextFileId(r.Count)
	fid := needle.NewFileId(needle.VolumeId(vi.Id), key, uint32(0x1000+key*2654435761%0xffff0000)).String()
	resp := &master_pb.AssignResponse{Fid: fid, Url: vi.Urls[0], PublicUrl: vi.Urls[0], Count: r.Count}
	if m.jwt != "" {
		resp.Auth = string(security.GenJwt(security.SigningKey(m.jwt), 10, fid))
	}
	return resp, nil
}

func (m *Master) LookupVolume(ctx context.Context, r *master_pb.LookupVolumeRequest) (*master_pb.LookupVolumeResponse, error) {
	m.mu.Lock()
	defer m.mu.Unlock()
	resp := &master_pb.LookupVolumeResponse{}
	for _, v := range r.VolumeIds {
		vs := v
		if i := strings.Index(vs, ","); i >= 0 {
			vs = vs[:i]
		}
		id, _ := strconv.Atoi(vs)
		var locs []*master_pb.Location
		if vi := m.Vols[uint32(id)]; vi != nil {
			for _, u := range vi.Urls {
				locs = append(locs, &master_pb.Location{Url: u, PublicUrl: u})
			}
		}
		e := &master_pb.LookupVolumeResponse_VolumeIdLocation{VolumeId: v, Locations: locs}
		if len(locs) == 0 {
			e.Error = "volume id " + v + " not found"
		}
		resp.VolumeIdLocations = append(resp.VolumeIdLocations, e)
	}
	return resp, nil
}

func (m *Master) LookupEcVolume(ctx context.Context, r *master_pb.LookupEcVolumeRequest) (*master_pb.LookupEcVolumeResponse, error) {
	m.mu.Lock()
	defer m.mu.Unlock()
	resp := &master_pb.LookupEcVolumeResponse{VolumeId: r.VolumeId}
	byUrl := m.ec[r.VolumeId]
	if len(byUrl) == 0 {
		return nil, fmt.Errorf("ec volume %d not found", r.VolumeId)
	}
	for shard := uint32(0); shard < 14; shard++ {
		var locs []*master_pb.Location
		for u, bits := range byUrl {
			if bits&(1<<shard) != 0 {
				locs = append(locs, &master_pb.Location{Url: u, PublicUrl: u})
			}
		}
		if len(locs) > 0 {
			resp.ShardIdLocations = append(resp.ShardIdLocations, &master_pb.LookupEcVolumeResponse_EcShardIdLocation{ShardId: shard, Locations: locs})
		}
	}
	return resp, nil
}

func (m *Master) CollectionList(ctx context.Context, r *master_pb.CollectionListRequest) (*master_pb.CollectionListResponse, error) {
	m.mu.Lock()
	defer m.mu.Unlock()
	seen := map[string]bool{}
	resp := &master_pb.CollectionListResponse{}
	for _, vi := range m.Vols {
		if !seen[vi.Collection] {
			seen[vi.Collection] = true
			resp.Collections = append(resp.Collections, &master_pb.Collection{Name: vi.Collection})
		}
	}
	return resp, nil
}

func (m *Master) CollectionDelete(ctx context.Context, r *master_pb.CollectionDeleteRequest) (*master_pb.CollectionDeleteResponse, error) {
	m.mu.Lock()
	servers := append([]string{}, m.servers...)
	for id, vi := range m.Vols {
		if vi.Collection == r.Name {
			delete(m.Vols, id)
		}
	}
	m.mu.Unlock()
	for _, u := range servers {
		WithVolumeServer(u, func(c volume_server_pb.VolumeServerClient) error {
			_, err := c.DeleteCollection(context.Background(), &volume_server_pb.DeleteCollectionRequest{Collection: r.Name})
			return err
		})
	}
	return &master_pb.CollectionDeleteResponse{}, nil
}

func (m *Master) Statistics(ctx context.Context, r *master_pb.StatisticsRequest) (*master_pb.StatisticsResponse, error) {
	return &master_pb.StatisticsResponse{TotalSize: 1 << 40, UsedSize: 0, FileCount: 0}, nil
}

func (m *Master) Locations(vid uint32) []string {
	m.mu.Lock()
	defer m.mu.Unlock()
	if vi := m.Vols[vid]; vi != nil {
		return append([]string{}, vi.Urls...)
	}
	return nil
}

// ---------------------------------------------------------------------------

var portMu sync.Mutex
var nextPort = 21000 + (os.Getpid()%2000)*13

// FreePort returns p such that p and p+10000 are both free on loopback.
func FreePort() int {
	portMu.Lock()
	defer portMu.Unlock()
	for i := 0; i < 4000; i++ {
		p := nextPort
		nextPort += 7
		if nextPort > 52000 {
			nextPort = 21000
		}
		l1, e1 := net.Listen("tcp", "127.0.0.1:"+strconv.Itoa(p))
		if e1 != nil {
			continue
		}
		l2, e2 := net.Listen("tcp", "127.0.0.1:"+strconv.Itoa(p+10000))
		l1.Close()
		if e2 != nil {
			continue
		}
		l2.Close()
		return p
	}
	panic("no free port")
}

func ServeGrpc(port int, reg func(s *grpc.Server), opts ...grpc.ServerOption) *grpc.Server {
	l, err := net.Listen("tcp", "127.0.0.1:"+strconv.Itoa(port))
	if err != nil {
		panic(err)
	}
	s := pb.NewGrpcServer(opts...)
	reg(s)
	go s.Serve(l)
	return s
}

func ServeHttp(port int, h http.Handler) *http.Server {
	l, err := net.Listen("tcp", "127.0.0.1:"+strconv.Itoa(port))
	if err != nil {
		panic(err)
	}
	srv := &http.Server{Handler: h}
	go srv.Serve(l)
	return srv
}

type VolumeNode struct {
	Url    string
	Port   int
	Dir    string
	Server *weed_server.VolumeServer
}

type Cluster struct {
	Base       string
	Master     *Master
	MasterAddr string
	Volumes    []*VolumeNode
	FilerPort  int
	FilerAddr  string // host:port (HTTP)
	FilerGrpc  string
	Filer      *weed_server.FilerServer
	S3Port     int
	S3Addr     string
	S3         *s3api.S3ApiServer
}

// New starts the cluster; everything lives under a fresh temp dir (Close removes it).
func New(o Options) (*Cluster, error) {
	if o.Volumes == 0 {
		o.Volumes = 1
	}
	if o.MaxMB == 0 {
		o.MaxMB = 1
	}
	if o.VolumeSizeLimit == 0 {
		o.VolumeSizeLimit = 1 << 30
	}
	if o.FileSizeLimitMB == 0 {
		o.FileSizeLimitMB = 256
	}
	if o.S3 {
		o.Filer = true
	}
	base, err := os.MkdirTemp("", "vfcluster")
	if err != nil {
		return nil, err
	}
	c := &Cluster{Base: base}
	v := util.GetViper()
	v.Set("jwt.signing.key", o.JwtWrite)
	v.Set("jwt.signing.read.key", o.JwtRead)

	mp := FreePort()
	c.MasterAddr = "127.0.0.1:" + strconv.Itoa(mp)
	m := &Master{seq: sequence.NewMemorySequencer(), Vols: map[uint32]*VolInfo{}, nextVid: 1, Addr: c.MasterAddr,
		jwt: o.JwtWrite, sizeLim: o.VolumeSizeLimit, defRepl: o.DefaultRepl}
	c.Master = m
	ServeGrpc(mp+10000, func(s *grpc.Server) { master_pb.RegisterSeaweedServer(s, m) })
	mmux := http.NewServeMux()
	mmux.HandleFunc("/dir/lookup", func(w http.ResponseWriter, r *http.Request) {
		vid := r.FormValue("volumeId")
		if i := strings.Index(vid, ","); i >= 0 {
			vid = vid[:i]
		}
		id, _ := strconv.Atoi(vid)
		var locs []map[string]string
		for _, u := range m.Locations(uint32(id)) {
			locs = append(locs, map[string]string{"url": u, "publicUrl": u})
		}
		w.Header().Set("Content-Type", "application/json")
		if len(locs) == 0 {
			w.WriteHeader(http.StatusNotFound)
			json.NewEncoder(w).Encode(map[string]interface{}{"volumeId": vid, "error": "volume id " + vid + " not found"})
			return
		}
		json.NewEncoder(w).Encode(map[string]interface{}{"volumeId": vid, "locations": locs})
	})
	mmux.HandleFunc("/dir/assign", func(w http.ResponseWriter, r *http.Request) {
		cnt, _ := strconv.Atoi(r.FormValue("count"))
		resp, _ := m.Assign(r.Context(), &master_pb.AssignRequest{Count: uint64(cnt), Replication: r.FormValue("replication"),
			Collection: r.FormValue("collection"), Ttl: r.FormValue("ttl"), DiskType: r.FormValue("disk")})
		w.Header().Set("Content-Type", "application/json")
		json.NewEncoder(w).Encode(map[string]interface{}{"fid": resp.Fid, "url": resp.Url, "publicUrl": resp.PublicUrl,
			"count": resp.Count, "error": resp.Error, "auth": resp.Auth})
	})
	ServeHttp(mp, mmux)

	for i := 0; i < o.Volumes; i++ {
		vp := FreePort()
		dir := filepath.Join(base, fmt.Sprintf("v%d", i))
		os.MkdirAll(dir, 0755)
		vmux := http.NewServeMux()
		url := "127.0.0.1:" + strconv.Itoa(vp)
		vs := weed_server.NewVolumeServer(vmux, vmux, "127.0.0.1", vp, url, []string{dir}, []int{100},
			[]util.MinFreeSpace{{}}, []types.DiskType{types.HardDriveType}, "", storage.NeedleMapInMemory,
			[]string{c.MasterAddr}, 1, "dc1", fmt.Sprintf("r%d", i), nil, false, "local", o.CompactionMBps, o.FileSizeLimitMB, 0)
		ServeHttp(vp, vmux)
		ServeGrpc(vp+10000, func(s *grpc.Server) { volume_server_pb.RegisterVolumeServerServer(s, vs) })
		c.Volumes = append(c.Volumes, &VolumeNode{Url: url, Port: vp, Dir: dir, Server: vs})
		m.mu.Lock()
		m.servers = append(m.servers, url)
		m.mu.Unlock()
	}
	// wait for the first heartbeat of every volume server
	deadline := time.Now().Add(15 * time.Second)
	for {
		m.mu.Lock()
		n := m.Heartbeats
		m.mu.Unlock()
		if n >= o.Volumes {
			break
		}
		if time.Now().After(deadline) {
			return nil, fmt.Errorf("volume servers did not heartbeat")
		}
		time.Sleep(20 * time.Millisecond)
	}

	if o.Filer {
		fp := FreePort()
		c.FilerPort = fp
		c.FilerAddr = "127.0.0.1:" + strconv.Itoa(fp)
		c.FilerGrpc = "127.0.0.1:" + strconv.Itoa(fp+10000)
		fdir := filepath.Join(base, "filer")
		if o.FilerStore != "" && o.FilerStore != "leveldb2" {
			// a filer.toml in the working directory selects the store
			wd := filepath.Join(base, "wd")
			os.MkdirAll(wd, 0755)
			toml := fmt.Sprintf("[%s]\nenabled = true\ndir = \"%s\"\n", o.FilerStore, fdir)
			os.WriteFile(filepath.Join(wd, "filer.toml"), []byte(toml), 0644)
			os.MkdirAll(fdir, 0755)
			os.Chdir(wd)
		}
		fmux := http.NewServeMux()
		fs, err := weed_server.NewFilerServer(fmux, fmux, &weed_server.FilerOption{Masters: []string{c.MasterAddr},
			DefaultLevelDbDir: fdir, Host: "127.0.0.1", Port: uint32(fp), MaxMB: o.MaxMB, DirListingLimit: 100000,
			SaveToFilerLimit: o.SaveToFilerLimit, Cipher: o.Cipher, DefaultReplication: o.DefaultRepl})
		if err != nil {
			return nil, err
		}
		c.Filer = fs
		var h http.Handler = fmux
		if o.FilerHTTPWrap != nil {
			h = o.FilerHTTPWrap(fmux)
		}
		ServeHttp(fp, h)
		var gopts []grpc.ServerOption
		if o.FilerUnary != nil {
			gopts = append(gopts, grpc.UnaryInterceptor(o.FilerUnary))
		}
		if o.FilerStream != nil {
			gopts = append(gopts, grpc.StreamInterceptor(o.FilerStream))
		}
		ServeGrpc(fp+10000, func(s *grpc.Server) { filer_pb.RegisterSeaweedFilerServer(s, fs) }, gopts...)
	}
	if o.S3 {
		sp := FreePort()
		c.S3Port = sp
		c.S3Addr = "127.0.0.1:" + strconv.Itoa(sp)
		router := mux.NewRouter().SkipClean(true)
		s3, err := s3api.NewS3ApiServer(router, &s3api.S3ApiServerOption{Filer: c.FilerAddr, Port: sp,
			FilerGrpcAddress: c.FilerGrpc, BucketsPath: "/buckets", GrpcDialOption: grpc.WithInsecure(), Config: o.S3Config})
		if err != nil {
			return nil, err
		}
		c.S3 = s3
		ServeHttp(sp, router)
	}
	return c, nil
}

// FilerClient runs f with a gRPC client of the filer.
func (c *Cluster) FilerClient(f func(cl filer_pb.SeaweedFilerClient) error) error {
	conn, err := grpc.Dial(c.FilerGrpc, grpc.WithInsecure())
	if err != nil {
		return err
	}
	defer conn.Close()
	return f(filer_pb.NewSeaweedFilerClient(conn))
}

// NewVolume allocates a fresh volume with the given replication on the first
// copy-count servers and returns its id.
func (c *Cluster) NewVolume(coll, repl, ttl string) (uint32, error) {
	vi, err := c.Master.Grow(coll, normRepl(repl, ""), normTtl(ttl), "")
	if err != nil {
		return 0, err
	}
	return vi.Id, nil
}

func (c *Cluster) Close() {
	os.RemoveAll(c.Base)
}
