package cluster

// realmaster.go: a REAL weed_server.MasterServer (public constructor) driven without network:
// heartbeat streams (SendHeartbeat) and client streams (KeepConnected) are in-memory
// implementations of the generated gRPC server-stream interfaces, raft is a stand-in that is
// always leader and applies a command to every master of its group. Nothing here decides
// anything: the streams deliver messages to the real handlers and collect what they answer.
//
// The master's background goroutines (writable-volume refresh every 5-10 s, vacuum every 15 min,
// grow-request consumer) are started by the constructor and cannot be stopped; an abandoned
// master costs a few parked goroutines. Executions last milliseconds, so the periodic jobs never
// run inside one.

import (
	"context"
	"fmt"
	"io"
	"net"
	"strings"
	"sync"
	"time"

	"github.com/chrislusf/raft"
	"github.com/gorilla/mux"
	"google.golang.org/grpc/metadata"
	"google.golang.org/grpc/peer"

	"github.com/chrislusf/seaweedfs/weed/pb/master_pb"
	weed_server "github.com/chrislusf/seaweedfs/weed/server"
	"github.com/chrislusf/seaweedfs/weed/util"
)

const barrierPrefix = "verif-barrier:"

// StepDeadline bounds every wait for the real handlers (a handler that never answers becomes the
// result "timeout", never a hung driver).
var StepDeadline = 20 * time.Second

type RealMasterOptions struct {
	Name              string // raft name, also reported as leader (default "127.0.0.1:9333")
	Host              string // default 127.0.0.1
	Port              int    // default 9333 (never listened on)
	VolumeSizeLimitMB uint   // default 1
	DefaultRepl       string // default "000"
	ReplicationAsMin  bool   // viper master.replication.treat_replication_as_minimums (process-global, read at construction)
	SequencerType     string // viper master.sequencer.type: "" / "memory" / "snowflake"
	Group             *MasterGroup
}

// MasterGroup: the masters whose state machines a committed raft command reaches.
type MasterGroup struct {
	mu      sync.Mutex
	members map[string]*RealMaster
}

func NewMasterGroup() *MasterGroup { return &MasterGroup{members: map[string]*RealMaster{}} }

func (g *MasterGroup) set(m *RealMaster) {
	g.mu.Lock()
	g.members[m.Name] = m
	g.mu.Unlock()
}

func (g *MasterGroup) all() []*RealMaster {
	g.mu.Lock()
	defer g.mu.Unlock()
	res := make([]*RealMaster, 0, len(g.members))
	for _, m := range g.members {
		res = append(res, m)
	}
	return res
}

type RealMaster struct {
	Name  string
	MS    *weed_server.MasterServer
	Limit uint64 // volume size limit in bytes
	group *MasterGroup

	mu      sync.Mutex
	streams []*HBStream
	clients []*ClientStream
	barrier int
}

type stubRaft struct {
	raft.Server
	m *RealMaster
}

func (s *stubRaft) Name() string         { return s.m.Name }
func (s *stubRaft) Leader() string       { return s.m.Name }
func (s *stubRaft) State() string        { return raft.Leader }
func (s *stubRaft) Context() interface{} { return s.m.MS.Topo }
func (s *stubRaft) AddEventListener(string, raft.EventListener) {
}

// Do: the command is committed, i.e. applied on the state machine of every master of the group.
func (s *stubRaft) Do(c raft.Command) (interface{}, error) {
	ap, ok := c.(interface {
		Apply(raft.Server) (interface{}, error)
	})
	if !ok {
		return nil, fmt.Errorf("command %s has no Apply", c.CommandName())
	}
	for _, m := range s.m.group.all() {
		if _, err := ap.Apply(m.MS.Topo.RaftServer); err != nil {
			return nil, err
		}
	}
	return nil, nil
}

var viperMu sync.Mutex

// NewRealMaster builds a real master server. A master of the same name replaces the previous
// one in its group (a restarted master process).
func NewRealMaster(o RealMasterOptions) *RealMaster {
	if o.Host == "" {
		o.Host = "127.0.0.1"
	}
	if o.Port == 0 {
		o.Port = 9333
	}
	if o.Name == "" {
		o.Name = fmt.Sprintf("%s:%d", o.Host, o.Port)
	}
	if o.VolumeSizeLimitMB == 0 {
		o.VolumeSizeLimitMB = 1
	}
	if o.DefaultRepl == "" {
		o.DefaultRepl = "000"
	}
	if o.Group == nil {
		o.Group = NewMasterGroup()
	}
	viperMu.Lock()
	v := util.GetViper()
	v.Set("master.replication.treat_replication_as_minimums", o.ReplicationAsMin)
	v.Set(weed_server.SequencerType, o.SequencerType)
	ms := weed_server.NewMasterServer(mux.NewRouter(), &weed_server.MasterOption{
		Host: o.Host, Port: o.Port, MetaFolder: "", VolumeSizeLimitMB: o.VolumeSizeLimitMB,
		DefaultReplicaPlacement: o.DefaultRepl, GarbageThreshold: 0.3,
	}, nil)
	viperMu.Unlock()
	m := &RealMaster{Name: o.Name, MS: ms, Limit: uint64(o.VolumeSizeLimitMB) << 20, group: o.Group}
	ms.Topo.RaftServer = &stubRaft{m: m}
	o.Group.set(m)
	return m
}

// Close ends every open stream (heartbeat handlers run their deferred unregistration).
func (m *RealMaster) Close() {
	m.mu.Lock()
	ss := append([]*HBStream{}, m.streams...)
	cs := append([]*ClientStream{}, m.clients...)
	m.mu.Unlock()
	for _, s := range ss {
		s.Close()
	}
	for _, c := range cs {
		c.Close()
	}
}

// ---------------------------------------------------------------- stream plumbing

type memStream struct{ ctx context.Context }

func (memStream) SetHeader(metadata.MD) error  { return nil }
func (memStream) SendHeader(metadata.MD) error { return nil }
func (memStream) SetTrailer(metadata.MD)       {}
func (s memStream) Context() context.Context   { return s.ctx }
func (memStream) SendMsg(interface{}) error    { return fmt.Errorf("SendMsg: not used by the handlers") }
func (memStream) RecvMsg(interface{}) error    { return fmt.Errorf("RecvMsg: not used by the handlers") }

func peerCtx(ip string, port int) context.Context {
	return peer.NewContext(context.Background(), &peer.Peer{Addr: &net.TCPAddr{IP: net.ParseIP(ip), Port: port}})
}

// ---------------------------------------------------------------- heartbeat stream

// HBStream is the server side of one SendHeartbeat call.
type HBStream struct {
	memStream
	in     chan *master_pb.Heartbeat
	out    chan *master_pb.HeartbeatResponse
	done   chan struct{}
	mu     sync.Mutex // one Push / Close at a time
	closed bool

	Err       error  // what the handler returned (valid after done)
	Panic     string // non-empty if the handler panicked (valid after done)
	SizeLimit uint64 // the volume size limit the master announced on this stream
	Leader    string // the leader named in the last answer
}

// OpenHeartbeat starts ms.SendHeartbeat on a new in-memory stream whose peer is ip:port.
func (m *RealMaster) OpenHeartbeat(ip string, port int) *HBStream {
	s := &HBStream{memStream: memStream{peerCtx(ip, port)}, in: make(chan *master_pb.Heartbeat),
		out: make(chan *master_pb.HeartbeatResponse, 64), done: make(chan struct{})}
	m.mu.Lock()
	m.streams = append(m.streams, s)
	m.mu.Unlock()
	go func() {
		defer close(s.done)
		defer func() {
			if r := recover(); r != nil {
				s.Panic = fmt.Sprint(r)
				if len(s.Panic) > 300 {
					s.Panic = s.Panic[:300]
				}
			}
		}()
		s.Err = m.MS.SendHeartbeat(s)
	}()
	return s
}

func (s *HBStream) Send(r *master_pb.HeartbeatResponse) error {
	select {
	case s.out <- r:
		return nil
	case <-time.After(StepDeadline):
		return fmt.Errorf("in-memory heartbeat stream: nobody reads the answers")
	}
}

func (s *HBStream) Recv() (*master_pb.Heartbeat, error) {
	hb, ok := <-s.in
	if !ok {
		return nil, io.EOF
	}
	return hb, nil
}

// Returned: the handler has returned.
func (s *HBStream) Returned() bool {
	select {
	case <-s.done:
		return true
	default:
		return false
	}
}

// Push hands one heartbeat to the handler and waits until the handler has answered it with the
// response naming the leader (the last thing the loop body does) or has returned.
// Result: "ok" | "returned" | "panic" | "timeout".
func (s *HBStream) Push(hb *master_pb.Heartbeat) string {
	s.mu.Lock()
	defer s.mu.Unlock()
	if s.closed {
		return "returned"
	}
	dl := time.After(StepDeadline)
	select {
	case s.in <- hb:
	case <-s.done:
		return s.ended()
	case <-dl:
		return "timeout"
	}
	for {
		select {
		case r := <-s.out:
			if r.VolumeSizeLimit != 0 {
				s.SizeLimit = r.VolumeSizeLimit
			}
			if r.Leader != "" {
				s.Leader = r.Leader
				return "ok"
			}
		case <-s.done:
			return s.ended()
		case <-dl:
			return "timeout"
		}
	}
}

func (s *HBStream) ended() string {
	if s.Panic != "" {
		return "panic"
	}
	return "returned"
}

// Close breaks the stream (Recv returns io.EOF) and waits for the handler to return: its deferred
// unregistration and broadcast have then happened. Result: "returned" | "panic" | "timeout".
func (s *HBStream) Close() string {
	s.mu.Lock()
	defer s.mu.Unlock()
	if !s.closed {
		s.closed = true
		close(s.in)
	}
	select {
	case <-s.done:
		return s.ended()
	case <-time.After(StepDeadline):
		return "timeout"
	}
}

// ---------------------------------------------------------------- KeepConnected client stream

// ClientStream is the server side of one KeepConnected call; it collects what the master sends.
type ClientStream struct {
	memStream
	m    *RealMaster
	in   chan *master_pb.KeepConnectedRequest
	done chan struct{}
	barr chan string

	mu     sync.Mutex
	msgs   []*master_pb.VolumeLocation
	closed bool
	Err    error
	Panic  string
}

func (c *ClientStream) Send(l *master_pb.VolumeLocation) error {
	if strings.HasPrefix(l.Url, barrierPrefix) {
		select {
		case c.barr <- l.Url:
		default:
		}
		return nil
	}
	c.mu.Lock()
	c.msgs = append(c.msgs, l)
	c.mu.Unlock()
	return nil
}

func (c *ClientStream) Recv() (*master_pb.KeepConnectedRequest, error) {
	r, ok := <-c.in
	if !ok {
		return nil, io.EOF
	}
	return r, nil
}

// OpenClient starts ms.KeepConnected for a client `name` at ip:grpcPort and returns once the master
// has registered the client and sent it the initial volume locations (Take returns them).
// ok = false: the handler did not get that far within the deadline.
func (m *RealMaster) OpenClient(name, ip string, grpcPort int) (c *ClientStream, ok bool) {
	c = &ClientStream{memStream: memStream{peerCtx(ip, 40000)}, m: m, in: make(chan *master_pb.KeepConnectedRequest),
		done: make(chan struct{}), barr: make(chan string, 256)}
	before := m.MS.VerifClientCount()
	m.mu.Lock()
	m.clients = append(m.clients, c)
	m.mu.Unlock()
	go func() {
		defer close(c.done)
		defer func() {
			if r := recover(); r != nil {
				c.Panic = fmt.Sprint(r)
			}
		}()
		c.Err = m.MS.KeepConnected(c)
	}()
	select {
	case c.in <- &master_pb.KeepConnectedRequest{Name: name, GrpcPort: uint32(grpcPort)}:
	case <-c.done:
		return c, false
	case <-time.After(StepDeadline):
		return c, false
	}
	end := time.Now().Add(StepDeadline)
	for m.MS.VerifClientCount() <= before {
		if time.Now().After(end) || c.returned() {
			return c, false
		}
		time.Sleep(20 * time.Microsecond)
	}
	return c, m.Sync()
}

func (c *ClientStream) returned() bool {
	select {
	case <-c.done:
		return true
	default:
		return false
	}
}

// Sync waits until every connected client has received everything the master queued for it so
// far: a marker message is queued behind the pending ones (hook VerifBroadcast) and awaited.
func (m *RealMaster) Sync() bool {
	m.mu.Lock()
	m.barrier++
	tok := fmt.Sprintf("%s%d", barrierPrefix, m.barrier)
	cs := append([]*ClientStream{}, m.clients...)
	m.mu.Unlock()
	m.MS.VerifBroadcast(&master_pb.VolumeLocation{Url: tok})
	dl := time.After(StepDeadline)
	for _, c := range cs {
		if c.isClosed() {
			continue
		}
		for got := ""; got != tok; {
			select {
			case got = <-c.barr:
			case <-c.done:
				got = tok
			case <-dl:
				return false
			}
		}
	}
	return true
}

func (c *ClientStream) isClosed() bool {
	c.mu.Lock()
	defer c.mu.Unlock()
	return c.closed
}

// Take returns the messages received since the previous Take (call Sync first).
func (c *ClientStream) Take() []*master_pb.VolumeLocation {
	c.mu.Lock()
	defer c.mu.Unlock()
	r := c.msgs
	c.msgs = nil
	return r
}

// Close ends the client's stream and waits for the handler to return.
func (c *ClientStream) Close() bool {
	c.mu.Lock()
	if !c.closed {
		c.closed = true
		close(c.in)
	}
	c.mu.Unlock()
	select {
	case <-c.done:
		return true
	case <-time.After(StepDeadline):
		return false
	}
}
