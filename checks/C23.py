"""C23 - path-specific storage rules resolve by longest matching prefix (PathRules.tla)."""
import itertools
import json
import os
import random

FIELDS = ["collection", "replication", "ttl", "diskType", "fsync", "growth", "readOnly"]
EMPTY = {"collection": "", "replication": "", "ttl": "", "diskType": "", "fsync": False, "growth": 0, "readOnly": False}


def toks(s):
    return tuple(s)


def vals(k):
    """the values the k-th add uses for the fields it sets (distinct per k for the valued fields)"""
    return {"collection": "c%d" % k, "replication": "%03d" % k, "ttl": "%dm" % k,
            "diskType": ["ssd", "hdd", "nvme"][k % 3], "fsync": True, "growth": k, "readOnly": True}


def probe_paths():
    names = ["a", "b", "ab"]
    ps = ["/"]
    for d in (1, 2, 3):
        for c in itertools.product(names if d < 3 else names[:2], repeat=d):
            ps.append("/" + "/".join(c))
    ps += ["/a/", "/a/b/", "/abb", "/a/bb", "/ba", "/b/", "/aa", "/a/b/ab/a", "a", "b/a"]
    return [list(p) for p in sorted(set(ps))]


def random_scripts(rng, n, maxlen):
    """G4: random rule sets over a richer prefix set, all 128 set/unset patterns, values that
    also repeat between rules (same value objects, same rule added at two locations)."""
    prefixes = ["/", "/a", "/a/", "/a/b", "/a/b/", "/ab", "/abb", "/b", "/b/a", "/a/b/a", "/a/bb", "/ba", "/aa", "a"]
    out = []
    for _ in range(n):
        ops = []
        k = 0
        sub = rng.sample(prefixes, rng.randint(2, 7))
        for _ in range(rng.randint(1, maxlen)):
            r = rng.random()
            if r < 0.7:
                k += 1
                v = vals(rng.randint(1, 3) if rng.random() < 0.3 else k)
                c = {f: (v[f] if rng.random() < 0.45 else EMPTY[f]) for f in FIELDS}
                ops.append({"ev": "add", "p": list(rng.choice(sub)), "c": c})
            elif r < 0.87:
                ops.append({"ev": "del", "p": list(rng.choice(sub))})
            elif r < 0.92:
                ops.append({"ev": "reload"})
            else:
                ops.append({"ev": "match", "path": list(rng.choice(sub)) + rng.choice([[], ["a"], ["/", "b"], ["b", "/"]])})
        out.append(ops)
    return out


def run(ctx):
    ctx.sany("PathRules", "PathRulesTrace")
    prefixes = {toks(p) for p in ["/", "/a", "/a/b", "/ab", "/b"]}
    full = frozenset(FIELDS)
    part_a = frozenset(["collection", "fsync", "growth"])
    part_b = frozenset(["replication", "ttl", "diskType", "readOnly"])
    V = [vals(k) for k in range(1, 9)]
    # 1. design level: the declarative resolution equals the fold in increasing prefix length; delete restores
    mc = ctx.instance("MC_PathRules", "PathRules", "PathRules_mc.cfg",
                      {"Prefixes": prefixes, "Masks": {full, part_a, part_b, frozenset()}, "Vals": V,
                       "MaxOps": 3 if ctx.thorough else 2})
    ctx.model_check(mc, workers=4)
    # 2. G1: all histories (every length up to the bound) of add/del over the five prefixes
    masks = {full, part_a, part_b} if ctx.thorough else {full, part_a}
    g1 = ctx.instance("G1_PathRules", "PathRules", "SPECIFICATION Spec\nINVARIANT Emit\nCHECK_DEADLOCK FALSE",
                      {"Prefixes": prefixes, "Masks": masks, "Vals": V, "MaxOps": 3})
    hists = ctx.generate(g1, workers=4)
    if ctx.thorough:
        # four operations, one set/unset pattern per run (the trie shape is what varies)
        for m in ((part_a, part_b)[ctx.seed % 2],):
            g = ctx.instance("G1b_PathRules_%d" % len(m), "PathRules",
                             "SPECIFICATION Spec\nINVARIANT Emit\nCHECK_DEADLOCK FALSE",
                             {"Prefixes": prefixes, "Masks": {m}, "Vals": V, "MaxOps": 4})
            hists += [h for h in ctx.generate(g, workers=4) if len(h) == 4]
    rng = random.Random(ctx.seed)
    hists += random_scripts(rng, 4000 if ctx.thorough else 600, 8)
    probe = probe_paths()
    script = os.path.join(ctx.out, "script.ndjson")
    if ctx.replay:
        script = ctx.replay
    else:
        with open(script, "w") as f:
            for i, h in enumerate(hists):
                f.write(json.dumps({"ev": "reset", "probe": probe, "snapEvery": i % 8 == 0}) + "\n")
                for k, op in enumerate(h):
                    if i % 3 == 2 and k == len(h) - 1 and len(h) >= 2:
                        f.write(json.dumps({"ev": "reload"}) + "\n")   # persisted and loaded again in between
                    f.write(json.dumps(op) + "\n")
    # VERIF_DRIVER_BIN: a driver built elsewhere (mutation testing against a private copy of the tree)
    binp = os.environ.get("VERIF_DRIVER_BIN") or ctx.build("c23")
    trace = ctx.drive(binp, ["--script", script])

    def mutate(evs):
        for i, e in enumerate(evs):
            if e["ev"] == "snap":
                for j, g in enumerate(e["got"]):
                    if g["collection"] != "":
                        m = [dict(x) for x in evs]
                        m[i]["got"] = [dict(x) for x in e["got"]]
                        m[i]["got"][j]["collection"] = ""
                        return m
        return None

    def nontrivial(e):
        adds = sum(1 for x in e if '"ev":"add"' in x)
        return adds >= 2 or (adds >= 1 and any('"ev":"del"' in x for x in e))

    nev = sum(1 for _ in open(trace))
    ctx.judge("PathRulesTrace", trace, "trace_base.cfg",
              {"Probe": [tuple(p) for p in probe], "Prefixes": prefixes, "Masks": {full}, "Vals": V, "MaxOps": 0},
              nontrivial=nontrivial, mutate=mutate, chunk_events=max(2000, nev // 8 + 1))
    ctx.rule = ("executions = every add/del history of length 1..3 over the location prefixes {/, /a, /a/b, /ab, /b} "
                "with 2-3 set/unset field patterns (thorough: also all of length 4 for one pattern chosen by the seed) + seeded random "
                "histories over 14 prefixes with all 128 patterns; at the end of every history (after every operation "
                "for one in eight) MatchStorageRule is recorded for %d probe paths over the names a, b, ab to "
                "depth 2-3 (plus trailing-slash and non-rooted paths); non-trivial = at least two rules or a rule and a "
                "delete; distinct by hash of the recorded execution" % len(probe))
    ctx.exhaustive = True
    ctx.assumptions += ["location prefixes and paths are non-empty ASCII strings (the empty location prefix is not generated)",
                        "re-adding a configured location replaces its rule",
                        "prefix means string prefix (a rule for /a applies to /ab), as the code and DESIGN.md define it"]
