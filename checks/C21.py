"""C21 - hard links share one file (spec/FilerNS.tla, judge spec/FilerNSTrace.tla with Focus = {C21},
driver harness/cmd/c18: real filer, gRPC only; the link / write operations follow the FUSE mount's protocol)."""
import random

import filerns_common as fc

MIX = ["create", "write", "link", "delete", "nodata", "rename"]
WEIGHTS = {"create": 4, "write": 6, "link": 6, "delete": 4, "rename": 4, "lookup": 2, "list": 1}


def nontrivial(e):
    ev = fc.evs(e)
    linked = [i for i, x in enumerate(ev) if x["ev"] == "link" and x.get("res") == "ok"]
    if not linked:
        return False
    return any(x["ev"] in ("write", "rename", "delete", "create", "update") and x.get("res") == "ok"
               for x in ev[linked[0] + 1:])


def mutate(events):
    """corrupt an observation: the link counter found in the KV store is one too high"""
    for i, e in enumerate(events):
        if e.get("kv"):
            m = [dict(x) for x in events]
            kv = [dict(r) for r in e["kv"]]
            kv[0]["cnt"] += 1
            m[i]["kv"] = kv
            return m
    return None


def run(ctx):
    ctx.sany("FilerNS", "FilerNSTrace")
    rng = random.Random(ctx.seed)
    hists = []
    depth = 4 if ctx.thorough else 3
    mcg = ctx.instance("MCG2_FilerNS_C21", "FilerNS", fc.cfg_text("FilerNS_c21.cfg", "VIEW ViewMC" if ctx.thorough else "VIEW ViewS", "INVARIANT EmitW"),
                       fc.consts(MIX, [1], [1, 2], depth))
    g2 = fc.mc_and_generate(ctx, mcg, timeout=2400)
    ctx.notes["g2_histories"] = len(g2)
    # histories without a link say nothing about C21
    g2 = [h for h in g2 if any(op["ev"] == "link" for op in h)]
    hists += fc.sample_pref(rng, g2, 1500 if ctx.thorough else 300, fc.link_then(("write", "create", "delete", "rename")), 0.8)
    # the implementation-shaped generator (Dev: every known-finding deviation) must break the design invariants
    dv = ctx.instance("DEV_FilerNS_C21_counter", "FilerNS", "SPECIFICATION Spec\nINVARIANT LinkCounterIsNames\nCHECK_DEADLOCK FALSE",
                      fc.consts(["create", "link", "delete", "nodata", "rename"], [1], [1], 3, dev=True))
    ctx.model_check(dv, workers=2, expect_violation="LinkCounterIsNames", label="known findings break LinkCounterIsNames at design level")
    if ctx.thorough:
        dv = ctx.instance("DEV_FilerNS_C21_rename", "FilerNS", "SPECIFICATION Spec\nPROPERTY RenameMovesSubtree\nCHECK_DEADLOCK FALSE",
                          fc.consts(["create", "link", "rename"], [1], [1], 3, dev=True))
        ctx.model_check(dv, workers=4, expect_violation="RenameMovesSubtree", label="rename-drops-link breaks RenameMovesSubtree (entries arrive unchanged) at design level")
        mc = ctx.instance("MC_FilerNS_C21", "FilerNS", fc.cfg_text("FilerNS_c21.cfg"), fc.consts(MIX, [1], [1], 3))
        ctx.model_check(mc, workers=4, timeout=1500)
        # change-then-revert at model level: every (state, last op) of create / link / write to depth 4
        gr = ctx.instance("G2R_FilerNS_C21", "FilerNS", fc.cfg_text("FilerNS_c21.cfg", "VIEW ViewMC", "INVARIANT EmitW"),
                          fc.consts(["create", "link", "write"], [1], [1, 2], 4))
        hists += fc.sample_pref(rng, fc.mc_and_generate(ctx, gr, timeout=1500), 800,
                                fc.link_then(("write",)), 0.9)
        g3 = ctx.instance("G3_FilerNS_C21", "FilerNS", "SPECIFICATION Spec\nINVARIANT Emit\nCHECK_DEADLOCK FALSE",
                          fc.consts(MIX + ["mkdir", "update"], [1, 2, 3], [1, 2, 3], 10, links=3))
        hists += ctx.generate(g3, simulate=200, depth=11)
    hists = [fc.observers(rng, fc.PATHS, [fc.norm_op(op, rng) for op in h], 0.15) for h in hists]
    hists += fc.random_scripts(rng, 400 if ctx.thorough else 70, 12, WEIGHTS)
    # G4b: change-then-revert through different names of one link (values repeat)
    hists += fc.revert_scripts(rng, 300 if ctx.thorough else 40)
    hists += fc.linked_subtree_scripts(rng, 48 if ctx.thorough else 12)
    hists = fc.finding_scripts("C21") + hists
    fc.drive_and_judge(ctx, hists, nontrivial, mutate, ["C21"])
    ctx.rule = ("executions = one TLC witness history per (namespace state incl. link records, last operation) to depth %d "
                "over 5 paths x 2 link ids that contains a link (sampled in the quick tier; thorough adds random walks of "
                "length 10) + seeded random input scripts of length 12 (link / write through any name / rename / "
                "overwrite / delete; writes repeat earlier values) + change-then-revert scripts (two or three names of "
                "one link, writes from a pool of 2-3 values through any name); after every call: recursive ListEntries snapshot (content, attributes, link id and "
                "counter shown by every name), LookupDirectoryEntry on sampled names, KvGet of every link record; "
                "non-trivial = a successful link followed by a successful write, rename, delete or overwrite" % depth)
    ctx.exhaustive = True
    ctx.assumptions += [
        "the link counter is maintained by clients following the mount's protocol (weed/filesys/dir_link.go: "
        "UpdateEntry(old, counter+1) then CreateEntry(new name, same id and counter); write-back keeps id and counter); "
        "the driver performs exactly these calls",
        "the chunk ids scheduled for deletion are not judged here (C20 does)",
        "link ids are fresh per execution; the kernel's EEXIST check before link() is reproduced by a lookup in the driver",
    ]
