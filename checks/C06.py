"""C06 - erasure coding reconstructs and serves the exact original volume (EcLayout.tla)."""
import itertools
import json
import os
import random

import vf

MIB = 1 << 20
ALL_LOSS = [list(c) for k in (1, 2, 3, 4) for c in itertools.combinations(range(14), k)]  # 1470


def read_plan(rng, L, S, n, align, exhaustive):
    """reads events (inputs only): every offset (multiple of align) of the file; all sizes or a sample
    that contains the sizes ending on / just around every kind of block and row boundary."""
    evs = []
    for off in range(0, n, align):
        mx = n - off
        if exhaustive:
            sizes = set(range(align, mx + 1, align))
        else:
            sizes = {align, 2 * align, mx - align}
            for blk in (S, L, 10 * S, 10 * L):
                r = blk - off % blk
                sizes |= {r - align, r, r + align, r + blk}
            for _ in range(3):
                sizes.add(rng.randrange(1, mx + 1) // align * align)
        sizes.add(mx)
        sizes = sorted(s for s in sizes if 0 < s <= mx and (s % align == 0 or s == mx))
        evs.append({"ev": "reads", "off": off, "sizes": sizes})
    return evs


def scaled_exec(rng, L, S, buf, n, align, exhaustive, losses):
    ex = [{"ev": "reset", "large": L, "small": S, "buf": buf, "n": n, "unit": 1, "ka": rng.randrange(1, 251),
           "kb": rng.randrange(0, 251), "real": False, "vol": False}, {"ev": "encode"}]
    ex += read_plan(rng, L, S, n, align, exhaustive)
    ex += [{"ev": "rebuild", "lost": l} for l in losses]
    return ex


def real_exec(rng, n, nreads, losses, nneedles=30):
    """production block sizes (large = small = 0 in the reset line: not representable in TLC)"""
    ex = [{"ev": "reset", "large": 0, "small": 0, "buf": 0, "n": n, "unit": 1, "ka": rng.randrange(1, 251),
           "kb": rng.randrange(0, 251), "real": True, "vol": False}, {"ev": "encode"}]
    offs = set()
    for _ in range(nreads):
        if n >= 16:
            offs.add(rng.randrange(0, n // 8) * 8)
    # offsets just before / on every small block and small row boundary
    for b in range(0, n, MIB):
        offs |= {o for o in (b - 8, b, b + 8) if 0 <= o < n}
    for off in sorted(offs):
        mx = n - off
        sizes = {8, MIB - off % MIB, MIB - off % MIB + 8, rng.randrange(1, min(mx, 3 * MIB) + 1)}
        if rng.randrange(8) == 0 or off == 0:
            sizes |= {mx, rng.randrange(1, mx + 1)}
        ex.append({"ev": "reads", "off": off, "sizes": sorted(s for s in sizes if 0 < s <= mx)})
    ex += [{"ev": "rebuild", "lost": l} for l in losses]
    # the real EcVolume object over these shards, with an index of made-up needles [id, offset/8, size]
    if n > 4096:
        needles = []
        for i in range(nneedles):
            s = rng.randrange(1, min(3 * MIB, n // 2))
            if i % 3 == 0:   # ending just before / on / after a small block boundary
                b = rng.randrange(1, n // MIB + 1) * MIB if n >= MIB else 0
                o = max(0, b - rng.choice((8, 16, 64)) - (s if i % 2 else 0)) // 8
            else:
                o = rng.randrange(0, (n - 64 - s) // 8 + 1)
            if 8 * o + s + 64 <= n:
                needles.append([1 + 3 * i, o, s])
        ex.append({"ev": "mount", "needles": needles})
        ex += [{"ev": "needle", "id": nd[0]} for nd in needles] + [{"ev": "needle", "id": 2}]
    ex.append({"ev": "decode", "size": n})
    return ex


VOL_RESET = {"ev": "reset", "large": 0, "small": 0, "buf": 0, "n": 0, "unit": 1, "ka": 1, "kb": 0, "real": True, "vol": True}
VOL_KEYS = (1, 2, 3)


def vol_exec(rng, h, big=False):
    """one execution from a TLC history of the volume life cycle (EcLayoutVol.tla): inputs only. The content
    tokens are renamed consistently (a: a few bytes, L: a few hundred bytes / 70 KB / with big: 4 MiB, so that
    three needles need two small block rows), the loss set of a rebuild is drawn from all sets of <= 4
    shards, and reads of every key are inserted wherever reading is possible (EC read path while erasure
    coded, the loaded volume after a decode)."""
    ren = {"a": rng.choice(("a", "b")), "L": "H" if big else rng.choice(("L", "L", "M"))}
    ex = [dict(VOL_RESET)]
    loaded = False
    for op in h:
        op = dict(op)
        if "d" in op:
            op["d"] = ren.get(op["d"], op["d"])
        if op["ev"] == "rebuild":
            op["lost"] = rng.choice(ALL_LOSS)
        ex.append(op)
        if op["ev"] in ("vencode", "vecdelete", "rebuild", "vfold"):
            ex += [{"ev": "vecread", "k": k} for k in VOL_KEYS]
        elif op["ev"] == "vload" or (op["ev"] == "vwrite" and loaded):
            loaded = True
            ex += [{"ev": "vread", "k": k} for k in VOL_KEYS]
    return ex


def vol_signature(h):
    """what a history exercises (python only groups by it to spread the sample)"""
    live, sig, enc, ecdel = {}, set(), False, False
    for op in h:
        ev = op["ev"]
        if ev == "vwrite" and not enc:
            sig.add("same" if live.get(op["k"]) == op["d"] else "over" if live.get(op["k"]) else "w")
            live[op["k"]] = op["d"]
        elif ev == "vdelete":
            sig.add("del" if live.get(op["k"]) else "deldead")
            live[op["k"]] = None
        elif ev == "vencode":
            enc = True
            sig.add("enc%d" % sum(1 for v in live.values() if v))
        elif ev == "vecdelete":
            sig.add("ecdel" if live.get(op["k"]) else "ecdeldead")
            live[op["k"]] = None
        elif ev in ("vfold", "vdecode"):
            sig.add(ev + ("-stale" if op["stale"] else ""))
        else:
            sig.add(ev)
    sig.add("live%d" % sum(1 for v in live.values() if v))
    return tuple(sorted(sig))


def spread_sample(rng, hs, k):
    """k histories, taken round robin from the groups of equal signature"""
    groups = {}
    for h in sorted(hs, key=lambda h: json.dumps(h, sort_keys=True)):
        groups.setdefault(vol_signature(h), []).append(h)
    for g in groups.values():
        rng.shuffle(g)
    out, keys = [], sorted(groups)
    while len(out) < k and keys:
        for sg in list(keys):
            if groups[sg]:
                out.append(groups[sg].pop())
                if len(out) >= k:
                    break
            else:
                keys.remove(sg)
    return out, len(groups)


def appended_big(h):
    """number of pre-encode writes of the long token that append a record"""
    live, c = {}, 0
    for op in h:
        if op["ev"] == "vencode":
            break
        if op["ev"] == "vwrite":
            if op["d"] == "L" and live.get(op["k"]) != "L":
                c += 1
            live[op["k"]] = op["d"]
        elif op["ev"] == "vdelete":
            live[op["k"]] = None
    return c


def run(ctx):
    ctx.sany("EcLayout", "EcLayoutVol", "EcLayoutTrace")
    rng = random.Random(ctx.seed)
    T = ctx.thorough
    # C06_SHARE=vol (by hand, mutation testing of the decode share): only the volume life cycle executions
    only_vol = os.environ.get("C06_SHARE") == "vol"
    # ---- 1. the arithmetic, model-checked: encoder placement, locator (tree / original), decoder
    blocks10 = {(4, 1), (8, 2), (6, 2), (6, 3), (16, 2)} if T else {(8, 2)}
    if not only_vol:
        mc = ctx.instance("MC_EcLayout", "EcLayout", "EcLayout_mc.cfg",
                          {"DataShards": 10, "Blocks": blocks10, "MaxRows": 3, "GenNear": {0}})
        ctx.model_check(mc, workers=4, label="locator loop as transition system, 10 data shards, every dat size <= 3 large rows")
        brute = ctx.instance("MC_EcBrute", "EcLayout", "EcLayout_brute.cfg",
                             {"DataShards": 3, "Blocks": {(4, 1), (6, 2), (8, 2)} if T else {(4, 1)},
                              "MaxRows": 2, "GenNear": {0}})
        ctx.model_check(brute, workers=4, label="brute force: every (dat size, offset, size), 3 data shards")
        if T:
            brute10 = ctx.instance("MC_EcBrute10", "EcLayout", "EcLayout_brute.cfg",
                                   {"DataShards": 10, "Blocks": {(4, 1)}, "MaxRows": 1, "GenNear": {0}})
            ctx.model_check(brute10, workers=4, label="brute force, 10 data shards, dat size <= 1 large row")

    # ---- 2. inputs: TLC enumerates the dat sizes on and around every row boundary / window edge
    def sizes_from_tlc(L, S, near, rows=3):
        if only_vol:
            return []
        g = ctx.instance("G_Ec_%d_%d" % (L, S), "EcLayout", "SPECIFICATION GenSpec\nINVARIANT EmitSize\nCHECK_DEADLOCK FALSE",
                         {"DataShards": 10, "Blocks": {(L, S)}, "MaxRows": rows, "GenNear": set(near)})
        return sorted(h["n"] for h in ctx.generate(g, workers=1))

    def losses(k):
        return ALL_LOSS if k is None else rng.sample(ALL_LOSS, k)

    execs = []
    # (a) bytes: L=4, S=1: every dat size, every offset
    for n in range(0, 0 if only_vol else (3 if T else 2) * 40 + 6):
        execs.append(scaled_exec(rng, 4, 1, 1, n, 1, T, losses(2 if T else 1)))
    # (b) bytes: L=8, S=2 (the design's scale), two buffer sizes
    ns = range(0, 3 * 80 + 4) if T and not only_vol else sizes_from_tlc(8, 2, (-1, 0, 1))
    for n in ns:
        execs.append(scaled_exec(rng, 8, 2, rng.choice((1, 2)), n, 1, T and n % 80 in (0, 1, 41, 60, 61),
                                 losses(None if T and n in (80, 161) else 2)))
    # (c) needle alignment: L=64, S=16 (8 and 2 units of 8 bytes), 8-aligned offsets and sizes
    for n in sizes_from_tlc(64, 16, (-8, -1, 0, 1, 8) if T else (-8, 0, 8)):
        execs.append(scaled_exec(rng, 64, 16, rng.choice((8, 16)), n, 8, T and n % 640 in (0, 8, 480, 488),
                                 losses(2 if T else 1)))
    if T and not only_vol:
        # (d) other ratios large/small
        for (L, S) in ((6, 2), (6, 3), (16, 2)):
            for n in sizes_from_tlc(L, S, (-1, 0, 1)):
                execs.append(scaled_exec(rng, L, S, rng.choice([b for b in (1, 2, 3) if S % b == 0 and L % b == 0]), n, 1,
                                         False, losses(2)))
    script = os.path.join(ctx.out, "script.ndjson")
    rscript = os.path.join(ctx.out, "script-real.ndjson")
    # (e) production block sizes: small rows only (a large row needs > 10 GiB)
    reals = [real_exec(rng, 10 * MIB + 8 * rng.randrange(1, 1000), 40, losses(3))]
    if T and not only_vol:
        reals += [real_exec(rng, 20 * MIB, 150, losses(6)), real_exec(rng, 20 * MIB + 1, 100, losses(4)),
                  real_exec(rng, 23 * MIB + 12345, 300, losses(8), 120), real_exec(rng, 1, 1, losses(4)),
                  real_exec(rng, 0, 0, losses(4))]
    if os.environ.get("C06_HUGE"):
        # by hand only (about 35 GiB of disk and several minutes per file): sparse data files of C06_HUGE MiB
        # (comma separated), production encoder and decoder, e.g. C06_HUGE=10240,10241 for one large row
        for mib in os.environ["C06_HUGE"].split(","):
            reals.append([{"ev": "reset", "large": 0, "small": 0, "buf": 0, "n": int(mib), "unit": MIB, "ka": 7, "kb": 0,
                           "real": True, "vol": False}, {"ev": "encode"}, {"ev": "decode", "size": int(mib)}])
    # (f) the life cycle of real volumes (B4: decode share): TLC enumerates the histories (EcLayoutVol.tla: the
    # layer-A actions of EcLayout.tla + a ghost of the data file / .ecx marks / .ecj journal), checks the design-level
    # invariants on the way and prints one shortest history per distinct view that went all the way (encoded,
    # decoded, loaded, written again)
    vscript = os.path.join(ctx.out, "script-vol.ndjson")
    vbase = {"DataShards": 10, "Blocks": set(), "MaxRows": 0, "GenNear": set(), "VKeys": set(VOL_KEYS), "VLoss": {(0,)}}
    vcfg = open(os.path.join(vf.SPEC, "EcLayout_vol.cfg")).read()
    if T:
        vmc = ctx.instance("MC_EcVol", "EcLayoutVol", vcfg,
                           dict(vbase, VDatas={"a", "L"}, VMaxOps=8, VMaxPre=3, VMaxEc=2, VMaxPost=1, VMaxCyc=1))
        ctx.model_check(vmc, workers=4, timeout=1800, label="volume life cycle, every history of <= 8 steps (no view)")
    g2 = ctx.instance("G2_EcVol", "EcLayoutVol", vcfg + "INVARIANT EmitW\nVIEW GView\n",
                      dict(vbase, VDatas={"a", "L"}, VMaxOps=10 if T else 9, VMaxPre=3, VMaxEc=3 if T else 2,
                           VMaxPost=1, VMaxCyc=1))
    vh = ctx.generate(g2, workers=4, timeout=1800)
    vrng = random.Random(7919 * ctx.seed + 6)    # own stream: the same sample with and without C06_SHARE=vol
    vols, ngroups = spread_sample(vrng, vh, 900 if T else 90)
    vexecs = [vol_exec(vrng, h) for h in vols]
    deep = []
    if T:
        # longer random histories, two encode / decode cycles
        g3 = ctx.instance("G3_EcVol", "EcLayoutVol", "SPECIFICATION GSpec\nINVARIANT Emit\nCHECK_DEADLOCK FALSE",
                          dict(vbase, VDatas={"a", "L"}, VMaxOps=18, VMaxPre=5, VMaxEc=4, VMaxPost=2, VMaxCyc=2))
        deep = ctx.generate(g3, simulate=300, depth=19)
        vexecs += [vol_exec(vrng, h) for h in deep]
    # data files of more than 10 MiB (two small block rows): histories with three or more appended long needles
    bigs, _ = spread_sample(vrng, [h for h in vh + deep if appended_big(h) >= 3], 10 if T else 2)
    vexecs += [vol_exec(vrng, h, big=True) for h in bigs]
    ctx.notes["volume_life_cycle"] = "%d histories from TLC in %d signature groups, %d driven (%d with a data file > 10 MiB)" % (
        len(vh), ngroups, len(vexecs), len(bigs))
    if only_vol:
        script, rscript = None, None
    if ctx.replay:
        script, rscript, vscript = ctx.replay, None, None
    else:
        for path, xs in ((script, execs), (rscript, reals), (vscript, vexecs)):
            if path is None:
                continue
            with open(path, "w") as f:
                for ex in xs:
                    for e in ex:
                        f.write(json.dumps(e) + "\n")
    # C06_BIN: a driver built beforehand (mutation testing: build with the mutant applied, revert /repo
    # at once, then run the check on that binary, so that the shared tree is never left mutated)
    binp = os.environ.get("C06_BIN") or ctx.build("c06")
    consts = {"DataShards": 10, "Blocks": set(), "MaxRows": 0, "GenNear": set(), "CheckLayout": False}

    def corrupt_read(evs):
        for i, e in enumerate(evs):
            if e["ev"] == "reads" and e["got"] and e["got"][-1]:
                m = [dict(x) for x in evs]
                got = json.loads(json.dumps(e["got"]))
                got[-1][0][0] = got[-1][0][0] % 251 + 1
                m[i]["got"] = got
                return m
        return None

    def corrupt_hash(evs):
        for i, e in enumerate(evs):
            if e["ev"] in ("decode", "rebuild"):
                m = [dict(x) for x in evs]
                if e["ev"] == "decode":
                    m[i]["hash"] = "0" * 16
                else:
                    m[i]["after"] = ["0" * 16] + list(e["after"][1:])
                return m
        return None

    def nontrivial(e):
        return sum(1 for x in e if '"ev":"reads"' in x or '"ev":"rebuild"' in x) >= 2

    # temp dirs of the driver (and the log files glog insists on) live and die with ctx.out
    tmp = os.path.join(ctx.out, "tmp")
    os.makedirs(tmp, exist_ok=True)
    trace = None
    if script:
        trace = ctx.drive(binp, ["--script", script], name="trace", env={"TMPDIR": tmp})
        ctx.judge("EcLayoutTrace", trace, "trace_base.cfg", consts, nontrivial=nontrivial, mutate=corrupt_read)
    if rscript:
        rtrace = ctx.drive(binp, ["--script", rscript], name="trace-real", env={"TMPDIR": tmp},
                           timeout=14400 if os.environ.get("C06_HUGE") else 1200)
        ctx.judge("EcLayoutTrace", rtrace, "trace_base.cfg", consts, nontrivial=nontrivial, mutate=corrupt_hash,
                  label="r")

    if vscript:
        def corrupt_vread(evs):
            seen = False
            for i, e in enumerate(evs):
                seen = seen or e["ev"] == "vload"
                if seen and e["ev"] == "vread" and e["st"] == "data":
                    m = [dict(x) for x in evs]
                    m[i]["d"] = "a" if e["d"] != "a" else "b"
                    return m
            return None

        vtrace = ctx.drive(binp, ["--script", vscript], name="trace-vol", env={"TMPDIR": tmp}, timeout=2400)
        ctx.judge("EcLayoutTrace", vtrace, "trace_base.cfg", consts, mutate=corrupt_vread, label="v",
                  nontrivial=lambda e: any('"ev":"vdecode"' in x or '"ev":"rebuild"' in x for x in e))

    # ---- 3. advisory (model drift, never a verdict): are the shards laid out as Place says?
    lay = [e[:2] for e in (vf.split_execs(trace) if trace else []) if len(e) >= 2 and '"real":false' in e[0] and '"ev":"encode"' in e[1]]
    if lay:
        tf = os.path.join(ctx.out, "layout.ndjson")
        vf.annotate(lay, tf)
        c2 = dict(consts, CheckLayout=True, TraceFile=tf, KF=set())
        modp, cfgp = ctx.instance("J_layout", "EcLayoutTrace", "trace_base.cfg", c2)
        r = vf.run_tlc(modp, cfgp, os.path.join(ctx.out, "tlc"), workers=1, timeout=900, quiet=True, heap="3g")
        if r.status != "ok":
            raise vf.Infra("layout pass: TLC %s\n%s" % (r.status, r.out[-2000:]))
        ok = {vf.parse_tla_value("<<" + rest + ">>")[0] for t, rest in r.prints if t == "ACC"}
        bad = [json.loads(lay[i][0]) for i in range(len(lay)) if i + 1 not in ok]
        ctx.notes["layout_executions_as_modelled"] = "%d of %d" % (len(lay) - len(bad), len(lay))
        for b in bad[:5]:
            ctx.model_drift.append({"what": "data shards are not laid out as EcLayout!Place says (advisory)", "reset": b})

    import shutil
    shutil.rmtree(tmp, ignore_errors=True)
    ctx.rule = ("one execution per data file: block sizes (large,small) in {(4,1),(8,2),(64,16)} (thorough: also (6,2),(6,3),"
                "(16,2)), dat sizes = all of 0..2-3 large rows for (4,1) (thorough: (8,2) too), otherwise the sizes TLC "
                "enumerates on and around every row boundary; the real encoder (hook, scaled blocks) writes the shards; reads at "
                "EVERY offset (8-aligned for (64,16)) with %s through LocateData(10*shard size)+ToShardIdAndOffset+ReadAt; "
                "rebuilds after removing %s; plus executions with the production block sizes (10-23 MiB data files: WriteEcFiles, "
                "reads, RebuildEcFiles, the real EcVolume + EcVolumeShards over an index of made-up needles (LocateEcShardNeedle + shard ReadAt), "
                "WriteDatFile); plus the life cycle of REAL volumes (%s TLC-generated histories over 3 keys, EcLayoutVol.tla: needles written, "
                "overwritten and deleted through storage.Store, also none at all / a tombstone as last record; WriteEcFiles + "
                "WriteSortedFileFromIdx; the real EcVolume: every key read through LocateEcShardNeedle + shard ReadAt + needle parsing after "
                "every step, DeleteNeedleFromEcx; <= 4 shard files removed + RebuildEcFiles; the .ecj journal folded (RebuildEcxFile) or "
                "not, on the .ecx that carries the deletion marks or on one that has not seen them; FindDatFileSize + WriteDatFile + "
                "WriteIdxFileFromEcIndex; the decoded volume loaded by the real loader, every key read, a new write, every key read "
                "again; %s with a data file > 10 MiB = two small block rows). non-trivial = at least two read/rebuild events resp. a "
                "decode or rebuild of a real volume; distinct by hash of the recorded execution" % ("every size for (4,1) and for the boundary/window files of (8,2) and (64,16), sampled sizes elsewhere" if T
                                            else "sizes ending on/around every block and row boundary + random ones",
                                            "every one of the 1470 loss sets of <= 4 shards on 2 files, 2-3 sampled sets on every other file"
                                            if T else "1-2 sampled loss sets of <= 4 shards per file",
                                            "about 1200 (900 witnesses of <= 10 steps spread over the signature groups + 300 random ones of 18 steps "
                                            "with two encode/decode cycles)" if T else "92 (witnesses of <= 9 steps spread over the signature groups)",
                                            "10" if T else "2"))
    ctx.exhaustive = bool(T)
    ctx.assumptions += [
        "data file content is the progression Dat(i) = ((ka*(i mod 251)+kb) mod 251)+1 with a random key per file; bytes read "
        "are recorded run-length coded relative to that progression (lossless); files are compared by sha256 prefix",
        "small block divides large block (as 1 MiB divides 1 GiB); Reed-Solomon arithmetic itself is trusted",
        "WriteDatFile / WriteEcFiles with the production constants run on files < 10 GiB only, i.e. small rows only: the "
        "decoder's large-row arithmetic is decided on the model (EcLayout!DecodeTreeExact), not on the real code",
        "volume life cycle: one volume (id 1, version 3, replication 000, no ttl), one cookie, content tokens of 11 B .. 4 MiB "
        "(fixed pseudo-random strings, read back and mapped to their token by exact comparison), 3 keys; reads in the EC phase "
        "mirror Store.ReadEcShardNeedle for local shards (no master, no remote shards); the 'stale' .ecx is the file as it was "
        "when the journal was last empty (what a server that missed the deletions holds; ec.decode copies only the .ecj to it)",
        "FindDatFileSize: any prefix of the original .dat is admitted (the driver hashes that prefix, the spec compares), as "
        "long as every live key is readable afterwards; set-up steps before the first encoding (plain volume writes / "
        "deletes) that fail void the execution instead of failing the property",
    ]
