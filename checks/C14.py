"""C14 - vacuum rounds keep replicas consistent and writable (VacuumRound.tla, VacuumImpl.tla).

Layer A (VacuumRound) is the judge of every execution recorded from the real
topology.Topology.Vacuum talking to scripted volume-server gRPC endpoints; layer B
(VacuumImpl, topology_vacuum.go transcribed) is model-checked against the layer-A rules for
every outcome combination and schedule, generates the scripts (every reachable per-replica x
phase outcome combination for 1-3 replicas) and is itself bound to the code by validating the
same recorded executions against it (advisory: model_drift)."""
import json
import os
import random
import re
from concurrent.futures import ThreadPoolExecutor

import vf

DEV_ROUND = "C14-unwritable-after-failed-round"
DEV_COMMIT = "C14-unwritable-after-failed-commit"


def variants(n):
    """pre-states (inputs of the reset line): name -> (need, minok, large, ro, layer-B kind)"""
    v = {"normal": (n, False, False, False), "big": (n, False, True, False),
         "under": (n + 1, False, False, False), "ro": (n, False, False, True)}
    if n >= 2:
        v["overmin"] = (n - 1, True, False, False)   # more copies than asked for, replicationAsMin
        v["over"] = (n - 1, False, False, False)     # more copies than asked for: not writable
    return v


def has_timeout(s):
    return any(o == "timeout" for r in s for o in r.values())


def resets(hists, thorough):
    """script records {n, s} from layer B -> reset lines for every pre-state"""
    quick_kinds = {1: ["normal", "big", "under", "ro"], 2: ["normal", "big", "under", "ro", "overmin", "over"],
                   3: ["normal", "big", "under", "ro"]}
    fast, slow = [], []
    seen_ro = set()
    for h in hists:
        n, s = h["n"], h["s"]
        for name, (need, minok, large, ro) in variants(n).items():
            if not thorough and name not in quick_kinds[n]:
                continue
            if ro:
                # a read-only volume is skipped by the master: one script per n is enough
                if n in seen_ro or has_timeout(s):
                    continue
                if not all(r["check"] == "hi" and r["compact"] == "ok" and r["commit"] == "ok" for r in s):
                    continue
                seen_ro.add(n)
            to = has_timeout(s)
            if to and name not in ("normal", "big") and n == 3:
                continue  # timeout scenarios: all pre-states for n <= 2, normal and big for n = 3
            wait = 30
            if to:
                wait = 130 if any(r["check"] == "timeout" for r in s) else 280
            line = {"ev": "reset", "n": n, "need": need, "minok": minok, "large": large, "ro": ro,
                    "with": 1, "wait": wait, "zfast": False, "s": s}
            (slow if to else fast).append(line)
    return fast, slow


def multi_round(rng, hists, count):
    """G4: Vacuum called 2-3 times on one topology, each round with a TLC-enumerated outcome combination
    (without timeouts), random pre-state; returns executions (lists of lines)"""
    by_n = {}
    for h in hists:
        if not has_timeout(h["s"]):
            by_n.setdefault(h["n"], []).append(h["s"])
    out = []
    for _ in range(count):
        n = rng.choice(sorted(by_n))
        cands = by_n[n]
        busy = [s for s in cands if any(r["compact"] != "na" for r in s)]
        name = rng.choice([k for k in variants(n) if k != "ro"])
        need, minok, large, ro = variants(n)[name]
        pick = [rng.choice(busy if rng.random() < 0.8 else cands) for _ in range(rng.choice([2, 2, 3]))]
        ex = [{"ev": "reset", "n": n, "need": need, "minok": minok, "large": large, "ro": ro, "with": 1, "wait": 30, "zfast": False, "s": pick[0]}]
        ex += [{"ev": "round", "s": s} for s in pick[1:]]
        out.append(ex)
    return out


def fast_timer_scripts(repeat):
    """compaction time-outs on the real code in milliseconds: the topology gets a volume size limit for which the
    master's compact wait (3 min x factor) overflows to a negative duration, so the timer is due at once while the
    check wait stays positive (driver: fastLimit). One or two replicas never answer the compaction, the others answer
    ok; also all-ok and one-error scripts, where the replies race with the timer (layer B: SlowReplies schedules)."""
    res = []
    for n in (1, 2, 3):
        combos = [tuple("timeout" if r == h else "ok" for r in range(n)) for h in range(n)]
        combos.append(tuple("ok" for _ in range(n)))
        if n >= 2:
            combos.append(tuple("err" if r == 0 else "ok" for r in range(n)))
        if n == 3:
            combos += [("timeout", "timeout", "ok"), ("ok", "timeout", "timeout"), ("timeout", "err", "ok")]
        for c in combos:
            for need in (n, n + 1):
                s = [{"check": "hi", "compact": o, "commit": "ok", "cleanup": "ok"} for o in c]
                for _ in range(repeat):
                    res.append({"ev": "reset", "n": n, "need": need, "minok": False, "large": False, "ro": False,
                                "with": 1, "wait": 30, "zfast": True, "s": s})
    return res


def hang_scripts():
    """commit / cleanup RPCs that never answer (the master has no timer there): the driver gives up
    waiting for Vacuum after `wait` seconds and records done=false"""
    ok = {"check": "hi", "compact": "ok", "commit": "ok", "cleanup": "na"}
    res = []
    res.append({"ev": "reset", "n": 1, "need": 1, "minok": False, "large": False, "ro": False, "with": 1, "wait": 25, "zfast": False,
                "s": [dict(ok, commit="timeout")]})
    res.append({"ev": "reset", "n": 2, "need": 2, "minok": False, "large": False, "ro": False, "with": 1, "wait": 25, "zfast": False,
                "s": [dict(ok), dict(ok, commit="timeout")]})
    res.append({"ev": "reset", "n": 2, "need": 2, "minok": False, "large": False, "ro": False, "with": 1, "wait": 25, "zfast": False,
                "s": [{"check": "hi", "compact": "err", "commit": "na", "cleanup": "timeout"},
                      {"check": "hi", "compact": "ok", "commit": "na", "cleanup": "ok"}]})
    return res


def write_script(path, lines):
    with open(path, "w") as f:
        for x in lines:
            f.write(json.dumps(x) + "\n")


def drift(ctx, trace_path, constants, label):
    """Validate the recorded executions against layer B (advisory)."""
    execs = vf.split_execs(trace_path)
    chunks, cur, n = [], [], 0
    for e in execs:
        cur.append(e)
        n += len(e)
        if n >= 8000:
            chunks.append(cur)
            cur, n = [], 0
    if cur:
        chunks.append(cur)
    with ThreadPoolExecutor(max_workers=4) as pool:
        accs = list(pool.map(lambda a: ctx._judge_chunk("VacuumImplTrace", a[1], "trace_base.cfg", constants, set(), 1800,
                                                        False, "b%s%d" % (label, a[0])), enumerate(chunks)))
    unexplained = []
    for chk, acc in zip(chunks, accs):
        for xi, e in enumerate(chk):
            if not acc.get(xi + 1):
                unexplained.append(e)
    for e in unexplained[:3]:
        ctx.model_drift.append({"layer_b": "VacuumImpl", "execution": [json.loads(x) for x in e[:40]]})
    if unexplained:
        vf.log("MODEL DRIFT: %d of %d executions are not behaviours of VacuumImpl" % (len(unexplained), len(execs)))
    return len(execs), len(unexplained)


def run(ctx):
    # seaweedfs' glog creates (empty) log files in os.TempDir() even with -logtostderr: keep them in the scratch dir
    tmpd = os.path.join(ctx.out, "tmp")
    os.makedirs(tmpd, exist_ok=True)
    denv = {"TMPDIR": tmpd}
    ctx.sany("VacuumRound", "VacuumImpl", "VacuumRoundTrace", "VacuumImplTrace")
    kf_open = set(ctx.kf_open.keys())
    fixed = DEV_ROUND not in kf_open      # the fix: commit is in the tree unless the finding is (re)opened
    a_const = {"MaxN": 3 if ctx.thorough else 2, "Vols": {1}, "Guarded": True}

    def b_const(ns, kinds, slow, hang=False, kfb=None, fx=None, rounds=1):
        return {"MaxN": 3, "Vols": {1}, "Guarded": True, "Ns": set(ns), "Kinds": set(kinds), "SlowReplies": slow,
                "CommitMayHang": hang, "Rounds": rounds, "Fixed": fixed if fx is None else fx, "KFB": kf_open if kfb is None else kfb}

    kinds = ["normal", "big", "under", "ro"]
    inv = ("INVARIANT TypeOK\nINVARIANT NoBadCommit\nINVARIANT LiveAgree\nINVARIANT PostOK\n"
           "INVARIANT UnwritableWhileCompacting\nINVARIANT OnlyGarbageCompacted\nINVARIANT CommitXorCleanup\n")
    jobs = []
    # layer A: rule (1) implies (2) for every environment; without rule (1) it does not
    jobs.append(("mc", ctx.instance("MC_A", "VacuumRound", "VacuumRound_mc.cfg", a_const), {"label": "layer A: (1) => (2)"}))
    if ctx.thorough:
        jobs.append(("mc", ctx.instance("MC_A_unguarded", "VacuumRound", "VacuumRound_unguarded.cfg", dict(a_const, Guarded=False, MaxN=2)),
                     {"expect_violation": "LiveAgree", "label": "layer A without rule (1): replicas diverge (expected)"}))
    # layer B: the orchestration satisfies (1)-(3) for all outcomes and schedules, early timers included;
    # termination under weak fairness (no state constraint)
    jobs.append(("mc", ctx.instance("MC_B_12", "VacuumImpl", "SPECIFICATION FairSpec\n" + inv + "PROPERTY Termination\nCHECK_DEADLOCK FALSE",
                                    b_const({1, 2}, kinds, True)),
                 {"label": "layer B n<=2, timers may fire early; termination under WF"}))
    if ctx.thorough:
        # the model reproduces the open finding when the deviation is not admitted; and the repaired one without the fix
        jobs.append(("mc", ctx.instance("MC_B_nokf", "VacuumImpl", "SPECIFICATION Spec\nINVARIANT PostOK\nCHECK_DEADLOCK FALSE",
                                        b_const({1}, ["normal"], False, kfb=set())),
                     {"expect_violation": "PostOK", "label": "layer B, no deviation admitted: unwritable after failed commit (expected)"}))
        jobs.append(("mc", ctx.instance("MC_B_unfixed", "VacuumImpl", "SPECIFICATION Spec\nINVARIANT PostOK\nCHECK_DEADLOCK FALSE",
                                        b_const({1}, ["normal"], False, kfb={DEV_COMMIT}, fx=False)),
                     {"expect_violation": "PostOK", "label": "layer B without the fix: unwritable after failed round (expected)"}))
    if ctx.thorough:
        jobs.append(("mc", ctx.instance("MC_B_2rounds", "VacuumImpl", "SPECIFICATION FairSpec\n" + inv + "PROPERTY Termination\nCHECK_DEADLOCK FALSE",
                                        b_const({1, 2}, kinds, False, rounds=2)),
                     {"label": "layer B n<=2, Vacuum called twice on the same topology; termination under WF"}))
        jobs.append(("mc", ctx.instance("MC_B_3", "VacuumImpl", "VacuumImpl_mc.cfg", b_const({3}, ["normal", "big"], True)),
                     {"label": "layer B n=3 (writable / at size limit), timers may fire early", "timeout": 2400, "workers": 4}))
        jobs.append(("mc", ctx.instance("MC_B_3live", "VacuumImpl", "SPECIFICATION FairSpec\n" + inv + "PROPERTY Termination\nCHECK_DEADLOCK FALSE",
                                        b_const({3}, kinds, False)),
                     {"label": "layer B n=3, all pre-states, timers fire on hangs only; termination under WF"}))
    # generator: layer B with timers that fire only on a hang = the schedules of scripted runs
    gen = ctx.instance("G_B", "VacuumImpl", "SPECIFICATION Spec\n" + inv + "INVARIANT Emit\nCHECK_DEADLOCK FALSE",
                       b_const({1, 2, 3}, ["normal"], False))

    def hang_model():
        # the hanging-commit liveness counterexample (no timer around commit / cleanup): expected, advisory
        hang_inst = ctx.instance("MC_B_hang", "VacuumImpl", "VacuumImpl_live.cfg", b_const({1}, ["normal"], False, hang=True))
        hr = vf.run_tlc(hang_inst[0], hang_inst[1], os.path.join(ctx.out, "tlc"), workers=1, timeout=600, quiet=True)
        if hr.status != "violation" or "Temporal property Termination was violated" not in hr.out:
            raise vf.Infra("layer B with hanging commit RPCs: expected a liveness counterexample, got %s\n%s" % (hr.status, hr.out[-1500:]))
        ctx.mc_runs.append({"spec": "MC_B_hang", "status": "violation (expected)", "generated": hr.generated, "distinct": hr.distinct,
                            "label": "layer B, commit/cleanup RPC may never answer: the round does not terminate (no timer at topology_vacuum.go:107,133)"})

    def do(job):
        kind, inst, kw = job
        return ctx.model_check(inst, workers=kw.pop("workers", 2), **kw)

    binp = None
    with ThreadPoolExecutor(max_workers=8) as pool:
        futs = [pool.submit(do, j) for j in jobs]
        gfut = pool.submit(lambda: ctx.generate(gen, workers=2, timeout=900))
        # C14_DRIVER: mutation testing with a driver built from a scratch worktree of /repo
        bfut = pool.submit(lambda: os.environ.get("C14_DRIVER") or ctx.build("c14"))
        hists = gfut.result()
        binp = bfut.result()
        if ctx.thorough:
            hfut = pool.submit(hang_model)
        fast, slow = resets(hists, ctx.thorough)
        ctx.notes["scripts"] = {"layer_b_outcome_combinations": len(hists), "without_timeout_run_on_real_code": len(fast),
                                "with_timeout": len(slow), "with_timeout_run_on_real_code": len(slow) if ctx.thorough else 0}
        script = os.path.join(ctx.out, "script.ndjson")
        traces = []
        fast_trace = None
        if ctx.replay:
            traces.append(ctx.drive(binp, ["--script", ctx.replay, "--n", 64], timeout=600, env=denv))
        else:
            slow_fut = None
            if ctx.thorough:
                # every timeout scenario at once, each with its own master topology and scripted servers:
                # the timers are real (1 min check, 3 min compact)
                sp = os.path.join(ctx.out, "script-timeouts.ndjson")
                write_script(sp, slow + hang_scripts())
                slow_fut = pool.submit(lambda: ctx.drive(binp, ["--script", sp, "--n", len(slow) + 3], timeout=900, name="trace-timeouts", env=denv))
            rng = random.Random(ctx.seed)
            multi = multi_round(rng, hists, 1500 if ctx.thorough else 200)
            ctx.notes["scripts"]["multi_round_random"] = len(multi)
            write_script(script, fast + [line for ex in multi for line in ex])
            traces.append(ctx.drive(binp, ["--script", script, "--n", 6], timeout=600, env=denv))
            # compaction time-outs in milliseconds (overflowed compact wait), judged by the same layer A
            fsp = os.path.join(ctx.out, "script-fasttimer.ndjson")
            ft = fast_timer_scripts(6 if ctx.thorough else 3)
            ctx.notes["scripts"]["fast_compact_timer"] = len(ft)
            write_script(fsp, ft)
            fast_trace = ctx.drive(binp, ["--script", fsp, "--n", 4], timeout=600, env=denv, name="trace-fasttimer")
            traces.append(fast_trace)
            if slow_fut:
                traces.append(slow_fut.result())
        for f in futs:
            f.result()
        if ctx.thorough:
            hfut.result()

    def mutate(evs):
        """claim that the volume ended up unwritable although every commit succeeded"""
        if any(e["ev"] == "ret" and e["out"] in ("ro", "err", "hung") for e in evs):
            return None
        if not any(e["ev"] == "call" and e["op"] == "commit" for e in evs):
            return None
        pre = [e for e in evs if e["ev"] == "pre"]
        if not pre or 1 not in pre[0]["w"]:
            return None
        m = [dict(e) for e in evs]
        for e in m:
            if e["ev"] == "post":
                if 1 not in e["w"] or not e["done"]:
                    return None
                e["w"] = [v for v in e["w"] if v != 1]
        return m

    tconst = {"MaxN": 3, "Vols": {1, 2}, "Guarded": True}
    bconst = dict(b_const({1}, ["normal"], False, hang=True, kfb=set(), rounds=3), Vols={1, 2})
    total = unexplained = 0
    with ThreadPoolExecutor(max_workers=2) as pool:
        # the fast-timer executions are the schedules in which a timer may fire although replies are on their way
        dfuts = [pool.submit(drift, ctx, tp, dict(bconst, SlowReplies=True) if tp == fast_trace else bconst, "t%d" % k)
                 for k, tp in enumerate(traces)]
        for k, tp in enumerate(traces):
            ctx.judge("VacuumRoundTrace", tp, "trace_base.cfg", tconst,
                      nontrivial=lambda e: any('"op":"compact"' in x for x in e),
                      mutate=mutate if k == 0 else None, label="t%d" % k, jobs=4)
        for f in dfuts:
            t, u = f.result()
            total += t
            unexplained += u
    ctx.notes["layer_b_trace_validation"] = {"executions": total, "not_explained_by_layer_b": unexplained}
    notdone = 0
    for tp in traces:
        for e in vf.split_execs(tp):
            r = json.loads(e[0])
            if any('"done":false' in x for x in e) and not any(x.get(op) == "timeout" for x in r["s"] for op in ("commit", "cleanup")):
                notdone += 1
    ctx.notes["vacuum_not_returned_within_wait_without_scripted_commit_hang"] = notdone
    # how the real timers / transports ended the scripted hangs (information only; no verdict uses wall clock)
    hung = []
    for tp in traces:
        ep = tp[:-len(".ndjson")] + ".stderr"
        if os.path.exists(ep):
            for line in open(ep, errors="replace"):
                m = re.match(r"c14: hung (\w+) on replica \d+ ended after ([\d.]+)s \((.*)\)", line)
                if m:
                    hung.append((m.group(1), float(m.group(2)), m.group(3)))
    if hung:
        summ = {}
        for op, secs, why in hung:
            k = "%s/%s" % (op, "released at end of execution" if why == "released" else why)
            s = summ.setdefault(k, {"count": 0, "min_s": secs, "max_s": secs})
            s["count"] += 1
            s["min_s"] = min(s["min_s"], secs)
            s["max_s"] = max(s["max_s"], secs)
        ctx.notes["scripted_hangs"] = summ
    ctx.rule = ("executions = every per-replica x phase outcome combination reachable in layer B (TLC-enumerated: check "
                "hi/lo/err/timeout, compact ok/err/timeout, commit ok/read-only/err, cleanup ok/err; 1-3 replicas) x "
                "pre-states (normal, at size limit, too few copies, too many copies with/without replicationAsMin, "
                "read-only), one fresh Topology each, a bystander volume in the same layout; quick tier: the "
                "combinations without a timeout; thorough: also the timeout combinations (n<=2 all pre-states, n=3 normal "
                "and at-size-limit) with the real 1 min / 3 min timers, all in parallel, plus three never-answering "
                "commit/cleanup scripts; both tiers: compaction time-outs in milliseconds on the real code (a volume size "
                "limit for which the master's compact wait overflows to a negative duration: one or two of 1-3 replicas never "
                "answer the compaction, or all answer and race with the timer); plus seeded random executions calling Vacuum 2-3 times on one topology, each round "
                "with one of the enumerated combinations; non-trivial = a compaction was started; distinct by hash of the recorded execution")
    ctx.exhaustive = True
    ctx.assumptions += [
        "volume servers are scripted gRPC endpoints (pb.NewGrpcServer options): live content is the ghost of VacuumRound.tla "
        "driven by the observed RPCs, not data on disk",
        "data nodes join through the calls MasterServer.SendHeartbeat makes (GetOrCreateDataNode, SyncDataNodeRegistration); "
        "no heartbeat arrives during a round",
        ("timeout combinations are decided on layer B only in the quick tier (layer B is validated against every recorded "
         "execution); the thorough tier runs them on the real code with the real timers") if not ctx.thorough else
        "timeout combinations ran on the real code with the real timers (check 1 min, compact 3 min)",
        "a commit or cleanup RPC that never answers blocks Topology.Vacuum for good (no timer; layer-B liveness counterexample, "
        "observed for 12 s on the real code in the thorough tier): outside the statement as judged (nothing is required before the round returns)",
    ]
