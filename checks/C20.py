"""C20 - chunk garbage collection never deletes referenced data and collects what an operation
dereferenced (spec/FilerNS.tla, judge spec/FilerNSTrace.tla with Focus = {C20}, driver harness/cmd/c18:
real filer, gRPC only, chunk deletions observed at the filer's deletion sinks through the verif hook)."""
import random

import filerns_common as fc

MIX = ["create", "update", "write", "link", "delete", "nodata", "rename"]
WEIGHTS = {"create": 5, "update": 2, "write": 5, "link": 4, "delete": 5, "rename": 4, "lookup": 1}


def nontrivial(e):
    ev = fc.evs(e)
    return len(ev) >= 4 and any(x.get("gc") for x in ev)


def mutate(events):
    """corrupt an observation: a chunk that a live file still shows appears among the ids scheduled
    by an operation that cannot have dropped anything (lookup / list / link / a failed call)"""
    for i, e in enumerate(events):
        if e["ev"] in ("lookup", "list", "link") or (e.get("res") == "err" and e["ev"] != "rename"):
            live = sorted({c for s in e.get("snap", []) if s["kind"] == "f" for c in s["chunks"]})
            if live:
                m = [dict(x) for x in events]
                m[i]["gc"] = sorted(set(e.get("gc", [])) | {live[0]})
                return m
    return None


def run(ctx):
    ctx.sany("FilerNS", "FilerNSTrace")
    rng = random.Random(ctx.seed)
    hists = []
    depth = 4 if ctx.thorough else 3
    # the statement at design level (GcSafe, GcComplete) over every strict history modulo VIEW, and G2
    mcg = ctx.instance("MCG2_FilerNS_C20", "FilerNS", fc.cfg_text("FilerNS_c20.cfg", "VIEW ViewMC" if ctx.thorough else "VIEW ViewS", "INVARIANT EmitW"),
                       fc.consts(MIX, [1, 2], [1], depth))
    g2 = fc.mc_and_generate(ctx, mcg, timeout=2400)
    ctx.notes["g2_histories"] = len(g2)
    hists += fc.sample_pref(rng, g2, 1500 if ctx.thorough else 300, fc.link_then(("write", "create", "update", "delete", "rename")))
    # the implementation-shaped generator (Dev: every known-finding deviation, the chunk ids the unchanged code
    # schedules) must break the design invariants - the findings are violations of the statement, not noise
    dv = ctx.instance("DEV_FilerNS_C20_safe", "FilerNS", "SPECIFICATION Spec\nINVARIANT GcSafe\nCHECK_DEADLOCK FALSE",
                      fc.consts(["create", "link", "delete", "write"], [1], [1], 3, dev=True))
    ctx.model_check(dv, workers=2, expect_violation="GcSafe", label="known findings break GcSafe at design level")
    if ctx.thorough:
        dv = ctx.instance("DEV_FilerNS_C20_complete", "FilerNS", "SPECIFICATION Spec\nINVARIANT GcComplete\nCHECK_DEADLOCK FALSE",
                          fc.consts(["create", "link", "delete", "nodata"], [1], [1], 4, dev=True))
        ctx.model_check(dv, workers=4, expect_violation="GcComplete", label="known findings break GcComplete at design level")
        mc = ctx.instance("MC_FilerNS_C20", "FilerNS", fc.cfg_text("FilerNS_c20.cfg"), fc.consts(MIX, [1], [1], 3))
        ctx.model_check(mc, workers=4, timeout=1500)
        g3 = ctx.instance("G3_FilerNS_C20", "FilerNS", "SPECIFICATION Spec\nINVARIANT Emit\nCHECK_DEADLOCK FALSE",
                          fc.consts(MIX + ["mkdir"], [1, 2, 3, 4], [1, 2], 10, links=3))
        hists += ctx.generate(g3, simulate=200, depth=11)
    hists = [fc.observers(rng, fc.PATHS, [fc.norm_op(op, rng) for op in h], 0.1) for h in hists]
    # G4: seeded random input scripts with hard links, overwrites keeping some chunks, renames
    hists += fc.random_scripts(rng, 400 if ctx.thorough else 70, 12, WEIGHTS)
    hists += fc.revert_scripts(rng, 150 if ctx.thorough else 20)
    hists += fc.linked_subtree_scripts(rng, 48 if ctx.thorough else 16)
    hists = fc.finding_scripts("C20") + hists
    fc.drive_and_judge(ctx, hists, nontrivial, mutate, ["C20"])
    ctx.rule = ("executions = one TLC witness history per (namespace state incl. link records and scheduled chunks, last "
                "operation) to depth %d over 5 paths x 2 chunk ids x 2 link ids (sampled in the quick tier; thorough adds "
                "random walks of length 10 over 4 chunk ids) + seeded random input scripts of length 12 with hard links and "
                "overwrites that keep some chunks; after every gRPC call the driver records the chunk ids the filer "
                "handed to its deletion queue / deleted directly during the call, the subtree and the link records; "
                "non-trivial = >= 3 operations and at least one call that scheduled chunks" % depth)
    ctx.exhaustive = True
    ctx.assumptions += [
        "a chunk id belongs to one file identity (a plain entry or one hard link); chunk ids that a client gives to two "
        "identities, or re-uses after they were scheduled, are exempt from judgement (the filer has no reference counts "
        "by design); sharing between names of one hard link and between the old and new version of an entry is judged",
        "data deletion is considered requested by DeleteEntry(is_delete_data=true) and by overwriting an entry "
        "(CreateEntry / UpdateEntry); a rename may or may not collect what it overwrites but never a referenced chunk",
        "chunk deletions are observed where file ids enter the deletion queue or are deleted directly "
        "(weed/filer/filer_deletion.go, hook verifChunkDeleteObserver); manifest chunks are not exercised",
        "outcomes that deviate only in hard-link counters (C21 findings) are followed without being counted here",
    ]
