"""C33 - client-side compression and encryption are transparent and robust
(Transparent.tla: statement + decision table of the pipeline, judge TransparentTrace.tla, driver c33)."""
import json
import os
import random

EXTS = ["none", "txt", "jpg", "gz", "dottxt", "json", "weird", "path"]
MIMES = ["none", "text", "image", "json", "octet", "xml", "gzip"]
SIZES = ["s0", "s1", "s100", "s16k", "s16k1", "s70k", "s300k"]
KINDS = ["text", "rand", "gzprefix", "gzhdr", "zeros", "html"]
VIAS = ["stream", "readurl", "streamcontent", "readerat", "get"]
RANGES = ["full", "all", "head1", "tail1", "mid", "half2", "cross64k", "inner"]
# what the S3 copy handlers, the replication source and `weed download` fetch with
VIAS2 = ["rcloser", "download", "head"]
FULL_ONLY = ("get", "download", "head")
RAW_EXTS = ["none", "txt", "jpg", "weird"]
RAW_MIMES = ["none", "text", "octet", "form", "jpeg"]
RAW_SIZES = ["s0", "s1", "s100", "s70k", "s1m", "s1m1", "s1m2"]
RAW_KINDS = ["text", "rand", "gzhdr", "zeros"]
MD5S = ["none", "right", "wrong", "wire"]
NAMEATS = ["none", "part", "url", "second"]
HUGE = ("s1m", "s1m1", "s1m2")
# quick tier: which (method, gzipped kind or False, digest) combinations are sent with a body over the server's limit
HUGE_QUICK = {("Put", False, "none"), ("Multipart", False, "none"), ("Put", "rand", "none"), ("Put", "text", "none"),
              ("Multipart", "text", "right"), ("Put", False, "wrong"), ("Put", "gzhdr", "none"),
              ("Multipart", "rand", "none")}


def F(via, r):
    return {"ev": "fetch", "id": 1, "via": via, "rng": r}


def fetch_plan(rng, thorough):
    """the 33 fetches of the chunk download path + the copy / download paths (quick: a seeded part of the latter)"""
    plan = [F(v, r) for v in VIAS for r in RANGES if not (v in FULL_ONLY and r != "full")]
    more = [F("rcloser", r) for r in RANGES if r != "full"]
    if not thorough:
        more = rng.sample(more, 2)
    return plan + [F("rcloser", "full")] + more + [F("download", "full"), F("head", "full")]


def raw_fetch_plan(rng, thorough, size):
    """fetches behind a raw HTTP upload: every new path, a seeded part of the old ones"""
    if size in HUGE:
        return [F("stream", "full"), F("readurl", "tail1"), F("rcloser", "full"), F("rcloser", "tail1"),
                F("download", "full"), F("head", "full")]
    old = [F(v, r) for v in VIAS for r in RANGES if not (v in FULL_ONLY and r != "full")]
    new = [F("rcloser", r) for r in RANGES] + [F("download", "full"), F("head", "full")]
    if not thorough:
        old = rng.sample(old, 8)
        new = new[:1] + rng.sample(new[1:8], 4) + new[8:]
    return new + old


def decomp_execs(rng, thorough):
    """structured corruptions of valid gzip streams + seeded random bytes through the decompression helpers"""
    evs = []
    head = list(range(0, 48))
    body = list(range(48, 780, 3 if thorough else 17))
    tail = list(range(-24, 0))
    for base in ("text", "rand", "zeros"):
        for enc in ("util", "std"):
            for fn in ("DecompressData", "MaybeDecompressData"):
                evs.append(dict(fn=fn, base=base, enc=enc, case="valid", i=0))
                for case in ("trunc", "flip", "bit"):
                    for i in head + body + tail:
                        if case == "bit" and not thorough and i % 2:
                            continue
                        evs.append(dict(fn=fn, base=base, enc=enc, case=case, i=i))
                for i in range(0, 256, 1 if thorough else 5):
                    evs.append(dict(fn=fn, base=base, enc=enc, case="method", i=i))
                    evs.append(dict(fn=fn, base=base, enc=enc, case="flags", i=i))
                for i in range(0, 60 if thorough else 12):
                    evs.append(dict(fn=fn, base=base, enc=enc, case="trail", i=i))
                    evs.append(dict(fn=fn, base=base, enc=enc, case="magiconly", i=i))
                    evs.append(dict(fn=fn, base=base, enc=enc, case="zstd", i=i * 7 + 1))
                evs.append(dict(fn=fn, base=base, enc=enc, case="twice", i=0))
    for k in range(3000 if thorough else 400):
        i = rng.randrange(0, 100000)
        for fn in ("DecompressData", "MaybeDecompressData", "RoundTrip", "MaybeRoundTrip"):
            evs.append(dict(fn=fn, base="text", enc="std", case="random", i=i))
    for base in ("text", "rand", "zeros", "gzprefix", "gzhdr", "html"):
        for fn in ("RoundTrip", "MaybeRoundTrip"):
            for case, i in (("valid", 0), ("trunc", 5), ("trunc", 2), ("trunc", 0), ("magiconly", 0), ("magiconly", 1),
                            ("twice", 0)):
                evs.append(dict(fn=fn, base=base, enc="std", case=case, i=i))
    execs = []
    for j in range(0, len(evs), 30):
        execs.append([dict(ev="decomp", **e) for e in evs[j:j + 30]])
    return execs


def store_execs(rng, thorough):
    """gzip streams stored flagged as compressed (valid / corrupted), fetched through every path"""
    cases = [("valid", 0)] + [("trunc", i) for i in (0, 1, 2, 3, 9, 10, 11, 40, -8, -1)] + \
        [("flip", i) for i in (2, 3, 10, 20, -8, -1)] + [("method", i) for i in (0, 7, 9)] + \
        [("flags", i) for i in (0xff, 0x02, 0x04, 0x08, 0x10, 0xe0)] + [("trail", i) for i in (0, 1, 2, 3)] + \
        [("twice", 0)] + [("magiconly", i) for i in (0, 1, 8, 20)] + [("random", i) for i in (0, 2, 4, 6, 8, 12, 16)]
    if thorough:
        cases += [("trunc", i) for i in range(12, 200, 9)] + [("flip", i) for i in range(4, 200, 7)] + \
                 [("random", rng.randrange(0, 10000) * 4) for _ in range(60)]
    execs = []
    for case, i in cases:
        ops = [{"ev": "store", "id": 1, "case": case, "i": i}]
        ops += [{"ev": "fetch", "id": 1, "via": v, "rng": r} for v in VIAS + VIAS2 for r in ("full", "mid", "head1")
                if not (v in FULL_ONLY and r != "full")]
        execs.append(ops)
    return execs


def nontrivial(lines):
    up = any(('"ev":"upload"' in s or '"ev":"store"' in s) and '"res":"ok"' in s for s in lines) or \
        any('"ev":"put"' in s and '"status":201' in s for s in lines)
    fe = sum(1 for s in lines if '"ev":"fetch"' in s and '"res":"ok"' in s)
    de = any('"ev":"decomp"' in s and '"case":"valid"' not in s for s in lines)
    # a request with a digest that does not fit, and fetches that were attempted behind it
    void = any('"ev":"put"' in s and '"md5":"wrong"' in s for s in lines) and \
        sum(1 for s in lines if '"ev":"fetch"' in s and '"applicable":true' in s) >= 2
    return (up and fe >= 2) or de or void


def mutate(evs):
    """binding self-test: a fetched segment is shifted by one byte in the record"""
    for i, e in enumerate(evs):
        if e["ev"] == "fetch" and e.get("res") == "ok" and e.get("applicable") and e["seg"]["len"] >= 2 \
                and e["seg"]["src"] == "d" and e["via"] != "head":
            m = json.loads(json.dumps(evs))
            m[i]["seg"]["off"] += 1
            return m
    return None


def run(ctx):
    ctx.sany("Transparent", "TransparentTrace")
    th = ctx.thorough
    rng = random.Random(ctx.seed)
    # 1. decision table: TLC enumerates every row of (name class, mime class, size class, content kind, cipher,
    #    declared-compressed, upload function) and checks that the modelled pipeline is the identity for it
    fns = {"UploadData", "Upload", "Put", "Multipart"}
    if th:
        table = {"Exts": set(EXTS), "Mimes": set(MIMES), "Sizes": set(SIZES), "Kinds": set(KINDS), "Fns": fns,
                 "RawExts": set(RAW_EXTS), "RawMimes": set(RAW_MIMES), "RawSizes": set(RAW_SIZES),
                 "RawKinds": set(RAW_KINDS), "Md5s": set(MD5S), "NameAts": set(NAMEATS)}
    else:
        table = {"Exts": {"none", "txt", "dottxt", "jpg", "weird"}, "Mimes": {"none", "text", "image", "octet"},
                 "Sizes": {"s0", "s1", "s100", "s16k1", "s70k"}, "Kinds": {"text", "rand", "gzprefix", "gzhdr", "zeros"},
                 "Fns": fns,
                 "RawExts": {"none", "txt", "weird"}, "RawMimes": {"none", "form"},
                 "RawSizes": {"s0", "s100", "s70k", "s1m2"}, "RawKinds": {"text", "rand", "gzhdr"},
                 "Md5s": set(MD5S), "NameAts": set(NAMEATS)}
    inst = ctx.instance("MC_C33_table", "Transparent", "Transparent_mc.cfg", table)
    allrows = [h[0] for h in ctx.generate(inst, workers=4, timeout=1200)]
    rows = [r for r in allrows if r["fn"] in ("UploadData", "Upload")]
    rawrows = [r for r in allrows if r["fn"] in ("Put", "Multipart")]
    ctx.notes["decision_table_rows"] = len(rows)
    ctx.notes["raw_request_rows"] = len(rawrows)
    if not rows or not rawrows:
        import vf
        raise vf.Infra("the decision table is empty")
    want = 3500 if th else 260
    # every (size, kind, cipher, gzin) combination at least once, the rest a seeded sample
    rng.shuffle(rows)
    seen, picked, rest = set(), [], []
    for r in rows:
        key = (r["size"], r["kind"], r["cipher"], r["gzin"])
        if key not in seen:
            seen.add(key)
            picked.append(r)
        else:
            rest.append(r)
    picked += rest[:max(0, want - len(picked))]
    execs = []
    for r in picked:
        # "mm": a declared-compressed input is handed over as a gzip file of several members (cat a.gz b.gz, pigz,
        # rotated logs): just another valid gzip encoding of the same bytes
        ops = [dict(ev="upload", id=1, mm=bool(r["gzin"]) and rng.random() < 0.5, **r)]
        ops += fetch_plan(rng, th)
        execs.append(ops)
    # raw HTTP requests: every (method, place of the name, gzipped?, digest), (size, kind, gzipped?) and (method, mime,
    # kind, gzipped?, digest that lets the request through?) combination at least once, the rest a seeded sample;
    # bodies around the server's upload limit are few (1 MiB per fetch)
    rawrows.sort(key=lambda r: json.dumps(r, sort_keys=True))
    rng.shuffle(rawrows)
    seen, rpicked, rest = set(), [], []
    for r in rawrows:
        keys = {("a", r["fn"], r["nameat"], r["gzin"], r["md5"]), ("b", r["size"], r["kind"], r["gzin"]),
                ("c", r["fn"], r["mime"], r["kind"], r["gzin"], r["md5"] in ("none", "wire")),
                ("d", r["fn"], r["size"], r["gzin"], r["md5"] == "wrong")}
        if r["size"] in HUGE:
            hk = ("h", r["fn"], r["size"], r["gzin"] and r["kind"], r["md5"])
            if hk not in seen and r["mime"] == "none" and (th or hk[1:2] + hk[3:] in HUGE_QUICK):
                seen |= keys | {hk}
                rpicked.append(r)
            continue
        if keys - seen:
            seen |= keys
            rpicked.append(r)
        else:
            rest.append(r)
    rwant = 600 if th else 110
    rpicked += rest[:max(0, rwant - len(rpicked))]
    ctx.notes["raw_request_executions"] = len(rpicked)
    for r in rpicked:
        execs.append([dict(ev="put", id=1, **r)] + raw_fetch_plan(rng, th, r["size"]))
    execs += store_execs(rng, th)
    execs += decomp_execs(rng, th)
    script = os.path.join(ctx.out, "script.ndjson")
    if ctx.replay:
        script = ctx.replay
    else:
        with open(script, "w") as f:
            for ops in execs:
                f.write(json.dumps({"ev": "reset"}) + "\n")
                for op in ops:
                    f.write(json.dumps(op) + "\n")
    binp = ctx.build("c33")
    trace = ctx.drive(binp, ["--script", script])
    small = {"Exts": {"none"}, "Mimes": {"none"}, "Sizes": {"s0"}, "Kinds": {"text"}, "Fns": {"UploadData"},
             "RawExts": {"none"}, "RawMimes": {"none"}, "RawSizes": {"s0"}, "RawKinds": {"text"}, "Md5s": {"none"},
             "NameAts": {"none"}, "Advisory": False}
    ctx.judge("TransparentTrace", trace, "trace_base.cfg", small, nontrivial=nontrivial, mutate=mutate,
              chunk_events=20000 if th else 2500)
    # advisory: does the decision table predict what doUploadData reported (compressed? encrypted? clear size)
    ups = os.path.join(ctx.out, "uploads.ndjson")
    with open(trace) as f, open(ups, "w") as g:
        for line in f:
            if '"ev":"reset"' in line or '"ev":"upload"' in line or '"ev":"put"' in line:
                g.write(line)
    ctx.judge_advisory("TransparentTrace", ups, "trace_base.cfg", dict(small, Advisory=True))
    ctx.rule = ("executions = one per decision-table row enumerated by TLC (name class x mime class x size class incl. 0, 1, "
                "16 KiB, 16 KiB+1, 70 000, 300 000 x content kind text/random/gzip-magic prefix/valid gzip header with "
                "garbage/zeros/html x cipher x declared-compressed x UploadData|Upload; quick: every (size, kind, cipher, "
                "declared-compressed) combination plus a seeded sample): upload through the real client function to a real "
                "volume server, then 33 fetches (ReadUrlAsStream, ReadUrl, StreamContent, ChunkReadAt x full + 7 ranges, "
                "util.Get full) + ReadUrlAsReaderCloser (no range, a-b, suffix, open range; quick: full + 2 ranges), "
                "LookupFileId + DownloadFile, Head; + one per picked raw-request row (Put|Multipart x place of the name x "
                "name class x mime class incl. form-urlencoded x size incl. upload limit +1 / +2 x kind x gzipped x "
                "Content-MD5 none/right/wrong/of the body as sent; every (method, place, gzipped, digest), (size, kind, "
                "gzipped) and (method, mime, kind, gzipped, digest passes) combination plus a seeded sample; few bodies around the 1 MiB limit): a "
                "real HTTP request to the volume server, then the new fetch paths and (quick: 8 of) the 33 old ones, "
                "attempted whatever the server answered; + gzip streams (valid / truncated / flipped / bad method / flags / "
                "trailing garbage / random) stored as compressed needles and fetched through every path; + DecompressData / "
                "MaybeDecompressData / GzipData / MaybeGzipData on the same corruptions at (thorough: every third) position "
                "and on seeded random bytes; non-trivial = a successful upload with >= 2 successful fetches, a request "
                "with a digest that does not fit followed by >= 2 attempted fetches, or decompression of a corrupted stream")
    ctx.exhaustive = th
    ctx.assumptions += [
        "byte identity (which segment of the original data came back) is decided by the driver with bytes.Equal; "
        "everything else by the specification",
        "one in-process volume server (upload limit 1 MiB) behind the kit's stand-in master; the filer chunk paths are "
        "driven through filer.StreamContent and filer.ChunkReadAt with a lookup function that returns that server",
        "raw requests: nothing is required when the server refuses for another reason than a Content-MD5 that does not "
        "fit, of the digest of a gzipped body as sent, of file names that need quoting and of the name of an empty file",
        "input declared compressed that is not a gzip stream, and stored chunks that are not gzip streams although "
        "flagged so, are only required not to crash the process",
    ]
