"""C33 - client-side compression and encryption are transparent and robust
(Transparent.tla: statement + decision table of the pipeline, judge TransparentTrace.tla, driver c33)."""
import json
import os
import random

EXTS = ["none", "txt", "jpg", "gz", "dottxt", "json", "weird", "path"]
MIMES = ["none", "text", "image", "json", "octet", "xml", "gzip"]
SIZES = ["s0", "s1", "s100", "s16k", "s16k1", "s70k", "s300k"]
KINDS = ["text", "rand", "gzprefix", "gzhdr", "zeros", "html"]
VIAS = ["stream", "readurl", "streamcontent", "readerat", "get"]
RANGES = ["full", "all", "head1", "tail1", "mid", "half2", "cross64k", "inner"]


def fetch_plan(rng, n=None):
    plan = [{"ev": "fetch", "id": 1, "via": v, "rng": r} for v in VIAS for r in RANGES
            if not (v == "get" and r != "full")]
    if n:
        plan = rng.sample(plan, n)
    return plan


def decomp_execs(rng, thorough):
    """structured corruptions of valid gzip streams + seeded random bytes through the decompression helpers"""
    evs = []
    head = list(range(0, 48))
    body = list(range(48, 780, 3 if thorough else 17))
    tail = list(range(-24, 0))
    for base in ("text", "rand", "zeros"):
        for enc in ("util", "std"):
            for fn in ("DecompressData", "MaybeDecompressData"):
                evs.append(dict(fn=fn, base=base, enc=enc, case="valid", i=0))
                for case in ("trunc", "flip", "bit"):
                    for i in head + body + tail:
                        if case == "bit" and not thorough and i % 2:
                            continue
                        evs.append(dict(fn=fn, base=base, enc=enc, case=case, i=i))
                for i in range(0, 256, 1 if thorough else 5):
                    evs.append(dict(fn=fn, base=base, enc=enc, case="method", i=i))
                    evs.append(dict(fn=fn, base=base, enc=enc, case="flags", i=i))
                for i in range(0, 60 if thorough else 12):
                    evs.append(dict(fn=fn, base=base, enc=enc, case="trail", i=i))
                    evs.append(dict(fn=fn, base=base, enc=enc, case="magiconly", i=i))
                    evs.append(dict(fn=fn, base=base, enc=enc, case="zstd", i=i * 7 + 1))
                evs.append(dict(fn=fn, base=base, enc=enc, case="twice", i=0))
    for k in range(3000 if thorough else 400):
        i = rng.randrange(0, 100000)
        for fn in ("DecompressData", "MaybeDecompressData", "RoundTrip", "MaybeRoundTrip"):
            evs.append(dict(fn=fn, base="text", enc="std", case="random", i=i))
    for base in ("text", "rand", "zeros", "gzprefix", "gzhdr", "html"):
        for fn in ("RoundTrip", "MaybeRoundTrip"):
            for case, i in (("valid", 0), ("trunc", 5), ("trunc", 2), ("trunc", 0), ("magiconly", 0), ("magiconly", 1),
                            ("twice", 0)):
                evs.append(dict(fn=fn, base=base, enc="std", case=case, i=i))
    execs = []
    for j in range(0, len(evs), 30):
        execs.append([dict(ev="decomp", **e) for e in evs[j:j + 30]])
    return execs


def store_execs(rng, thorough):
    """gzip streams stored flagged as compressed (valid / corrupted), fetched through every path"""
    cases = [("valid", 0)] + [("trunc", i) for i in (0, 1, 2, 3, 9, 10, 11, 40, -8, -1)] + \
        [("flip", i) for i in (2, 3, 10, 20, -8, -1)] + [("method", i) for i in (0, 7, 9)] + \
        [("flags", i) for i in (0xff, 0x02, 0x04, 0x08, 0x10, 0xe0)] + [("trail", i) for i in (0, 1, 2, 3)] + \
        [("twice", 0)] + [("magiconly", i) for i in (0, 1, 8, 20)] + [("random", i) for i in (0, 2, 4, 6, 8, 12, 16)]
    if thorough:
        cases += [("trunc", i) for i in range(12, 200, 9)] + [("flip", i) for i in range(4, 200, 7)] + \
                 [("random", rng.randrange(0, 10000) * 4) for _ in range(60)]
    execs = []
    for case, i in cases:
        ops = [{"ev": "store", "id": 1, "case": case, "i": i}]
        ops += [{"ev": "fetch", "id": 1, "via": v, "rng": r} for v in VIAS for r in ("full", "mid", "head1")
                if not (v == "get" and r != "full")]
        execs.append(ops)
    return execs


def nontrivial(lines):
    up = any(('"ev":"upload"' in s or '"ev":"store"' in s) and '"res":"ok"' in s for s in lines)
    fe = sum(1 for s in lines if '"ev":"fetch"' in s and '"res":"ok"' in s)
    de = any('"ev":"decomp"' in s and '"case":"valid"' not in s for s in lines)
    return (up and fe >= 2) or de


def mutate(evs):
    """binding self-test: a fetched segment is shifted by one byte in the record"""
    for i, e in enumerate(evs):
        if e["ev"] == "fetch" and e.get("res") == "ok" and e.get("applicable") and e["seg"]["len"] >= 2 \
                and e["seg"]["src"] == "d":
            m = json.loads(json.dumps(evs))
            m[i]["seg"]["off"] += 1
            return m
    return None


def run(ctx):
    ctx.sany("Transparent", "TransparentTrace")
    th = ctx.thorough
    rng = random.Random(ctx.seed)
    # 1. decision table: TLC enumerates every row of (name class, mime class, size class, content kind, cipher,
    #    declared-compressed, upload function) and checks that the modelled pipeline is the identity for it
    if th:
        table = {"Exts": set(EXTS), "Mimes": set(MIMES), "Sizes": set(SIZES), "Kinds": set(KINDS),
                 "Fns": {"UploadData", "Upload"}}
    else:
        table = {"Exts": {"none", "txt", "dottxt", "jpg", "weird"}, "Mimes": {"none", "text", "image", "octet"},
                 "Sizes": {"s0", "s1", "s100", "s16k1", "s70k"}, "Kinds": {"text", "rand", "gzprefix", "gzhdr", "zeros"},
                 "Fns": {"UploadData", "Upload"}}
    inst = ctx.instance("MC_C33_table", "Transparent", "Transparent_mc.cfg", table)
    rows = [h[0] for h in ctx.generate(inst, workers=4, timeout=1200)]
    ctx.notes["decision_table_rows"] = len(rows)
    if not rows:
        import vf
        raise vf.Infra("the decision table is empty")
    want = 3500 if th else 260
    # every (size, kind, cipher, gzin) combination at least once, the rest a seeded sample
    rng.shuffle(rows)
    seen, picked, rest = set(), [], []
    for r in rows:
        key = (r["size"], r["kind"], r["cipher"], r["gzin"])
        if key not in seen:
            seen.add(key)
            picked.append(r)
        else:
            rest.append(r)
    picked += rest[:max(0, want - len(picked))]
    execs = []
    for r in picked:
        ops = [dict(ev="upload", id=1, **r)]
        ops += fetch_plan(rng)
        execs.append(ops)
    execs += store_execs(rng, th)
    execs += decomp_execs(rng, th)
    script = os.path.join(ctx.out, "script.ndjson")
    if ctx.replay:
        script = ctx.replay
    else:
        with open(script, "w") as f:
            for ops in execs:
                f.write(json.dumps({"ev": "reset"}) + "\n")
                for op in ops:
                    f.write(json.dumps(op) + "\n")
    binp = ctx.build("c33")
    trace = ctx.drive(binp, ["--script", script])
    small = {"Exts": {"none"}, "Mimes": {"none"}, "Sizes": {"s0"}, "Kinds": {"text"}, "Fns": {"UploadData"}, "Advisory": False}
    ctx.judge("TransparentTrace", trace, "trace_base.cfg", small, nontrivial=nontrivial, mutate=mutate,
              chunk_events=20000 if th else 2500)
    # advisory: does the decision table predict what doUploadData reported (compressed? encrypted? clear size)
    ups = os.path.join(ctx.out, "uploads.ndjson")
    with open(trace) as f, open(ups, "w") as g:
        for line in f:
            if '"ev":"reset"' in line or '"ev":"upload"' in line:
                g.write(line)
    ctx.judge_advisory("TransparentTrace", ups, "trace_base.cfg", dict(small, Advisory=True))
    ctx.rule = ("executions = one per decision-table row enumerated by TLC (name class x mime class x size class incl. 0, 1, "
                "16 KiB, 16 KiB+1, 70 000, 300 000 x content kind text/random/gzip-magic prefix/valid gzip header with "
                "garbage/zeros/html x cipher x declared-compressed x UploadData|Upload; quick: every (size, kind, cipher, "
                "declared-compressed) combination plus a seeded sample): upload through the real client function to a real "
                "volume server, then 33 fetches (ReadUrlAsStream, ReadUrl, StreamContent, ChunkReadAt x full + 7 ranges, "
                "util.Get full); + gzip streams (valid / truncated / flipped / bad method / flags / trailing garbage / "
                "random) stored as compressed needles and fetched through every path; + DecompressData / "
                "MaybeDecompressData / GzipData / MaybeGzipData on the same corruptions at (thorough: every third) position "
                "and on seeded random bytes; non-trivial = a successful upload with >= 2 successful fetches, or "
                "decompression of a corrupted stream")
    ctx.exhaustive = th
    ctx.assumptions += [
        "byte identity (which segment of the original data came back) is decided by the driver with bytes.Equal; "
        "everything else by the specification",
        "one in-process volume server behind the kit's stand-in master; the filer chunk paths are driven through "
        "filer.StreamContent and filer.ChunkReadAt with a lookup function that returns that server",
        "input declared compressed that is not a gzip stream, and stored chunks that are not gzip streams although "
        "flagged so, are only required not to crash the process",
    ]
