"""C19 - directory listings are exact, ordered and paginate completely (Listing.tla).

Inputs are enumerated here (python generates inputs only); harness/cmd/c19 executes them on
the real stores / FilerStoreWrapper / Filer; TLC judges every recorded listing against
Listing.tla (ListingTrace.tla)."""
import itertools
import json
import os
import random

U6 = ["a", "ab", "abc", "b", "ba", "c"]
U7 = U6 + ["bb"]
PREFIXES = ["", "a", "ab", "b", "c"]
PATTERNS = ["", "a*", "?b", "*c", "a?c"]
EXCLS = ["", "a*"]
# deepening (thorough and a small share of quick): more pattern shapes, incl. the two shapes
# behind the known findings (no wildcard at all; `?` in front of the first `*`)
PATTERNS_X = ["*", "a*c", "??", "?", "*b*", "ab*", "b?", "ab", "c", "?b*", "a?*", "??*"]
EXCLS_X = ["*b", "?", "ab", "*"]


def B(s):
    return list(s.encode())


def subsets(u):
    for k in range(len(u) + 1):
        for c in itertools.combinations(u, k):
            yield list(c)


def reset(store, via, names, expired=(), fresh=(), deep=False, base="/t", slash=False):
    return {"ev": "reset", "store": store, "via": via, "names": [B(n) for n in names],
            "expired": [B(n) for n in expired], "fresh": [B(n) for n in fresh], "deep": deep, "base": base,
            "slash": slash}


def req(ev, api, start, incl, limit, prefix, pattern="", excl="", mode=None):
    d = {"ev": ev, "api": api, "start": B(start), "incl": incl, "limit": limit, "prefix": B(prefix),
         "pattern": B(pattern), "excl": B(excl)}
    if mode:
        d["mode"] = mode
    return d


def store_requests(universe):
    """every (api, start, inclusive, limit, prefix) of the store interface"""
    starts = universe + ["", "aa", "bb"] if "bb" not in universe else universe + ["", "aa"]
    out = []
    for start in starts:
        for incl in (False, True):
            for limit in range(0, 5):
                for prefix in PREFIXES:
                    out.append(("prefixed", start, incl, limit, prefix, "", ""))
                out.append(("plain", start, incl, limit, "", "", ""))
    return out


def filer_requests(universe, patterns, excls, silent_share, rng):
    starts = universe + ["", "aa", "bb"] if "bb" not in universe else universe + ["", "aa"]
    out = []
    for start in starts:
        for incl in (False, True):
            for limit in range(0, 5):
                for prefix in PREFIXES:
                    for pattern in patterns:
                        if prefix and pattern and rng.random() >= silent_share:
                            continue  # prefix and pattern together: the statement is silent (see Listing.tla)
                        for excl in excls:
                            out.append((start, incl, limit, prefix, pattern, excl))
    return out


def walks_for(via, rng, patterns, excls, n):
    out = []
    for _ in range(n):
        limit = rng.choice([1, 1, 2, 2, 3, 4])
        start = rng.choice(["", "", "", "a", "aa", "ab", "b", "bb"])
        incl = rng.random() < 0.3
        if via == "filer":
            api = rng.choice(["stream", "page"])
            mode = rng.choice(["emitted", "returned"]) if api == "stream" else rng.choice(["emitted", "more"])
            if rng.random() < 0.5:
                prefix, pattern = rng.choice(PREFIXES), ""
            else:
                prefix, pattern = "", rng.choice(patterns)
            excl = rng.choice(excls) if rng.random() < 0.4 else ""
        else:
            api = rng.choice(["prefixed", "prefixed", "prefixed", "plain"])
            mode = rng.choice(["emitted", "returned"])
            prefix, pattern, excl = rng.choice(PREFIXES), "", ""
        out.append(req("walk", api, start, incl, limit, prefix, pattern, excl, mode))
    return out


def chunks(seq, n):
    for i in range(0, len(seq), n):
        yield seq[i:i + n]


def build_script(ctx, rng):
    thorough = ctx.thorough
    execs = []
    allsets = list(subsets(U6))
    # ---- store interface: the three leveldb stores directly, and everything through the wrapper
    cfgs = [("leveldb", "direct"), ("leveldb2", "direct"), ("leveldb3", "direct"),
            ("leveldb", "wrapper"), ("leveldb2", "wrapper"), ("leveldb3", "wrapper"), ("mem", "wrapper")]
    sreqs = store_requests(U6)
    share = 1.0 if thorough else 0.08
    for store, via in cfgs:
        # the wrapper over a store with native prefix listing only passes the call on: a quarter
        w = 0.25 if (via == "wrapper" and store != "mem") else 1.0
        for names in allsets:
            picked = [r for r in sreqs if rng.random() < share * w]
            for ch in chunks(picked, 36):
                base = "/buckets/bk%d" % rng.randrange(2) if (store == "leveldb3" and rng.random() < 0.4) else "/t"
                ex = [reset(store, via, names, deep=rng.random() < 0.3, base=base)]
                ex += [req("list", api, st, inc, lim, pre) for (api, st, inc, lim, pre, _, _) in ch]
                if names:
                    ex += walks_for(via, rng, [], [], 3 if thorough else 1)
                execs.append(ex)
    # ---- the filer: patterns, exclusion, TTL expiry, hasMore
    freqs = filer_requests(U6, PATTERNS, EXCLS, 0.03, rng)
    fshare = 1.0 if thorough else 0.06
    fcfgs = [("mem", 1.0), ("leveldb", 0.3), ("leveldb2", 0.05), ("leveldb3", 0.05)]
    for store, w in fcfgs:
        for names in allsets:
            # without expired names: long executions
            picked = [r for r in freqs if rng.random() < fshare * w]
            for ch in chunks(picked, 36):
                ex = [reset(store, "filer", names, fresh=[n for n in names if rng.random() < 0.3],
                            deep=rng.random() < 0.2, slash=rng.random() < 0.25)]
                for i, (st, inc, lim, pre, pat, exc) in enumerate(ch):
                    ex.append(req("list", "stream" if (i + len(names)) % 2 else "page", st, inc, lim, pre, pat, exc))
                if names:
                    ex += walks_for("filer", rng, PATTERNS[1:], EXCLS, 3 if thorough else 1)
                execs.append(ex)
            # with expired names: the first listing that scans an expired entry also removes it, so
            # these executions are short and numerous
            if not names:
                continue
            nexp = (40 if thorough else 2) * w
            k = int(nexp) + (1 if rng.random() < nexp - int(nexp) else 0)
            for _ in range(k):
                expired = [n for n in names if rng.random() < 0.45] or [rng.choice(names)]
                fresh = [n for n in names if n not in expired and rng.random() < 0.3]
                ex = [reset(store, "filer", names, expired, fresh)]
                for (st, inc, lim, pre, pat, exc) in rng.sample(freqs, 2):
                    ex.append(req("list", rng.choice(["stream", "page"]), st, inc, lim, pre, pat, exc))
                ex += walks_for("filer", rng, PATTERNS[1:], EXCLS, 1)
                execs.append(ex)
    # ---- deepening: 7-name universe (three names behind a foreign one share a prefix), more
    # pattern shapes; seeded random, every configuration
    n_deep = 3000 if thorough else 250
    pats = PATTERNS[1:] + PATTERNS_X
    excls = EXCLS + EXCLS_X
    starts7 = U7 + ["", "aa", "0", "zz", "B", "a-"]
    for i in range(n_deep):
        # a third of these directories also hold names whose byte order differs from "alphabetical"
        pool = U7 + (["B", "a-", "a~", "_"] if i % 3 == 0 else [])
        names = [n for n in pool if rng.random() < 0.6]
        if not names:
            continue
        store, via = rng.choice(cfgs + [("mem", "filer"), ("leveldb", "filer"), ("leveldb2", "filer"),
                                        ("leveldb3", "filer"), ("mem", "wrapper"), ("mem", "filer")])
        expired = [n for n in names if rng.random() < 0.25] if via == "filer" and rng.random() < 0.5 else []
        base = "/buckets/bk%d" % rng.randrange(2) if (store == "leveldb3" and rng.random() < 0.4) else "/t"
        ex = [reset(store, via, names, expired, [], deep=rng.random() < 0.3, base=base, slash=rng.random() < 0.25)]
        for _ in range(3 if expired else 10):
            st, inc, lim = rng.choice(starts7), rng.random() < 0.4, rng.choice([0, 1, 1, 2, 2, 3, 4, 7])
            if via == "filer":
                if rng.random() < 0.5:
                    pre, pat = rng.choice(PREFIXES + ["bb", "ba"]), ""
                else:
                    pre, pat = "", rng.choice(pats)
                exc = rng.choice(excls) if rng.random() < 0.4 else ""
                ex.append(req("list", rng.choice(["stream", "page"]), st, inc, lim, pre, pat, exc))
            else:
                ex.append(req("list", rng.choice(["prefixed", "prefixed", "plain"]), st, inc, lim,
                              rng.choice(PREFIXES + ["bb", "ba"])))
        ex += walks_for(via, rng, pats, excls, 2)
        execs.append(ex)
    rng.shuffle(execs)
    return execs


def _expect_any(ctx, inst, bug):
    """the S26 switch breaks both refinement invariants; whichever TLC reports first is fine"""
    import vf
    r = vf.run_tlc(inst[0], inst[1], os.path.join(ctx.out, "tlc"), workers=4, timeout=900)
    ctx.mc_runs.append({"spec": "ListingImpl", "cfg": os.path.basename(inst[1]), "status": r.status,
                        "generated": r.generated, "distinct": r.distinct, "wall_s": round(r.wall, 1),
                        "label": "defect %s switched back on: TLC must find it" % bug})
    if r.status != "violation" or r.violated not in ("ImplRefines", "StoreRefines"):
        raise vf.Infra("layer B with %s: expected a refinement violation, got %s %s" % (bug, r.status, r.violated))


def run(ctx):
    ctx.sany("Listing", "ListingTrace")
    T = lambda s: tuple(s.encode())
    # 1. the specification itself, at design level: List is the declarative reading of the
    #    statement; paginating by last name / by any admissible cursor is complete and duplicate free
    uni = ["a", "ab", "abc", "b", "ba"] if ctx.thorough else ["a", "ab", "b"]
    mc = ctx.instance("MC_Listing", "Listing", "Listing_mc.cfg", {
        "Universe": {T(x) for x in uni},
        "Starts": {T(x) for x in uni + (["", "aa", "bb"] if ctx.thorough else ["", "aa"])},
        "Limits": set(range(0, 5 if ctx.thorough else 4)),
        "PrefixSet": {T(x) for x in PREFIXES},
        "PatternSet": {T(x) for x in (PATTERNS + ["?b*"] if ctx.thorough else ["", "a*", "?b"])},
        "ExclSet": {T(x) for x in EXCLS},
        "MaxOps": 0})
    ctx.model_check(mc, workers=4, timeout=1500, coverage=False,
                    label="layer A: List = the statement; pagination complete")
    # 1b. layer B: the listing procedures of the code (leveldb scan, prefixFilterEntries, expired /
    #     pattern refills, hasMore) refine layer A for every directory and request; in the thorough
    #     tier each of the three repaired defects is switched back on and TLC has to re-find it
    ctx.sany("ListingImpl")
    uni_b = ["a", "ab", "b", "ba"] if ctx.thorough else ["a", "ab", "b"]

    def impl(name, backend, bugs):
        return ctx.instance(name, "ListingImpl", "ListingImpl_mc.cfg", {
            "Universe": {T(x) for x in uni_b},
            "Starts": {T(x) for x in uni_b + ["", "aa"]},
            "Limits": set(range(0, 4 if ctx.thorough else 3)),
            "PrefixSet": {T(x) for x in ["", "a", "b"]},
            "PatternSet": {T(x) for x in (["", "a*", "?b", "*a"] if ctx.thorough else ["", "a*", "?b"])},
            "ExclSet": {T(x) for x in EXCLS},
            "MaxOps": 0, "Backend": backend, "Bugs": set(bugs)})
    for backend in ("ldb", "pf"):
        # (TLC's coverage statistics make these recursive definitions ~50 times slower: off)
        ctx.model_check(impl("MCB_" + backend, backend, []), workers=4, timeout=1500, coverage=False,
                        label="layer B refines layer A, backend " + backend)
    if ctx.thorough:
        for backend, bug in (("ldb", "S26"), ("pf", "S27"), ("ldb", "refill")):
            _expect_any(ctx, impl("MCB_bug_" + bug, backend, [bug]), bug)
    # 2. inputs
    rng = random.Random(ctx.seed)
    script = os.path.join(ctx.out, "script.ndjson")
    if ctx.replay:
        script = ctx.replay
    else:
        execs = build_script(ctx, rng)
        with open(script, "w") as f:
            for ex in execs:
                for e in ex:
                    f.write(json.dumps(e) + "\n")
    # 3. the real code
    binp = ctx.build("c19")
    trace = ctx.drive(binp, ["--script", script], timeout=1500)

    # 4. the judge
    def mutate(evs):
        for i, e in enumerate(evs):
            if e["ev"] == "list" and len(e["res"]) >= 1 and not (e["prefix"] and e["pattern"]):
                m = [dict(x) for x in evs]
                m[i]["res"] = e["res"][:-1]
                return m
        return None

    consts = {"Universe": set(), "Starts": set(), "Limits": set(), "PrefixSet": set(), "PatternSet": set(),
              "ExclSet": set(), "MaxOps": 0}
    n_events = sum(1 for _ in open(trace))
    ctx.judge("ListingTrace", trace, "trace_base.cfg", consts,
              nontrivial=lambda e: any('"res":[[' in x for x in e), mutate=mutate,
              chunk_events=min(20000, max(2500, n_events // 8 + 1)))
    ctx.rule = ("executions = one directory (a subset of {a,ab,abc,b,ba,c}; all 64 subsets) in one configuration "
                "(leveldb/leveldb2/leveldb3 direct, the same through FilerStoreWrapper, an in-memory store without "
                "prefix listing through the wrapper, Filer over mem/leveldb/leveldb2/leveldb3) with up to 36 "
                "listings from the full product start x inclusive x limit 0..4 x prefix x pattern x exclusion "
                "(thorough: the whole product on the three stores directly, on the wrapper over the in-memory store and on the "
                "Filer over the in-memory store, 5-30 % samples of it on the other configurations; quick: a seeded 4-5 % sample) plus pagination walks (by last "
                "delivered name, by returned cursor, by hasMore) recorded as one event each; short executions with "
                "expired (TTL, back-dated) entries; seeded random executions over a 7-11-name universe (incl. names whose "
                "byte order is not alphabetical) with 16 pattern shapes, sibling / nested directories, trailing slash; non-trivial = at least one listing delivered an entry; distinct by hash of the execution")
    ctx.exhaustive = ctx.thorough
    ctx.assumptions += [
        "names are ASCII without '/', so byte order, code-point order and filepath.Match characters coincide",
        "a request with both a prefix and a name pattern is outside the statement (documented as mutually exclusive "
        "in filer_search.go); the specification admits every answer there",
        "the returned last-file-name is only required to be a safe cursor (CursorOK), and only when an entry was delivered",
        "hasMore is only required to be true when more matches exist",
        "the in-memory store is harness code: a sorted map whose ListDirectoryPrefixedEntries answers "
        "ErrUnsupportedListDirectoryPrefixed; a listing that needs more than 400 store calls is recorded as an error",
    ]
