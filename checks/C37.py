"""C37 - incremental volume backup converges to the source (BackupImpl.tla, judge BackupTrace.tla, driver c37)."""
import json
import os
import random

GEN_W = "SPECIFICATION Spec\nINVARIANT EmitW\nVIEW View\nCHECK_DEADLOCK FALSE"
GEN_DIV = "SPECIFICATION Spec\nINVARIANT EmitDiv\nVIEW View\nCHECK_DEADLOCK FALSE"
GEN_ALL = "SPECIFICATION Spec\nINVARIANT Emit\nCHECK_DEADLOCK FALSE"


def run(ctx):
    ctx.sany("BackupImpl", "BackupTrace")
    kf = set(ctx.kf_open.keys()) | {"C37-misses-after-source-compaction"}
    base = {"Keys": {1, 2}, "Datas": {"a", "b"}, "BKF": kf}
    # the procedure (local compaction when the source was compacted, destroy-and-recreate when longer,
    # tail copy located by binary search over append times) against "backup = source after every run"
    mc = ctx.instance("MC_C37", "BackupImpl", "BackupImpl_mc.cfg", dict(base, MaxOps=7 if ctx.thorough else 6))
    ctx.model_check(mc, workers=8, timeout=2400)
    rng = random.Random(ctx.seed)
    hists = []
    g2 = ctx.instance("G2_C37", "BackupImpl", GEN_W, dict(base, Keys={1, 2, 3} if ctx.thorough else {1, 2}, Datas={"a", "c", "L"},
                                                           MaxOps=6 if ctx.thorough else 5))
    h = [x for x in ctx.generate(g2, workers=4, timeout=1800) if x[-1]["ev"] == "backup"]
    h = rng.sample(h, min(len(h), 4000 if ctx.thorough else 250))
    hists += h
    # schedules after which the MODEL's backup differs from the source: replayed on the real procedure
    gd = ctx.instance("GD_C37", "BackupImpl", GEN_DIV, dict(base, Keys={1, 2, 3}, Datas={"a", "L"}, MaxOps=6 if ctx.thorough else 5))
    hd = ctx.generate(gd, workers=4, timeout=1800)
    hd = rng.sample(hd, min(len(hd), 1500 if ctx.thorough else 60))
    hists += hd
    g3 = ctx.instance("G3_C37", "BackupImpl", GEN_ALL, dict(base, Keys={1, 2, 3}, Datas={"a", "b", "c", "L"}, MaxOps=12))
    hists += [x + [{"ev": "backup"}] for x in ctx.generate(g3, simulate=400 if ctx.thorough else 50, depth=13)]
    script = os.path.join(ctx.out, "script.ndjson")
    if ctx.replay:
        script = ctx.replay
    else:
        with open(script, "w") as f:
            for x in hists:
                f.write(json.dumps({"ev": "reset", "keys": [1, 2, 3]}) + "\n")
                for op in x:
                    f.write(json.dumps(op) + "\n")
    binp = ctx.build("c37")
    trace = ctx.drive(binp, ["--script", script], timeout=2400)

    def mutate(evs):
        for i, e in enumerate(evs):
            if e["ev"] == "bread" and e.get("st") == "data":
                m = [dict(x) for x in evs]
                m[i]["st"] = "notfound"
                m[i]["d"] = ""
                # keep it out of reach of the deviation: only corrupt executions without a source compaction
                if not any(x["ev"] == "compact" for x in evs):
                    return m
        return None

    ctx.judge("BackupTrace", trace, "trace_base.cfg", {"Keys": {1, 2, 3}, "Datas": {"a", "b", "c", "L"}, "MaxOps": 0, "BKF": kf},
              mutate=mutate, nontrivial=lambda ls: sum(1 for s in ls if '"ev":"backup"' in s) >= 2 or
              (any('"ev":"compact"' in s for s in ls) and any('"ev":"backup"' in s for s in ls)))
    ctx.rule = ("executions = TLC-generated histories of BackupImpl.tla over 2-3 keys (write, delete, source compaction, backup) "
                "ending in a backup: G2 witnesses, every schedule up to the bound after which the MODEL's backup diverges, G3 "
                "random depth 12; the source is one volume of a real volume server (HTTP + vacuum RPCs), `backup` runs the real "
                "`weed backup` procedure against it; every key is read on the source after every step and on the backup (real "
                "Store on the backup directory) after every backup; non-trivial = >= 2 backups or a compaction followed by a backup")
    ctx.exhaustive = False
    ctx.assumptions += ["payload tokens a and c have the same length (an overwrite that changes content but not size), b and L differ",
                        "one cookie, non-empty payloads without metadata (the C01 findings are avoided)",
                        "append times are real wall-clock nanoseconds; the model's logical clock only orders them",
                        "record sizes in the model (a: 7, b: 9, L: 86, tombstone: 4 units of 8 bytes) are those of the driver's payloads"]
