"""C28 - S3 objects and multipart uploads round-trip (S3Object.tla)."""
import itertools
import json
import os
import random

import vf

# ids starting with "c" are compressible text (the upload path stores such chunks gzipped), the others random bytes
SEGS = {"s5": 5, "t7": 7, "e11": 11, "h100": 100, "k3": 3000, "c9": 9000, "z0": 0,
        "m1": 1048576, "m1p": 1048577, "n1": 1048575, "b22": 2300000, "cM": 1500000}
SMALL = ["s5", "t7", "e11", "h100", "k3", "c9"]
BIG = ["m1", "m1p", "n1", "b22", "cM"]
BUCKETS = ["b1", "b2"]
KEYSU = ["a", "a/a", "a/b", "ab", "mp"]
UNDER = [("a", "a/a"), ("a", "a/b")]
FT = {"a": "a/a"}
PARTNOS = [1, 2, 3, 9999, 10000]
INLINE = 2048
UNIV = [[b, k] for b in BUCKETS for k in KEYSU]


PARENT = {"a/a": "a", "a/b": "a"}
KFS = ["C28-write-onto-folder-lands-inside", "C28-delete-removes-subtree", "C28-inline-parts-dropped",
       "C28-batch-delete-removes-parent-object"]


def iconsts(maxops, inline=0, bkf=KFS, nameorder=False, copyunchecked=False, gensegs=("s5", "t7"), genparts=(1, 2, 10000)):
    c = consts(maxops, inline)
    c.update({"Parent": vf.Raw("(" + " @@ ".join('%s :> %s' % (vf.tla_lit(k), vf.tla_lit(v)) for k, v in PARENT.items()) + ")"), "BKF": set(bkf), "NameOrder": nameorder, "CopyUnchecked": copyunchecked,
              "GenSegs": set(gensegs), "GenParts": set(genparts)})
    return c


def consts(maxops=0, inline=0, thorough=False):
    bdel = [("a",), ("a", "ab"), ("a/b", "a"), ("a", "a/b", "ab"), ("ab", "zz"), ("a/b",)]
    return {"Buckets": set(BUCKETS), "KeysU": set(KEYSU), "Under": {tuple(u) for u in UNDER}, "SegLen": dict(SEGS),
            "InlineLimit": inline, "FT": dict(FT), "GenBK": {("b1", "a"), ("b1", "a/b"), ("b1", "ab")},
            "GenDst": {("b1", "a"), ("b1", "a/b"), ("b1", "ab"), ("b2", "a")}, "GenSegs": {"s5", "t7"},
            "GenParts": {1, 2, 10000}, "GenBDel": set(bdel), "MaxUploads": 1, "MaxOps": maxops}


def join_ranges(sizes):
    """byte ranges around the joins of consecutive pieces (inputs only)"""
    tot = sum(sizes)
    if tot == 0:
        return []
    rs = [[0, 0], [tot - 1, tot - 1], [0, tot + 5], [-1, 3], [tot - 1, -1]]
    off = 0
    for s in sizes[:-1]:
        off += s
        if 0 < off < tot:
            rs += [[off - 1, off], [max(off - 2, 0), min(off + 1, tot - 1)], [off, -1]]
    return rs


def chunk_ranges(size):
    """ranges around the 1 MB chunk boundaries of a large object"""
    rs = []
    mb = 1 << 20
    b = mb
    while b < size:
        rs += [[b - 1, b], [b - 2, min(b + 1, size - 1)]]
        b += mb
    return rs


def mp_exec(b, k, parts, listed=None, u=1, mode="plain"):
    """parts: list of (number, seg) in upload order"""
    ops = [{"ev": "init", "u": u, "b": b, "k": k}]
    for n, s in parts:
        ops.append({"ev": "part", "u": u, "b": b, "k": k, "n": n, "seg": s, "mode": mode, "chunk": 70000})
    final = {}
    for n, s in parts:
        final[n] = s
    ops.append({"ev": "complete", "u": u, "b": b, "k": k, "parts": sorted(final) if listed is None else listed})
    sizes = [SEGS[final[n]] for n in sorted(final)]
    ops.append({"ev": "get", "b": b, "k": k, "ranges": join_ranges(sizes) + chunk_ranges(sum(sizes))})
    ops.append({"ev": "dump"})
    return ops


def multipart_scripts(ctx, rng):
    out = []
    orders = []
    for r in range(1, 6):
        for sub in itertools.permutations(PARTNOS, r):
            orders.append(sub)
    if not ctx.thorough:
        # every order over the part numbers around the 9999/10000 boundary, a seeded sample of the rest
        keep = [o for o in orders if len(o) <= 3 and 10000 in o and (9999 in o or len(o) <= 2)]
        rest = [o for o in orders if o not in set(keep)]
        orders = keep + rng.sample(rest, 40)
    for o in orders:
        segs = rng.sample(SMALL, len(o))
        out.append(mp_exec("b1", rng.choice(["mp", "ab", "a/b"]), list(zip(o, segs))))
    # part numbers of every width: the stored part files are named %04d.part, so the name order of 7, 10, 100,
    # 1000, 1001..9999 and 10000 differs from the numeric order in many ways; 4-6 parts in a seeded random
    # upload order, half of the executions with the top number 10000
    wide = [1, 7, 9, 10, 11, 99, 100, 101, 999, 1000, 1001, 1002, 2000, 3000, 5000, 9998, 9999]
    for i in range(60 if ctx.thorough else 14):
        nums = rng.sample(wide, rng.randint(3, 5))
        if i % 2 == 0:
            nums += [10000] + rng.sample([n for n in wide if n > 1000 and n not in nums], 2)
        nums = list(dict.fromkeys(nums))
        rng.shuffle(nums)
        perm = rng.sample(SMALL, len(SMALL))          # neighbouring parts (in any order) carry different contents
        bynum = {n: perm[j % len(perm)] for j, n in enumerate(sorted(nums))}
        out.append(mp_exec("b1", rng.choice(["mp", "ab", "a/b"]), [(n, bynum[n]) for n in nums]))
    # parts around the chunk size (1 MB), some streaming-signed
    bigs = [[(1, "m1"), (2, "s5")], [(2, "m1p"), (1, "b22"), (3, "s5")], [(10000, "n1"), (9999, "m1")],
            [(1, "s5"), (2, "b22")], [(3, "m1"), (1, "m1"), (2, "k3")]]
    if not ctx.thorough:
        bigs = rng.sample(bigs, 2)
    for i, p in enumerate(bigs):
        out.append(mp_exec("b2", "mp", p, mode="stream" if i % 2 else "plain"))
    # a part uploaded twice, an empty part, listing a subset, completing twice, abort
    out.append(mp_exec("b1", "mp", [(1, "s5"), (1, "t7"), (2, "z0"), (3, "k3")]))
    out.append(mp_exec("b1", "mp", [(1, "s5"), (2, "t7"), (3, "h100")], listed=[1, 3]))
    out.append([{"ev": "init", "u": 1, "b": "b1", "k": "mp"},
                {"ev": "part", "u": 1, "b": "b1", "k": "mp", "n": 1, "seg": "s5", "mode": "stream", "chunk": 2},
                {"ev": "abort", "u": 1, "b": "b1", "k": "mp"},
                {"ev": "complete", "u": 1, "b": "b1", "k": "mp", "parts": [1]},
                {"ev": "part", "u": 1, "b": "b1", "k": "mp", "n": 2, "seg": "t7", "mode": "plain", "chunk": 0},
                {"ev": "dump"}])
    # UploadPartCopy whose source is no object: a key that never existed, a folder with a key below it, a folder
    # left behind by a single delete - none may become the content of a part
    for pre, src in (([], "a"), ([{"ev": "put", "b": "b2", "k": "a/b", "seg": "k3", "mode": "plain", "chunk": 70000}], "a"),
                     ([{"ev": "put", "b": "b2", "k": "a/a", "seg": "k3", "mode": "plain", "chunk": 70000},
                       {"ev": "del", "b": "b2", "k": "a/a"}], "a")):
        out.append(pre + [{"ev": "init", "u": 1, "b": "b1", "k": "mp"},
                          {"ev": "part", "u": 1, "b": "b1", "k": "mp", "n": 1, "seg": "c9", "mode": "plain", "chunk": 70000},
                          {"ev": "pcopy", "u": 1, "b": "b1", "k": "mp", "n": 2, "sb": "b2", "sk": src, "lo": 0, "hi": -1},
                          {"ev": "complete", "u": 1, "b": "b1", "k": "mp", "parts": [1, 2]},
                          {"ev": "get", "b": "b1", "k": "mp", "ranges": []}, {"ev": "dump"}])
    x = mp_exec("b1", "ab", [(2, "t7"), (1, "h100")])
    out.append(x[:-2] + [{"ev": "complete", "u": 1, "b": "b1", "k": "ab", "parts": [1, 2]}] + x[-2:])
    return out


def random_scripts(ctx, rng, n, length):
    """G4: seeded random mixes of every request kind. `shadow` only remembers what the script itself asked for, to
    choose meaningful inputs (ranges at joins, whole-segment copy ranges); it takes no part in any verdict."""
    out = []
    for _ in range(n):
        ops, shadow, ups, nu = [], {}, {}, 0
        big_budget = 2
        for _ in range(length):
            r = rng.random()
            b, k = rng.choice(BUCKETS), rng.choice(["a", "a/b", "ab", "mp", "a/a"])
            if r < 0.22:
                seg = rng.choice(SMALL + ["z0"])
                if big_budget and rng.random() < 0.25:
                    seg, big_budget = rng.choice(BIG), big_budget - 1
                mode = rng.choice(["plain", "stream"])
                ops.append({"ev": "put", "b": b, "k": k, "seg": seg, "mode": mode,
                            "chunk": rng.choice([1, 3, 4096, 65536, 1 << 20]) if SEGS[seg] < 5000 else rng.choice([65536, 1 << 20, 1000000])})
                shadow[(b, k)] = [seg]
            elif r < 0.34:
                src = rng.choice(sorted(shadow)) if shadow and rng.random() < 0.85 else (rng.choice(BUCKETS), rng.choice(KEYSU))
                ops.append({"ev": "copy", "sb": src[0], "sk": src[1], "b": b, "k": k})
                if src in shadow:
                    shadow[(b, k)] = list(shadow[src])
            elif r < 0.46:
                sizes = [SEGS[s] for s in shadow.get((b, k), [])]
                ops.append({"ev": "get", "b": b, "k": k, "ranges": join_ranges(sizes) + chunk_ranges(sum(sizes))})
            elif r < 0.54:
                ops.append({"ev": "del", "b": b, "k": k})
                shadow.pop((b, k), None)
            elif r < 0.62:
                ks = rng.sample(["a", "a/b", "ab", "mp", "a/a", "zz"], rng.choice([1, 2, 3]))
                ops.append({"ev": "bdel", "b": b, "keys": ks})
                for x in ks:
                    shadow.pop((b, x), None)
            elif r < 0.70 and len(ups) < 2:
                nu += 1
                ups[nu] = (b, k, {})
                ops.append({"ev": "init", "u": nu, "b": b, "k": k})
            elif r < 0.88 and ups:
                u = rng.choice(sorted(ups))
                ub, uk, parts = ups[u]
                pn = rng.choice(PARTNOS + [4, 5000])
                if shadow and rng.random() < 0.25:
                    src = rng.choice(sorted(shadow))
                    c = shadow[src]
                    lo, hi = 0, -1
                    if len(c) > 1 and rng.random() < 0.6:
                        i = rng.randrange(len(c))
                        j = rng.randrange(i, len(c))
                        lo = sum(SEGS[s] for s in c[:i])
                        hi = sum(SEGS[s] for s in c[:j + 1]) - 1
                        if hi < lo:
                            lo, hi = 0, -1
                    ops.append({"ev": "pcopy", "u": u, "b": ub, "k": uk, "n": pn, "sb": src[0], "sk": src[1], "lo": lo, "hi": hi})
                    parts[pn] = list(c) if hi < 0 else None
                else:
                    seg = rng.choice(SMALL + ["z0"])
                    if big_budget and rng.random() < 0.2:
                        seg, big_budget = rng.choice(BIG), big_budget - 1
                    ops.append({"ev": "part", "u": u, "b": ub, "k": uk, "n": pn, "seg": seg,
                                "mode": rng.choice(["plain", "plain", "stream"]), "chunk": 65536})
                    parts[pn] = [seg]
            elif ups:
                u = rng.choice(sorted(ups))
                ub, uk, parts = ups.pop(u)
                if rng.random() < 0.8 and parts:
                    listed = sorted(parts)
                    if rng.random() < 0.15 and len(listed) > 1:
                        listed = listed[:-1]
                    ops.append({"ev": "complete", "u": u, "b": ub, "k": uk, "parts": listed})
                    if all(parts[n] is not None for n in parts):
                        shadow[(ub, uk)] = [s for n in sorted(parts) for s in parts[n]]
                    else:
                        shadow.pop((ub, uk), None)
                else:
                    ops.append({"ev": "abort", "u": u, "b": ub, "k": uk})
        ops.append({"ev": "dump"})
        out.append(ops)
    return out


def write_script(path, hists):
    with open(path, "w") as f:
        for h in hists:
            f.write(json.dumps({"ev": "reset", "segs": SEGS, "univ": UNIV}) + "\n")
            for op in h:
                f.write(json.dumps(op) + "\n")


def run(ctx):
    from concurrent.futures import ThreadPoolExecutor
    ctx.sany("S3Object", "S3ObjectTrace")
    rng = random.Random(ctx.seed)
    script = os.path.join(ctx.out, "script.ndjson")
    iscript = os.path.join(ctx.out, "inline_script.ndjson")
    if ctx.replay:
        binp = ctx.build("c28")
        trace = ctx.drive(binp, ["--script", ctx.replay])
        # a saved violation does not say which configuration produced it: judged as recorded with chunks first
        if ctx.judge("S3ObjectTrace", trace, "trace_base.cfg", consts()) == 0:
            return
        ctx.violations.clear()
        ctx.rejected_total = 0
        trace = ctx.drive(binp, ["--script", ctx.replay, "--mode", "inline"], name="inline_trace")
        ctx.judge("S3ObjectTrace", trace, "trace_base.cfg", consts(inline=INLINE), label="inl")
        return
    depth = 4 if ctx.thorough else 3
    ctx.sany("S3ObjectImpl")
    kf = [k for k in KFS if k in ctx.kf_open]
    # layer A: the strict reading model-checked (deletes / writes touch exactly their keys, completion ascending).
    # layer B: the gateway's procedure over the filer's tree; every step is admitted by the strict action or by an
    # open deviation (no further root cause in the model) - the same run emits one shortest history per distinct
    # (tree incl. folders, uploads, last request): the scripts
    mc = ctx.instance("MC_S3Object", "S3Object", "S3Object_mc.cfg", consts(depth))
    gi = ctx.instance("G2_S3ObjectImpl", "S3ObjectImpl", 
                      "SPECIFICATION ImplSpec\nINVARIANT ImplOK\nINVARIANT TypeOK\nINVARIANT EmitW\nVIEW IView\nCHECK_DEADLOCK FALSE\n",
                      iconsts(depth + 1, bkf=kf))
    with ThreadPoolExecutor(max_workers=3) as pool:
        fb = pool.submit(ctx.build, "c28")
        fm = pool.submit(ctx.model_check, mc, 2, 1500)
        fh = pool.submit(ctx.generate, gi, "W", 2, 1500)
        fm.result()
        hists, binp = fh.result(), fb.result()
    if ctx.thorough:
        # with a filer that keeps small files inline; and the predictions: without a deviation (or with a repaired
        # defect put back) the model leaves the strict reading - each was then observed on the real gateway
        ctx.model_check(ctx.instance("MC_S3ObjectImplInline", "S3ObjectImpl", "S3ObjectImpl_mc.cfg",
                                     iconsts(4, inline=INLINE, bkf=kf, gensegs=("s5", "k3"))), 4, 1500)
        preds = [("NoKF%d" % i, dict(bkf=[x for x in kf if x != k], inline=INLINE, gensegs=("s5", "k3"))) for i, k in enumerate(kf)]
        preds += [("NameOrder", dict(bkf=kf, nameorder=True, genparts=(9999, 10000))), ("CopyUnchecked", dict(bkf=kf, copyunchecked=True))]
        for name, kw in preds:
            ctx.model_check(ctx.instance("MC_S3ObjectImplPredict" + name, "S3ObjectImpl",
                                         "SPECIFICATION ImplSpec\nINVARIANT ImplOK\nCHECK_DEADLOCK FALSE\n", iconsts(4, **kw)),
                            2, 900, expect_violation="ImplOK", coverage=False)
    ctx.notes["g2_histories"] = len(hists)
    cap = 4000 if ctx.thorough else 180
    if len(hists) > cap:
        hists = rng.sample(hists, cap)     # seeded sample of the view-distinct histories
    hists = [h + [{"ev": "dump"}] for h in hists]
    mps = multipart_scripts(ctx, rng)
    rnd = random_scripts(ctx, rng, 400 if ctx.thorough else 40, 12)
    ctx.notes["multipart_scripts"] = len(mps)
    ctx.notes["random_scripts"] = len(rnd)
    write_script(script, hists + mps + rnd)
    # the same multipart and random scripts against a filer that keeps small files inline
    write_script(iscript, mps + rnd[: len(rnd) // 2])
    with ThreadPoolExecutor(max_workers=2) as pool:     # two driver processes, each with its own mini-cluster
        ft = pool.submit(ctx.drive, binp, ["--script", script], timeout=2400)
        fi = pool.submit(ctx.drive, binp, ["--script", iscript, "--mode", "inline"], name="inline_trace", timeout=2400)
        trace, itrace = ft.result(), fi.result()

    def mutate(evs):
        # a read recorded with the last two segments of a completed upload swapped
        for i, e in enumerate(evs):
            if e["ev"] == "get" and e["status"] == 200 and len(e["content"]) >= 2 and e["content"][-1] != e["content"][-2]:
                m = [dict(x) for x in evs]
                c = list(e["content"])
                c[-1], c[-2] = c[-2], c[-1]
                m[i]["content"] = c
                return m
        return None

    def mutate_del(evs):
        # a delete recorded as having removed one more key
        for i, e in enumerate(evs):
            if e["ev"] in ("del", "bdel") and len(e["after"]) >= 1:
                m = [dict(x) for x in evs]
                m[i]["after"] = e["after"][1:]
                return m
        return None

    nt = lambda e: any('"ev":"get"' in x and '"status":200' in x for x in e) or any('"ev":"dump"' in x and '"content"' in x for x in e)
    ctx.judge("S3ObjectTrace", trace, "trace_base.cfg", consts(), nontrivial=nt,
              mutate=mutate if ctx.seed % 2 else mutate_del, label="chk")
    ctx.judge("S3ObjectTrace", itrace, "trace_base.cfg", consts(inline=INLINE), nontrivial=nt,
              mutate=(mutate_del if ctx.seed % 2 else mutate) if ctx.thorough else None, label="inl")
    ctx.rule = ("executions = (1) TLC-generated histories of the layer-B model (one shortest per distinct (tree with folders, uploads, last request)) of put / "
                "streaming put / copy / copy of a missing key / delete / batch delete / get with ranges at the joins / "
                "initiate / upload part / complete / abort over the overlapping names a, a/b, ab in two buckets; "
                "(2) multipart uploads with part numbers from {1,2,3,9999,10000} in every upload order (quick: all orders "
                "around 9999/10000 + seeded sample), parts around the 1 MB chunk size, re-uploaded / empty / unlisted parts, "
                "abort, double completion; (3) seeded random mixes of all requests incl. upload-part-copy with whole-segment "
                "ranges; (2)+(3) also against a filer that keeps files < 2048 bytes inline; every execution ends with a dump "
                "of all objects; non-trivial = some object was read back with content; distinct by hash")
    ctx.exhaustive = False
    ctx.assumptions += [
        "content is observed as the sequence of known byte segments (exact byte comparison against the deterministic "
        "segment bytes in the driver; empty segments are invisible); a range read is observed as status, length and "
        "whether it equals the same slice of the full body read in the same step (the full body itself is judged "
        "against the specification)",
        "the set of existing keys after every mutating request is observed by S3 HEAD over {a, a/a, a/b, ab, mp} in "
        "both buckets; folders by a filer listing",
        "S3 itself enforces no minimum part size here (5-byte parts are accepted); part numbers outside 1..10000 are "
        "not generated except 4 and 5000",
        "what a Complete that lists only some of the uploaded parts must produce is left open (all uploaded parts, "
        "or the listed ones)",
    ]
