"""C31 - the mount's chunk cache is transparent (CacheSpec.tla / CacheImpl.tla, judge CacheTrace.tla, driver c31)."""
import json
import os
import random

U = 1024
FIDS = [{"v": v, "k": k, "c": c} for v in (3, 9) for k in (1, 2) for c in (1, 2)]
SIZES = [1, U - 1, U, U + 1, 4 * U, 8 * U + 1]
MINS = [1, U, U + 1, 4 * U + 1]
SLICES = [(0, 1), (0, U), (1, U - 1), (0, U + 1), (1, 4 * U), (0, 4 * U + 1)]
GEN_W = "SPECIFICATION Spec\nINVARIANT EmitW\nVIEW View\nCHECK_DEADLOCK FALSE"
GEN_ALIAS = "SPECIFICATION Spec\nINVARIANT EmitAlias\nVIEW View\nCHECK_DEADLOCK FALSE"
GEN_ALL = "SPECIFICATION Spec\nINVARIANT Emit\nCHECK_DEADLOCK FALSE"
DEV = "C31-disk-key-only"


def fz(d):
    return tuple(sorted(d.items()))


class Rec(dict):
    """a python dict that vf.tla_lit renders as a TLA+ record (hashable for use in sets)"""
    def __hash__(self):
        return hash(fz(self))


def random_scripts(rng, n, length):
    """G4: long random histories: arbitrary contents (also several under one id, empty ones),
    explicit lookups with every minSize class and slices, restarts."""
    out = []
    sizes = SIZES + [0, 2, U // 2, 2 * U, 4 * U + 1, 8 * U]
    for _ in range(n):
        ops = []
        fids = rng.sample(FIDS, rng.choice([2, 3, 4, 8]))
        d = rng.randrange(1, 200)
        for _ in range(length):
            r = rng.random()
            f = rng.choice(fids)
            if r < 0.45:
                d += 1
                ops.append({"ev": "set", "fid": f, "d": d if rng.random() < 0.7 else 16 * f["v"] + 4 * f["k"] + f["c"],
                            "n": rng.choice(sizes)})
            elif r < 0.75:
                ops.append({"ev": "get", "fid": rng.choice(FIDS), "min": rng.choice([0, 1, 2, U - 1, U, U + 1, 4 * U, 4 * U + 1, 8 * U + 1])})
            elif r < 0.9:
                off = rng.choice([0, 0, 1, 7, U])
                ops.append({"ev": "slice", "fid": rng.choice(FIDS), "off": off, "len": rng.choice([1, U - off if off < U else 1, U, 4 * U, 8 * U])})
            else:
                ops.append({"ev": "restart"})
        out.append((rng.choice([8, 16, 32, 64]), rng.choice([1, 2, 8]), ops))
    return out


def run(ctx):
    if os.environ.get("VERIF_NO_MC"):      # mutant runs: the model checks do not depend on the code under test
        ctx.model_check = lambda *a, **k: None
    ctx.sany("CacheSpec", "CacheImpl", "CacheTrace")
    kf = set(ctx.kf_open.keys())
    fids = {Rec(f) for f in FIDS}
    # layer A alone
    mca = ctx.instance("MC_C31A", "CacheSpec", "CacheSpec_mc.cfg", {"Fids": fids, "Sizes": {1, U, U + 1}, "MaxOps": 3})
    ctx.model_check(mca, workers=4)
    base = {"Fids": fids, "Sizes": set(SIZES), "U": U, "D": 16, "KeyOnly": True, "Mins": set(MINS),
            "SliceArgs": set(SLICES), "BKF": kf | {DEV}}
    # 4 ids (two pairs that share the needle key) in the quick tier, all 8 in the thorough one
    fids4 = {Rec(f) for f in FIDS if (f["v"], f["c"]) in ((3, 1), (9, 2))}
    grids = [(fids, 3, 16), (fids, 3, 32), (fids4, 4, 16)] if ctx.thorough else [(fids4, 3, 16)]
    # layer B as built (keyed by needle key): refines layer A only with the listed deviation ...
    for fs, depth, dd in grids:
        mc = ctx.instance("MC_C31_D%d_%d_%d" % (dd, len(fs), depth), "CacheImpl", "CacheImpl_mc.cfg",
                          dict(base, Fids=fs, D=dd, MaxOps=depth))
        ctx.model_check(mc, workers=4, timeout=1500, label="as built, deviation admitted, D=%d, %d ids, depth %d" % (dd, len(fs), depth))
    # ... TLC finds the aliasing when the deviation is not admitted (the model predicts S33) ...
    mcx = ctx.instance("MC_C31_strict", "CacheImpl", "CacheImpl_mc.cfg", dict(base, BKF=set(), MaxOps=2))
    ctx.model_check(mcx, workers=4, expect_violation="GetRefines", label="as built, strict: aliasing expected")
    # ... and the idealised repair (disk tiers keyed by the whole file id) refines layer A strictly
    for fs, depth, dd in grids[-1:]:
        mci = ctx.instance("MC_C31_ideal", "CacheImpl", "CacheImpl_mc.cfg",
                           dict(base, Fids=fs, D=dd, KeyOnly=False, BKF=set(), MaxOps=depth))
        ctx.model_check(mci, workers=4, timeout=1500, label="keyed by whole file id, strict, %d ids, depth %d" % (len(fs), depth))

    rng = random.Random(ctx.seed)
    runs = []  # (du, me, ops)
    # (one execution costs ~50 ms of CPU: every cache creation / restart opens 7 leveldb needle maps)
    gfids = fids if ctx.thorough else fids4      # the driver probes all 8 ids in either tier
    for dd in ((16, 32) if ctx.thorough else (16,)):
        g2 = ctx.instance("G2_C31_D%d" % dd, "CacheImpl", GEN_W, dict(base, Fids=gfids, D=dd, MaxOps=3))
        h = ctx.generate(g2, workers=4, timeout=1500)
        h = rng.sample(h, min(len(h), 700 if ctx.thorough else 120))
        runs += [(dd, 2, x) for x in h]
    for dd in ((16, 32) if ctx.thorough else (32,)):
        ga = ctx.instance("GA_C31_D%d" % dd, "CacheImpl", GEN_ALIAS, dict(base, Fids=gfids, D=dd, MaxOps=3))
        h = ctx.generate(ga, workers=4, timeout=1500)
        h = rng.sample(h, min(len(h), 300 if ctx.thorough else 60))
        runs += [(dd, 2, x) for x in h]
    g3 = ctx.instance("G3_C31", "CacheImpl", GEN_ALL, dict(base, D=32, MaxOps=14))
    runs += [(32, 2, x) for x in ctx.generate(g3, simulate=300 if ctx.thorough else 40, depth=15)]
    runs += random_scripts(rng, 800 if ctx.thorough else 120, 30)

    script = os.path.join(ctx.out, "script.ndjson")
    if ctx.replay:
        script = ctx.replay
    else:
        with open(script, "w") as f:
            for du, me, ops in runs:
                f.write(json.dumps({"ev": "reset", "du": du, "me": me, "pf": FIDS, "pm": MINS}) + "\n")
                for op in ops:
                    f.write(json.dumps(op) + "\n")
    binp = ctx.build("c31")
    trace = ctx.drive(binp, ["--script", script])

    def mutate(evs):
        # a lookup that answered with the right content: shift it by one byte (start value + 1)
        for i, e in enumerate(evs):
            if e["ev"] == "snap":
                for a, row in enumerate(e["got"]):
                    for b, r in enumerate(row):
                        if len(r) == 1 and r[0]["n"] > 1:
                            m = json.loads(json.dumps(evs))
                            m[i]["got"][a][b] = [{"s": (r[0]["s"] + 1) % 251, "n": r[0]["n"] - 1}]
                            return m
        return None

    def nontrivial(lines):
        sets = sum(1 for s in lines if '"ev":"set"' in s)
        return sets >= 2 and any('"n":' in s and '"s":' in s for s in lines)

    ctx.judge("CacheTrace", trace, "trace_base.cfg",
              {"Fids": fids, "Sizes": set(SIZES), "MaxOps": 0, "ProbeFids": [Rec(f) for f in FIDS], "ProbeMins": MINS},
              nontrivial=nontrivial, mutate=mutate)
    ctx.rule = ("executions = histories of CacheImpl.tla over 8 file ids (2 volumes x 2 keys x 2 cookies) and chunk sizes "
                "{1, U-1, U, U+1, 4U, 8U+1}, U = 1 KiB, caches of 16 and 32 units (2 memory entries) so that volumes rotate after "
                "1-3 records: G2 one witness per (memory + disk state, last operation), every history up to depth 3 after which "
                "the MODEL answers with another id's content, G3 random depth 14; plus seeded random histories of 30 operations "
                "(several contents under one id, empty chunks, explicit GetChunk / GetChunkSlice, restarts, caches of 8-64 units); "
                "after every SetChunk / restart the driver looks up all 8 ids with minSize in {1, U, U+1, 4U+1}; non-trivial = "
                ">= 2 stores and at least one lookup that returned data")
    ctx.exhaustive = True
    ctx.assumptions += ["a content is an arithmetic ramp modulo 251 identified by its start value; answers are recorded losslessly as ramps",
                        "memory-tier pruning (ccache, asynchronous) is not controlled: both outcomes are admitted",
                        "restart = Shutdown + NewTieredChunkCache on the same directory in the same process"]
