"""C16 - ec.balance (dry run) never loses, duplicates or overfills ec shards
(spec/PlanCheck.tla, judge spec/PlanCheckTrace.tla, driver harness/cmd/c16)."""
import json
import os
import random
import sys

sys.path.insert(0, os.path.dirname(os.path.abspath(__file__)))
import plan_gen  # noqa: E402

# generator / model-checking topologies: id, dc, rack, has ssd
TOPO_MC = [("a1", "d1", "r1", False), ("a2", "d1", "r1", False), ("a3", "d1", "r2", False), ("b1", "d2", "r3", False)]
TOPO_MC3 = [("a1", "d1", "r1", False), ("a2", "d1", "r1", False), ("a3", "d1", "r2", False)]
TOPO_GEN = [("a1", "d1", "r1", False), ("a2", "d1", "r1", False), ("a3", "d1", "r2", False), ("a4", "d1", "r2", False),
            ("b1", "d2", "r3", False), ("b2", "d2", "r3", False), ("b3", "d2", "r4", False)]
TOPO_GEN2 = [("a1", "d1", "r1", False), ("a2", "d1", "r1", False), ("a3", "d1", "r1", False),
             ("a4", "d1", "r2", False), ("a5", "d1", "r2", False)]


def consts(topo, maxvols=0, maxsteps=0, slacks=(0,), maxec=0, maxdup=0, total=14, data=10):
    return {"Servers": [{"id": s[0], "dc": s[1], "rack": s[2], "ssd": s[3]} for s in topo], "RPs": {(0, 0, 0)},
            "MaxVols": maxvols, "MaxEc": maxec, "MaxDup": maxdup, "Slacks": set(slacks), "MaxSteps": maxsteps,
            "TotalShards": total, "DataShards": data}


JUDGE_CONSTS = consts([])


def snapshot_from_hist(hist, topo):
    order, caps, reps, ecs = plan_gen.hist_to_snapshot(hist)
    loc = {s[0]: s for s in topo}
    servers = [{"id": s, "dc": loc[s][1], "rack": loc[s][2], "hdd": caps[s]["hdd"], "ssd": caps[s]["ssd"]} for s in order]
    return {"servers": servers, "reps": reps, "shards": ecs}


def reset(rng, snap):
    ev = {"ev": "reset", "mode": "ecbalance",
          "opt": {"col": rng.choice(["EACH_COLLECTION", "EACH_COLLECTION", "c1"]), "dc": ""}}
    ev.update(snap)
    return ev


def run(ctx):
    ctx.sany("PlanCheck", "PlanCheckTrace")
    # 1. model checking: every plan of allowed shard moves keeps every shard exactly as often as in the
    #    snapshot, never overfills a server and never grows a rack beyond max(initial, even-spread target).
    #    Scaled-down code (4 shards, 2 per volume slot) so that all layouts on 4 servers can be enumerated.
    inv = ("SPECIFICATION Spec\nINVARIANT EcPreserved\nINVARIANT EcSlotInv\nINVARIANT EcRackBound\n"
           "VIEW MCView\nCHECK_DEADLOCK FALSE")
    if ctx.thorough:
        runs = [("MC_Plan16", TOPO_MC, dict(maxec=1, maxdup=1, maxsteps=2, slacks=(0, 1), total=4, data=2),
                 "all plans of 2 allowed shard moves, 4-shard code, all layouts (+1 duplicate) on 4 servers / 3 racks")]
    else:
        runs = [("MC_Plan16", TOPO_MC3, dict(maxec=1, maxdup=1, maxsteps=2, slacks=(0,), total=4, data=2),
                 "all plans of 2 allowed shard moves, 4-shard code, all layouts (+1 duplicate) on 3 servers / 2 racks, tight"),
                ("MC_Plan16b", TOPO_MC3, dict(maxec=1, maxdup=0, maxsteps=2, slacks=(0, 1), total=4, data=2),
                 "same without duplicate, slack 0/1")]
    for name, topo, kw, label in runs:
        ctx.model_check(ctx.instance(name, "PlanCheck", inv, consts(topo, **kw)), workers=4, timeout=1500, label=label)

    # 2. generators
    rng = random.Random(ctx.seed)
    script = os.path.join(ctx.out, "script.ndjson")
    nt = 0
    if ctx.replay:
        script = ctx.replay
    else:
        resets = []
        # G3: TLC-sampled layouts of real 14-shard volumes (shard by shard), duplicates, tight slots
        for name, topo, n, nec in (("G3_Plan16", TOPO_GEN, 1200 if ctx.thorough else 60, 2),
                                   ("G3_Plan16b", TOPO_GEN2, 1200 if ctx.thorough else 60, 1)):
            g3 = ctx.instance(name, "PlanCheck", "SPECIFICATION Spec\nINVARIANT Emit\nCHECK_DEADLOCK FALSE",
                              consts(topo, maxec=nec, maxdup=2, slacks=(0, 1)))
            for h in ctx.generate(g3, simulate=n, depth=nec * 14 + 2 + 1 + len(topo) + 1):
                resets.append(reset(rng, snapshot_from_hist(h, topo)))
        nt = len(resets)
        # G4: seeded random layouts (one server / one rack / two servers / even / random, missing and
        # duplicated shards, normal volumes taking slots, 1-2 dc, 1-6 racks)
        for i in range(6000 if ctx.thorough else 900):
            resets.append(reset(rng, plan_gen.c16_snapshot(rng, big=ctx.thorough and i % 2 == 0)))
        with open(script, "w") as f:
            for ev in resets:
                f.write(json.dumps(ev) + "\n")
    binp = ctx.build("c16")
    trace = ctx.drive(binp, ["--script", script], env={"VERIF_REPEAT": "3" if not ctx.replay else "10"})

    def mutate(evs):
        for i, e in enumerate(evs):
            if e["ev"] == "ecmove":
                m = [dict(x) for x in evs]
                m[i]["to"] = "nowhere"
                return m
        return None

    ctx.judge("PlanCheckTrace", trace, "trace_base.cfg", JUDGE_CONSTS,
              nontrivial=lambda e: any('"ev":"ecmove"' in x for x in e), mutate=mutate)
    ctx.rule = ("executions = one dry-run of the real ec.balance planner on a snapshot, each snapshot planned three times (the "
                "planner iterates over Go maps); snapshots = TLC-sampled layouts of 1-2 14-shard volumes on 5-7 servers with "
                "duplicated shards and slack 0/1 (%d) + seeded random layouts (up to 14 servers, 6 ec volumes, missing / "
                "duplicated shards, normal volumes taking slots); every planned shard move is one event, the final event "
                "carries the planner's shard bitmaps; non-trivial = at least one shard move; distinct by hash of the "
                "recorded execution" % nt)
    ctx.exhaustive = False
    ctx.assumptions += [
        "the glue of commandEcBalance.Do (collect ec nodes -> balanceEcVolumes per collection -> balanceEcRacks) is replicated in "
        "weed/shell/verif_hooks_c15.go; ListCollectionNames is answered with the ec collection names of the snapshot",
        "free shard slots of a server = (MaxVolumeCount - VolumeCount) * 10 - shards on it (hdd disk), all normal volumes "
        "writable so that ActiveVolumeCount = VolumeCount; updated step by step with the plan",
        "rack ids are unique across data centers in the generated snapshots (the planner keys racks by rack id alone)",
        "even-spread target = ceil(14 / number of racks of the snapshot); the rack clause is applied when there are >= 2 racks",
    ]
