"""C25 - filer HTTP writes store exactly the request body (FilerWrite.tla, layer B FilerWriteImpl.tla,
judge FilerWriteTrace.tla, driver c25: real filer + real volume server, one process per inline limit)."""
import json
import os
import random
from concurrent.futures import ThreadPoolExecutor

import vf

MIB = 1 << 20
CHUNK = MIB                        # the kit's filer runs with -maxMB=1
# one driver process per configuration (SaveToFilerLimit, cipher)
CONFIGS_QUICK = [(0, False), (512, False), (CHUNK + 512, False)]
CONFIGS_MORE = [(CHUNK, False), (CHUNK + 1, False), (512, True)]
MC_C = 3                           # chunk size of the byte-level model
ALL_BUGS = {"S29", "S30", "inline1"}

GEN_W = "SPECIFICATION Spec\nINVARIANT EmitW\nVIEW View\nCHECK_DEADLOCK FALSE"
GEN_DIV = "SPECIFICATION Spec\nINVARIANT EmitDiv\nVIEW MCView\nCHECK_DEADLOCK FALSE"
MC_B = "SPECIFICATION Spec\nINVARIANT Refines\nINVARIANT NoOverlap\nVIEW MCView\nCHECK_DEADLOCK FALSE"


def sizes(limit, ck=CHUNK):
    s = {0, 1, ck - 1, ck, ck + 1, 2 * ck, 3 * ck + 7}
    if limit > 0:
        s |= {limit - 1, limit, limit + 1}
    return sorted(s)


def fail_offsets(limit, ck=CHUNK):
    s = {0, 1, ck - 1, ck, ck + 1}
    if 0 < limit < ck:
        s |= {limit - 1, limit}
    return sorted(s)


class Gen:
    """Builds executions for one configuration (inline limit). Inputs only."""

    def __init__(self, rng, limit, cipher=False):
        self.rng, self.limit, self.cipher, self.execs = rng, limit, cipher, []

    def begin(self, etc=False, ext=""):
        self.cur = [{"ev": "reset", "limit": self.limit, "cipher": self.cipher, "chunk": CHUNK, "etc": etc, "ext": ext}]
        self.s = 0
        self.execs.append(self.cur)

    def seg(self):
        self.s += 1
        return self.s

    def get(self, p):
        self.cur.append({"ev": "get", "p": p})

    def write(self, p, op, n, m=None, fail=-1, fm="", te=None, maxmb=0, kind="rand", vro=0):
        rng = self.rng
        m = m or rng.choice(["put", "put", "post", "postdir"])
        fail = min(fail, n)
        if fail >= 0 and not fm:
            fm = rng.choice(["reader", "cut", "cutte", "abort"])
        if fail >= 0 and fail >= n and m == "put" and fm in ("cut", "abort"):
            fm = rng.choice(["reader", "cutte"])      # Content-Length n with n bytes sent is a complete body
        if fail >= 0 and n == 0 and m == "put" and fm == "cutte":
            fm = "reader"                             # a chunk of 0 bytes is the end marker of the encoding
        if te is None:
            te = fail < 0 and rng.random() < 0.25
        self.cur.append({"ev": "write", "p": p, "m": m, "op": op, "s": self.seg(), "n": n, "kind": kind,
                         "te": bool(te), "maxmb": maxmb, "ck": maxmb * MIB if maxmb else CHUNK,
                         "fail": fail, "fm": fm if fail >= 0 else "", "vro": vro})
        self.get(p)

    def create(self, p, how, ns):
        self.cur.append({"ev": "create", "p": p, "how": how, "segs": [{"s": self.seg(), "n": n} for n in ns]})
        self.get(p)

    def base(self, p, kind, n0):
        """the different ways a file can have come into being before an append / a failing write"""
        if kind == "absent":
            self.get(p)
        elif kind in ("put", "post", "postdir"):
            self.write(p, "set", n0, m=kind)
        elif kind == "append":
            self.write(p, "append", n0)
        else:
            ns = [n0] if self.rng.random() < 0.5 or n0 < 2 else [n0 // 2, n0 - n0 // 2]
            self.create(p, kind, ns)


BASES = ["absent", "put", "post", "append", "chunks", "nosize", "grpcappend", "inline"]


def systematic(rng, limit, cipher, thorough):
    g = Gen(rng, limit, cipher)
    sz = sizes(limit)
    small = [x for x in sz if x <= CHUNK + 1]
    # E1: every boundary size as the first write, by every method; overwritten by another size; then an append
    for n in sz:
        for m in (["put", "post", "postdir"] if thorough else [rng.choice(["put", "post", "postdir"])]):
            g.begin()
            g.write("p1", "set", n, m=m)
            g.write("p1", "set", rng.choice(sz))
            g.write("p2", "set", rng.choice(small))
            g.write("p1", "append", rng.choice(small))
            g.get("p2")
    # E2: appends onto files that came into being in different ways
    for kind in BASES:
        for n0 in (sz if thorough else rng.sample(sz, 3)):
            if kind in ("chunks", "nosize", "grpcappend", "inline") and n0 > 2 * CHUNK:
                n0 = rng.choice(small)
            g.begin()
            g.base("p1", kind, n0)
            g.write("p1", "append", rng.choice(sz))
            g.write("p1", "append", rng.choice(small))
    # E3: bodies that break off
    combos = [(fm, m, j, op, prior) for fm in ("reader", "cut", "cutte", "abort") for m in ("put", "post")
              for j in fail_offsets(limit) for op in ("set", "append") for prior in ("absent", "put", "nosize", "inline")]
    combos = rng.sample(combos, 160 if thorough else 24)
    for fm, m, j, op, prior in combos:
        n = rng.choice([x for x in sz if x > j] + [j + 1, j + 1000] + ([j] if fm in ("reader", "cutte") or m == "post" else []))
        g.begin()
        g.base("p1", prior, rng.choice([100, CHUNK + 1, rng.choice(small)]))
        g.write("p1", op, n, m=m, fail=j, fm=fm)
        g.write("p1", "append", rng.choice([10, CHUNK]))
        if rng.random() < 0.3:
            g.write("p1", "set", rng.choice(small), fail=rng.choice(fail_offsets(limit)[:3]) if rng.random() < 0.5 else -1)
    # E3b: the volume servers refuse writes for the first moments of a request (every volume read-only for N ms):
    #      the filer has to assign a second file id for a chunk and send the chunk again
    for n in ([CHUNK + 1, 2 * CHUNK + 5, 3 * CHUNK + 7, CHUNK] if thorough else [2 * CHUNK + 5, CHUNK + 1]):
        for m in ("put", "post"):
            g.begin()
            # the client's three upload attempts for a file id come 0, 237 and 711 ms after the first; its next
            # file id is tried about a second later: ~1 s of refusal makes the first file id fail for good
            g.write("p1", "set", n, m=m, vro=1000)
            g.write("p1", "append", rng.choice([10, CHUNK + 1]), vro=rng.choice([0, 1000]))
            g.write("p1", "set", rng.choice(small))
    # E4: other chunk sizes through ?maxMB=
    for mb in ([2, 3] if thorough else [2]):
        ck = mb * MIB
        for n in ([ck - 1, ck, ck + 1, 2 * ck, 3 * ck + 7] if thorough else [ck + 1, 2 * ck]):
            g.begin()
            g.write("p1", "set", n, maxmb=mb)
            g.write("p1", "append", rng.choice([ck, ck + 1, 5]), maxmb=mb)
            g.write("p1", "set", 2 * ck + 5, maxmb=mb, fail=rng.choice([ck - 1, ck, ck + 1]))
            g.write("p1", "append", 7)
    # E5: below /etc the filer keeps files inline whatever the limit
    for n in ([1, CHUNK - 1, CHUNK, CHUNK + 1, 2 * CHUNK] if thorough or limit == 0 else [CHUNK + 1]):
        g.begin(etc=True)
        g.write("p1", "set", n, m="put" if n > CHUNK else None)
        g.write("p1", "append", 10)
        g.write("p1", "set", 2 * CHUNK, fail=rng.choice([1, CHUNK, CHUNK + 1]))
        g.write("p1", "set", rng.choice([0, 1, CHUNK]))
    # E6: compressible text under a .txt name (chunks are stored gzipped)
    for n in ([limit + 1, CHUNK - 1, CHUNK + 1, 3 * CHUNK + 7] if thorough else [CHUNK + 1]):
        g.begin(ext=".txt")
        g.write("p1", "set", n, kind="text")
        g.write("p1", "append", 3000, kind="text")
        g.write("p1", "append", CHUNK + 1, kind="text", fail=CHUNK)
        g.write("p1", "append", 5)
    return g.execs


def real_size(n, limit, rng, C=MC_C):
    """model size (q chunks + r) -> a real size on the same side of every boundary the procedure looks at"""
    q, r = divmod(n, C)
    if r == 0:
        x = 0
    elif r == 1:
        x = rng.choice([1, limit - 1]) if 1 < limit < CHUNK else 1
    else:
        x = rng.choice([limit, limit + 1, CHUNK - 1]) if 0 < limit < CHUNK - 1 else CHUNK - 1
    return q * CHUNK + x


def from_model(rng, limit, cipher, etc, hists):
    """TLC-generated histories of FilerWriteImpl (model sizes) -> executions at real sizes"""
    g = Gen(rng, limit, cipher)
    for h in hists:
        g.begin(etc=etc)
        for op in h:
            if op["ev"] == "create":
                how = op["how"]
                if how == "nosize" and rng.random() < 0.4:
                    how = "grpcappend"
                g.create(op["p"], how, [real_size(x["n"], limit, rng) for x in op["segs"]])
            else:
                n = real_size(op["n"], limit, rng)
                j = op["fail"]
                if j >= 0:
                    jr = n if j == op["n"] else real_size(j, limit, rng)
                    while jr >= n and j < op["n"]:
                        n, jr = real_size(op["n"], limit, rng), real_size(j, limit, rng)
                    j = jr
                g.write(op["p"], op["op"], n, fail=j)
    return g.execs


def run(ctx):
    ctx.sany("FilerWrite", "FilerWriteImpl", "FilerWriteTrace")
    rng = random.Random(ctx.seed)
    th = ctx.thorough
    msz, mfl = {0, 1, 2, 3, 4, 6, 10}, {0, 1, 2, 3, 4}

    def bcons(L, etc, bugs, ops, paths=("p1",), sz=None, fl=None):
        return {"Paths": set(paths), "Sizes": sz or msz, "Fails": fl or mfl, "C": MC_C, "L": L, "Etc": etc,
                "MaxOps": ops, "Bugs": set(bugs)}

    # C25_SKIP_MC=1 with --replay: only drive and judge the given script (mutant runs)
    only_replay = bool(ctx.replay) and os.environ.get("C25_SKIP_MC") == "1"
    hw, hd = {}, {}
    mcfg = {0: (0, False), 512: (2, False), CHUNK + 512: (5, False)}      # inline limit -> (L, Etc) of the model, C = 3
    if not only_replay:
        # 1. model checking: the laws of layer A; layer B (the handler's procedure as repaired) refines layer A
        mca = ctx.instance("MC_C25_A", "FilerWrite", "FilerWrite_mc.cfg",
                           {"Paths": {"p1", "p2"}, "Sizes": {0, 1, 3}, "Fails": {0, 1}, "MaxOps": 3 if th else 2})
        bconf = [(2, False, (), 3 if th else 2, None)]
        if th:
            bconf += [(0, True, (), 2, None), (5, False, (), 2, None), (0, False, {"inline1"}, 2, None),
                      (2, False, (), 4, {0, 1, 3, 4}), (2, False, (), 2, set(range(0, 11)))]
        mcb = [ctx.instance("MC_C25_B%d" % i, "FilerWriteImpl", MC_B, bcons(L, etc, bugs, ops, sz=sz))
               for i, (L, etc, bugs, ops, sz) in enumerate(bconf)]
        # 2. generators: one witness per (stored layout, request) of the repaired procedure; every history up to the
        #    bound after which the procedure WITH the three defects reads back something else than the property says
        #    (quick tier: the histories of the limit-512 model are also run, as inputs, under the other two limits)
        gw = {lim: ctx.instance("G2_C25_%d" % lim, "FilerWriteImpl", GEN_W, bcons(L, etc, (), 3 if th else 2, sz={0, 1, 2, 3, 4, 7}, fl={0, 1, 3, 4}))
              for lim, (L, etc) in mcfg.items() if th or lim == 512}
        gd = {(lim, etc): ctx.instance("GD_C25_%d_%d" % (lim, etc), "FilerWriteImpl", GEN_DIV, bcons(L, etc, ALL_BUGS, 2))
              for lim, L, etc in [(0, 0, False), (512, 2, False), (CHUNK + 512, 5, False), (0, 0, True)] if th or lim == 512 or etc}
        with ThreadPoolExecutor(max_workers=4) as pool:
            futs = [pool.submit(ctx.model_check, mca, 1, 1500)] + [pool.submit(ctx.model_check, b, 1, 2400) for b in mcb]
            fw = {k: pool.submit(ctx.generate, v, "W", 1, 2400) for k, v in gw.items()}
            fd = {k: pool.submit(ctx.generate, v, "W", 1, 2400) for k, v in gd.items()}
            for f in futs:
                f.result()
            hw = {k: f.result() for k, f in fw.items()}
            hd = {k: f.result() for k, f in fd.items()}
        if not th:
            hw[0] = hw[CHUNK + 512] = hw[512]
            hd[(0, False)] = hd[(CHUNK + 512, False)] = hd[(512, False)]
        if th:
            # each defect alone is a counterexample of the refinement in the model
            for bug, L, etc in [("S29", 0, False), ("S30", 0, False), ("inline1", 0, True)]:
                ctx.model_check(ctx.instance("MCX_C25_" + bug, "FilerWriteImpl", MC_B, bcons(L, etc, {bug}, 2)),
                                workers=2, expect_violation="Refines", label="defect %s alone breaks Refines" % bug)
        for k, v in hd.items():
            if not v:
                raise vf.Infra("the model with the defects switched on predicts no divergence for %r" % (k,))
        ctx.notes["model_histories"] = {"witnesses": {str(k): len(v) for k, v in hw.items()},
                                        "divergent_with_defects": {str(k): len(v) for k, v in hd.items()}}

    # 3. scripts, one per driver process (inline limit, cipher)
    configs = CONFIGS_QUICK + (CONFIGS_MORE if th else [])
    scripts = {}
    for lim, cipher in configs:
        if ctx.replay:
            break
        ex = systematic(rng, lim, cipher, th)
        cap = 150 if th else 15
        w = hw.get(lim, hw[512])          # histories are inputs: those of the limit-512 model also run under the other limits
        ex += from_model(rng, lim, cipher, False, rng.sample(w, min(len(w), cap)))
        for (l2, etc), d in hd.items():
            if l2 == lim or (lim not in mcfg and l2 == 512):
                ex += from_model(rng, lim, cipher, etc, rng.sample(d, min(len(d), cap)))
        if (lim, cipher) not in CONFIGS_QUICK[:2] and not th:
            ex = rng.sample(ex, min(len(ex), 60))
        scripts[(lim, cipher)] = os.path.join(ctx.out, "script_%d_%d.ndjson" % (lim, cipher))
        with open(scripts[(lim, cipher)], "w") as f:
            for e in ex:
                for line in e:
                    f.write(json.dumps(line) + "\n")
    if ctx.replay:
        ctx.replay = os.path.abspath(ctx.replay)
        resets = [json.loads(x) for x in open(ctx.replay) if '"ev":"reset"' in x.replace(" ", "")]
        scripts = {k: ctx.replay for k in sorted({(r["limit"], bool(r.get("cipher", False))) for r in resets})}
    binp = ctx.build("c25")
    with ThreadPoolExecutor(max_workers=3) as pool:
        futs = [pool.submit(ctx.drive, binp, ["--script", s, "--limit", lim] + (["--cipher"] if cipher else []), 2400, None,
                            "trace_%d_%d" % (lim, cipher)) for (lim, cipher), s in scripts.items()]
        traces = [f.result() for f in futs]
    trace = os.path.join(ctx.out, "trace_all.ndjson")
    with open(trace, "w") as f:
        for t in traces:
            f.write(open(t).read())

    def mutate(evs):
        # a corrupted read-back (one byte less of the last slice) must be rejected
        for i in range(len(evs) - 1, -1, -1):
            e = evs[i]
            if e["ev"] == "get" and e.get("st") == 200 and e.get("c"):
                m = [dict(x) for x in evs]
                c = [dict(x) for x in e["c"]]
                c[-1]["b"] -= 1
                if c[-1]["b"] == c[-1]["a"]:
                    c.pop()
                m[i]["c"] = c
                return m
        return None

    def nontrivial(lines):
        w = [json.loads(x) for x in lines if '"ev":"write"' in x]
        return any(x["st"] in (200, 201) and x["n"] > 0 for x in w) or any(x["fail"] >= 0 for x in w)

    ctx.judge("FilerWriteTrace", trace, "trace_base.cfg", {"Paths": {"p1", "p2"}, "Sizes": set(), "Fails": set(), "MaxOps": 0},
              nontrivial=nontrivial, mutate=mutate)
    ctx.rule = ("executions = (a) systematic scripts per inline limit {0, 512, chunk+512; thorough: also chunk, chunk+1, and 512 with encrypted chunks} with chunk = 1 MiB: every size in "
                "{0, 1, limit-1, limit, limit+1, chunk-1, chunk, chunk+1, 2 chunk, 3 chunk+7} by PUT / multipart POST to the "
                "path / POST to the directory, overwritten and appended to; appends onto files made by PUT, POST, append, "
                "gRPC CreateEntry with and without FileSize, gRPC AppendToEntry, inline content, or absent; bodies breaking "
                "off after j in {0, 1, limit-1, limit, chunk-1, chunk, chunk+1} bytes by a failing reader (chunked), a "
                "half-closed raw connection (Content-Length and chunked) and a reset connection; ?maxMB=2,3; paths below "
                "/etc; compressible text under .txt; (b) TLC-generated histories of FilerWriteImpl.tla mapped to real sizes: "
                "one witness per (stored layout, request), and every history up to the bound after which the procedure with "
                "the three known defects diverges; after every request the file is read back through the filer's GET and "
                "cut into slices of the uploaded bodies by byte comparison; non-trivial = a non-empty successful write or a "
                "failing body; quick tier samples (seeded)")
    ctx.exhaustive = False
    ctx.assumptions += ["one request at a time (after a broken request the driver waits until the filer's handler has returned)",
                        "bodies are recognisable: the low nibble of every byte is the body's ordinal (at most 15 bodies per execution)",
                        "an error answer to a complete body is admitted with the file unchanged or fully written (e.g. 'append to small file is not supported yet')",
                        "leveldb2 store, one volume server, no replication; chunk encryption (cipher) only in the thorough tier"]
