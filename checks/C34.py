"""C34 - volume server access control with signed tokens (Guard.tla): with a signing key configured
for the class of an operation, only an unexpired HMAC token signed with that key whose fid claim names
the target file gets through; everything else is refused with nothing returned and nothing changed."""
import json
import os
import random

import vf

CONFIGS = [{"w": "", "r": ""}, {"w": "k1", "r": ""}, {"w": "", "r": "k2"}, {"w": "k1", "r": "k2"}, {"w": "k1", "r": "k1"}]
FORMS = ["plain", "suffix", "ext", "path", "pathname", "lzvid"]
VIAS = ["query", "bearer", "bearerlower"]


def cfgname(c):
    return "w=%s,r=%s" % (c["w"], c["r"])


def run(ctx):
    ctx.sany("Guard", "GuardTrace")
    rng = random.Random(ctx.seed)
    def cfgset(cs):
        return vf.Raw("{" + ", ".join(vf.tla_lit(c) for c in cs) + "}")

    cfgs = cfgset(CONFIGS)
    keyed = cfgset(CONFIGS[1:])
    # 1. the decision table itself: design properties over every configuration / token variation
    mc = ctx.instance("MC_Guard", "Guard", "Guard_mc.cfg",
                      {"Configs": cfgs, "TokDims": 2 if ctx.thorough else 1, "Forms": {"plain", "suffix"},
                       "Vias": {"query"}, "MaxOps": 1})
    ctx.model_check(mc, workers=4)
    if ctx.thorough:
        mc2 = ctx.instance("MC2_Guard", "Guard", "Guard_mc.cfg",
                           {"Configs": cfgs, "TokDims": 1, "Forms": {"plain"}, "Vias": {"query"}, "MaxOps": 2})
        ctx.model_check(mc2, workers=4, label="two operations")
    # 2. TLC enumerates the table: every operation x form x transport x token that differs from the valid
    #    one in one dimension, for every key configuration and both initial blob states
    gen_cfg = "SPECIFICATION Spec\nINVARIANT Emit\nCHECK_DEADLOCK FALSE"
    g1 = ctx.instance("G1_Guard", "Guard", gen_cfg,
                      {"Configs": cfgs, "TokDims": 1, "Forms": set(FORMS), "Vias": set(VIAS), "MaxOps": 1})
    hists = ctx.generate(g1, workers=4)
    ctx.notes["table_rows_enumerated"] = len(hists)

    def keep(h):
        r0, op = h[0], h[1]
        if not r0["present"] and op["op"] not in ("upload", "post", "read"):
            return False
        if ctx.thorough:
            return True
        # quick: the full token table for the canonical request, a seeded sample of the rest
        core = op["form"] in ("plain", "suffix") and op["via"] == "query"
        if r0["cfg"] == {"w": "", "r": ""}:
            return core and rng.random() < 0.3
        return core or rng.random() < 0.07

    rows = hists
    hists = [h for h in hists if keep(h)]
    # sequences: a refused request must not disturb what follows - 2-4 table rows (same key configuration)
    # applied to one blob, seeded random composition of the TLC-enumerated rows
    by_cfg = {}
    for h in rows:
        if h[0]["cfg"] != {"w": "", "r": ""}:
            by_cfg.setdefault(json.dumps(h[0]["cfg"], sort_keys=True), []).append(h)
    for _ in range(3000 if ctx.thorough else 300):
        pool = by_cfg[rng.choice(sorted(by_cfg))]
        first = rng.choice(pool)
        hists.append([first[0]] + [rng.choice(pool)[1] for _ in range(rng.randint(2, 4))])
    if ctx.thorough:
        # two dimensions of the token varied at once (seeded sample of the enumeration)
        g3 = ctx.instance("G3_Guard", "Guard", gen_cfg,
                          {"Configs": keyed, "TokDims": 2, "Forms": {"plain", "ext", "path"}, "Vias": {"query", "bearer"},
                           "MaxOps": 1})
        two = [h for h in ctx.generate(g3, workers=4) if h[0]["present"]]
        hists += rng.sample(two, min(len(two), 6000))

    script = os.path.join(ctx.out, "script.ndjson")
    if ctx.replay:
        script = os.path.abspath(ctx.replay)
    else:
        with open(script, "w") as f:
            for h in hists:
                for line in h:
                    if line.get("ev") == "op":
                        # a third of the requests carry a further query parameter that any client may send
                        line = dict(line, q=rng.choice(["type=replicate", "type=replicate", "fsync=true"]) if rng.random() < 0.35 else "")
                    f.write(json.dumps(line) + "\n")
    binp = ctx.build("c34")
    # viper (the signing keys) is process-global: one driver process per key configuration
    trace = os.path.join(ctx.out, "trace-all.ndjson")
    wanted = {json.dumps(json.loads(x)["cfg"], sort_keys=True) for x in open(script) if '"reset"' in x}
    with open(trace, "w") as out:
        for c in CONFIGS:
            if json.dumps(c, sort_keys=True) not in wanted:
                continue  # a replayed script names one configuration only
            t = ctx.drive(binp, ["--script", script, "--mode", cfgname(c)], name="trace-" + cfgname(c).replace(",", "_").replace("=", ""))
            out.write(open(t).read())

    def nontrivial(e):
        # a refusal that the configuration demanded, or a success that needed a token
        return any('"cls":"denied"' in x for x in e) or any('"cls":"ok"' in x for x in e[1:])

    def mutate(evs):
        # a request that was refused is turned into one that got through
        for i, e in enumerate(evs):
            if e["ev"] == "op" and e["res"]["cls"] == "denied" and e["tok"]["shape"] == "missing":
                m = json.loads(json.dumps(evs))
                m[i]["res"].update({"cls": "ok", "st": 200})
                return m
        return None

    ctx.judge("GuardTrace", trace, "trace_base.cfg",
              {"Configs": vf.Raw("{}"), "TokDims": 1, "Forms": vf.Raw("{}"), "Vias": vf.Raw("{}"), "MaxOps": 0},
              nontrivial=nontrivial, mutate=mutate)

    def mutate2(evs):
        # a refused request that nevertheless changed the volume
        for i, e in enumerate(evs):
            if e["ev"] == "op" and e["res"]["cls"] == "denied" and e["tok"]["claim"] == "otherkey":
                m = json.loads(json.dumps(evs))
                m[i]["res"]["changed"] = True
                return m
        return None

    ctx._selftest("GuardTrace", vf.split_execs(trace), "trace_base.cfg",
                  {"Configs": vf.Raw("{}"), "TokDims": 1, "Forms": vf.Raw("{}"), "Vias": vf.Raw("{}"), "MaxOps": 0},
                  set(ctx.kf_open.keys()), 600, False, mutate2)
    # vacuity guard (not a verdict): with keys configured the valid token must get through somewhere,
    # otherwise "everything is refused" would pass unnoticed
    ok_with_key = 0
    denied = 0
    for line in open(trace):
        if '"ev":"op"' not in line:
            continue
        e = json.loads(line)
        t = e["tok"]
        if (e["res"]["cls"] == "ok" and t["shape"] == "jwt" and t["alg"] == "HS256" and t["claim"] == "same"
                and t["exp"] == "future" and t["nbf"] == "absent"):
            ok_with_key += 1
        if e["res"]["cls"] == "denied":
            denied += 1
    ctx.notes["valid_token_accepted"] = ok_with_key
    ctx.notes["requests_refused"] = denied
    if not ctx.replay and (ok_with_key < 50 or denied < 50):
        raise vf.Infra("vacuous run: %d valid-token successes, %d refusals" % (ok_with_key, denied))
    ctx.rule = ("executions = TLC-enumerated decision table: key configuration {none, write, read, both, both-same} x "
                "initial blob state x operation {upload (PUT), post (multipart), delete, read, head} x request form (6) x transport (3) x every "
                "token that differs from the valid one in one dimension (shape, algorithm, key, exp, nbf, claim; thorough: "
                "a sample of two-dimension variations) + TLC-simulated 2-3 operation sequences; one driver process per "
                "key configuration; non-trivial = contains a refusal or a success; distinct by hash of the recorded execution")
    ctx.exhaustive = True
    ctx.assumptions += ["HMAC-SHA2 and RSA of the Go standard library (token construction in the driver) are trusted",
                        "the volume fingerprint (target needle and its +1 neighbour via VolumeNeedleStatus, .dat/.idx size "
                        "and file count via ReadVolumeFileStatus over gRPC) shows every change a request can make",
                        "expired / not-yet-valid tokens are one hour off (no wall-clock boundary cases)"]
