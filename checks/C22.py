"""C22 - metadata change subscribers see every change once, in order
(Subscribe.tla = the property, LogBufferImpl.tla = weed/util/log_buffer as implemented)."""
import json
import os
import random

import vf

READERS = {1, 2, 3}
# every scheduled execution ends the same way: Shutdown + all flushes, a late subscriber from the
# very beginning (it is served from the flushed data), every subscriber runs until it waits -> "end"
TAIL = [{"ev": "quiesce"}, {"ev": "start", "r": 3, "t0": 0}, {"ev": "drain"}]
HOOK = {"mode": "hook", "interval": 2, "cap": 2, "unit": 1, "k": 1, "psz": 8}
LAG = "C22-flush-lag-gap"


def impl_constants(**kw):
    c = {"Readers": {1}, "MaxBump": 1, "NSealed": 3, "Interval": 2, "Cap": 2, "MaxEvents": 4,
         "Deltas": {1, 3}, "MaxPending": 3, "SealFix": True, "KFB": set(), "MaxOps": 100}
    c.update(kw)
    return c


def write_script(path, scripts):
    with open(path, "w") as f:
        for cfg, ops in scripts:
            f.write(json.dumps(dict({"ev": "reset"}, **cfg)) + "\n")
            for op in ops:
                f.write(json.dumps(op) + "\n")


def public_cfg(interval):
    """NewLogBuffer itself: 4 MiB buffers, the timer goroutine asleep for 2 * `interval` seconds (far
    longer than an execution); logical time = 10 per 2 seconds (the last digit is room for bumped
    timestamps)"""
    return {"mode": "public", "interval": interval * 10, "cap": 100000, "unit": 2000000000, "k": 10, "psz": 8}


def to_public(ops):
    out = []
    for op in ops:
        op = dict(op)
        if op["ev"] == "append":
            op["req"] *= 10
        if op["ev"] == "start":
            op["t0"] *= 10
        out.append(op)
    return out


def random_scripts(rng, n, public=False, sizes=False):
    """G4: seeded random schedules (inputs only): appends with repeated / past / far-ahead
    timestamps, timer flushes, flusher steps, subscribers starting at 0, at exact event
    timestamps, one before / after them and in the future."""
    res = []
    for _ in range(n):
        interval = rng.choice([1, 2, 3, 5])
        cap = rng.choice([1, 2, 3, 4])
        cfg = dict(HOOK, interval=interval, cap=cap)
        ops = []
        ts, nid = 0, 0
        readers = []
        reqs = [0]
        for _ in range(rng.randint(8, 40)):
            x = rng.random()
            if x < 0.35:
                d = rng.choice([0, 1, 1, 1, 2, interval, interval + 1, interval + 2])
                ts = max(ts + d, 1)
                nid += 1
                reqs.append(ts)
                op = {"ev": "append", "id": nid, "req": ts}
                if not public and rng.random() < 0.1:
                    op["req"] = max(1, ts - rng.randint(1, 3))      # a request in the past: bumped
                if sizes:
                    op["psz"] = rng.choice([8, 8, 9, 15, 40, 300])   # 300 does not fit a small buffer
                ops.append(op)
            elif x < 0.42:
                ops.append({"ev": "tflush"})
            elif x < 0.55:
                ops.append({"ev": "fl1"})
            elif x < 0.66:
                ops.append({"ev": "fl2"})
            elif x < 0.74 and len(readers) < 2:
                r = len(readers) + 1
                readers.append(r)
                t0 = rng.choice([0, rng.choice(reqs), max(0, rng.choice(reqs) - 1), rng.choice(reqs) + 1, ts + 2])
                ops.append({"ev": "start", "r": r, "t0": t0})
            elif readers:
                r = rng.choice(readers)
                ops += [{"ev": "rd", "r": r}] * rng.choice([1, 1, 2, 4])
        if public:
            cfg = public_cfg(interval)
            ops = to_public(ops)
        res.append((cfg, ops + TAIL))
    return res


def e2e_scripts(ctx, rng):
    """end to end (a real filer): seeded schedules of namespace changes (create / update - also one that keeps
    the size - / delete / rename), forced flushes of the filer's metadata log, and three subscribers (two
    SubscribeMetadata, one SubscribeLocalMetadata) that start before everything, exactly at a change, or
    one nanosecond after one - in memory or in the flushed past. Inputs only."""
    def ch(k, a, b="", same=False):
        return {"ev": "ch", "k": k, "a": a, "b": b, "same": same}

    def start(r, at, d=0, zero=False):
        return {"ev": "start", "r": r, "kind": "loc" if r == 3 else "agg", "at": at, "d": d, "zero": zero}

    res = []
    # directed: 3 changes, flush, 2 changes, then subscribers at every kind of start point, 1 change, drain
    points = [(0, 0, False), (0, 0, True), (1, 0, False), (1, 1, False), (2, 0, False), (3, 0, False), (3, 1, False),
              (4, 0, False), (5, 0, False), (5, 1, False)]
    combos = []
    for i in range(0, len(points)):
        combos.append([points[i], points[(i + 3) % len(points)], points[(i + 7) % len(points)]])
    for i, tri in enumerate(combos if ctx.thorough else combos[ctx.seed % 2::2]):
        ops = [ch("create", "f1"), ch("create", "f2"), ch("update", "f1", same=(i % 2 == 0)), {"ev": "tflush"},
               ch("rename", "f2", "f3") if i % 3 == 0 else ch("create", "f3"), ch("delete", "f1")]
        order = [1, 2, 3] if i % 2 == 0 else [3, 1, 2]
        for r, (at, d, zero) in zip(order, tri):
            ops.append(start(r, at, d, zero))
        if i % 2 == 1:
            ops.append({"ev": "tflush"})
        ops += [ch("create", "f4"), {"ev": "sync"}, ch("update", "f4"), {"ev": "drain"}]
        res.append(ops)
    # random
    for _ in range(150 if ctx.thorough else 24):
        names, free, nlog = [], ["f%d" % k for k in range(1, 30)], 0
        ops, started, flushed_at = [], [], None
        nops = rng.randint(6, 14)
        startpos = {r: rng.randint(0, nops) for r in (1, 2, 3)}
        flushpos = set(rng.sample(range(1, nops + 1), rng.choice([1, 1, 2, 3])))
        for i in range(nops + 1):
            for r in (1, 2, 3):
                if startpos[r] == i:
                    x = rng.random()
                    if nlog == 0 or x < 0.2:
                        ops.append(start(r, 0, 0, rng.random() < 0.4))
                    else:
                        # half of the starts that can be in the flushed past are
                        hi = flushed_at if (flushed_at and rng.random() < 0.6) else nlog
                        ops.append(start(r, rng.randint(1, hi), rng.choice([0, 0, 1])))
            if i == nops:
                break
            if i in flushpos and nlog > 0:
                ops.append({"ev": "tflush"})
                flushed_at = nlog
            x = rng.random()
            if not names or x < 0.4:
                n = free.pop(0)
                names.append(n)
                ops.append(ch("create", n))
                nlog += 1
            elif x < 0.65:
                ops.append(ch("update", rng.choice(names), same=rng.random() < 0.5))
                nlog += 1
            elif x < 0.8:
                n = names.pop(rng.randrange(len(names)))
                ops.append(ch("delete", n))
                nlog += 1
            else:
                a = names.pop(rng.randrange(len(names)))
                b = free.pop(0)
                names.append(b)
                ops.append(ch("rename", a, b))
                nlog += 2
            if rng.random() < 0.25:
                ops.append({"ev": "sync"} if rng.random() < 0.5 else {"ev": "rd", "r": rng.randint(1, 3)})
        ops.append({"ev": "drain"})
        res.append(ops)
    return [({"mode": "e2e"}, ops) for ops in res]


def e2e_mutate(evs):
    """binding self-test: one delivery lost (not a repeated one)"""
    for i, e in enumerate(evs):
        if e["ev"] == "rd" and len(e["got"]) >= 1 and any(x["ev"] == "end" and x["r"] == e["r"] for x in evs):
            ids = [g[0] for x in evs if x["ev"] == "rd" and x["r"] == e["r"] for g in x["got"]]
            if len(set(ids)) != len(ids):
                continue
            m = [dict(x) for x in evs]
            m[i]["got"] = e["got"][1:]
            return m
    return None


def e2e_nontrivial(e):
    return sum(1 for x in e if '"ev":"rd"' in x and '"got":[]' not in x) >= 2


def e2e(ctx, consts, nontrivial, mutate):
    """5. end to end: Filer.NotifyUpdateEvent / logMetaEvent / logFlushFunc / ReadPersistedLogBuffer and the two
    subscription handlers of the real filer server, judged by the same layer-A judge"""
    binp = ctx.build("c22e")
    if ctx.replay:
        tr_ = ctx.drive(binp, ["--script", os.path.abspath(ctx.replay)], name="e2e", timeout=900)
    else:
        # a fresh filer every 50 executions: a driver process stays well below the minute after which the log
        # buffers' own timers fire (an execution in which one does is not recorded)
        scripts = e2e_scripts(ctx, random.Random(ctx.seed * 7919 + 22))
        tr_ = os.path.join(ctx.out, "e2e.ndjson")
        parts = []
        for k in range(0, len(scripts), 50):
            script = os.path.join(ctx.out, "script_e2e%d.ndjson" % (k // 50))
            write_script(script, scripts[k:k + 50])
            parts.append(ctx.drive(binp, ["--script", script], name="e2e_%d" % (k // 50), timeout=900))
        with open(tr_, "w") as f:
            for q in parts:
                f.write(open(q).read())
        ctx.notes["e2e_executions"] = {"scheduled": len(scripts),
                                       "recorded": sum(1 for l in open(tr_) if '"ev":"reset"' in l[:60])}
    ctx.judge("SubscribeTrace", tr_, "trace_base.cfg", consts, nontrivial=nontrivial, mutate=None if ctx.replay else mutate,
              label="e")


def gen_scripts(ctx):
    T = ctx.thorough
    rng = random.Random(ctx.seed)
    # (a) the schedules on which the model of the code AS IT WAS (SealBuffer returning the memory of
    #     the shifted slot 0) breaks the property: TLC finds them, the real code replays them
    bad = ctx.instance("GB_LogBufferImpl_alias", "LogBufferImpl",
                       "SPECIFICATION Spec\nINVARIANT EmitBad\nCONSTRAINT Good\nVIEW MCView\nCHECK_DEADLOCK FALSE",
                       impl_constants(SealFix=False, MaxEvents=5, Deltas={3}, MaxOps=9 if T else 8))
    alias = ctx.generate(bad, workers=4, timeout=900)
    if not alias:
        raise vf.Infra("the model of the unfixed SealBuffer no longer breaks the property")
    # (b) the same for the flusher falling more than the sealed buffers behind (open finding)
    lagm = ctx.instance("GB_LogBufferImpl_lag", "LogBufferImpl",
                        "SPECIFICATION Spec\nINVARIANT EmitBad\nCONSTRAINT Good\nVIEW MCView\nCHECK_DEADLOCK FALSE",
                        impl_constants(MaxPending=5, MaxEvents=6, Deltas={3}, MaxOps=10 if T else 8))
    lag = ctx.generate(lagm, workers=4, timeout=900)
    if not lag:
        raise vf.Infra("the model no longer shows the flush-lag gap")
    ctx.notes["model_counterexamples_replayed"] = {"sealbuffer_alias": len(alias), "flush_lag": len(lag)}
    # (c) G2: one shortest schedule per (shape of the implementation state, incoming step)
    def g2(name, readers, depth):
        inst = ctx.instance(name, "LogBufferImpl", "SPECIFICATION Spec\nINVARIANT EmitW\nVIEW View\nCHECK_DEADLOCK FALSE",
                            impl_constants(MaxEvents=6, Deltas={0, 1, 3}, MaxOps=depth, MaxPending=5, Readers=readers))
        return ctx.generate(inst, workers=4, timeout=1500)
    wit = g2("G2_LogBufferImpl", {1}, 10 if T else 7)
    ctx.notes["g2_witnesses"] = len(wit)
    if T:
        wit2 = g2("G2_LogBufferImpl_2readers", {1, 2}, 7)
        ctx.notes["g2_witnesses_2readers"] = len(wit2)
        wit += wit2[ctx.seed % 4::4]
    else:
        wit = wit[ctx.seed % 6::6]
    model = alias[: 400 if T else 60] + lag[: 400 if T else 60] + wit
    nsnap = 3000 if T else 250      # these are also recorded with state snapshots (layer-B conformance)
    scripts = [(dict(HOOK, snap=i < nsnap), h + TAIL) for i, h in enumerate(model)]
    # (d) G4 random schedules, (e) the same through the public constructor
    rnd = random_scripts(rng, 3000 if T else 300) + random_scripts(rng, 1000 if T else 100, sizes=True)
    pub = [(public_cfg(2), to_public(h + TAIL)) for h in model[:: 40 if T else 20]]
    pub += random_scripts(rng, 200 if T else 40, public=True)
    return scripts, rnd + pub


def run(ctx):
    ctx.sany("Subscribe", "SubscribeMC", "LogBufferImpl", "SubscribeTrace", "LogBufferImplTrace")
    T = ctx.thorough
    dev = bool(os.environ.get("C22_DEV"))
    kfb = set(ctx.kf_open.keys()) & {LAG}
    if os.environ.get("C22_ONLY") == "e2e":        # development / mutation testing of the end-to-end part alone
        e2e(ctx, {"Readers": READERS, "MaxBump": 2}, e2e_nontrivial, e2e_mutate)
        return
    # 1. layer A alone: the statement's wording (once, in order, nothing older, no gap) follows
    #    from the prefix formulation that the judge uses
    a = ctx.instance("MC_Subscribe", "SubscribeMC", "Subscribe_mc.cfg",
                     {"Readers": {1, 2} if T else {1}, "MaxBump": 2, "AMaxLog": 4 if T else 3, "AMaxTs": 4 if T else 3})
    if not dev:
        ctx.model_check(a, workers=4)
    # 2. layer B, every interleaving of appender, timer, flusher and subscriber(s):
    #    strictly while the flusher is at most the sealed buffers behind ...
    b = ctx.instance("MC_LogBufferImpl", "LogBufferImpl", "LogBufferImpl_mc.cfg",
                     impl_constants(MaxEvents=5 if T else 4), )
    if not dev:
        ctx.model_check(b, workers=4, timeout=1500, label="flusher <= 3 buffers behind, strict")
    #    ... and with the listed lag deviation as the only excuse when it is further behind
    if T and not dev:
        b2 = ctx.instance("MC_LogBufferImpl_lag", "LogBufferImpl", "LogBufferImpl_mc.cfg",
                          impl_constants(MaxEvents=6, Deltas={3}, MaxPending=6, KFB=kfb))
        ctx.model_check(b2, workers=4, timeout=1500, label="flusher any distance behind, lag deviation admitted")
    script = os.path.join(ctx.out, "script.ndjson")
    binp = ctx.build("c22")
    consts = {"Readers": READERS, "MaxBump": 2}

    def mutate(evs):
        for i, e in enumerate(evs):
            if e["ev"] == "rd" and len(e["got"]) >= 1 and any(x["ev"] == "end" and x["r"] == e["r"] for x in evs):
                ids = [g[0] for x in evs if x["ev"] == "rd" and x["r"] == e["r"] for g in x["got"]]
                if len(set(ids)) != len(ids):
                    continue                        # (losing a repeated delivery is no corruption)
                m = [dict(x) for x in evs]
                m[i]["got"] = e["got"][1:]          # one delivery lost
                return m
        return None

    def nontrivial(e):
        return sum(1 for x in e if '"ev":"rd"' in x and '"got":[]' not in x) >= 2

    if ctx.replay and '"mode":"e2e"' in open(ctx.replay).readline().replace(" ", ""):
        e2e(ctx, consts, nontrivial, mutate)
        return
    if ctx.replay:
        trace = ctx.drive(binp, ["--script", os.path.abspath(ctx.replay)])
        ctx.judge("SubscribeTrace", trace, "trace_base.cfg", consts, nontrivial=nontrivial)
        return
    model, other = gen_scripts(ctx)
    write_script(script, model + other)
    trace = ctx.drive(binp, ["--script", script])
    ctx.judge("SubscribeTrace", trace, "trace_base.cfg", consts, nontrivial=nontrivial, mutate=mutate)
    # 3. conformance of layer B (advisory): the model-generated schedules, replayed with a snapshot of
    #    the unexported state after every step, must be steps of the model with the same state
    conformance(ctx, trace, len(model))
    # 4. free-running goroutines (appender, timer, flusher, subscribers); thorough: under the race detector
    if T:
        rbin = ctx.build("c22", race=True)
        st = ctx.drive(rbin, ["--mode", "race", "--n", 300], name="storm", timeout=1500)
    else:
        st = ctx.drive(binp, ["--mode", "storm", "--n", 40], name="storm")
    ctx.judge("SubscribeTrace", st, "trace_base.cfg", consts, nontrivial=nontrivial, label="s")
    e2e(ctx, consts, nontrivial, mutate)
    ctx.rule = ("executions = (1) schedules generated by TLC from the implementation-shaped model (every schedule on "
                "which the model of the unfixed SealBuffer / of a lagging flusher breaks the property, and one shortest "
                "schedule per shape of (buffer, sealed slots, flusher, reader position) x incoming step), replayed "
                "step by step on the real LogBuffer (gated flushFn, gated subscriber callbacks); (2) seeded random "
                "schedules incl. variable and oversize payloads; (3) the same through NewLogBuffer itself; (4) "
                "free-running goroutine storms (thorough: race detector). Every execution ends with Shutdown, a "
                "late subscriber from 0 and all subscribers drained; (5) end to end on a real filer (quick ~30, thorough "
                "~160 seeded schedules): create / update / delete / rename through gRPC, forced flushes of the filer's "
                "metadata log into segment files, two SubscribeMetadata and one SubscribeLocalMetadata client starting "
                "before everything / exactly at a change / 1 ns after one, in memory or in the flushed past, drained on a "
                "marker change. non-trivial = at least 2 non-empty deliveries; "
                "distinct by hash of the recorded execution")
    ctx.exhaustive = False
    ctx.assumptions += [
        "the persisted log of the subscriber loop is the byte stream handed to flushFn (read back with "
        "filer.ReadEachLogEntry as ReadPersistedLogBuffer does); the filer's own segment files are not involved",
        "one appender per execution (the order of AddToBuffer calls is the order of the log)",
        "a bumped timestamp may be anything up to 2 ns later than the previous one",
        "the race detector only sees the interleavings of the thorough tier's storm (300 executions)",
        "end to end: one filer, one directory per execution as path prefix, entries without chunks; an execution "
        "during which a log buffer's own once-a-minute timer fired is not recorded; the log is what the filer put "
        "into its buffer (read back after every operation)",
    ]


def conformance(ctx, trace, nmodel):
    execs = vf.split_execs(trace)[:nmodel]
    execs = [e for e in execs if '"snap":true' in e[0].replace(" ", "")]
    cons = impl_constants(Readers=READERS, MaxEvents=100, MaxPending=100, MaxOps=100000, KFB=set())
    chunks = [execs[i:i + 400] for i in range(0, len(execs), 400)]
    bad = 0
    for ci, ch in enumerate(chunks):
        acc = ctx._judge_chunk("LogBufferImplTrace", ch, "trace_base.cfg", cons, set(), 900, False, "conf%d" % ci)
        for xi, e in enumerate(ch):
            if not acc.get(xi + 1):
                bad += 1
                if len(ctx.model_drift) < 5:
                    ctx.model_drift.append({"spec": "LogBufferImpl", "execution": [json.loads(x) for x in e[:40]]})
    ctx.notes["layerB_conformance"] = {"executions": len(execs), "not_reproduced_by_model": bad}
    vf.log("layer-B conformance: %d executions, %d not reproduced by the model" % (len(execs), bad))
