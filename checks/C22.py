"""C22 - metadata change subscribers see every change once, in order
(Subscribe.tla / LogBufferImpl.tla on weed/util/log_buffer)."""
import json
import os
import random

READERS = {1, 2, 3}
TAIL = [{"ev": "quiesce"}, {"ev": "start", "r": 3, "t0": 0}, {"ev": "drain"}]


def impl_constants(**kw):
    c = {"Readers": {1}, "MaxBump": 1, "NSealed": 3, "Interval": 2, "Cap": 2, "MaxEvents": 4,
         "Deltas": {1, 3}, "MaxPending": 3, "SealFix": True, "KFB": set(), "MaxOps": 100}
    c.update(kw)
    return c


def write_script(path, scripts):
    with open(path, "w") as f:
        for cfg, ops in scripts:
            f.write(json.dumps(dict({"ev": "reset"}, **cfg)) + "\n")
            for op in ops:
                f.write(json.dumps(op) + "\n")


HOOK = {"mode": "hook", "interval": 2, "cap": 2, "unit": 1, "k": 1, "psz": 8}


def public_cfg(interval):
    return {"mode": "public", "interval": interval * 10, "cap": 100000, "unit": 1000000000, "k": 10, "psz": 8}


def to_public(ops):
    """the same schedule on the 10-per-second grid of the public-constructor executions"""
    out = []
    for op in ops:
        op = dict(op)
        if op["ev"] == "append":
            op["req"] *= 10
        if op["ev"] == "start":
            op["t0"] *= 10
        out.append(op)
    return out


def random_scripts(rng, n, public=False):
    """G4: seeded random schedules (inputs only)."""
    res = []
    for _ in range(n):
        interval = rng.choice([1, 2, 3, 5])
        cap = rng.choice([1, 2, 3, 4])
        cfg = dict(HOOK, interval=interval, cap=cap)
        ops = []
        ts, nid = 0, 0
        readers = []
        reqs = [0]
        for _ in range(rng.randint(8, 40)):
            x = rng.random()
            if x < 0.35:
                d = rng.choice([0, 1, 1, 1, 2, interval, interval + 1, interval + 2])
                ts = max(ts + d, 1)
                nid += 1
                reqs.append(ts)
                op = {"ev": "append", "id": nid, "req": ts}
                if not public and rng.random() < 0.1:
                    op["req"] = max(1, ts - rng.randint(1, 3))      # a request in the past: bumped
                ops.append(op)
            elif x < 0.42:
                ops.append({"ev": "tflush"})
            elif x < 0.55:
                ops.append({"ev": "fl1"})
            elif x < 0.66:
                ops.append({"ev": "fl2"})
            elif x < 0.74 and len(readers) < 2:
                r = len(readers) + 1
                readers.append(r)
                t0 = rng.choice([0, rng.choice(reqs), max(0, rng.choice(reqs) - 1), rng.choice(reqs) + 1, ts + 2])
                ops.append({"ev": "start", "r": r, "t0": t0})
            elif readers:
                r = rng.choice(readers)
                ops += [{"ev": "rd", "r": r}] * rng.choice([1, 1, 2, 4])
        if public:
            cfg = public_cfg(interval)
            ops = [o for o in to_public(ops)]
        res.append((cfg, ops + TAIL))
    return res


def run(ctx):
    ctx.sany("Subscribe", "SubscribeMC", "LogBufferImpl", "SubscribeTrace")
    T = ctx.thorough
    # 1. layer A alone: the statement's wording follows from the prefix formulation
    a = ctx.instance("MC_Subscribe", "SubscribeMC", "Subscribe_mc.cfg",
                     {"Readers": {1, 2} if T else {1}, "MaxBump": 2, "AMaxLog": 4 if T else 3, "AMaxTs": 4 if T else 3})
    if not os.environ.get("C22_DEV"):
        ctx.model_check(a, workers=4)
    # 2. layer B: every interleaving of appender, timer, flusher and reader(s) keeps the property
    b = ctx.instance("MC_LogBufferImpl", "LogBufferImpl", "LogBufferImpl_mc.cfg",
                     impl_constants(MaxEvents=5 if T else 4))
    if not os.environ.get("C22_DEV"):
        ctx.model_check(b, workers=4, timeout=1500)
    scripts = []
    # 3. generators
    g2 = ctx.instance("G2_LogBufferImpl", "LogBufferImpl",
                      "SPECIFICATION Spec\nINVARIANT EmitW\nVIEW View\nCHECK_DEADLOCK FALSE",
                      impl_constants(MaxEvents=6, Deltas={0, 1, 3}, MaxOps=14 if T else 10, MaxPending=5, Readers={1, 2} if T else {1}))
    for h in ctx.generate(g2, workers=4, timeout=1500):
        scripts.append((HOOK, h + TAIL))
    rng = random.Random(ctx.seed)
    scripts += random_scripts(rng, 3000 if T else 400)
    pub = [(public_cfg(2), to_public(ops)) for cfg, ops in scripts[: 300 if T else 60]]
    pub += random_scripts(rng, 300 if T else 60, public=True)
    script = os.path.join(ctx.out, "script.ndjson")
    if ctx.replay:
        script = ctx.replay
    else:
        write_script(script, scripts + pub)
    binp = ctx.build("c22")
    trace = ctx.drive(binp, ["--script", script])

    def mutate(evs):
        for i, e in enumerate(evs):
            if e["ev"] == "rd" and len(e["got"]) >= 1 and any(x["ev"] == "end" and x["r"] == e["r"] for x in evs):
                m = [dict(x) for x in evs]
                m[i]["got"] = e["got"][1:]          # one delivery lost
                return m
        return None

    consts = {"Readers": READERS, "MaxBump": 2}
    ctx.judge("SubscribeTrace", trace, "trace_base.cfg", consts,
              nontrivial=lambda e: sum(1 for x in e if '"ev":"rd"' in x and '"got":[]' not in x) >= 2, mutate=mutate)
    ctx.rule = "TODO"
    ctx.exhaustive = False
