"""C05 - volume index: every needle map agrees with the reference map (NeedleMapSpec.tla).

TLC model-checks the reference map (layer A) and the implementation-shaped model of
compact_map.go (layer B, refinement of layer A), generates the histories, and judges what
harness/cmd/c05 recorded from the real CompactMap / MemDb / NeedleMap (in-memory) /
LevelDbNeedleMap / SortedFileNeedleMap.  Python only maps abstract histories onto
scenarios (tables of real 64-bit keys and offsets, bulk fills that shape the sections)."""
import json
import os
import random

B = 1000000
W = 1 << 32
BATCH = 100000  # compact_map.go: const batch


def scenario(name, keys, fills=()):
    keys = sorted(set(keys))
    idx = {k: i for i, k in enumerate(keys)}
    fl = []
    fillkeys = set()
    for (base, n, stride) in fills:
        ks = [base + i * stride for i in range(n)]
        assert not (fillkeys & set(ks)), "fills must be disjoint"
        fillkeys |= set(ks)
        hit = sorted(idx[k] for k in ks if k in idx)
        assert ks[-1] in idx, "the greatest fill key must be a token"
        fl.append({"ev": "fill", "base": str(base), "n": n, "stride": stride, "o": 0, "s": 3,
                   "hit": hit, "top": idx[ks[-1]]})
    alias = []
    for k in keys:
        for a in keys:
            if a < k and (k - a) % W == 0:
                alias.append([idx[k], idx[a]])
        # a key that is a multiple of 2^32 above a bulk-fill key must be a token's alias, not a stranger's
        for (base, n, stride) in fills:
            d = (k - base) % W
            if k - base >= W and d % stride == 0 and d // stride < n:
                assert base + d in idx, "alias of a token must be a token"
    assert 0 not in keys
    return {"name": name, "keys": keys, "fills": fl, "alias": alias, "cost": sum(f["n"] for f in fl)}


def scenarios():
    """name -> scenario; the `-alias` variants add token keys a multiple of 2^32 above other tokens
    (kept apart so that most executions are judged without the C05-key-alias deviation)"""
    sc = {}

    def both(name, keys, alias_keys, fills=()):
        sc[name] = scenario(name, keys, fills)
        sc[name + "-alias"] = scenario(name + "-alias", keys + alias_keys, fills)
    # no bulk load: one young section, keys below its start, close and far keys
    both("plain", [B - 7, B, B + 1, B + 2, B + 130, B + W - 1, (1 << 63) + 11], [B + W, B + W + 1, B + 2 * W])
    # 200 ascending keys with gaps: early gap keys go to the overflow list, late gap keys are
    # inserted inside the 128-entry look-back window, keys above extend the section
    both("ovf", [B - 7, B, B + 1, B + 4, B + 5, B + 4 * 190 + 1, B + 4 * 199, B + 800, B + W - 1],
         [B + W + 1, B + W + 4], fills=[(B, 200, 4)])
    # a full section (batch entries): gap keys overflow, the key after `end` opens a new section
    both("full", [B - 7, B, B + 1, B + 2, B + 3, B + 2 * (BATCH - 1), B + 2 * BATCH - 1, B + 2 * BATCH + 5],
         [B + W + 1], fills=[(B, BATCH, 2)])
    # two sections: a full one followed by a young one; keys between them, gap keys in the second
    s2 = B + BATCH + 50
    both("two", [B + 5, B + BATCH - 1, B + BATCH, s2, s2 + 1, s2 + 3 * 295 + 1, s2 + 3 * 299, s2 + 3 * 300],
         [s2 + W + 1], fills=[(B, BATCH, 1), (s2, 300, 3)])
    return sc


# key choices for the 3-key TLC histories (by real key), besides random ones
FOCUS = {"plain": [[B, B + 1, B + 2], [B - 7, B + 1, B + W - 1], [B + 2, B + 1, B]],
         "plain-alias": [[B, B + 1, B + W], [B, B + W, B + 2 * W], [B - 7, B + 1, B + W + 1]],
         "ovf": [[B + 1, B + 4, B + 5], [B + 5, B + 1, B + 761], [B + 4, B + 796, B + 800]],
         "ovf-alias": [[B + 1, B + 4, B + W + 1], [B, B + 4, B + W + 4], [B + 1, B + 5, B + W + 1]]}


def offsets(five):
    # in 8-byte units; token 0 is used by fills.  5-byte build: pairs that differ only in the 5th byte
    if five:
        return [5, (1 << 32) + 5, 9, (1 << 39) + 9]
    return [5, (1 << 32) - 1, 9, 1 << 31]


def emit(f, sc, kind, offs, ops, build):
    f.write(json.dumps({"ev": "reset", "build": build, "kind": kind, "sc": sc["name"], "keys": [str(k) for k in sc["keys"]],
                        "offs": [str(o) for o in offs], "pairs": sc["alias"]}) + "\n")
    for e in sc["fills"]:
        f.write(json.dumps(e) + "\n")
    for e in ops:
        f.write(json.dumps(e) + "\n")


def adapt(hist, kind, keymap, rng, freeze):
    """abstract history (keys 0..K-1, offset tokens, sizes) -> operations of one execution"""
    ops = []
    frozen = False
    fz = rng.randrange(1, len(hist) + 1) if freeze else -1
    for i, h in enumerate(hist):
        if i == fz:
            ops.append({"ev": "freeze"})
            frozen = True
        e = dict(h)
        if "k" in e:
            e["k"] = keymap[e["k"]]
        if e["ev"] == "reload":
            if kind == "cm":
                continue
            e["how"] = rng.choice(["reopen", "regen"])
        if e["ev"] == "put" and frozen:
            continue
        ops.append(e)
        if kind in ("cm", "memdb") and rng.random() < 0.25:
            ops.append({"ev": "visit"})
    if kind in ("cm", "memdb"):
        ops.append({"ev": "visit"})
    return ops


def random_hist(rng, nkeys, noffs, length, reachable):
    ops = []
    live = set()
    for _ in range(length):
        r = rng.random()
        if r < 0.5 or (reachable and not live and r < 0.9):
            k = rng.randrange(nkeys)
            ops.append({"ev": "put", "k": k, "o": rng.randrange(noffs), "s": rng.choice([1, 3, 5, 8, 100])})
            live.add(k)
        elif r < 0.8:
            k = rng.choice(sorted(live)) if reachable and live else rng.randrange(nkeys)
            ops.append({"ev": "del", "k": k, "o": rng.randrange(1, noffs)})
            live.discard(k)
        elif r < 0.9:
            ops.append({"ev": "reload", "how": "reopen"})
        else:
            ops.append({"ev": "get", "k": rng.randrange(nkeys)})
    return ops


def drive_parallel(ctx, binp, script, name, n):
    """split the script into n parts (round robin over executions) and run n driver processes"""
    from concurrent.futures import ThreadPoolExecutor
    parts = [[] for _ in range(n)]
    i = -1
    with open(script) as f:
        for line in f:
            if '"ev": "reset"' in line[:40] or '"ev":"reset"' in line[:40]:
                i += 1
            parts[i % n].append(line)
    parts = [p for p in parts if p]
    paths = []
    for j, p in enumerate(parts):
        pp = os.path.join(ctx.out, "%s-part%d.script" % (name, j))
        with open(pp, "w") as f:
            f.writelines(p)
        paths.append(pp)
    with ThreadPoolExecutor(max_workers=n) as pool:
        outs = list(pool.map(lambda jp: ctx.drive(binp, ["--script", jp[1]], name="%s-part%d" % (name, jp[0])),
                             enumerate(paths)))
    trace = os.path.join(ctx.out, name + ".ndjson")
    with open(trace, "w") as w:
        for o in outs:
            with open(o) as f:
                w.write(f.read())
            os.remove(o)
    for pp in paths:
        os.remove(pp)
    return trace


def run(ctx):
    ctx.sany("NeedleMapSpec", "NeedleMapTrace", "CompactMapImpl")
    th = ctx.thorough
    rng = random.Random(ctx.seed)
    # ---- 1. layer A: the reference map and its counters, every history up to the bound
    mc = ctx.instance("MC_NeedleMap", "NeedleMapSpec", "NeedleMapSpec_mc.cfg",
                      {"NKeys": 3 if th else 2, "Offs": {0, 1}, "Sizes": {3, 5}, "MaxOps": 4 if th else 3, "Reachable": False})
    ctx.model_check(mc, workers=4, label="layer A: counters = live set, replay rebuilds map and counters")
    # ---- 2. layer B: compact_map.go (sections, look-back insertion, overflow, uint32 wrap) refines layer A
    kfb = set(ctx.kf_open.keys())
    bcons = {"Batch": 3, "LookBack": 2, "Wrap": 4, "BKeys": {1, 2, 3, 4, 5, 9},
             "NKeys": 10, "Offs": {1, 11}, "Sizes": {3}, "Reachable": False, "MaxOps": 6 if th else 5, "KFB": kfb, "FixS5": True, "FixS8": True}
    mb = ctx.instance("MC_CompactMap", "CompactMapImpl", "CompactMapImpl_mc.cfg", bcons)
    ctx.model_check(mb, workers=4, timeout=1200, label="layer B refines layer A (with the listed deviations)")
    if th:
        # sensitivity of the model: the three compact-map defects are counterexamples of the refinement
        for nm, cons, inv in (("S5", dict(bcons, FixS5=False), "Refines"),
                              ("S8", dict(bcons, FixS8=False), "DeleteResult"),
                              ("S6", dict(bcons, KFB=set()), "Refines")):
            mx = ctx.instance("MC_CompactMap_" + nm, "CompactMapImpl", "CompactMapImpl_mc.cfg", cons)
            ctx.model_check(mx, workers=4, timeout=1200, expect_violation=inv, coverage=False,
                            label="layer B without the repair/deviation %s: counterexample expected" % nm)
    # ---- 3. histories
    K = 3
    g1 = ctx.instance("G1_NeedleMap", "NeedleMapSpec", "SPECIFICATION Spec\nINVARIANT Emit\nCHECK_DEADLOCK FALSE",
                      {"NKeys": K, "Offs": {0, 1}, "Sizes": {3, 5}, "MaxOps": 3, "Reachable": False})
    h_all = ctx.generate(g1, workers=4)
    g2 = ctx.instance("G2_NeedleMap", "NeedleMapSpec",
                      "SPECIFICATION Spec\nINVARIANT EmitW\nVIEW View\nCHECK_DEADLOCK FALSE",
                      {"NKeys": K, "Offs": {0, 1}, "Sizes": {3, 5}, "MaxOps": 5 if th else 4, "Reachable": True})
    h_wit = ctx.generate(g2, workers=4, timeout=1500)
    rng.shuffle(h_wit)
    h_sim = []
    if th:
        g3 = ctx.instance("G3_NeedleMap", "NeedleMapSpec", "SPECIFICATION Spec\nINVARIANT Emit\nCHECK_DEADLOCK FALSE",
                          {"NKeys": K, "Offs": {0, 1}, "Sizes": {3, 5}, "MaxOps": 14, "Reachable": False})
        h_sim = ctx.generate(g3, simulate=1500, depth=15)
    ctx.notes["histories"] = {"G1_all_len3": len(h_all), "G2_witnesses": len(h_wit), "G3_random_walks": len(h_sim)}
    scs = scenarios()
    builds = [("default", ("verif",), False), ("5BytesOffset", ("verif", "5BytesOffset"), True)]
    total_rejected = 0
    light = [scs["plain"], scs["ovf"]] * 4 + [scs["plain-alias"], scs["ovf-alias"]]   # 20 % with alias tokens
    for bname, tags, five in builds:
        offs = offsets(five)
        script = os.path.join(ctx.out, "script-%s.ndjson" % bname)
        scale = 6 if th else (0.25 if five else 0.5)
        # executions per kind: (TLC histories of length 3, TLC witnesses, random long histories)
        plan = {"cm": (400, 150, 80), "mem": (150, 100, 60), "sorted": (60, 60, 40), "ldb": (40, 40, 20),
                "memdb": (60, 40, 20)}
        n_exec = 0
        if ctx.replay:
            script = ctx.replay     # a saved execution names the build it was recorded with
            with open(script) as f:
                if json.loads(f.readline()).get("build", bname) != bname:
                    continue
        else:
            with open(script, "w") as f:
                for kind0, (n1, n2, n3) in plan.items():
                    kind, freeze = ("mem", True) if kind0 == "sorted" else (kind0, False)
                    n1, n2, n3 = int(n1 * scale), int(n2 * scale), int(n3 * scale)
                    hs = h_all if n1 >= len(h_all) else rng.sample(h_all, n1)
                    hs = hs + (h_wit if n2 >= len(h_wit) else rng.sample(h_wit, n2))
                    if h_sim:
                        hs = hs + rng.sample(h_sim, min(len(h_sim), n3))
                    for h in hs:
                        sc = rng.choice(light)
                        # fixed key choices that include an alias pair, or any three token keys
                        if rng.random() < 0.6:
                            km = [sc["keys"].index(k) for k in rng.choice(FOCUS[sc["name"]])]
                        else:
                            km = rng.sample(range(len(sc["keys"])), K)
                        emit(f, sc, kind, offs, adapt(h, kind, km, rng, freeze), bname)
                        n_exec += 1
                    for i in range(n3):
                        sc = rng.choice(light)
                        h = random_hist(rng, len(sc["keys"]), len(offs), rng.choice([8, 16, 30]), i % 2 == 0)
                        emit(f, sc, kind, offs, adapt(h, kind, list(range(len(sc["keys"]))), rng, freeze), bname)
                        n_exec += 1
                # heavy scenarios: full sections (100 000 entries each), long random histories
                for kind, n in (("cm", 48 if th else 6), ("mem", 24 if th else 2), ("ldb", 4 if th else 1)):
                    if five and not th:
                        n = (n + 1) // 2
                    for i in range(n):
                        sc = scs[("full" if i % 2 == 0 else "two") + ("-alias" if i % 4 >= 2 else "")]
                        h = random_hist(rng, len(sc["keys"]), len(offs), 24, i % 3 == 0)
                        emit(f, sc, kind, offs, adapt(h, kind, list(range(len(sc["keys"]))), rng,
                                                      kind == "mem" and i % 4 == 3), bname)
                        n_exec += 1
        binp = ctx.build("c05", tags=tags)
        trace = drive_parallel(ctx, binp, script, "trace-" + bname, 4)

        def mutate(evs):
            for i, e in enumerate(evs):
                if e["ev"] == "snap":
                    js = [j for j, g in enumerate(e["got"]) if g["f"] and g["s"] > 0]
                    if js:
                        mm = [dict(x) for x in evs]
                        gg = [dict(g) for g in e["got"]]
                        gg[js[0]]["s"] += 1
                        mm[i]["got"] = gg
                        return mm
            return None

        total_rejected += ctx.judge(
            "NeedleMapTrace", trace, "trace_base.cfg",
            {"NKeys": 0, "Offs": set(), "Sizes": set(), "MaxOps": 0, "Reachable": False},
            nontrivial=lambda e: sum(1 for x in e if '"ev":"del"' in x or '"ev":"reload"' in x) >= 1 and len(e) >= 6,
            mutate=mutate, label=bname, jobs=6)
        ctx.notes.setdefault("executions_per_build", {})[bname] = n_exec
    ctx.rule = ("executions = (scenario: table of real 64-bit keys incl. keys 2^32 apart, below the section start and "
                "far away, with bulk fills that create a 200-entry section with gaps / a full 100000-entry section / "
                "two sections) x (kind: raw CompactMap, MemDb, in-memory NeedleMap, LevelDbNeedleMap, in-memory map "
                "frozen into a SortedFileNeedleMap) x (history: all TLC histories of length 3 over 3 keys x 2 offsets "
                "x 2 sizes; one TLC witness per (map, counters, last op) to depth 4-5; seeded random histories of "
                "length 8-30 over all tokens), default and 5BytesOffset builds; after every operation every token "
                "key is looked up and the five counters are read; CompactMap/MemDb are also walked with AscendingVisit; close/reopen and reopen-after-deleting-derived-"
                "files are operations; non-trivial = contains a delete or reload; distinct by hash of the "
                "recorded execution")
    ctx.exhaustive = True
    ctx.assumptions += [
        "sizes >= 1 and offsets # 0 (empty needles / zero offsets are treated as deletions by index replay: C01's finding)",
        "bulk-fill keys other than the token keys are inserted once and never touched again",
        "the 5-byte offset build is exercised with fabricated offsets (no data file at this level)",
        "the Bloom filter of the derived metric (LevelDB/sorted load) may under-count files; the deviation admits that",
    ]
