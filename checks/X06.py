"""X06 (spec growth, not one of the listed properties) - a whole small cluster around the REAL master server:
assign (gRPC + HTTP), grow, upload, lookup (gRPC + HTTP, by volume id and by file id), read on every location,
delete, /vol/vacuum, /col/delete, master restart, volume server stop / start / restart.
ClusterSpec.tla (layer A, composed of the blob store / key allocation / master view / replicated write / vacuum
statements), ClusterImpl.tla (layer B: the assign path as the code does it, with layer A as ghost), judge
ClusterTrace.tla, kit harness/cluster/realcluster.go, driver ccluster (one cluster per process, two topologies)."""
import json
import os
import random
import threading

TOPOS = {
    "A": [("s1", "dc1", "r1"), ("s2", "dc1", "r1"), ("s3", "dc1", "r2")],
    "B": [("s1", "dc1", "r1"), ("s2", "dc1", "r2"), ("s3", "dc2", "r1")],
}
# replications the topology offers with room to spare (the master must grant them), ones it can place but the master's own
# test refuses (011 wants two racks of two servers), ones it cannot place
PLACEABLE = {"A": ["000", "001", "010"], "B": ["000", "010", "100", "110"]}
TIGHT = {"A": ["011"], "B": []}
UNPLACEABLE = {"A": ["100", "002"], "B": ["001", "200"]}
IMPL = {"MColls": {"ca"}, "MTtls": {""}, "MDatas": {"a"}, "MCounts": {1, 2}, "Canon": True, "MOps": set(), "GrowCount": 1}
ALLOPS = {"assign", "grow", "upload", "delete", "vacuum", "coldel", "mrestart", "vstop", "vrestart"}


def mtopo(t):
    return {s: {"dc": dc, "rack": rk} for s, dc, rk in TOPOS[t]}


def reset_line(t):
    return {"ev": "reset", "topo": t, "servers": [{"s": s, "dc": dc, "rack": rk} for s, dc, rk in TOPOS[t]], "colls": ["ca", "cb"]}


def decorate(hist, t, rng, cleanup=0.5):
    """Inputs the model leaves open: which interface an assignment uses, which copy an upload / delete is sent to,
    the vacuum threshold. gRPC Assign polls for 10 s when no volume can be grown, so it is used only where every
    server is running and the replication can be placed."""
    down, out, used = set(), [], set()
    for op in hist:
        op = dict(op)
        ev = op["ev"]
        if ev == "assign":
            op.setdefault("ttl", "")
            ok = not down and op["rep"] in PLACEABLE[t]
            op["via"] = op.get("via") or ("grpc" if ok and rng.random() < 0.4 else "http")
            used.add(op["c"])
        elif ev == "grow":
            op.setdefault("ttl", "")
            used.add(op["c"])
        elif ev in ("upload", "delete"):
            op.setdefault("at", "other" if rng.random() < 0.4 else "url")
        elif ev == "vacuum":
            op.setdefault("thr", "0" if rng.random() < 0.3 else "0.0001")
        elif ev == "vstop":
            down.add(op["s"])
        elif ev == "vstart":
            down.discard(op["s"])
        out.append(op)
    if not down and rng.random() < cleanup:
        for c in sorted(used):
            if not any(o["ev"] == "coldel" and o["c"] == c for o in out):
                out.append({"ev": "coldel", "c": c})
    return out


def directed(t, rng):
    """Restart scenarios (and the shapes the known findings need)."""
    P = PLACEABLE[t]
    r2 = P[1]          # two copies
    r3 = P[3] if len(P) > 3 else P[2]   # three copies where the topology has room for them
    S = []
    # a range handed out and only partly written, then a new master process
    for rep in (P[0], r2):
        S.append([{"ev": "assign", "c": "ca", "rep": rep, "n": 3, "via": "grpc"}, {"ev": "upload", "f": 1, "sub": 0, "d": "a"},
                  {"ev": "mrestart"}, {"ev": "assign", "c": "ca", "rep": rep, "n": 1, "via": "http"},
                  {"ev": "assign", "c": "ca", "rep": rep, "n": 2, "via": "grpc"}, {"ev": "upload", "f": 2, "sub": 0, "d": "b"},
                  {"ev": "upload", "f": 1, "sub": 1, "d": "L"}, {"ev": "upload", "f": 3, "sub": 1, "d": "a"}])
    # written, deleted, compacted away, then a new master process
    S.append([{"ev": "assign", "c": "ca", "rep": r2, "n": 2, "via": "grpc"}, {"ev": "upload", "f": 1, "sub": 0, "d": "a"},
              {"ev": "upload", "f": 1, "sub": 1, "d": "L"}, {"ev": "delete", "f": 1, "sub": 1}, {"ev": "vacuum", "thr": "0.0001"},
              {"ev": "mrestart"}, {"ev": "assign", "c": "ca", "rep": r2, "n": 1, "via": "grpc"}, {"ev": "upload", "f": 2, "sub": 0, "d": "b"}])
    # the same without the vacuum: the deleted key is still in the index
    S.append([{"ev": "assign", "c": "ca", "rep": r2, "n": 2, "via": "grpc"}, {"ev": "upload", "f": 1, "sub": 0, "d": "a"},
              {"ev": "upload", "f": 1, "sub": 1, "d": "L"}, {"ev": "delete", "f": 1, "sub": 1},
              {"ev": "mrestart"}, {"ev": "assign", "c": "ca", "rep": r2, "n": 1, "via": "grpc"}, {"ev": "upload", "f": 2, "sub": 0, "d": "b"}])
    # everything written, two restarts in a row, growth through /vol/grow after the restart
    S.append([{"ev": "assign", "c": "ca", "rep": P[0], "n": 1, "via": "http"}, {"ev": "upload", "f": 1, "sub": 0, "d": "b"},
              {"ev": "assign", "c": "cb", "rep": r2, "n": 1, "via": "grpc"}, {"ev": "upload", "f": 2, "sub": 0, "d": "L", "at": "other"},
              {"ev": "mrestart"}, {"ev": "mrestart"}, {"ev": "grow", "c": "cb", "rep": r2, "count": 2},
              {"ev": "assign", "c": "cb", "rep": r2, "n": 1, "via": "grpc"}, {"ev": "assign", "c": "ca", "rep": P[0], "n": 1, "via": "grpc"},
              {"ev": "upload", "f": 3, "sub": 0, "d": "a"}, {"ev": "upload", "f": 4, "sub": 0, "d": "a"}])
    # volume server restarts around writes, deletes and a vacuum, two and three copies
    for rep in (r2, r3):
        for s in ("s1", "s2", "s3"):
            S.append([{"ev": "assign", "c": "ca", "rep": rep, "n": 2, "via": "http"}, {"ev": "upload", "f": 1, "sub": 0, "d": "L"},
                      {"ev": "upload", "f": 1, "sub": 1, "d": "a", "at": "other"}, {"ev": "vrestart", "s": s},
                      {"ev": "delete", "f": 1, "sub": 0, "at": "other"}, {"ev": "assign", "c": "ca", "rep": rep, "n": 1, "via": "grpc"},
                      {"ev": "upload", "f": 2, "sub": 0, "d": "b"}, {"ev": "vacuum", "thr": "0.0001"}, {"ev": "vrestart", "s": s},
                      {"ev": "upload", "f": 1, "sub": 0, "d": "b"}])
    # a copy is down: lookups shrink, writes to the volume are refused or leave it degraded, it comes back
    for s in ("s1", "s3"):
        S.append([{"ev": "assign", "c": "ca", "rep": r2, "n": 2, "via": "http"}, {"ev": "upload", "f": 1, "sub": 0, "d": "a"},
                  {"ev": "assign", "c": "cb", "rep": P[0], "n": 1, "via": "http"}, {"ev": "upload", "f": 2, "sub": 0, "d": "b"},
                  {"ev": "vstop", "s": s}, {"ev": "upload", "f": 1, "sub": 1, "d": "b"}, {"ev": "assign", "c": "cb", "rep": P[0], "n": 1, "via": "http"},
                  {"ev": "vstart", "s": s}, {"ev": "assign", "c": "ca", "rep": r2, "n": 1, "via": "grpc"}, {"ev": "vacuum", "thr": "0"}])
    # master restart while a volume server is down; the server returns to the new master
    S.append([{"ev": "assign", "c": "ca", "rep": r2, "n": 1, "via": "http"}, {"ev": "upload", "f": 1, "sub": 0, "d": "a"},
              {"ev": "assign", "c": "cb", "rep": r3, "n": 1, "via": "http"}, {"ev": "upload", "f": 2, "sub": 0, "d": "L"},
              {"ev": "vstop", "s": "s2"}, {"ev": "mrestart"}, {"ev": "vstart", "s": "s2"},
              {"ev": "assign", "c": "cb", "rep": r3, "n": 1, "via": "grpc"}, {"ev": "upload", "f": 3, "sub": 0, "d": "b"}])
    # a replication the topology cannot place, then one it can; collection deleted and used again
    S.append([{"ev": "assign", "c": "ca", "rep": UNPLACEABLE[t][0], "n": 1, "via": "http"}, {"ev": "grow", "c": "ca", "rep": UNPLACEABLE[t][1], "count": 1},
              {"ev": "assign", "c": "ca", "rep": r3, "n": 2, "via": "grpc"}, {"ev": "upload", "f": 2, "sub": 1, "d": "a"},
              {"ev": "coldel", "c": "ca"}, {"ev": "assign", "c": "ca", "rep": r3, "n": 1, "via": "http"}, {"ev": "upload", "f": 3, "sub": 0, "d": "b"},
              {"ev": "upload", "f": 2, "sub": 0, "d": "b"}])
    # ttl classes side by side
    S.append([{"ev": "assign", "c": "ca", "rep": r2, "ttl": "7d", "n": 1, "via": "grpc"}, {"ev": "assign", "c": "ca", "rep": r2, "ttl": "", "n": 1, "via": "http"},
              {"ev": "upload", "f": 1, "sub": 0, "d": "a"}, {"ev": "upload", "f": 2, "sub": 0, "d": "b"}, {"ev": "delete", "f": 1, "sub": 0},
              {"ev": "vacuum", "thr": "0.0001"}, {"ev": "mrestart"}, {"ev": "assign", "c": "ca", "rep": r2, "ttl": "7d", "n": 1, "via": "http"}])
    return [decorate(x, t, rng, cleanup=0.3) for x in S]


def random_mix(t, rng, n_ops):
    """G4: a seeded random walk over the operations; keeps just enough bookkeeping to pick sensible inputs."""
    P = PLACEABLE[t]
    ops, fids, down, colls = [], [], set(), ["ca", "cb"]
    servers = [s for s, _, _ in TOPOS[t]]
    classes = [(rng.choice(colls), rng.choice(P), rng.choice(["", "", "7d"])) for _ in range(2)]
    restarts = 0
    while len(ops) < n_ops:
        r = rng.random()
        if r < 0.28 or not fids:
            c, rep, ttl = rng.choice(classes)
            if rng.random() < 0.06:
                rep = rng.choice(UNPLACEABLE[t] + TIGHT[t])
            n = rng.choice([1, 1, 2, 3])
            ops.append({"ev": "assign", "c": c, "rep": rep, "ttl": ttl, "n": n})
            fids.append(n)
        elif r < 0.55:
            f = rng.randrange(len(fids))
            ops.append({"ev": "upload", "f": f + 1, "sub": rng.randrange(fids[f]), "d": rng.choice("abL")})
        elif r < 0.68:
            f = rng.randrange(len(fids))
            ops.append({"ev": "delete", "f": f + 1, "sub": rng.randrange(fids[f])})
        elif r < 0.74:
            ops.append({"ev": "vacuum"})
        elif r < 0.80:
            c, rep, ttl = rng.choice(classes)
            ops.append({"ev": "grow", "c": c, "rep": rep, "ttl": ttl, "count": rng.choice([1, 2])})
        elif r < 0.84 and restarts < 1:
            ops.append({"ev": "mrestart"})
            restarts += 1
        elif r < 0.92 and restarts < 2:
            if down:
                s = down.pop()
                ops.append({"ev": "vstart", "s": s})
            elif rng.random() < 0.5:
                ops.append({"ev": "vrestart", "s": rng.choice(servers)})
                restarts += 1
            else:
                s = rng.choice(servers)
                down.add(s)
                ops.append({"ev": "vstop", "s": s})
                restarts += 1
        elif r < 0.95 and not down:
            ops.append({"ev": "coldel", "c": rng.choice(colls)})
    for s in sorted(down):
        ops.append({"ev": "vstart", "s": s})
    return decorate(ops, t, rng)


def run(ctx):
    ctx.sany("ClusterSpec", "ClusterImpl", "ClusterTrace")
    rng = random.Random(ctx.seed)
    skip_mc = bool(os.environ.get("VERIF_SKIP_MC"))
    base = {"MColls": {"ca"}, "MReps": {"000", "001"}, "MTtls": {""}, "MDatas": {"a"}, "MCounts": {1, 2}, "MaxVols": 3,
            "Canon": False, "MOps": set(ALLOPS)}
    mcs = []
    if not skip_mc:
        # layer A, every placement and every admitted result: uniqueness over the history of assignments, replication
        # satisfied, holders never change, the bookkeeping sets nest
        mcs.append((ctx.instance("MC_X06_A", "ClusterSpec", "ClusterSpec_mc.cfg",
                                 dict(base, MTopo=mtopo("A"), MaxOps=4 if ctx.thorough else 3,
                                      MColls={"ca", "cb"} if ctx.thorough else {"ca"})), None))
        mcs.append((ctx.instance("MC_X06_B", "ClusterSpec", "ClusterSpec_mc.cfg",
                                 dict(base, MTopo=mtopo("B"), MReps={"000", "100", "110"}, MaxOps=4 if ctx.thorough else 3)), None))
        # layer B: the assign path as the code does it; with the sequencer of the code the model breaks uniqueness
        # exactly through the two known findings (admitted), with a persistent sequencer it does not
        ib = dict(IMPL, MTopo=mtopo("A"), MReps={"000", "001"}, MaxOps=5, MaxVols=2)
        # (the run with the sequencer of the code and both deviations admitted is the generator run GB_X06 below)
        if ctx.thorough:
            # a replication the topology can place but the master's test refuses: the refusal is admitted, never a wrong grant
            mcs.append((ctx.instance("MC_X06_impl_tight", "ClusterImpl", "ClusterImpl_mc.cfg",
                                     dict(ib, SeqKind="memory", Admit={"stale", "purged"}, MReps={"001", "011"}, MaxOps=5, MaxVols=2)), None))
            mcs.append((ctx.instance("MC_X06_impl_persist", "ClusterImpl", "ClusterImpl_mc.cfg", dict(ib, SeqKind="persistent", Admit=set())), None))
            # without the vacuum deviation the model leaves layer A as well (6 operations are needed)
            mcs.append((ctx.instance("MC_X06_impl_stale_only", "ClusterImpl", "ClusterImpl_mc.cfg",
                                     dict(ib, SeqKind="memory", Admit={"stale"}, MaxOps=6)), ("Refines",)))
        mcs.append((ctx.instance("MC_X06_impl_strict", "ClusterImpl", "ClusterImpl_mc.cfg",
                                 dict(ib, SeqKind="memory", Admit=set(), MaxOps=5)), ("Refines",)))

    def model_checking():
        for inst, expect in mcs:
            if expect:
                ctx.model_check(inst, workers=1, timeout=2400, expect_violation=expect, coverage=False)
            else:
                ctx.model_check(inst, workers=1, timeout=2400)
    mc_err = []

    def mc_thread():
        try:
            model_checking()
        except BaseException as ex:  # re-raised in the main thread
            mc_err.append(ex)
    th = threading.Thread(target=mc_thread)
    th.start()
    built = {}

    def build_thread():
        try:
            built["bin"] = ctx.build("ccluster")
        except BaseException as ex:
            mc_err.append(ex)
    bt = threading.Thread(target=build_thread)
    bt.start()

    scripts = {}
    if ctx.replay:
        first = json.loads(open(ctx.replay).readline())
        scripts[first.get("topo", "A") + "0"] = ctx.replay
    else:
        PA = PLACEABLE["A"]
        # G2: one shortest history per (abstract state, last operation) of layer A
        g2 = ctx.instance("G2_X06", "ClusterSpec", "SPECIFICATION Spec\nINVARIANT EmitW\nVIEW View\nCHECK_DEADLOCK FALSE",
                          dict(base, MTopo=mtopo("A"), MColls={"ca", "cb"} if ctx.thorough else {"ca"}, MReps={PA[0], PA[1]}, Canon=True,
                               MaxOps=4 if ctx.thorough else 3))
        # the layer-B schedules on which the model hands out a key twice (the shapes of the known findings)
        # (one TLC run: layer B with the sequencer of the code, both deviations admitted, checked against its invariants -
        # Refines, LookupIsHolders, CopiesAgree, ... - and printing the re-issuing schedules)
        gb = ctx.instance("GB_X06", "ClusterImpl", open(os.path.join(os.path.dirname(__file__), "..", "spec", "ClusterImpl_mc.cfg")).read()
                          + "\nINVARIANT EmitReissue\n",
                          dict(IMPL, MTopo=mtopo("A"), MReps={PA[0], PA[1]}, MaxOps=6 if ctx.thorough else 5, MaxVols=2,
                               SeqKind="memory", Admit={"stale", "purged"}))
        gen = {}

        def gen_thread(key, inst, workers):
            try:
                gen[key] = ctx.generate(inst, workers=workers, timeout=1500)
            except BaseException as ex:
                mc_err.append(ex)
        gts = [threading.Thread(target=gen_thread, args=("g2", g2, 1)), threading.Thread(target=gen_thread, args=("gb", gb, 2))]
        for x in gts:
            x.start()
        for x in gts:
            x.join()
        if mc_err:
            th.join()
            bt.join()
            raise mc_err[0]
        # (sorted: the order in which TLC workers print is not fixed, the seeded sample should be)
        w2 = sorted((x for x in gen["g2"] if len(x) >= 3 and any(o["ev"] == "assign" for o in x)), key=lambda x: json.dumps(x, sort_keys=True))
        wb = sorted(gen["gb"], key=lambda x: json.dumps(x, sort_keys=True))
        ctx.notes["generated"] = {"layer_A_witnesses": len(w2), "layer_B_reissue_schedules": len(wb)}
        for t in ("A", "B"):
            # the histories are inputs only: the same ones serve topology B with its own replication names
            remap = dict(zip(PA, PLACEABLE[t]))
            def tr_(x):
                return [dict(o, rep=remap[o["rep"]]) if "rep" in o else o for o in x]
            hs = [decorate(tr_(x), t, rng) for x in rng.sample(w2, min(len(w2), 200 if ctx.thorough else 30))]
            # half of the layer-B sample from the schedules with a vacuum (the shape of X06-reissue-after-vacuum, thorough only: 6 operations)
            nb = 80 if ctx.thorough else 12
            wv = [x for x in wb if any(o["ev"] == "vacuum" for o in x) and any(o["ev"] == "delete" for o in x)]
            pick = rng.sample(wv, min(len(wv), nb // 2))
            pick += rng.sample(wb, min(len(wb), nb - len(pick)))
            hs += [decorate(tr_(x), t, rng, cleanup=0.2) for x in pick]
            hs += directed(t, rng)
            hs += [random_mix(t, rng, rng.randrange(5, 11)) for _ in range(200 if ctx.thorough else 36)]
            # two clusters (processes) per topology
            for half in (0, 1):
                p = os.path.join(ctx.out, "script-%s%d.ndjson" % (t, half))
                with open(p, "w") as f:
                    for x in hs[half::2]:
                        f.write(json.dumps(reset_line(t)) + "\n")
                        for op in x:
                            f.write(json.dumps(op) + "\n")
                scripts["%s%d" % (t, half)] = p
    bt.join()
    if mc_err:
        th.join()
        raise mc_err[0]
    binp = built["bin"]
    traces, errs = {}, []

    def drive(t):
        try:
            traces[t] = ctx.drive(binp, ["--script", scripts[t], "--mode", "x" + t.lower()], timeout=3000, name="trace-" + t)
        except BaseException as ex:
            errs.append(ex)
    ths = [threading.Thread(target=drive, args=(t,)) for t in scripts]
    for x in ths:
        x.start()
    for x in ths:
        x.join()
    if errs:
        th.join()
        raise errs[0]
    trace = os.path.join(ctx.out, "trace.ndjson")
    with open(trace, "w") as f:
        for t in sorted(traces):
            f.write(open(traces[t]).read())

    def mutate(evs):
        # a copy that answers with other bytes than the upload
        for i, e in enumerate(evs):
            for qi, q in enumerate(e.get("rs", [])):
                for ri, o in enumerate(q["r"]):
                    if o["st"] == "data" and len(q["lf"]) >= 2:
                        m = json.loads(json.dumps(evs))
                        m[i]["rs"][qi]["r"][ri]["d"] = "b" if o["d"] != "b" else "a"
                        return m
        return None

    jc = {"MTopo": mtopo("A"), "MColls": {"ca"}, "MReps": {"000"}, "MTtls": {""}, "MDatas": {"a"}, "MCounts": {1}, "MaxOps": 0, "MaxVols": 0,
          "Canon": True, "MOps": set()}
    ctx.judge("ClusterTrace", trace, "trace_base.cfg", jc, mutate=mutate, chunk_events=1200, jobs=4,
              nontrivial=lambda ls: sum(1 for s in ls if '"ev":"upload"' in s and '"st":"ok"' in s) >= 1 and len(ls) >= 4)
    th.join()
    if mc_err:
        raise mc_err[0]
    ctx.rule = ("executions = operation sequences on a real cluster (real master server over gRPC / HTTP, 3 real volume servers, two rack / data "
                "center topologies, two clusters = driver processes per topology): TLC witnesses of layer A (one per abstract state and last operation), the layer-B "
                "schedules on which the model's memory sequencer re-issues a key, directed restart scenarios, seeded random mixes of 5-10 "
                "operations; after EVERY operation: every volume of the execution as the volume servers report it, LookupVolume / /dir/lookup "
                "by volume id and by file id, GET of every file id handed out on every running server; non-trivial = at least one "
                "successful upload and three operations")
    ctx.assumptions += [
        "raft is a single-master stand-in that is always leader and gives a restarted master the committed maximum volume id back; the "
        "sequencer is the default memory sequencer (fresh after a restart)",
        "volume servers heartbeat every second (pulseSeconds = 1); restarts and stops are judged after the cluster has settled (the master's "
        "VolumeList shows every running server with exactly the volumes the server reports; 45 s deadline, a timeout is never admitted)",
        "automatic growth creates 2 / 2 / 1 volumes per request (master.volume_growth.copy_1..3); gRPC Assign asks for one volume so that "
        "the growth is over when the answer arrives",
        "volume servers run with read mode local: a server that does not hold a volume never serves it",
        "connections to a restarted volume server cached inside the process are flushed by the kit before the restart is over",
        "non-empty payloads; volumes never fill up (64 MB limit)"]
