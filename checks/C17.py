"""C17 - file content is the last-writer-wins overlay of its chunks (ChunkOverlay.tla)."""
import json
import os
import random

MODES = ["cache", "slice", "cache", "slice", "cache", "slice", "http"]   # http fetches cost 64 KiB buffers each


def byte_vals(cid, size):
    """bytes of data chunk cid: small distinct ints, never 0 (a hole) and never 170 (the buffer prefill)"""
    out = []
    for j in range(size):
        v = 1 + ((cid - 1) * 8 + j) % 250
        if v >= 170:
            v += 1
        out.append(v)
    return out


def entry(cid, off, size, mtime):
    return {"id": cid, "off": off, "size": size, "mtime": mtime, "m": False, "sub": []}


def max_end(chunks):
    return max([c["off"] + c["size"] for c in chunks] or [0])


def windows(fs):
    return [(o, n) for o in range(0, fs + 1) for n in range(1, fs - o + 2)]


def plan(chunks, rng, mode, every_window=True, extra=0, streams=True):
    """one execution for a list of data chunks: inputs only (the driver records the results)"""
    fs = max_end(chunks) + extra
    ev = [{"ev": "reset", "list": chunks, "payload": [byte_vals(c["id"], c["size"]) for c in chunks],
           "fsize": fs, "mode": mode}]
    ev.append({"ev": "view", "off": 0, "size": -1})
    ws = windows(fs)
    if not every_window:
        ws = rng.sample(ws, min(len(ws), 8))
    for (o, n) in ws:
        ev.append({"ev": "readat", "off": o, "n": n, "fresh": rng.random() < 0.15})
    for (o, n) in rng.sample(ws, min(len(ws), 4 if every_window else 3)):
        ev.append({"ev": "view", "off": o, "size": n})
    if streams:
        ev.append({"ev": "stream", "off": 0, "size": -1})
        for (o, n) in rng.sample(ws, min(len(ws), 1)):
            ev.append({"ev": "stream", "off": o, "size": n})

    def look(k):
        ev.append({"ev": "view", "off": 0, "size": -1})
        ev.append({"ev": "readat", "off": 0, "n": fs + 1, "fresh": False})
        for (o, n) in rng.sample(ws, min(len(ws), k)):
            ev.append({"ev": "view", "off": o, "size": n})
            ev.append({"ev": "readat", "off": o, "n": n, "fresh": False})

    ev.append({"ev": "compact"})
    look(0)
    ev.append({"ev": "manifestize", "batch": rng.choice([2, 2, 3])})
    look(1)
    ev.append({"ev": "nest"})
    look(1)
    return ev


def plan_stream(chunks, rng, via, extra=0):
    """one execution around the sequential reader for a list of data chunks (inputs only): length of the
    content, ReadAll, a ChunkStreamReader read to the end with odd buffer sizes, Seek to every offset
    (holes, ends, past the end; from the start / the position / the end) each followed by a Read, then
    the same reader and a fresh one across compaction / manifests, and MinusChunks between the versions"""
    end = max_end(chunks)
    ev = [{"ev": "reset", "list": chunks, "payload": [byte_vals(c["id"], c["size"]) for c in chunks],
           "fsize": end + extra, "mode": "http"},
          {"ev": "tsize"}, {"ev": "fsize", "attr": rng.choice([0, end, end + 1 + extra])},
          {"ev": "readall"}, {"ev": "sopen", "via": via}]
    left = end + 2
    while left > 0:
        n = rng.choice([1, 2, 3, 3, 5, 7])
        ev.append({"ev": "sread", "n": n})
        left -= n
    ev.append({"ev": "sread", "n": rng.choice([0, 1, 4])})
    pos = None                                   # python only tracks what it asked for, to build relative seeks
    offs = list(range(0, end + 3))
    rng.shuffle(offs)
    for t in offs:
        w = rng.choice([0, 0, 1, 2]) if pos is not None else rng.choice([0, 2])
        off = t if w == 0 else (t - pos if w == 1 else t - end)
        ev.append({"ev": "sseek", "off": off, "whence": w})
        k = rng.choice([0, 1, 1, 2, 3, 3, end + 3])
        if k:
            ev.append({"ev": "sread", "n": k})
        # position afterwards, if all goes as asked (only used to aim the next relative seek at >= 0)
        pos = min(max(t, end), t + k) if t <= end else t
        if t > end:
            pos = None                           # the reader may refuse: next seek absolute
    ev += [{"ev": "snap"}, {"ev": "compact"}, {"ev": "minus", "dir": 0}, {"ev": "minus", "dir": 1}, {"ev": "tsize"},
           {"ev": "sseek", "off": 0, "whence": 0}, {"ev": "sread", "n": end + 1},
           {"ev": "snap"}, {"ev": "manifestize", "batch": rng.choice([2, 2, 3])}, {"ev": "minus", "dir": 0},
           {"ev": "minus", "dir": 1}, {"ev": "tsize"}, {"ev": "fsize", "attr": rng.choice([0, end + 2])},
           {"ev": "sopen", "via": "master" if via == "filer" else "filer"}]
    for t in rng.sample(range(0, end + 2), min(3, end + 2)):
        ev += [{"ev": "sseek", "off": t, "whence": 0}, {"ev": "sread", "n": rng.choice([1, 2, end + 1])}]
    ev += [{"ev": "snap"}, {"ev": "nest"}, {"ev": "minus", "dir": 0}, {"ev": "minus", "dir": 1}, {"ev": "tsize"},
           {"ev": "readall"}, {"ev": "sread", "n": 2}]
    return ev


def from_hist(h, reverse):
    cs = [op["c"] for op in h if op["ev"] == "add"]
    if reverse:
        cs = list(reversed(cs))
    return [entry(i + 1, c["off"], c["size"], c["mtime"]) for i, c in enumerate(cs)]


def random_exec(rng, big):
    """G4: a longer list over a wider space, random interleaving of observations, compaction,
    manifest creation (hook batches 2..4 and the public batch), nesting and further writes"""
    nid = [0]

    def chunks(k, maxoff, maxsize, maxm):
        out = []
        for _ in range(k):
            nid[0] += 1
            out.append(entry(nid[0], rng.randint(0, maxoff), rng.randint(1, maxsize), rng.randint(1, maxm)))
        return out

    maxoff, maxsize = (40, 12) if big else (16, 6)
    maxm = rng.choice([2, 4, 30])
    cs = chunks(rng.randint(4, 24 if big else 10), maxoff, maxsize, maxm)
    allc = list(cs)
    opened = False
    fs = max_end(allc) + rng.choice([0, 0, 1, 3])
    ev = [{"ev": "reset", "list": cs, "payload": [byte_vals(c["id"], c["size"]) for c in cs], "fsize": fs,
           "mode": rng.choice(MODES)}]
    for _ in range(rng.randint(8, 30)):
        r = rng.random()
        o = rng.randint(0, fs)
        n = rng.randint(0, fs - o + 2)
        if r < 0.25:
            ev.append({"ev": "readat", "off": o, "n": n, "fresh": rng.random() < 0.2})
        elif r < 0.35:
            x = rng.random()
            if not opened or x < 0.15:
                ev.append({"ev": "sopen", "via": rng.choice(["filer", "master"])})
                opened = True
            elif x < 0.5:
                ev.append({"ev": "sseek", "off": o, "whence": 0} if rng.random() < 0.7 else
                          {"ev": "sseek", "off": -rng.randint(0, min(fs, 6)), "whence": 2})
            else:
                ev.append({"ev": "sread", "n": rng.choice([0, 1, 2, 3, 5, 7, 13])})
        elif r < 0.39:
            ev.append(rng.choice([{"ev": "tsize"}, {"ev": "fsize", "attr": rng.randint(0, fs + 2)}, {"ev": "readall"},
                                  {"ev": "snap"}, {"ev": "minus", "dir": rng.randint(0, 1)}]))
        elif r < 0.55:
            ev.append({"ev": "view", "off": o, "size": n} if rng.random() < 0.8 else {"ev": "view", "off": 0, "size": -1})
        elif r < 0.65:
            ev.append({"ev": "stream", "off": o, "size": n} if rng.random() < 0.7 else {"ev": "stream", "off": 0, "size": -1})
        elif r < 0.73:
            ev.append({"ev": "compact"})
        elif r < 0.83:
            ev.append({"ev": "manifestize", "batch": rng.choice([0, 2, 2, 3, 4])})
        elif r < 0.88:
            ev.append({"ev": "nest"})
        else:
            more = chunks(rng.randint(1, 3), maxoff, maxsize, maxm + 1)
            allc += more
            fs = max(fs, max_end(allc))
            ev.append({"ev": "append", "list": more, "payload": [byte_vals(c["id"], c["size"]) for c in more],
                       "fsize": fs})
        if ev[-1]["ev"] in ("compact", "manifestize", "nest", "append"):
            ev.append({"ev": "view", "off": 0, "size": -1})
            ev.append({"ev": "readat", "off": 0, "n": fs + 1, "fresh": False})
    return ev


def public_batch_exec(rng):
    """the public MaybeManifestize (batch 10000): 10000+ one-byte.. three-byte chunks over a short file"""
    cs = [entry(i + 1, rng.randint(0, 60), rng.randint(1, 3), rng.randint(1, 50)) for i in range(10003)]
    fs = max_end(cs)
    ev = [{"ev": "reset", "list": cs, "payload": [byte_vals(c["id"], c["size"]) for c in cs], "fsize": fs, "mode": "cache"},
          {"ev": "readat", "off": 0, "n": fs, "fresh": False},
          {"ev": "manifestize", "batch": 0},
          {"ev": "view", "off": 0, "size": -1},
          {"ev": "readat", "off": 0, "n": fs, "fresh": False}]
    return ev


def run(ctx):
    ctx.sany("ChunkOverlay", "ChunkOverlayTrace")
    rng = random.Random(ctx.seed)
    # 1. design level: dropping invisible chunks / packing into (nested) manifests leaves the content unchanged
    if ctx.thorough:
        U = {"Offs": set(range(0, 4)), "Sizes": {1, 2, 3}, "Mtimes": {1, 2}, "MaxChunks": 3, "Canon": True, "MaxOps": 2}
    else:
        U = {"Offs": set(range(0, 3)), "Sizes": {1, 2}, "Mtimes": {1, 2}, "MaxChunks": 3, "Canon": True, "MaxOps": 2}
    mc = ctx.instance("MC_ChunkOverlay", "ChunkOverlay", "ChunkOverlay_mc.cfg", U)
    only = os.environ.get("C17_ONLY")          # "stream": development / mutation testing of the sequential-reader part alone
    if not only:
        ctx.model_check(mc, workers=4, timeout=1500)
    # 2. G1: every chunk list (as a multiset, in ascending order) up to 3 chunks over the small universe
    if ctx.thorough:
        G = {"Offs": set(range(0, 5)), "Sizes": {1, 2, 3}, "Mtimes": {1, 2, 3}, "MaxChunks": 3, "Canon": True, "MaxOps": 0}
    else:
        G = {"Offs": set(range(0, 4)), "Sizes": {1, 2, 3}, "Mtimes": {1, 2}, "MaxChunks": 3, "Canon": True, "MaxOps": 0}
    g1 = ctx.instance("G1_ChunkOverlay", "ChunkOverlay", "SPECIFICATION Spec\nINVARIANT Emit\nCHECK_DEADLOCK FALSE", G)
    hists = ctx.generate(g1, workers=4, timeout=1500)
    execs = []
    for i, h in enumerate(hists):
        if len(h) <= 2 or (i + ctx.seed) % (4 if ctx.thorough else 8) == 0:
            # the sequential reader over the same lists (quick: every eighth, thorough: every fourth 3-chunk list)
            execs.append(plan_stream(from_hist(h, reverse=(i % 3 == 1)), rng, ["filer", "master"][i % 2], extra=i % 2))
        if only == "stream":
            continue
        if not ctx.thorough and len(h) == 3 and (i + ctx.seed) % 2 == 1:
            continue          # quick: every second 3-chunk list (which half depends on the seed)
        cs = from_hist(h, reverse=(i % 4 >= 2))
        every = len(cs) <= 1 or i % (8 if ctx.thorough else 4) == 0
        execs.append(plan(cs, rng, MODES[i % 7], every_window=every, extra=[0, 0, 1, 2][i % 4]))
    if ctx.thorough:
        # four chunks over a narrower universe, sampled windows
        G4c = {"Offs": set(range(0, 4)), "Sizes": {1, 2, 3}, "Mtimes": {1, 2}, "MaxChunks": 4, "Canon": True, "MaxOps": 0}
        g1b = ctx.instance("G1b_ChunkOverlay", "ChunkOverlay", "SPECIFICATION Spec\nINVARIANT Emit\nCHECK_DEADLOCK FALSE", G4c)
        for i, h in enumerate(ctx.generate(g1b, workers=4, timeout=1500)):
            if len(h) == 4 and (i + ctx.seed) % 2 == 0:
                execs.append(plan(from_hist(h, reverse=(i % 2 == 1)), rng, MODES[i % 7], every_window=False,
                                  extra=[0, 1][i % 2]))
    for i in range(2000 if ctx.thorough else 300):
        execs.append(random_exec(rng, big=(i % 4 == 0)))
    if ctx.thorough:
        execs.append(public_batch_exec(rng))
    script = os.path.join(ctx.out, "script.ndjson")
    if ctx.replay:
        script = ctx.replay
    else:
        with open(script, "w") as f:
            for ex in execs:
                for e in ex:
                    f.write(json.dumps(e) + "\n")
    # VERIF_DRIVER_BIN: a driver built elsewhere (mutation testing against a private copy of the tree)
    binp = os.environ.get("VERIF_DRIVER_BIN") or ctx.build("c17")
    trace = ctx.drive(binp, ["--script", script], timeout=3000)

    def mutate(evs):
        for i, e in enumerate(evs):
            if e["ev"] == "readat" and e["nret"] >= 2 and e["err"] in ("", "EOF"):
                m = [dict(x) for x in evs]
                m[i]["got"] = list(e["got"])
                m[i]["got"][1] = 255 - m[i]["got"][1]
                return m
        return None

    def nontrivial(e):
        return len(e) >= 6 and any('"ev":"readat"' in x or '"ev":"sread"' in x for x in e)

    nev = sum(1 for _ in open(trace))
    ctx.judge("ChunkOverlayTrace", trace, "trace_base.cfg",
              {"Offs": set(), "Sizes": set(), "Mtimes": set(), "MaxChunks": 0, "Canon": False, "MaxOps": 0},
              nontrivial=nontrivial, mutate=mutate, chunk_events=max(4000, nev // 8 + 1), timeout=3000)
    ctx.rule = ("executions = every multiset of <= 3 chunks over offsets %s, sizes %s, mtimes %s (TLC-enumerated; quick: every "
                "second 3-chunk multiset, the half chosen by the seed; thorough: "
                "also every second 4-chunk multiset over offsets 0..3, sizes 1..3, mtimes 1..2), each in ascending or reversed "
                "list order and with the cache/http/slice data path, observed through ViewFromChunks (whole file and "
                "windows), ReadAt into a 170-prefilled buffer for every window (off, n) up to one byte past the file size "
                "(sampled windows for the largest lists in thorough), StreamContent, then CompactFileChunks, "
                "MaybeManifestize with batch 2-3 and nesting into one manifest, re-observed after each step; for every list "
                "of <= 2 chunks and every eighth (thorough: fourth) 3-chunk list a second execution around the sequential "
                "reader: TotalSize, FileSize, ReadAll, a ChunkStreamReader (both constructors) read to the end with buffer "
                "sizes 1-7, Seek to every offset 0..end+2 from the start / the position / the end each followed by a Read, "
                "the same reader and a fresh one across compaction / manifests / nesting, MinusChunks both ways between the "
                "list before and after each of these steps; + seeded "
                "random executions (4-24 chunks, offsets to 40, sizes to 12, tied mtimes, appends, batches 2-4 and the "
                "public batch, the reader / size / minus operations mixed in); non-trivial = at least one ReadAt or reader Read and >= 5 operations; distinct by hash of the recorded "
                "execution" % (sorted(G["Offs"]), sorted(G["Sizes"]), sorted(G["Mtimes"])))
    ctx.exhaustive = True
    ctx.assumptions += ["chunks have size >= 1; the file size given to the reader is >= the end of the last chunk",
                        "chunk bytes are never 0 or 170 so that holes and untouched buffer bytes are recognisable",
                        "equal mtimes: every tied chunk is admitted for a byte (the statement does not rank them)",
                        "manifest chunks are created only by the real mergeIntoManifest (their own offset/size are the "
                        "code's); compaction is applied to the non-manifest chunks as FilerServer.cleanupChunks does"]
