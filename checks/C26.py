"""C26 - S3 requests take effect only with a valid, permitted signature (S3Auth.tla)."""
import json
import os
import random

import vf

# identity action sets: name -> list of (action, bucket or "")
ACTSETS = {
    "Admin": [("Admin", "")],
    "Read": [("Read", "")],
    "Write": [("Write", "")],
    "List": [("List", "")],
    "Tagging": [("Tagging", "")],
    "ReadB1": [("Read", "b1")],
    "WriteB1": [("Write", "b1")],
    "WriteB2": [("Write", "b2")],
    "AdminB1": [("Admin", "b1")],
    "ReadBstar": [("Read", "b*")],
    "None": [],
    # only used for the anonymous identity
    "WriteB1List": [("Write", "b1"), ("List", "")],
}
ACT_NAMES = ["Admin", "Read", "Write", "List", "Tagging", "ReadB1", "WriteB1", "WriteB2", "AdminB1", "ReadBstar", "None"]
ANON_NAMES = ["absent", "Read", "WriteB1List"]
# IAM policy alphabets; what each token NAMES is defined in S3Auth.tla (ActClass / ResBuckets)
POL_ACTS = ["s3:Get*", "s3:Put*", "s3:List*", "s3:*", "s3:DeleteObject", "s3:Tagging*",
            "*", "s3:get*", "s3:Bogus*", "iam:Get*"]
POL_RES = ["arn:aws:s3:::b1/*", "arn:aws:s3:::*", "arn:aws:s3:::b2", "arn:aws:s3:::b2/*",
           "arn:aws:s3:::b1", "arn:aws:s3:::b1*/*", "arn:aws:s3:::*/*", "*", "arn:aws:iam:::b1/*", "b1/*",
           "arn:aws:s3:::b1/x/*", "arn:aws:s3:::/*"]
MAPPED_ACTS = ["s3:Get*", "s3:Put*", "s3:List*", "s3:*", "s3:Tagging*"]
PARSED_RES = ["arn:aws:s3:::b1/*", "arn:aws:s3:::*", "arn:aws:s3:::b2/*", "arn:aws:s3:::b1*/*", "arn:aws:s3:::*/*"]
IREQ_ROUTES = ["GetObject", "HeadObject", "PutObject", "DeleteObject", "ListObjectsV1", "ListObjectsV2", "PutBucket",
               "DeleteBucket", "ListBuckets", "GetObjectTagging", "PutObjectTagging", "CopyObject",
               "ListMultipartUploads", "NewMultipartUpload", "HeadBucket", "DeleteMultipleObjects"]


def tla_actsets():
    parts = []
    for n, acts in ACTSETS.items():
        s = "{" + ", ".join('[a |-> "%s", b |-> "%s"]' % ab for ab in acts) + "}"
        parts.append('"%s" :> %s' % (n, s))
    return vf.Raw("(" + " @@ ".join(parts) + ")")


def write_config(path, anon):
    ids = []
    for n in ACT_NAMES:
        ids.append({"name": "id" + n,
                    "credentials": [{"accessKey": "AK" + n, "secretKey": "SK" + n + "0123456789abcdef"}],
                    "actions": [a if not b else a + ":" + b for a, b in ACTSETS[n]]})
    if anon != "absent":
        ids.append({"name": "anonymous", "actions": [a if not b else a + ":" + b for a, b in ACTSETS[anon]]})
    with open(path, "w") as f:
        json.dump({"identities": ids}, f)


def consts(maxops, kfm):
    return {"ActSets": tla_actsets(), "ActNames": set(ACT_NAMES), "AnonNames": set(ANON_NAMES),
            "PolActs": set(POL_ACTS), "PolRes": set(POL_RES), "KFM": set(kfm), "MaxOps": maxops}


def iam_execs(rng, n):
    """Seeded IAM API call sequences (inputs only) followed by requests signed with the keys they made."""
    def stmt():
        if rng.random() < 0.6:
            return {"eff": "Allow" if rng.random() < 0.8 else "Deny",
                    "acts": rng.sample(MAPPED_ACTS, rng.choice([1, 1, 2])),
                    "res": rng.sample(PARSED_RES, rng.choice([1, 1, 2]))}
        return {"eff": rng.choice(["Allow", "Allow", "Deny"]),
                "acts": rng.sample(POL_ACTS, rng.choice([1, 2])), "res": rng.sample(POL_RES, rng.choice([1, 2]))}

    def op(o, u="u1", key="", pname="", stmts=()):
        return {"ev": "iamop", "op": o, "user": u, "key": key, "pname": pname, "stmts": list(stmts)}
    out = []
    for _ in range(n):
        ops, keys, kc = [], [], 0

        def step():
            nonlocal kc
            u = "u1" if rng.random() < 0.7 else "u2"
            r = rng.random()
            if r < 0.40:
                return op("PutUserPolicy", u, pname=rng.choice(["p1", "p2"]), stmts=[stmt() for _ in range(rng.choice([1, 1, 2]))])
            if r < 0.50:
                return op("CreateUser", u)
            if r < 0.58:
                return op("DeleteUser", u)
            if r < 0.66:
                return op("DeleteUserPolicy", u, pname=rng.choice(["p1", "p2"]))
            if r < 0.80 or not keys:
                kc += 1
                keys.append((u, "k%d" % kc))
                return op("CreateAccessKey", u, key="k%d" % kc)
            if r < 0.88:
                ku, k = rng.choice(keys)
                return op("DeleteAccessKey", ku if rng.random() < 0.8 else u, key=k)
            if r < 0.93:
                return op("CreatePolicy", u, pname=rng.choice(["p1", "p2"]), stmts=[stmt()])
            return op(rng.choice(["GetUserPolicy", "ListUsers", "ListAccessKeys", "GetUser"]), u, pname="p1")

        def reqs(k, first=None):
            res = []
            for i in range(k):
                u, key = rng.choice(keys) if keys and rng.random() < 0.95 else ("u1", "k99")
                rt = first if first and i == 0 else rng.choice(IREQ_ROUTES)
                b = "b3" if rt == "PutBucket" else "" if rt == "ListBuckets" else rng.choice(["b1", "b1", "b1x", "b2"])
                res.append({"ev": "ireq", "route": rt, "bucket": b, "user": u, "key": key, "sec": "cur"})
            return res
        def grant(u, pn="p1"):
            return op("PutUserPolicy", u, pname=pn, stmts=[{"eff": "Allow", "acts": rng.sample(MAPPED_ACTS, rng.choice([1, 2])),
                                                           "res": rng.sample(PARSED_RES, rng.choice([1, 2]))}])

        def newkey(u):
            nonlocal kc
            kc += 1
            keys.append((u, "k%d" % kc))
            return op("CreateAccessKey", u, key="k%d" % kc)
        shape = rng.random()
        if shape < 0.12:
            # the secret of a key that has been used is replaced (same access key id): requests signed with the old
            # secret must be refused from then on, requests signed with the new one work
            u = rng.choice(["u1", "u2"])
            evs = [newkey(u), op("PutUserPolicy", u, pname="p1", stmts=[{"eff": "Allow", "acts": ["s3:*"], "res": ["arn:aws:s3:::*"]}])]
            rng.shuffle(evs)
            k = keys[0][1]
            evs += [{"ev": "ireq", "route": rt, "bucket": "" if rt == "ListBuckets" else "b1", "user": u, "key": k, "sec": "cur"} for rt in ("ListBuckets", "PutObject")]
            evs.append(op("RotateSecret", u, key=k))
            for rt in rng.sample(["ListBuckets", "PutObject", "GetObject", "DeleteObject"], 3):
                evs.append({"ev": "ireq", "route": rt, "bucket": "" if rt == "ListBuckets" else "b1", "user": u, "key": k, "sec": "old"})
            evs.append({"ev": "ireq", "route": "PutObject", "bucket": "b1", "user": u, "key": k, "sec": "cur"})
        elif shape < 0.40:
            # free form
            evs = [step() for _ in range(rng.randint(2, 5))]
            if not keys:
                evs.insert(rng.randint(0, len(evs)), newkey("u1"))
            evs += reqs(3)
            if rng.random() < 0.5:
                evs += [step() for _ in range(rng.randint(1, 2))] + reqs(2)
        elif shape < 0.65:
            # a key that worked is revoked (key deleted / user deleted / policy deleted), then used again
            u = rng.choice(["u1", "u2"])
            evs = [newkey(u), grant(u)]
            rng.shuffle(evs)
            evs += reqs(2)
            evs.append(rng.choice([op("DeleteAccessKey", u, key=keys[0][1]), op("DeleteAccessKey", u, key=keys[0][1]),
                                   op("DeleteUser", u), op("DeleteUserPolicy", u, pname="p1")]))
            if rng.random() < 0.3:
                evs.append(op("CreateUser", u))
            evs += reqs(3, "ListBuckets")   # needs nothing but a live key
        elif shape < 0.82:
            # a broad document replaced by a narrow one under the same / another name
            u = "u1"
            evs = [newkey(u), op("PutUserPolicy", u, pname="p1", stmts=[{"eff": "Allow", "acts": ["s3:*"], "res": ["arn:aws:s3:::*"]}]),
                   grant(u, rng.choice(["p1", "p1", "p2"]))]
            evs += reqs(3)
        else:
            # two users: the document is put for one, the key belongs to the other
            evs = [newkey("u2"), op("CreateUser", "u1"), grant("u1")]
            rng.shuffle(evs)
            evs += reqs(3)
        out.append(evs)
    return out


def sconsts(kfm, noverify=False, thorough=True):
    c = consts(1, kfm)
    c.update({"NoVerify": noverify, "MaxChunks": 2, "ChunkSizes": {5, 70000},
              "SActs": {"Admin", "WriteB1"} if thorough else {"Admin"}})
    return c


def iconsts(kfm, maxops, users=("u1", "u2")):
    c = consts(maxops, kfm)
    c.update({"PolActs": {"s3:Get*", "s3:*", "s3:DeleteObject"},
              "PolRes": {"arn:aws:s3:::b1/*", "arn:aws:s3:::*", "arn:aws:s3:::b1"},
              "MUsers": set(users), "KeyToks": {"k1", "k2"}})
    return c


STREAM_CFG = "SPECIFICATION SSpec\nINVARIANT StreamSound\nINVARIANT ReachOnlyAllowed\nCHECK_DEADLOCK FALSE\n"


def run(ctx):
    from concurrent.futures import ThreadPoolExecutor
    ctx.sany("S3Auth", "S3AuthTrace", "S3AuthStreamImpl", "S3AuthIamImpl")
    kf = set(ctx.kf_open.keys())
    script = os.path.join(ctx.out, "script.ndjson")
    pscript = os.path.join(ctx.out, "pol_script.ndjson")
    iscript = os.path.join(ctx.out, "iam_script.ndjson")
    rng = random.Random(ctx.seed)
    cfgs = {}
    for an in ANON_NAMES:
        cfgs[an] = os.path.join(ctx.out, "identities-%s.json" % an)
        write_config(cfgs[an], an)
    mc_cfg = open(os.path.join(vf.SPEC, "S3Auth_mc.cfg")).read()
    pol_cfg = open(os.path.join(vf.SPEC, "S3Auth_pol.cfg")).read()
    iam_cfg = open(os.path.join(vf.SPEC, "S3AuthIamImpl_mc.cfg")).read()
    # 1+2. one TLC run per part: it model-checks the design invariants (decision table, model of the
    # gateway's procedure with the known deviations; reference policy translation; model of the
    # streaming reader; model of the IAM handlers) over the whole abstract space and emits that space
    # as the script (generator mode)
    have = {"main": False, "pol": False, "iam": False}
    if ctx.replay:
        # a saved violation (or any recorded trace) is the script; executions are sorted by their
        # reset line into the three driver runs (gateway config / IAM API / policy documents)
        binp = ctx.build("c26")
        outs = {"main": open(script, "w"), "pol": open(pscript, "w"), "iam": open(iscript, "w")}
        cur = None
        for line in open(ctx.replay):
            e = json.loads(line)
            if e.get("ev") == "reset":
                cur = "iam" if "iam" in e else "main" if "gw" in e else "pol"
                if cur == "main":
                    e["zcfg"] = cfgs[e["gw"]]   # the configuration files live under this run's scratch directory
            if cur:
                have[cur] = True
                outs[cur].write(json.dumps(e) + "\n")
        for f in outs.values():
            f.close()
    else:
        g = ctx.instance("G_S3Auth", "S3Auth", mc_cfg + "INVARIANT Emit\n", consts(1, kf))
        gp = ctx.instance("G_S3AuthPol", "S3Auth", pol_cfg + "INVARIANT EmitPol\n", consts(1, kf))
        gs = ctx.instance("G_S3AuthStream", "S3AuthStreamImpl", STREAM_CFG + "INVARIANT EmitS\n",
                          sconsts(kf, thorough=ctx.thorough))
        mi = ctx.instance("MC_S3AuthIam", "S3AuthIamImpl", iam_cfg,
                          iconsts(kf, 4, ("u1", "u2")) if ctx.thorough else iconsts(kf, 3, ("u1",)))

        # four single-worker TLC runs side by side (a generator prints its histories from one thread anyway)
        with ThreadPoolExecutor(max_workers=5) as pool:
            fb = pool.submit(ctx.build, "c26")
            fh = pool.submit(ctx.generate, g, "W", 1, 900)
            fs = pool.submit(ctx.generate, gs, "W", 1, 900)
            fp = pool.submit(ctx.generate, gp, "W", 1, 1500)
            fm = pool.submit(ctx.model_check, mi, 1, 1500, False)
            hists, shists, pols, binp = fh.result(), fs.result(), fp.result(), fb.result()
            fm.result()
        if ctx.thorough:
            if kf:
                # without the known deviations the model of the gateway is NOT sound: TLC exhibits the bypass
                mcs = ctx.instance("MC_S3AuthStrict", "S3Auth",
                                   "SPECIFICATION Spec\nINVARIANT GwSound\nCHECK_DEADLOCK FALSE", consts(1, set()))
                ctx.model_check(mcs, workers=2, expect_violation="GwSound", coverage=False)
            # a reader that does not compare chunk signatures stores a body nobody signed; and the
            # models are not vacuous: a valid upload is committed, some document grants something
            nv = ctx.instance("MC_S3AuthStreamNoVerify", "S3AuthStreamImpl", STREAM_CFG, sconsts(kf, True))
            ctx.model_check(nv, workers=2, expect_violation="StreamSound", coverage=False)
            nc = ctx.instance("MC_S3AuthStreamLive", "S3AuthStreamImpl",
                              "SPECIFICATION SSpec\nINVARIANT NeverCommitted\nCHECK_DEADLOCK FALSE\n", sconsts(kf))
            ctx.model_check(nc, workers=2, expect_violation="NeverCommitted", coverage=False)
            ng = ctx.instance("MC_S3AuthIamLive", "S3AuthIamImpl",
                              "SPECIFICATION ISpec\nINVARIANT NothingGranted\nVIEW IView\nCHECK_DEADLOCK FALSE\n",
                              iconsts(kf, 3))
            ctx.model_check(ng, workers=2, expect_violation="NothingGranted", coverage=False)
            if "C26-putuserpolicy-accumulates" in kf:
                # handlers that only ever append actions are NOT sound against documents that replace each other
                ia = ctx.instance("MC_S3AuthIamStrict", "S3AuthIamImpl", iam_cfg, iconsts(set(), 3))
                ctx.model_check(ia, workers=2, expect_violation="IamSound", coverage=False)
        total = len(hists)
        stotal = len(shists)
        if not ctx.thorough:
            # stratified: every (route, style) pair three times, then a seeded sample
            by = {}
            for h in hists:
                by.setdefault((h[0]["route"], h[0]["style"]), []).append(h)
            pick = []
            for k in sorted(by):
                pick += rng.sample(by[k], min(3, len(by[k])))
                # ... and once with a valid credential of the unrestricted identity: the accepting path of
                # every route x style (handler-side verification included) is executed whatever the seed
                pos = [h for h in by[k] if h[0]["cred"] in ("valid", "na") and h[0]["acts"] in ("Admin", "None")
                       and (h[0]["cred"] == "valid" or h[0]["anon"] == "WriteB1List")]
                pick += rng.sample(pos, min(1, len(pos)))
            pick += rng.sample(hists, min(len(hists), 1000))
            # validly signed requests of identities limited to b1 (and the anonymous identity limited to b1)
            # addressed to b1x, whose name merely starts with "b1"
            near = [h for h in hists if h[0]["bucket"] == "b1x" and
                    ((h[0]["cred"] == "valid" and h[0]["acts"] in ("ReadB1", "WriteB1", "AdminB1")) or
                     (h[0]["cred"] == "na" and h[0]["anon"] == "WriteB1List"))]
            pick += rng.sample(near, min(len(near), 150))
            seen, uniq = set(), []
            for h in pick:
                k = json.dumps(h, sort_keys=True)
                if k not in seen:
                    seen.add(k)
                    uniq.append(h)
            hists = uniq
            # streaming uploads: half of the sample from the uploads whose seed passes (the chunk reader
            # runs), stratified by what is wrong with the body; the rest from the whole space
            def flaws(h):
                e = h[0]
                f = [(i, c["k"]) for i, c in enumerate(e["chunks"]) if c["k"] != "ok"]
                return f + ([("fin", e["fin"])] if e["fin"] != "ok" else [])
            run_reader = [h for h in shists if h[0]["cred"] == "valid" and h[0]["acts"] in ("Admin", "WriteB1")
                          and h[0]["bucket"] == "b1"]
            byf = {}
            for h in run_reader:
                f = flaws(h)
                byf.setdefault("valid" if not f else f[0] if len(f) == 1 else "several", []).append(h)
            spick = []
            for k in sorted(byf, key=str):
                spick += rng.sample(byf[k], min(40 if k == "valid" else 50 if k == "several" else 8, len(byf[k])))
            spick += rng.sample(shists, min(len(shists), 100))
            seen, uniq = set(), []
            for h in spick:
                k = json.dumps(h, sort_keys=True)
                if k not in seen:
                    seen.add(k)
                    uniq.append(h)
            shists = uniq
        ctx.notes["abstract_requests_total"] = total
        ctx.notes["abstract_requests_run"] = len(hists)
        ctx.notes["streaming_uploads_total"] = stotal
        ctx.notes["streaming_uploads_run"] = len(shists)
        hists = hists + shists
        rng.shuffle(hists)
        with open(script, "w") as f:
            for h in hists:
                an = h[0]["anon"]
                f.write(json.dumps({"ev": "reset", "gw": an, "zcfg": cfgs[an]}) + "\n")
                for op in h:
                    f.write(json.dumps(op) + "\n")
        # TLC enumerated every single statement; add seeded documents of two full statements
        singles = [p[0]["stmts"][0] for p in pols if len(p[0]["stmts"]) == 1]
        if not ctx.thorough:
            pols = rng.sample(pols, min(len(pols), 2000))
        pols = pols + [[{"ev": "pol", "stmts": [rng.choice(singles), rng.choice(singles)]}]
                       for _ in range(20000 if ctx.thorough else 1500)]
        ctx.notes["policy_documents_run"] = len(pols)
        with open(pscript, "w") as f:
            for h in pols:
                f.write(json.dumps({"ev": "reset"}) + "\n")
                for op in h:
                    f.write(json.dumps(op) + "\n")
        iams = iam_execs(rng, 1200 if ctx.thorough else 90)
        ctx.notes["iam_api_executions_run"] = len(iams)
        with open(iscript, "w") as f:
            for h in iams:
                f.write(json.dumps({"ev": "reset", "iam": 1}) + "\n")
                for op in h:
                    f.write(json.dumps(op) + "\n")
        have = {"main": True, "pol": True, "iam": True}

    cons = consts(0, kf)

    def nontrivial(e):
        return any('"changed":true' in x or '"st":' in x for x in e)

    def mutate(evs):
        # a denied request (no valid credential, no anonymous identity) recorded as having reached the filer
        for i, e in enumerate(evs):
            if e["ev"] == "req" and e["cred"] not in ("valid",) and e["anon"] == "absent" and not e["touched"] \
                    and e["style"] not in ("UFORM", "POSTPOL", "POSTPOL2"):
                m = [dict(x) for x in evs]
                m[i]["touched"] = [{"via": "grpc", "m": "DeleteEntry", "p": ["buckets", "b1", "obj"], "st": 0}]
                m[i]["changed"] = True
                return m
        return None

    def mutate_pol(evs):
        for i, e in enumerate(evs):
            if e["ev"] == "pol" and all(s["eff"] == "Deny" for s in e["stmts"]):
                m = [dict(x) for x in evs]
                m[i]["out"] = [{"a": "Read", "b": "", "g": True}]
                return m
        return None

    def mutate_stream(evs):
        # an upload with a chunk that does not verify recorded as stored
        for i, e in enumerate(evs):
            if e["ev"] == "sreq" and e["cred"] == "valid" and not e["present"] and \
                    any(c["k"] != "ok" for c in e["chunks"]):
                m = [dict(x) for x in evs]
                m[i]["present"] = True
                m[i]["stored"] = [{"c": "A", "n": e["chunks"][0]["n"]}]
                return m
        return None

    def mutate_iam(evs):
        # a user nobody put a document for recorded with a global action
        for i, e in enumerate(evs):
            if e["ev"] == "iamop" and e["op"] == "CreateAccessKey" and e["user"] == "zsync":
                m = [dict(x) for x in evs]
                m[i]["ids"] = [dict(x) for x in e["ids"]]
                for j, d in enumerate(m[i]["ids"]):
                    if d["name"] == "zsync":
                        m[i]["ids"][j] = dict(d, acts=[{"a": "Write", "b": "", "g": True}])
                        return m
        return None

    nt = lambda e: nontrivial(e) or '"a":' in "".join(e)
    # three driver processes side by side: gateways with identity files / policy documents / IAM API
    with ThreadPoolExecutor(max_workers=3) as pool:
        futs = {}
        if have["main"]:
            futs["main"] = pool.submit(ctx.drive, binp, ["--script", script], 1500)
        if have["pol"]:
            futs["pol"] = pool.submit(ctx.drive, binp, ["--script", pscript, "--mode", "iam"], 1200, None, "pol_trace")
        if have["iam"]:
            futs["iam"] = pool.submit(ctx.drive, binp, ["--script", iscript, "--mode", "iamapi"], 1500, None, "iam_trace")
        traces = {k: f.result() for k, f in futs.items()}
    if ctx.replay:
        for k in traces:
            ctx.judge("S3AuthTrace", traces[k], "trace_base.cfg", cons, nontrivial=nt, label=k)
    elif ctx.thorough:
        # the main trace is judged twice so that both of its binding self-tests are run
        ctx.judge("S3AuthTrace", traces["main"], "trace_base.cfg", cons, nontrivial=nt, mutate=mutate, label="req")
        ctx.judge("S3AuthTrace", traces["pol"], "trace_base.cfg", cons, nontrivial=nt, mutate=mutate_pol, label="pol")
        ctx.judge("S3AuthTrace", traces["iam"], "trace_base.cfg", cons, nontrivial=nt, mutate=mutate_iam, label="iam")
        only_s = os.path.join(ctx.out, "stream_only.ndjson")
        with open(only_s, "w") as f:
            keep = False
            prev = None
            for line in open(traces["main"]):
                if '"ev":"reset"' in line[:40]:
                    prev = line
                    continue
                if prev is not None:
                    keep = '"ev":"sreq"' in line
                    if keep:
                        f.write(prev)
                    prev = None
                if keep:
                    f.write(line)
        ctx.judge("S3AuthTrace", only_s, "trace_base.cfg", cons, nontrivial=nt, mutate=mutate_stream, label="stream-selftest")
    else:
        # quick: one judge run over all traces; the binding self-test rotates with the seed
        both = os.path.join(ctx.out, "both.ndjson")
        with open(both, "w") as f:
            for k in ("main", "pol", "iam"):
                f.write(open(traces[k]).read())
        ctx.judge("S3AuthTrace", both, "trace_base.cfg", cons, nontrivial=nt,
                  mutate=[mutate_pol, mutate, mutate_stream, mutate_iam][ctx.seed % 4])
    ctx.rule = ("requests = TLC-enumerated abstract requests route(23) x auth style(11) x credential kind x identity "
                "action set(11) x target bucket (b1, and b1x whose name extends b1) x anonymous configuration(3) (quick: stratified seeded sample "
                "incl. one accepted request per route x style, thorough: all), each "
                "instantiated as a real signed HTTP request against a real gateway+filer; non-trivial = the request "
                "reached the filer (some filer call or a namespace change); streaming uploads = TLC-enumerated "
                "(route, seed credential, identity, bucket, 0-2 chunks x size x chunk flaw, final-chunk flaw, declared length), "
                "quick: stratified by flaw; policies = TLC-enumerated IAM documents of "
                "1-2 statements given to the real GetActions; non-trivial = some action granted; IAM API = seeded call "
                "sequences (2-7 calls over 2 users, documents of 1-2 statements) against the real IAM API server + requests "
                "signed with the keys it made; distinct by hash")
    ctx.exhaustive = ctx.thorough
    ctx.assumptions += [
        "a request 'reaches the filer' iff a filer gRPC/HTTP call other than the background streams (SubscribeMetadata, "
        "KeepConnected, KvGet/KvPut, LookupVolume, GetFilerConfiguration, Statistics) is made while it is in flight, or "
        "the namespace (everything except /topics; in the IAM API runs also except /etc) differs afterwards; this gateway makes no filer call before "
        "authorization (s3api_server.go track -> iam.Auth -> handler), so no pre-authorization lookup is exempted",
        "requests are sent one at a time; the namespace is restored after every request that changed it",
        "the signer in harness/s3util is the trusted producer of valid/invalid signatures; 'tampered' changes the "
        "signed header x-amz-meta-t (or the signed policy) after signing",
        "Need(route) in S3Auth.tla is the weakest reasonable action per route (HeadBucket: Read or List, bucket "
        "create/delete: Write, list uploads/parts: Read or List); a copy source in the same bucket is used",
        "a streaming upload has taken effect iff the namespace changed or the target object exists afterwards; a valid "
        "streaming signature = seed signature + every chunk signature + the final zero-length chunk's signature; a wrong "
        "x-amz-decoded-content-length is not a signature matter (either outcome admitted)",
        "IAM API: what a policy token names is the table ActClass / ResBuckets of S3Auth.tla (AWS reading, upper bound); "
        "named[user] only grows with the documents put for the user and is forgotten when the user is deleted; the "
        "gateway is given time to apply an identity change (the driver waits until a key made after the change is accepted)",
    ]
