"""C26 - S3 requests take effect only with a valid, permitted signature (S3Auth.tla)."""
import json
import os
import random

import vf

# identity action sets: name -> list of (action, bucket or "")
ACTSETS = {
    "Admin": [("Admin", "")],
    "Read": [("Read", "")],
    "Write": [("Write", "")],
    "List": [("List", "")],
    "Tagging": [("Tagging", "")],
    "ReadB1": [("Read", "b1")],
    "WriteB1": [("Write", "b1")],
    "WriteB2": [("Write", "b2")],
    "AdminB1": [("Admin", "b1")],
    "ReadBstar": [("Read", "b*")],
    "None": [],
    # only used for the anonymous identity
    "WriteB1List": [("Write", "b1"), ("List", "")],
}
ACT_NAMES = ["Admin", "Read", "Write", "List", "Tagging", "ReadB1", "WriteB1", "WriteB2", "AdminB1", "ReadBstar", "None"]
ANON_NAMES = ["absent", "Read", "WriteB1List"]
POL_ACTS = ["s3:Get*", "s3:Put*", "s3:List*", "s3:*", "s3:DeleteObject", "s3:Tagging*"]
POL_RES = ["arn:aws:s3:::b1/*", "arn:aws:s3:::*", "arn:aws:s3:::b2", "arn:aws:s3:::b2/*"]


def tla_actsets():
    parts = []
    for n, acts in ACTSETS.items():
        s = "{" + ", ".join('[a |-> "%s", b |-> "%s"]' % ab for ab in acts) + "}"
        parts.append('"%s" :> %s' % (n, s))
    return vf.Raw("(" + " @@ ".join(parts) + ")")


def write_config(path, anon):
    ids = []
    for n in ACT_NAMES:
        ids.append({"name": "id" + n,
                    "credentials": [{"accessKey": "AK" + n, "secretKey": "SK" + n + "0123456789abcdef"}],
                    "actions": [a if not b else a + ":" + b for a, b in ACTSETS[n]]})
    if anon != "absent":
        ids.append({"name": "anonymous", "actions": [a if not b else a + ":" + b for a, b in ACTSETS[anon]]})
    with open(path, "w") as f:
        json.dump({"identities": ids}, f)


def consts(maxops, kfm):
    return {"ActSets": tla_actsets(), "ActNames": set(ACT_NAMES), "AnonNames": set(ANON_NAMES),
            "PolActs": set(POL_ACTS), "PolRes": set(POL_RES), "KFM": set(kfm), "MaxOps": maxops}


def run(ctx):
    from concurrent.futures import ThreadPoolExecutor
    ctx.sany("S3Auth", "S3AuthTrace")
    kf = set(ctx.kf_open.keys())
    script = os.path.join(ctx.out, "script.ndjson")
    pscript = os.path.join(ctx.out, "pol_script.ndjson")
    rng = random.Random(ctx.seed)
    cfgs = {}
    for an in ANON_NAMES:
        cfgs[an] = os.path.join(ctx.out, "identities-%s.json" % an)
        write_config(cfgs[an], an)
    mc_cfg = open(os.path.join(vf.SPEC, "S3Auth_mc.cfg")).read()
    pol_cfg = open(os.path.join(vf.SPEC, "S3Auth_pol.cfg")).read()
    # 1+2. one TLC run per part: it model-checks the design invariants (decision table, model of the
    # gateway's procedure with the known deviations; reference policy translation) over the whole
    # abstract space and emits that space as the script (generator mode)
    pol_mode = None
    if ctx.replay:
        # a saved violation (or any recorded trace) is the script: requests and policy documents may be mixed
        binp = ctx.build("c26")
    else:
        g = ctx.instance("G_S3Auth", "S3Auth", mc_cfg + "INVARIANT Emit\n", consts(1, kf))
        gp = ctx.instance("G_S3AuthPol", "S3Auth", pol_cfg + "INVARIANT EmitPol\n", consts(2, kf))
        with ThreadPoolExecutor(max_workers=3) as pool:
            fb = pool.submit(ctx.build, "c26")
            fh = pool.submit(ctx.generate, g, "W", 2, 900)
            fp = pool.submit(ctx.generate, gp, "W", 2, 1500)
            hists, pols, binp = fh.result(), fp.result(), fb.result()
        if ctx.thorough and kf:
            # without the known deviations the model of the gateway is NOT sound: TLC exhibits the bypass
            mcs = ctx.instance("MC_S3AuthStrict", "S3Auth",
                               "SPECIFICATION Spec\nINVARIANT GwSound\nCHECK_DEADLOCK FALSE", consts(1, set()))
            ctx.model_check(mcs, workers=2, expect_violation="GwSound", coverage=False)
        total = len(hists)
        if not ctx.thorough:
            # stratified: every (route, style) pair three times, then a seeded sample
            by = {}
            for h in hists:
                by.setdefault((h[0]["route"], h[0]["style"]), []).append(h)
            pick = []
            for k in sorted(by):
                pick += rng.sample(by[k], min(3, len(by[k])))
            pick += rng.sample(hists, min(len(hists), 1000))
            # validly signed requests of identities limited to b1 (and the anonymous identity limited to b1)
            # addressed to b1x, whose name merely starts with "b1"
            near = [h for h in hists if h[0]["bucket"] == "b1x" and
                    ((h[0]["cred"] == "valid" and h[0]["acts"] in ("ReadB1", "WriteB1", "AdminB1")) or
                     (h[0]["cred"] == "na" and h[0]["anon"] == "WriteB1List"))]
            pick += rng.sample(near, min(len(near), 150))
            seen, uniq = set(), []
            for h in pick:
                k = json.dumps(h, sort_keys=True)
                if k not in seen:
                    seen.add(k)
                    uniq.append(h)
            hists = uniq
        ctx.notes["abstract_requests_total"] = total
        ctx.notes["abstract_requests_run"] = len(hists)
        rng.shuffle(hists)
        with open(script, "w") as f:
            for h in hists:
                an = h[0]["anon"]
                f.write(json.dumps({"ev": "reset", "gw": an, "zcfg": cfgs[an]}) + "\n")
                for op in h:
                    f.write(json.dumps(op) + "\n")
        # TLC enumerated every single statement; add seeded documents of two full statements
        singles = [p[0]["stmts"][0] for p in pols if len(p[0]["stmts"]) == 1]
        pols = pols + [[{"ev": "pol", "stmts": [rng.choice(singles), rng.choice(singles)]}]
                       for _ in range(20000 if ctx.thorough else 1500)]
        ctx.notes["policy_documents_run"] = len(pols)
        with open(pscript, "w") as f:
            for h in pols:
                f.write(json.dumps({"ev": "reset"}) + "\n")
                for op in h:
                    f.write(json.dumps(op) + "\n")

    cons = consts(0, kf)

    def nontrivial(e):
        return any('"changed":true' in x or '"st":' in x for x in e)

    def mutate(evs):
        # a denied request (no valid credential, no anonymous identity) recorded as having reached the filer
        for i, e in enumerate(evs):
            if e["ev"] == "req" and e["cred"] not in ("valid",) and e["anon"] == "absent" and not e["touched"] \
                    and e["style"] not in ("UFORM", "POSTPOL"):
                m = [dict(x) for x in evs]
                m[i]["touched"] = [{"via": "grpc", "m": "DeleteEntry", "p": ["buckets", "b1", "obj"], "st": 0}]
                m[i]["changed"] = True
                return m
        return None

    def mutate_pol(evs):
        for i, e in enumerate(evs):
            if e["ev"] == "pol" and all(s["eff"] == "Deny" for s in e["stmts"]):
                m = [dict(x) for x in evs]
                m[i]["out"] = [{"a": "Read", "b": ""}]
                return m
        return None

    nt = lambda e: nontrivial(e) or '"a":' in "".join(e)
    if ctx.replay:
        # the gateway configuration files are rewritten under this run's scratch directory
        rs = os.path.join(ctx.out, "replay.ndjson")
        with open(rs, "w") as f:
            for line in open(ctx.replay):
                e = json.loads(line)
                if e.get("ev") == "reset" and "gw" in e:
                    e["zcfg"] = cfgs[e["gw"]]
                f.write(json.dumps(e) + "\n")
        trace = ctx.drive(binp, ["--script", rs], timeout=1500)
        ctx.judge("S3AuthTrace", trace, "trace_base.cfg", cons, nontrivial=nt)
    else:
        traces = [ctx.drive(binp, ["--script", script], timeout=1500),
                  ctx.drive(binp, ["--script", pscript, "--mode", "iam"], name="pol_trace")]
        if ctx.thorough:
            ctx.judge("S3AuthTrace", traces[0], "trace_base.cfg", cons, nontrivial=nt, mutate=mutate, label="req")
            ctx.judge("S3AuthTrace", traces[1], "trace_base.cfg", cons, nontrivial=nt, mutate=mutate_pol, label="pol")
        else:
            # quick: one judge run over both traces; the binding self-test alternates with the seed
            both = os.path.join(ctx.out, "both.ndjson")
            with open(both, "w") as f:
                for t in traces:
                    f.write(open(t).read())
            ctx.judge("S3AuthTrace", both, "trace_base.cfg", cons, nontrivial=nt,
                      mutate=mutate if ctx.seed % 2 else mutate_pol)
    ctx.rule = ("requests = TLC-enumerated abstract requests route(23) x auth style(10) x credential kind x identity "
                "action set(11) x target bucket (b1, and b1x whose name extends b1) x anonymous configuration(3) (quick: stratified seeded sample, thorough: all), each "
                "instantiated as a real signed HTTP request against a real gateway+filer; non-trivial = the request "
                "reached the filer (some filer call or a namespace change); policies = TLC-enumerated IAM documents of "
                "1-2 statements given to the real GetActions; non-trivial = some action granted; distinct by hash")
    ctx.exhaustive = ctx.thorough
    ctx.assumptions += [
        "a request 'reaches the filer' iff a filer gRPC/HTTP call other than the background streams (SubscribeMetadata, "
        "KeepConnected, KvGet/KvPut, LookupVolume, GetFilerConfiguration, Statistics) is made while it is in flight, or "
        "the namespace (everything except /topics) differs afterwards; this gateway makes no filer call before "
        "authorization (s3api_server.go track -> iam.Auth -> handler), so no pre-authorization lookup is exempted",
        "requests are sent one at a time; the namespace is restored after every request that changed it",
        "the signer in harness/s3util is the trusted producer of valid/invalid signatures; 'tampered' changes the "
        "signed header x-amz-meta-t (or the signed policy) after signing",
        "Need(route) in S3Auth.tla is the weakest reasonable action per route (HeadBucket: Read or List, bucket "
        "create/delete: Write, list uploads/parts: Read or List); a copy source in the same bucket is used",
    ]
