"""C04 - compaction is invisible to readers (VolumeImpl.tla compaction actions, judge BlobStoreTrace.tla)."""
import random

import volfam


def run(ctx):
    ctx.sany("BlobStore", "VolumeImpl", "BlobStoreTrace")
    base = {"Keys": {1, 2}, "Cookies": {"c1"}, "KF": volfam.KF_ALL, "Algos": {1, 2},
            "WithRestart": False, "WithRo": False, "KeyOrderedScanIdx": False}
    script_parts = []
    for vttl in ("", "1h"):
        tag = "ttl" if vttl else "nottl"
        # layer B (both compaction algorithms, writes/deletes between compact and commit, makeupDiff,
        # reload) refines layer A modulo the listed deviations; NoResurrect as an action property
        mc = ctx.instance("MC_C04_" + tag, "VolumeImpl", "VolumeImpl_mc.cfg",
                          dict(base, VTtl=vttl, Datas={"e", "a"}, MetaSet=({"m0", "mt"} if not vttl else {"m0", "mu"}) if ctx.thorough else {"m0"},
                               MaxOps=6 if ctx.thorough else 5))
        ctx.model_check(mc, workers=8, timeout=2400)
        g2 = ctx.instance("G2_C04_" + tag, "VolumeImpl", volfam.GEN_W,
                          dict(base, VTtl=vttl, Datas={"e", "a", "b"} if ctx.thorough else {"e", "a"},
                               MetaSet=({"m0", "mt", "mu"} if not vttl else {"m0", "mu"}) if ctx.thorough else ({"m0", "mt"} if not vttl else {"m0", "mu"}),
                               MaxOps=5 if ctx.thorough else 4))
        h = ctx.generate(g2, workers=4, timeout=1800)
        # only histories that reach a commit or a cleanup matter here
        h = [x for x in h if any(op["ev"] in ("commit", "cleanup") for op in x)]
        rng = random.Random(ctx.seed * 7 + len(vttl))
        h = rng.sample(h, min(len(h), 5000 if ctx.thorough else 500))
        g3 = ctx.instance("G3_C04_" + tag, "VolumeImpl", volfam.GEN_ALL,
                          dict(base, VTtl=vttl, Datas={"e", "a", "b", "L"},
                               MetaSet={"m0", "m1", "mt", "mu"} if not vttl else {"m0", "m2", "mu"}, MaxOps=12))
        h += ctx.generate(g3, simulate=800 if ctx.thorough else 100, depth=13)
        h += volfam.random_hists(rng, 1200 if ctx.thorough else 150, 16, compaction=True,
                                 metas=("m0", "m1", "m2", "mt", "mu") if not vttl else ("m0", "m2", "mu"))
        script_parts.append((vttl, h))
    volfam.execute_and_judge_multi(ctx, script_parts)
    if not ctx.replay:
        # operations issued WHILE a (throttled) index-based compaction is running on the real server
        rng2 = random.Random(ctx.seed + 99)
        conc = []
        for _ in range(160 if ctx.thorough else 32):
            pre = [{"ev": "write", "k": k, "c": "c1", "d": rng2.choice(["H", "I"]), "m": "m0"} for k in (1, 2, 3)]
            if rng2.random() < 0.5:
                pre.append({"ev": "delete", "k": rng2.choice([1, 2, 3]), "c": "c1"})
            during = []
            for k in rng2.sample([1, 2, 3], rng2.randint(1, 3)):
                if rng2.random() < 0.6:
                    during.append({"ev": "write", "k": k, "c": "c1", "d": rng2.choice(["a", "b", "H", "I"]), "m": "m0",
                                   "delay": rng2.randint(0, 70)})
                else:
                    during.append({"ev": "delete", "k": k, "c": "c1", "delay": rng2.randint(0, 70)})
            h = pre + [{"ev": "compact", "algo": 2, "during": during}]
            if rng2.random() < 0.5:
                h.append({"ev": "write", "k": rng2.choice([1, 2, 3]), "c": "c1", "d": rng2.choice(["a", "b"]), "m": "m0"})
            h += [{"ev": "commit"}, {"ev": "restart"}]
            conc.append(h)
        import json as _json
        import os as _os
        script = _os.path.join(ctx.out, "conc-script.ndjson")
        with open(script, "w") as f:
            for h in conc:
                f.write(_json.dumps({"ev": "reset", "vttl": "", "keys": [1, 2, 3], "cookies": ["c1"]}) + "\n")
                for op in h:
                    f.write(_json.dumps(op) + "\n")
        binp = ctx.build("cvol")
        trace = ctx.drive(binp, ["--script", script, "--mode", "throttled"], name="conc", timeout=2400)
        ctx.judge("BlobStoreTrace", trace, "trace_base.cfg", {}, nontrivial=volfam.nontrivial, label="conc")
        ctx.notes["executions_with_operations_during_a_running_compaction"] = len(conc)
        ctx.notes["operations_that_completed_while_the_compaction_rpc_was_still_running"] = sum(
            1 for line in open(trace) if '"overlap":true' in line)
    ctx.rule = ("executions = TLC-generated histories of VolumeImpl that contain a compaction commit or cleanup (G2 witnesses "
                "over 2 keys x {empty, small, small2} x {no TTL, blob TTL + old client timestamp, blob TTL}, both compaction "
                "algorithms, writes/deletes between compact and commit; G3 random depth 12) + seeded random histories, each on a "
                "non-TTL and on a 1h-TTL volume; every key is read back after every step; non-trivial = a successful write "
                "followed by a state-changing step on the same execution; distinct by hash")
    ctx.exhaustive = False
    ctx.assumptions += volfam.ASSUMPTIONS + [
        "scan-based compaction (Volume.Compact) is invoked on the volume object of the running server through the VerifStore "
        "hook; index-based compaction, commit and cleanup through the vacuum RPCs",
        "on the TTL volume no client timestamp in the past is used: such a write makes the whole volume expire at the next "
        "heartbeat (recorded under C09), which would mask compaction",
        "operations during a RUNNING compaction: 720 KB blobs make the copy last ~50-100 ms, writes/deletes "
        "on distinct keys are sent 0-70 ms after the compact RPC (the evidence counts how many completed while it was still running); they are recorded after the compaction event (its order "
        "relative to them carries no meaning for a step that must be invisible)",
        "TTL expiry by elapsed time is not exercised here (blobs carry a 1h TTL and executions last milliseconds)"]
