"""X03 (spec growth, not one of the listed properties) - the WebDAV gateway over a real filer behaves as a tree of
collections and files: DavFS.tla (model-checked, schedules), judge DavTrace.tla, driver cdav (real HTTP WebDAV)."""
import json
import os
import random

PATHS = [["a"], ["a", "b"], ["a", "b", "c"], ["d"], ["d", "e"]]


def probes():
    ps = {tuple(p) for p in PATHS}
    for o in PATHS:
        for n in PATHS:
            for q in PATHS:
                if q[:len(o)] == o:
                    ps.add(tuple(n + q[len(o):]))
    return [list(p) for p in sorted(ps)]


def run(ctx):
    ctx.sany("DavFS", "DavTrace")
    paths = {tuple(p) for p in PATHS}
    mc = ctx.instance("MC_X03", "DavFS", "SPECIFICATION Spec\nINVARIANT WellFormed\nCHECK_DEADLOCK FALSE",
                      {"Paths": paths, "Datas": {"a", "b"}, "MaxOps": 4 if ctx.thorough else 3})
    ctx.model_check(mc, workers=4, timeout=1200)
    g2 = ctx.instance("G2_X03", "DavFS", "SPECIFICATION Spec\nINVARIANT EmitW\nVIEW View\nCHECK_DEADLOCK FALSE",
                      {"Paths": paths, "Datas": {"a", "L"}, "MaxOps": 5 if ctx.thorough else 4})
    h = ctx.generate(g2, workers=4, timeout=1800)
    rng = random.Random(ctx.seed)
    h = rng.sample(h, min(len(h), 3000 if ctx.thorough else 300))
    g3 = ctx.instance("G3_X03", "DavFS", "SPECIFICATION Spec\nINVARIANT Emit\nCHECK_DEADLOCK FALSE",
                      {"Paths": paths, "Datas": {"a", "b", "L", "e"}, "MaxOps": 12})
    h += ctx.generate(g3, simulate=400 if ctx.thorough else 40, depth=13)
    probe = probes()
    script = os.path.join(ctx.out, "script.ndjson")
    if ctx.replay:
        script = ctx.replay
    else:
        with open(script, "w") as f:
            for x in h:
                f.write(json.dumps({"ev": "reset", "probe": probe}) + "\n")
                for op in x:
                    f.write(json.dumps(op) + "\n")
    binp = ctx.build("cdav")
    trace = ctx.drive(binp, ["--script", script], timeout=3000)

    def mutate(evs):
        for i, e in enumerate(evs):
            if e["ev"] == "snap" and any(g in ("a", "b", "L") for g in e["got"]):
                j = [k for k, g in enumerate(e["got"]) if g in ("a", "b", "L")][0]
                m = [dict(x) for x in evs]
                m[i]["got"] = list(e["got"])
                m[i]["got"][j] = "none"
                return m
        return None

    ctx.judge("DavTrace", trace, "trace_base.cfg",
              {"Probe": [tuple(p) for p in probe], "Paths": paths, "Datas": {"a"}, "MaxOps": 0}, mutate=mutate,
              nontrivial=lambda ls: sum(1 for s in ls if '"ok":true' in s) >= 2)
    ctx.rule = ("executions = TLC-generated WebDAV histories (MKCOL, PUT, DELETE, MOVE with and without Overwrite) over 5 paths under a "
                "fresh root collection per execution, G2 witnesses + G3 random depth 12, sent as real WebDAV requests to the gateway in "
                "front of a real filer and volume server; after every request %d probe paths are fetched; non-trivial = at least two "
                "successful requests" % len(probe))
    ctx.assumptions += ["only 2xx/non-2xx and the resulting tree are judged, not which error status is used; locks and properties are not exercised"]
