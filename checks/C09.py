"""C09 - TTL data lives exactly as long as promised (Ttl.tla, judge TtlTrace.tla, driver c09)."""
import json
import os
import random

GEN_W = "SPECIFICATION Spec\nINVARIANT EmitW\nVIEW View\nCHECK_DEADLOCK FALSE"
GEN_ALL = "SPECIFICATION Spec\nINVARIANT Emit\nCHECK_DEADLOCK FALSE"


def run(ctx):
    ctx.sany("Ttl", "TtlTrace")
    kf = set(ctx.kf_open.keys()) | {"C04-ttl-filter", "C09-volume-expiry-uses-last-modified"}
    parts = []
    rng = random.Random(ctx.seed)
    for vttl in ("", "3m", "1h"):
        tag = vttl or "none"
        base = {"Keys": {1, 2}, "Datas": {"a"}, "BlobTtls": {"", "3m", "1h"}, "VTtl": vttl, "Ages": {2, 5, 70}, "KF": kf}
        # the three clocks of the code (read: append time + own TTL; compaction: last-modified + volume TTL;
        # volume removal: largest last-modified + volume TTL + delay) against the statement, every history to the bound
        mc = ctx.instance("MC_C09_" + tag, "Ttl", "Ttl_mc.cfg", dict(base, MaxOps=6 if ctx.thorough else 5))
        ctx.model_check(mc, workers=8, timeout=1800)
        g2 = ctx.instance("G2_C09_" + tag, "Ttl", GEN_W, dict(base, Datas={"a", "b"}, MaxOps=5 if ctx.thorough else 4))
        h = ctx.generate(g2, workers=4, timeout=1800)
        h = [x for x in h if any(op["ev"] == "age" for op in x)]
        h = rng.sample(h, min(len(h), 3000 if ctx.thorough else 250))
        g3 = ctx.instance("G3_C09_" + tag, "Ttl", GEN_ALL, dict(base, Datas={"a", "b"}, BlobTtls={"", "3m", "1h", "2h"},
                                                              Ages={2, 5, 70, 200}, MaxOps=9))
        h += ctx.generate(g3, simulate=600 if ctx.thorough else 60, depth=10)
        parts.append((vttl, h))
    script = os.path.join(ctx.out, "script.ndjson")
    if ctx.replay:
        script = ctx.replay
    else:
        with open(script, "w") as f:
            for vttl, hists in parts:
                for h in hists:
                    f.write(json.dumps({"ev": "reset", "vttl": vttl, "keys": [1, 2]}) + "\n")
                    for op in h:
                        f.write(json.dumps(op) + "\n")
    binp = ctx.build("c09")
    trace = ctx.drive(binp, ["--script", script], timeout=2400)

    def mutate(evs):
        for i, e in enumerate(evs):
            if e["ev"] == "read" and e.get("st") == "notfound" and i > 3 and any(x["ev"] == "age" for x in evs[:i]):
                m = [dict(x) for x in evs]
                m[i]["st"] = "data"
                m[i]["d"] = "a"
                return m
        return None

    ctx.judge("TtlTrace", trace, "trace_base.cfg", {}, mutate=mutate,
              nontrivial=lambda ls: any('"ev":"age"' in s for s in ls) and any('"st":"data"' in s for s in ls))
    if not ctx.replay:
        # filer side: the volume TTL chosen for an entry's TTL in seconds
        t2 = ctx.drive(binp, ["--mode", "sec2ttl"], name="sec2ttl")
        ctx.judge("TtlTrace", t2, "trace_base.cfg", {}, label="sec", nontrivial=lambda ls: True)
    ctx.rule = ("executions = TLC-generated histories of Ttl.tla containing an ageing step (G2 witnesses over 2 keys x blob TTL "
                "{none, 3m, 1h} x client timestamp {none, 10000 min in the past} x ageing {2, 5, 70 min} x both compactions x "
                "heartbeat-driven volume expiry; G3 random depth 9) on volumes with TTL none / 3m / 1h; ageing rewrites every "
                "stored timestamp and the file mtime; every key read after every step; plus one execution enumerating "
                "SecondsToTTL for 0..7300 s and unit boundaries; non-trivial = contains ageing and a successful read")
    ctx.exhaustive = False
    ctx.assumptions += ["time passes only through the ageing step (timestamps shifted by whole minutes; comparisons never hit an "
                        "exact boundary because the age set cannot sum to a TTL)",
                        "Store-level API; volume expiry through Store.CollectHeartbeat with a 1 GiB volume size limit",
                        "filer clause checked at the function that maps an entry TTL in seconds to the volume TTL string "
                        "(operation.StorageOption.TtlString -> needle.SecondsToTTL)"]
