"""C09 - TTL data lives exactly as long as promised (Ttl.tla, judge TtlTrace.tla, driver c09)."""
import json
import os
import random
import threading

import vf

GEN_W = "SPECIFICATION Spec\nINVARIANT EmitW\nVIEW View\nCHECK_DEADLOCK FALSE"
GEN_ALL = "SPECIFICATION Spec\nINVARIANT Emit\nCHECK_DEADLOCK FALSE"


ASG_EVENTS = ("toreq", "assign", "e2e", "sec2ttl")
PLACES = {"none": ("", ""), "dc": ("dc1", ""), "rack": ("", "r1"), "dcrack": ("dc1", "r1")}
INT32_MAX = 2147483647
# Seconds that the model does not range over but the code can be handed: AssignVolume passes the client's int32 on
# unchanged, and the filer's ?ttl= wraps into the negatives above 68 years (an entry with TtlSec <= 0 never expires).
NEGATIVE_SECS = [-1, -59, -60, -61, -3600, -86400, -31536000, -1141367296, -INT32_MAX, -INT32_MAX - 1]


def asg_script(ctx, hists, rng, path):
    """Executions of the filer clause from the histories TLC emitted for TtlAssignImpl (inputs only)."""
    toreq, assign = [], []
    for h in hists:
        for op in h:
            (toreq if op["ev"] == "toreq" else assign).append(op)
    boundary = sorted({op["sec"] for op in toreq})

    def mk_toreq(sec, place):
        dc, rack = PLACES[place]
        return {"ev": "toreq", "sec": sec, "count": rng.choice([1, 1, 2, 5]), "coll": rng.choice(["", "c1"]),
                "repl": rng.choice(["", "000", "001"]), "disk": rng.choice(["", "ssd"]), "dc": dc, "rack": rack,
                "growth": rng.choice([0, 0, 2])}

    evs = [mk_toreq(op["sec"], op["place"]) for op in toreq]
    if ctx.thorough:
        evs += [mk_toreq(s, rng.choice(["dc", "rack"])) for s in boundary]
    # dense range: every second up to two hours in the thorough tier; in the quick tier every second up to ten
    # minutes (what TLC model-checks there) and a seeded sample of the rest
    dense = list(range(0, 7301)) if ctx.thorough else list(range(0, 601)) + sorted(rng.sample(range(601, 7301), 400))
    evs += [mk_toreq(s, rng.choice(sorted(PLACES))) for s in dense]
    evs += [mk_toreq(s, p) for s in NEGATIVE_SECS for p in ("none", "dcrack")]
    execs = [evs[i:i + 40] for i in range(0, len(evs), 40)]

    def answers(kinds):
        return [{"kind": k, "fid": "%d,%02x5f3a2b1c" % (7 + j, j + 1) if k == "ok" else "",
                 "count": j + 1 if k == "ok" else 0,
                 "error": {"ok": "", "zero": "no free volumes left", "rpcerr": "master is not the leader"}[k]}
                for j, k in enumerate(kinds)]

    aevs = []
    for op in assign:
        dc, rack = PLACES[op["place"]]
        reqs = []
        for j, present in enumerate(op["pat"]):
            reqs.append({"present": present, "count": 1 if present else 0, "coll": "t%d" % (j + 1) if present else "",
                         "ttl": ["3m", "4h", "5d"][j % 3] if present else "", "repl": "", "disk": "", "dc": "", "rack": "",
                         "node": "", "growth": 0})
        aevs.append({"ev": "assign", "sec": op["sec"], "dc": dc, "rack": rack, "reqs": reqs, "ans": answers(op["kinds"])})
    rng.shuffle(aevs)
    execs += [aevs[i:i + 8] for i in range(0, len(aevs), 8)]

    # end to end against the mini-cluster (one volume is grown per event)
    n = 14 if ctx.thorough else 5
    e2e = []
    for s in [0, 1, 61, 15301, INT32_MAX] + rng.sample(boundary, n):
        dc, rack = PLACES[rng.choice(sorted(PLACES))]
        e2e.append({"ev": "e2e", "via": "direct", "sec": s, "ttl": "", "dc": dc, "rack": rack})
    for s in [0, 59, 918001] + rng.sample(boundary, n):
        dc, rack = PLACES[rng.choice(sorted(PLACES))]
        e2e.append({"ev": "e2e", "via": "grpc", "sec": s, "ttl": "", "dc": dc, "rack": rack})
    ttls = ["", "1m", "5m", "59m", "255m", "3h", "25h", "2d", "1w", "53w", "1M", "13M", "1y", "2y", "68y", "100y", "255y"]
    for t in ["5m", "68y", "69y", "137y"] + [rng.choice(ttls) for _ in range(n)]:
        e2e.append({"ev": "e2e", "via": "post", "sec": 0, "ttl": t, "dc": "", "rack": ""})
    execs += [e2e[i:i + 6] for i in range(0, len(e2e), 6)]
    with open(path, "w") as f:
        for ex in execs:
            f.write(json.dumps({"ev": "reset", "vttl": "", "keys": []}) + "\n")
            for op in ex:
                f.write(json.dumps(op) + "\n")
    return len(execs)


def asg_part(ctx, binp, rng, replay=None):
    """The filer clause: seconds -> StorageOption.ToAssignRequests -> operation.Assign -> volume."""
    script = replay
    if not replay:
        base = {"Dense": 7300 if ctx.thorough else 600, "MaxReqs": 3, "Rounding": "ceil",
                "Kinds": {"rpcerr", "zero", "ok"}, "PipeAll": ctx.thorough}
        inst = ctx.instance("MC_C09_assign", "TtlAssignImpl", "TtlAssignImpl_mc.cfg", base)
        # the clause has teeth: the mapping that rounds down (the code before /repo 3944c296) violates it
        bad = ctx.instance("MC_C09_assign_floor", "TtlAssignImpl", "SPECIFICATION Spec\nINVARIANT NeverShorter\nCHECK_DEADLOCK FALSE",
                           dict(base, Dense=200, MaxReqs=1, Kinds={"ok"}, PipeAll=False, Rounding="floor"))
        floor_err = []

        def floor_run():
            try:
                ctx.model_check(bad, workers=1, timeout=600, coverage=False, expect_violation="NeverShorter",
                                label="rounding down: NeverShorter must fail")
            except Exception as ex:  # re-raised in the main thread
                floor_err.append(ex)

        ft = threading.Thread(target=floor_run)
        ft.start()
        try:
            r = ctx.model_check(inst, workers=3, timeout=1800,
                                label="filer clause: seconds -> requests -> Assign loop (model check and generator)")
        finally:
            ft.join()
        if floor_err:
            raise floor_err[0]
        seen, hists = set(), []
        for t, rest in r.prints:
            if t == "W" and rest not in seen:
                seen.add(rest)
                hists.append(json.loads(vf.parse_tla_string(rest)))
        if not hists:
            raise vf.Infra("TtlAssignImpl emitted no histories")
        script = os.path.join(ctx.out, "script-asg.ndjson")
        asg_script(ctx, hists, rng, script)
    trace = ctx.drive(binp, ["--mode", "asg", "--script", script], name="asg", timeout=1200)

    def mutate(evs):
        for i, e in enumerate(evs):
            if e["ev"] == "toreq" and e["sec"] > 120 and e["pri"]["minutes"] > 1:
                m = [dict(x) for x in evs]
                m[i]["pri"] = dict(e["pri"], minutes=1)
                return m
        return None

    def nontrivial(ls):
        for s in ls:
            e = json.loads(s)
            if (e["ev"] == "toreq" and e["sec"] != 0) or (e["ev"] == "assign" and len(e["seen"]) > 0) or \
                    (e["ev"] == "e2e" and e["vol"]["found"]):
                return True
        return False

    # advisory, in parallel with the verdict: what the statement does not demand (Tight)
    adv_err = []

    def advisory():
        try:
            ctx.judge_advisory("TtlTrace", trace, "trace_base.cfg", {"Tight": True}, label="tight")
        except Exception as ex:  # re-raised in the main thread
            adv_err.append(ex)

    adv = threading.Thread(target=advisory)
    adv.start()
    try:
        ctx.judge("TtlTrace", trace, "trace_base.cfg", {"Tight": False}, mutate=mutate, nontrivial=nontrivial,
                  label="asg", chunk_events=4000 if ctx.thorough else 1200, jobs=4)
    finally:
        adv.join()
    if adv_err:
        raise adv_err[0]
    if ctx.model_drift:
        ctx.notes["filer_clause_advisory"] = ("executions in which a positive entry TTL got no volume TTL at all, or the "
                                              "alternate request's ttl differs from the primary's (admitted by the "
                                              "statement; counted by the Tight variant of TtlTrace): %d of %d"
                                              % (ctx.model_drift[-1]["unexplained"], ctx.model_drift[-1]["executions"]))


def run(ctx):
    ctx.sany("TtlAssignImpl", "Ttl", "TtlTrace")   # each of them EXTENDS TtlAssign
    rng0 = random.Random(ctx.seed * 7919 + 9)
    if ctx.replay and any('"ev": "%s"' % k in ln or '"ev":"%s"' % k in ln for ln in open(ctx.replay) for k in ASG_EVENTS):
        asg_part(ctx, ctx.build("c09"), rng0, replay=ctx.replay)
        return
    if os.environ.get("C09_PART") == "asg":   # development shortcut: the filer clause only
        asg_part(ctx, ctx.build("c09"), rng0)
        return
    kf = set(ctx.kf_open.keys()) | {"C04-ttl-filter", "C09-volume-expiry-uses-last-modified"}
    parts = []
    rng = random.Random(ctx.seed)
    for vttl in ("", "3m", "1h"):
        tag = vttl or "none"
        base = {"Keys": {1, 2}, "Datas": {"a"}, "BlobTtls": {"", "3m", "1h"}, "VTtl": vttl, "Ages": {2, 5, 70}, "KF": kf}
        # the three clocks of the code (read: append time + own TTL; compaction: last-modified + volume TTL;
        # volume removal: largest last-modified + volume TTL + delay) against the statement, every history to the bound
        mc = ctx.instance("MC_C09_" + tag, "Ttl", "Ttl_mc.cfg", dict(base, MaxOps=6 if ctx.thorough else 5))
        ctx.model_check(mc, workers=8, timeout=1800)
        g2 = ctx.instance("G2_C09_" + tag, "Ttl", GEN_W, dict(base, Datas={"a", "b"}, MaxOps=5 if ctx.thorough else 4))
        h = ctx.generate(g2, workers=4, timeout=1800)
        h = [x for x in h if any(op["ev"] == "age" for op in x)]
        h = rng.sample(h, min(len(h), 3000 if ctx.thorough else 250))
        g3 = ctx.instance("G3_C09_" + tag, "Ttl", GEN_ALL, dict(base, Datas={"a", "b"}, BlobTtls={"", "3m", "1h", "2h"},
                                                              Ages={2, 5, 70, 200}, MaxOps=9))
        h += ctx.generate(g3, simulate=600 if ctx.thorough else 60, depth=10)
        parts.append((vttl, h))
    script = os.path.join(ctx.out, "script.ndjson")
    if ctx.replay:
        script = ctx.replay
    else:
        with open(script, "w") as f:
            for vttl, hists in parts:
                for h in hists:
                    f.write(json.dumps({"ev": "reset", "vttl": vttl, "keys": [1, 2]}) + "\n")
                    for op in h:
                        f.write(json.dumps(op) + "\n")
    binp = ctx.build("c09")
    trace = ctx.drive(binp, ["--script", script], timeout=2400)

    def mutate(evs):
        for i, e in enumerate(evs):
            if e["ev"] == "read" and e.get("st") == "notfound" and i > 3 and any(x["ev"] == "age" for x in evs[:i]):
                m = [dict(x) for x in evs]
                m[i]["st"] = "data"
                m[i]["d"] = "a"
                return m
        return None

    ctx.judge("TtlTrace", trace, "trace_base.cfg", {"Tight": False}, mutate=mutate,
              nontrivial=lambda ls: any('"ev":"age"' in s for s in ls) and any('"st":"data"' in s for s in ls))
    if not ctx.replay:
        # filer side: the volume TTL requested, and the volume really chosen, for an entry's TTL in seconds
        asg_part(ctx, binp, rng0)
    ctx.rule = ("executions = TLC-generated histories of Ttl.tla containing an ageing step (G2 witnesses over 2 keys x blob TTL "
                "{none, 3m, 1h} x client timestamp {none, 10000 min in the past} x ageing {2, 5, 70 min} x both compactions x "
                "heartbeat-driven volume expiry; G3 random depth 9) on volumes with TTL none / 3m / 1h; ageing rewrites every "
                "stored timestamp and the file mtime; every key read after every step; non-trivial = contains ageing and a "
                "successful read. Filer clause (TtlAssign.tla: VolumeTtlFor): executions emitted by TLC from TtlAssignImpl.tla - "
                "StorageOption.ToAssignRequests for every unit boundary an int32 of seconds can reach (counts 1,2,3,254..257 and the "
                "largest of m,h,d,w,M,y, each -61..+61 s; 0; 2^31-1) x placement none / dc+rack, plus a dense range of seconds "
                "(0..7300 thorough; 0..600 and 400 sampled quick) and negative seconds, both requests recorded completely; "
                "operation.Assign against an in-process master stub with scripted answers: every list of up to 3 requests "
                "(present / nil) x every answer pattern (call fails / count 0 / count > 0), and the requests ToAssignRequests "
                "builds for 6 (thorough: about 50, one past every unit boundary) seconds x 4 placements x 9 answer pairs; end to end on the mini-cluster "
                "(direct, the filer's AssignVolume RPC, a file POSTed with ?ttl=): the TTL of the volume of the returned file id as "
                "the real volume server reports it; non-trivial = a non-zero number of seconds / a request reached the master / "
                "the volume was found")
    ctx.exhaustive = False
    ctx.assumptions += ["time passes only through the ageing step (timestamps shifted by whole minutes; comparisons never hit an "
                        "exact boundary because the age set cannot sum to a TTL)",
                        "Store-level API; volume expiry through Store.CollectHeartbeat with a 1 GiB volume size limit",
                        "filer clause: the master serves a request from a volume whose TTL is the request's ttl (C11/C12; in the "
                        "end-to-end executions the kit's stand-in master, which grows the volume through the real AllocateVolume "
                        "RPC and ignores data center and rack); a master refuses a request whose ttl does not parse",
                        "a blob is appended when its entry is created (chunks uploaded long before the entry is written - a slow "
                        "multi-chunk upload - can expire up to that much earlier than the entry; not observable without waiting)",
                        "the operation.Assign clause covers the order of the requests, nil requests, the first answer with a count "
                        "and the ttl / collection / data center / rack that arrive at the master; the other request fields are "
                        "recorded but not judged"]
