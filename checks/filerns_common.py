"""Shared orchestration for C18 / C20 / C21 (spec/FilerNS.tla, spec/FilerNSTrace.tla,
harness/cmd/c18).  Each property has its own check file, generator mix, model-checked
invariants, non-triviality rule, binding self-test, evidence and meta; this module only
holds what is identical: turning TLC histories into driver scripts, seeded random input
scripts (inputs only - no model of the filer here), running the driver per store kind and
handing the recorded executions to the TLC judge."""
import json
import os
import random

PATHS = [("a",), ("a", "b"), ("a", "b", "c"), ("a", "d"), ("e",)]
# the random scripts use a slightly larger universe
RPATHS = [["a"], ["a", "b"], ["a", "b", "c"], ["a", "e"], ["d"], ["d", "e"], ["d", "e", "c"], ["f"], ["ab"], ["ab", "c"]]
FLAT = [["f"], ["a", "e"], ["d", "e", "c"], ["ab"], ["a", "b", "c"]]   # no name is a prefix of another
STORES_QUICK = ["leveldb2"]
STORES_THOROUGH = ["leveldb2", "leveldb", "leveldb3"]
NOCONST = {"Paths": set(), "Chunks": set(), "Attrs": set(), "MaxLinks": 0, "MaxOps": 0, "Mix": set(), "Dev": False}


def cfg_text(fragment, *extra):
    with open(os.path.join(os.path.dirname(os.path.dirname(os.path.abspath(__file__))), "spec", fragment)) as f:
        return f.read().rstrip("\n") + "\n" + "\n".join(extra) + "\n"


def consts(mix, chunks, attrs, depth, links=2, dev=False):
    return {"Paths": set(PATHS), "Chunks": set(chunks), "Attrs": set(attrs), "MaxLinks": links,
            "MaxOps": depth, "Mix": set(mix), "Dev": dev}


def norm_op(op, rng):
    """A TLC-generated operation (sets arrive as lists) -> script line."""
    op = dict(op)
    if "chunks" in op:
        op["chunks"] = sorted(op["chunks"])
    if op["ev"] == "delete":
        op["ign"] = rng.random() < 0.3
    return op


def observers(rng, paths, ops, p_obs):
    """Sprinkle lookup / list operations (inputs only) into a history."""
    out = []
    for op in ops:
        out.append(op)
        if rng.random() < p_obs:
            if rng.random() < 0.6:
                out.append({"ev": "lookup", "p": list(rng.choice(paths))})
            else:
                q = list(rng.choice(paths))
                out.append({"ev": "list", "p": q[:-1] if rng.random() < 0.5 else q})
    return out


def random_scripts(rng, n, length, weights, max_chunk=60):
    """G4: seeded random input scripts.  No state of the filer is modelled here, only a memory of the
    script's own inputs: chunk ids come from a counter (so a chunk normally belongs to one file); a
    write may keep some of the ids the script last wrote to the same name (or to a name it linked to
    it) - overwrite / append with shared chunks; operands are mostly names the script has used."""
    kinds = [k for k, w in weights.items() for _ in range(w)]
    out = []
    for _ in range(n):
        ops = []
        nxt = [1]
        lastw = {}   # alias group -> chunk ids last written by this script
        group = {}   # path -> alias group (names the script linked together)
        made = []

        def grp(p):
            return group.setdefault(tuple(p), tuple(p))

        def fresh(k):
            ids = []
            for _ in range(k):
                if nxt[0] <= max_chunk:
                    ids.append(nxt[0])
                    nxt[0] += 1
            return ids

        lastn = {}   # name -> (chunk ids, attr) this script last sent through that very name
        lastv = {}   # alias group -> (chunk ids, attr) this script last sent through any of its names

        def content(p):
            keep = []
            old = lastw.get(grp(p), [])
            if old and rng.random() < 0.6:
                keep = [c for c in old if rng.random() < 0.6]
            ids = sorted(set(keep + fresh(rng.choice([0, 1, 1, 2]))))
            lastw[grp(p)] = ids
            return ids

        def sent(p, ids, attr):
            lastn[tuple(p)] = (list(ids), attr)
            lastv[grp(p)] = (list(ids), attr)
            lastw[grp(p)] = list(ids)

        def value(p):
            """what a write through p sends: a new value, the group's chunks with another attribute
            (chmod/touch), or a REPEAT of what was last sent through this very name (change - revert)"""
            r = rng.random()
            if r < 0.3 and tuple(p) in lastn:
                ids, attr = lastn[tuple(p)]
            elif r < 0.5 and grp(p) in lastv:
                ids, attr = lastv[grp(p)][0], rng.randint(1, 4)
            else:
                ids, attr = content(p), rng.randint(1, 4)
            sent(p, ids, attr)
            return list(ids), attr

        def pick():
            if made and rng.random() < 0.7:
                return list(rng.choice(made))
            return list(rng.choice(RPATHS))

        for _ in range(length):
            k = rng.choice(kinds)
            if k == "create":
                p = list(rng.choice(RPATHS)) if rng.random() < 0.6 else pick()
                kind = "d" if rng.random() < 0.2 else "f"
                if kind == "f" and rng.random() < 0.5:
                    group[tuple(p)] = tuple(p) + ("#%d" % len(ops),)   # a fresh entry: forget what was there
                ids, attr = value(p) if kind == "f" else ([], 0)
                ops.append({"ev": "create", "p": p, "kind": kind, "chunks": ids, "attr": attr, "oexcl": rng.random() < 0.15})
                made.append(p)
            elif k == "update":
                p = pick()
                kind = "d" if rng.random() < 0.15 else "f"
                if kind == "f" and rng.random() < 0.5:
                    group[tuple(p)] = tuple(p) + ("#%d" % len(ops),)
                ids, attr = value(p) if kind == "f" else ([], 0)
                ops.append({"ev": "update", "p": p, "kind": kind, "chunks": ids, "attr": attr})
            elif k == "write":
                p = pick()
                ids, attr = value(p)
                ops.append({"ev": "write", "p": p, "chunks": ids, "attr": attr, "via": rng.choice(["create", "update"])})
            elif k == "link":
                o, nn = pick(), list(rng.choice(RPATHS))
                group[tuple(nn)] = grp(o)
                if grp(o) in lastv:   # link() sends the current value through both names
                    lastn[tuple(o)] = lastn[tuple(nn)] = lastv[grp(o)]
                ops.append({"ev": "link", "o": o, "n": nn})
                made.append(nn)
            elif k == "delete":
                ops.append({"ev": "delete", "p": pick(), "rec": rng.random() < 0.6, "data": rng.random() < 0.7,
                            "ign": rng.random() < 0.3})
            elif k == "rename":
                o, nn = pick(), list(rng.choice(RPATHS))
                group[tuple(nn)] = grp(o)
                ops.append({"ev": "rename", "o": o, "n": nn})
                made.append(nn)
            elif k == "lookup":
                ops.append({"ev": "lookup", "p": pick()})
            elif k == "list":
                p = pick()
                ops.append({"ev": "list", "p": p[:-1] if rng.random() < 0.4 else p})
        out.append(ops)
    return out


def merge_scripts(rng, n):
    """Directed: a directory renamed onto an EXISTING directory (the filer merges the two) where children of the two
    collide by name in every kind combination - file/file, file/dir (with something below the dir), dir/file,
    dir/dir - followed by lookups and listings. The statements are silent on what a merge does, not on the shape
    of the tree afterwards."""
    out = []
    kinds = [("f", "f"), ("f", "d"), ("d", "f"), ("d", "d")]
    cid = [40]

    def f(p):
        cid[0] = 41 + (cid[0] - 40) % 19      # chunk ids 41..59 (the driver's per-execution id space is 1..98)
        return {"ev": "create", "p": p, "kind": "f", "chunks": [cid[0]], "attr": rng.randint(1, 4), "oexcl": False}

    def d(p):
        return {"ev": "create", "p": p, "kind": "d", "chunks": [], "attr": 0, "oexcl": False}

    for i in range(n):
        ks, kd = kinds[i % 4]
        src, dst = (["a"], ["d"]) if (i // 4) % 2 == 0 else (["d"], ["a"])
        name = rng.choice(["e", "b"])
        ops = []
        for top, k in ((src, ks), (dst, kd)):
            if k == "f":
                ops.append(f(top + [name]))
            else:
                ops.append(d(top + [name]))
                if rng.random() < 0.8:
                    ops.append(f(top + [name, "c"]))
        if rng.random() < 0.5:
            ops.append(f(src + ["x"]))
        if rng.random() < 0.5:
            ops.append(f(dst + ["y"]))
        rng.shuffle(ops)
        # a directory's child must come after the directory itself is implied: creates make ancestors, so any order works
        ops.append({"ev": "rename", "o": src, "n": dst})
        ops.append({"ev": "lookup", "p": dst + [name]})
        ops.append({"ev": "list", "p": dst})
        ops.append({"ev": "list", "p": dst + [name]})
        if rng.random() < 0.5:
            ops.append({"ev": "rename", "o": dst, "n": ["f"]})
        out.append(ops)
    return out


def linked_subtree_scripts(rng, n):
    """Directed: a file with names inside AND outside a folder (hard links across directories), then the folder is
    deleted / renamed / overwritten as a whole, then the names that remain are looked up. What a recursive operation
    does to data that other names still show, and to the counter of the names that remain."""
    out = []
    for i in range(n):
        inside, outside = (["a", "b", "c"], ["e"]) if i % 2 == 0 else (["a", "d"], ["e"])
        ops = [{"ev": "create", "p": inside, "kind": "f", "chunks": [41 + i % 10, 52], "attr": rng.randint(1, 4), "oexcl": False},
               {"ev": "link", "o": inside, "n": outside}]
        if rng.random() < 0.4:
            ops.append({"ev": "link", "o": inside, "n": ["a", "b"] if inside == ["a", "d"] else ["a", "d"]})   # a second name inside
        if rng.random() < 0.3:
            ops.append({"ev": "create", "p": ["a", "x"], "kind": "f", "chunks": [30], "attr": 1, "oexcl": False})
        k = i % 4
        if k in (0, 1):
            ops.append({"ev": "delete", "p": ["a"], "rec": True, "data": k == 0 or rng.random() < 0.5, "ign": False})
        elif k == 2:
            ops.append({"ev": "delete", "p": inside[:-1] if len(inside) > 2 else ["a"], "rec": True, "data": True, "ign": False})
        else:
            ops.append({"ev": "rename", "o": ["a"], "n": ["f"]})
            ops.append({"ev": "delete", "p": ["f"], "rec": True, "data": True, "ign": False})
        ops.append({"ev": "lookup", "p": outside})
        if rng.random() < 0.5:
            ops.append({"ev": "delete", "p": outside, "rec": False, "data": True, "ign": False})
        out.append(ops)
    return out


def revert_scripts(rng, n, length=7):
    """G4b: change-then-revert inputs.  One file, one or two further names linked to it, then writes
    through randomly chosen names whose values come from a pool of two or three (chunks, attribute)
    values - so a value sent earlier through one name is often sent again, through the same or another
    name, after a different value went through a third (chmod back and forth, restore old content)."""
    out = []
    for _ in range(n):
        names = rng.sample(FLAT, rng.choice([2, 2, 3]))
        base = [1] if rng.random() < 0.7 else []
        pool = [(base, 1), (base, 2)]
        if rng.random() < 0.5:
            pool.append((sorted(base + [2]), rng.choice([1, 2, 3])))
        ops = [{"ev": "create", "p": list(names[0]), "kind": "f", "chunks": list(pool[0][0]), "attr": pool[0][1], "oexcl": False}]
        for i in range(1, len(names)):
            ops.append({"ev": "link", "o": list(rng.choice(names[:i])), "n": list(names[i])})
        for _ in range(length):
            r = rng.random()
            if r < 0.8:
                ids, attr = rng.choice(pool)
                ops.append({"ev": "write", "p": list(rng.choice(names)), "chunks": list(ids), "attr": attr,
                            "via": rng.choice(["create", "update"])})
            elif r < 0.9:
                ops.append({"ev": "lookup", "p": list(rng.choice(names))})
            else:
                ops.append({"ev": "delete", "p": list(rng.choice(names)), "rec": False, "data": False, "ign": False})
        out.append(ops)
    return out


def sample_pref(rng, hists, n, pref, share=0.6):
    """sample n histories, a share of them from those satisfying pref (a predicate on the inputs)"""
    a = [h for h in hists if pref(h)]
    b = [h for h in hists if not pref(h)]
    k = min(len(a), int(n * share))
    return sample(rng, a, k) + sample(rng, b, n - k)


def link_then(kinds):
    """input predicate: a link followed later by one of the given operation kinds"""
    def f(h):
        seen = False
        for op in h:
            if seen and op["ev"] in kinds:
                return True
            if op["ev"] == "link":
                seen = True
        return False
    return f


def mc_and_generate(ctx, inst, timeout=1500, workers=4):
    """One TLC run that is both: a model check of the invariants / action properties in the cfg (must be
    green) and the G2 generator (INVARIANT EmitW prints one shortest history per distinct VIEW value)."""
    import vf
    r = ctx.model_check(inst, workers=workers, timeout=timeout, label="invariants + G2 witnesses (one run)")
    seen, res = set(), []
    for t, rest in r.prints:
        if t == "W" and rest not in seen:
            seen.add(rest)
            res.append(json.loads(vf.parse_tla_string(rest)))
    ctx.mc_runs[-1]["behaviours"] = len(res)
    return res


INPUT_FIELDS = {"create": ("p", "kind", "chunks", "attr", "oexcl"), "update": ("p", "kind", "chunks", "attr"),
                "write": ("p", "chunks", "attr", "via"), "link": ("o", "n"), "delete": ("p", "rec", "data", "ign"),
                "rename": ("o", "n"), "lookup": ("p",), "list": ("p",)}


def finding_scripts(pid):
    """The minimal executions of this property's findings (inputs only), so that every run demonstrates
    each open finding on the real code (KNOWN-FINDING) and re-tests each fixed one."""
    base = os.path.dirname(os.path.dirname(os.path.abspath(__file__)))
    with open(os.path.join(base, "known_findings.d", pid + ".json")) as f:
        fs = json.load(f)["findings"]
    out = []
    for fd in fs:
        ops = []
        for e in fd.get("minimal", []):
            if e.get("ev") in INPUT_FIELDS:
                ops.append(dict({"ev": e["ev"]}, **{k: e[k] for k in INPUT_FIELDS[e["ev"]]}))
        if ops:
            out.append(ops)
    return out


def write_script(path, hists):
    with open(path, "w") as f:
        for h in hists:
            f.write(json.dumps({"ev": "reset"}) + "\n")
            for op in h:
                f.write(json.dumps(op) + "\n")


def sample(rng, hists, n):
    if len(hists) <= n:
        return list(hists)
    return rng.sample(hists, n)


def drive_and_judge(ctx, hists, nontrivial, mutate, focus, stores=None, chunk_events=1500):
    """Run the histories on a real filer per store kind (one driver process each) and judge."""
    stores = stores or (STORES_THOROUGH if ctx.thorough else STORES_QUICK)
    script = os.path.join(ctx.out, "script.ndjson")
    if ctx.replay:
        script = ctx.replay
    else:
        write_script(script, hists)
    binp = ctx.build("c18")
    rejected = 0
    for i, st in enumerate(stores):
        trace = ctx.drive(binp, ["--script", script, "--mode", st], name="trace-" + st)
        cons = dict(NOCONST)
        cons["Focus"] = set(focus)
        rejected += ctx.judge("FilerNSTrace", trace, "trace_base.cfg", cons, nontrivial=nontrivial,
                              mutate=mutate if i == 0 else None, chunk_events=chunk_events, label="-" + st)
        ctx.notes.setdefault("stores", []).append(st)
    return rejected


def evs(e):
    """parsed events of one recorded execution (list of json lines)"""
    return [json.loads(x) for x in e]
