"""C39 - the mount's node cache follows renames and deletes (FsCacheSpec.tla)."""
import json
import os
import random

PATHS = [["a"], ["a", "b"], ["a", "b", "c"], ["d"], ["d", "e"]]


def probes():
    ps = {tuple(p) for p in PATHS}
    for o in PATHS:
        for n in PATHS:
            for q in PATHS:
                if q[:len(o)] == o:
                    ps.add(tuple(n + q[len(o):]))
    return [list(p) for p in sorted(ps)]


def random_scripts(rng, n, length):
    """G4: long random histories (python-side generation; the driver only executes).
    File-system typing is not enforced here except that nothing is set below a file."""
    out = []
    for _ in range(n):
        ops = []
        nid = 1
        kinds = {}
        for _ in range(length):
            r = rng.random()
            if r < 0.4:
                p = rng.choice(PATHS)
                ops.append({"ev": "set", "p": p, "id": nid, "kind": "d"})
                nid += 1
            elif r < 0.55:
                ops.append({"ev": "delete", "p": rng.choice(PATHS)})
            elif r < 0.85:
                ops.append({"ev": "move", "o": rng.choice(PATHS), "n": rng.choice(PATHS)})
            else:
                ops.append({"ev": "get", "p": rng.choice(PATHS)})
        out.append(ops)
    return out


def run(ctx):
    ctx.sany("FsCacheSpec", "FsCacheTrace")
    paths = {tuple(p) for p in PATHS}
    depth = 4 if ctx.thorough else 3
    # 1. the reference tree itself: design invariants over every history up to the bound
    mc = ctx.instance("MC_FsCache", "FsCacheSpec", "FsCacheSpec_mc.cfg",
                      {"Paths": {tuple(p) for p in PATHS}, "MaxOps": depth})
    ctx.model_check(mc)
    # 2. generators: G1 all histories of length 3 (quick), G2 state witnesses to depth 5 (thorough)
    g1 = ctx.instance("G1_FsCache", "FsCacheSpec", "SPECIFICATION Spec\nINVARIANT Emit\nCHECK_DEADLOCK FALSE",
                      {"Paths": paths, "MaxOps": 3 if ctx.thorough else 2})
    hists = ctx.generate(g1, workers=4)
    g2 = ctx.instance("G2_FsCache", "FsCacheSpec",
                      "SPECIFICATION Spec\nINVARIANT EmitW\nVIEW View\nCHECK_DEADLOCK FALSE",
                      {"Paths": paths, "MaxOps": 5 if ctx.thorough else 4})
    hists += ctx.generate(g2, workers=4, timeout=1500)
    if ctx.thorough:
        g3 = ctx.instance("G3_FsCache", "FsCacheSpec", "SPECIFICATION Spec\nINVARIANT Emit\nCHECK_DEADLOCK FALSE",
                          {"Paths": paths, "MaxOps": 12})
        hists += ctx.generate(g3, simulate=2000, depth=13)
    rng = random.Random(ctx.seed)
    hists += random_scripts(rng, 3000 if ctx.thorough else 300, 30)
    probe = probes()
    script = os.path.join(ctx.out, "script.ndjson")
    if ctx.replay:
        script = ctx.replay
    else:
        with open(script, "w") as f:
            for h in hists:
                f.write(json.dumps({"ev": "reset", "probe": probe}) + "\n")
                for op in h:
                    f.write(json.dumps(op) + "\n")
    binp = ctx.build("c39")
    trace = ctx.drive(binp, ["--script", script])

    def mutate(evs):
        for i, e in enumerate(evs):
            if e["ev"] == "snap" and any(e["got"]):
                j = [k for k, g in enumerate(e["got"]) if g][0]
                m = [dict(x) for x in evs]
                m[i]["got"] = list(e["got"])
                m[i]["got"][j] = 0
                return m
        return None

    ctx.judge("FsCacheTrace", trace, "trace_base.cfg", {"Probe": [tuple(p) for p in probe], "Paths": paths, "MaxOps": 0},
              nontrivial=lambda e: sum(1 for x in e if '"ev":"move"' in x or '"ev":"delete"' in x) >= 1 and len(e) >= 5,
              mutate=mutate)
    ctx.rule = ("executions = TLC-enumerated histories over 5 paths (G1 all of length 3; thorough: G2 one witness per "
                "(tree, last op) to depth 5, G3 random depth 12) + seeded random histories of length 30; after every "
                "operation the driver looks up %d probe paths; non-trivial = contains a move or delete and >= 2 "
                "operations; distinct by hash of the recorded execution" % len(probe))
    ctx.exhaustive = True
    ctx.assumptions += ["node identity is pointer identity of the fs.Node inserted by the driver",
                        "histories are file-system typed (nothing below a file node); the root path is never an operand"]
